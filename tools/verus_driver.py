"""Verus route: build one Verus file per unit from a template (contracts/verus/<unit>.rs) whose
function bodies are cut mechanically out of the scratch copy of /repo on every run, run `verus`,
and classify the outcome.

Template directives (lines starting with //@@):
  //@@ source <repo-relative file>            current source file for the following extracts
  //@@ extract anchor="<signature text>" [within="<enclosing item header>"] [nth=<k>]
  //@@ rewrite "<literal>" => "<literal>"     token rewrite applied to the extracted body (recorded)
  //@@ rewrite-re "<regex>" => "<repl>"
  //@@ loop <k>                               text of the following //@@| lines is spliced between the
  //@@|   invariant ...                       header of the k-th loop of the body and its `{`
  //@@ after "<statement text>"               text of the following //@@| lines is spliced after the
  //@@|   proof { ... }                       first statement whose whitespace-free text matches
  //@@ before "<statement text>"              the same, spliced before the statement
  ... Verus signature + requires/ensures written by hand ...
  { <optional prologue> /*@@body*/ }          the marker is replaced by the real body's inner text

What the extraction keeps: the body text between the outer braces of the anchored function, verbatim
(comments included). What it drops: the original signature line (re-stated in Verus syntax in the
template; the anchor must still match the real signature, otherwise the run is UNDECIDED: lost anchor),
attributes above the function. Rewrites are listed per function in the evidence file.
"""
import hashlib
import json
import os
import re
import subprocess
import time

VERIF = os.path.dirname(os.path.dirname(os.path.abspath(__file__)))


class ExtractError(Exception):
    pass


def _strip_ws_map(text):
    chars, idx = [], []
    for i, c in enumerate(text):
        if not c.isspace():
            chars.append(c)
            idx.append(i)
    return "".join(chars), idx


def _skip_noncode(text, i):
    """if text[i:] starts a comment / string / char literal return index just past it, else None"""
    if text.startswith("//", i):
        j = text.find("\n", i)
        return len(text) if j < 0 else j
    if text.startswith("/*", i):
        depth, j = 1, i + 2
        while j < len(text) and depth:
            if text.startswith("/*", j):
                depth += 1
                j += 2
            elif text.startswith("*/", j):
                depth -= 1
                j += 2
            else:
                j += 1
        return j
    c = text[i]
    if c == '"':
        j = i + 1
        while j < len(text):
            if text[j] == "\\":
                j += 2
                continue
            if text[j] == '"':
                return j + 1
            j += 1
        return j
    if c == "'":
        # char literal or lifetime
        m = re.match(r"'(\\.[^']*|[^'\\])'", text[i:])
        if m:
            return i + m.end()
        return None
    return None


def match_brace(text, open_idx):
    assert text[open_idx] == "{"
    depth, i = 0, open_idx
    while i < len(text):
        s = _skip_noncode(text, i)
        if s is not None:
            i = s
            continue
        c = text[i]
        if c == "{":
            depth += 1
        elif c == "}":
            depth -= 1
            if depth == 0:
                return i
        i += 1
    raise ExtractError("unbalanced braces")


def find_item(text, anchor, nth=1, start=0, end=None):
    """locate `anchor` (whitespace-insensitive) in text[start:end]; return (body_open_idx, body_close_idx)"""
    region = text[start:end]
    stripped, idx = _strip_ws_map(region)
    a = "".join(anchor.split())
    pos, found = -1, 0
    while True:
        pos = stripped.find(a, pos + 1)
        if pos < 0:
            raise ExtractError("lost anchor: `%s` (occurrence %d) not found" % (anchor, nth))
        found += 1
        if found == nth:
            break
    after = start + idx[pos + len(a) - 1] + 1
    # next '{' outside comments (where clauses may sit in between)
    i = after
    while i < len(text):
        s = _skip_noncode(text, i)
        if s is not None:
            i = s
            continue
        if text[i] == "{":
            break
        if text[i] == ";":
            raise ExtractError("anchor `%s` names an item without a body" % anchor)
        i += 1
    close = match_brace(text, i)
    return i, close


def loop_headers(body):
    """indices (kw_start, brace_idx) of each loop in body, in textual order"""
    out, i, n = [], 0, len(body)
    while i < n:
        s = _skip_noncode(body, i)
        if s is not None:
            i = s
            continue
        m = re.match(r"(for|while|loop)\b", body[i:])
        if m and (i == 0 or not (body[i - 1].isalnum() or body[i - 1] == "_")):
            j, depth = i + m.end(), 0
            while j < n:
                s = _skip_noncode(body, j)
                if s is not None:
                    j = s
                    continue
                if body[j] in "([":
                    depth += 1
                elif body[j] in ")]":
                    depth -= 1
                elif body[j] == "{" and depth == 0:
                    break
                j += 1
            out.append((i, j))
            i = j + 1
            continue
        i += 1
    return out


def splice_stmt(body, stmt, text, before=False):
    stripped, idx = _strip_ws_map(body)
    a = "".join(stmt.split())
    pos = stripped.find(a)
    if pos < 0:
        raise ExtractError("lost anchor: statement `%s` not found in body" % stmt)
    if before:
        at = idx[pos]
    else:
        at = idx[pos + len(a) - 1] + 1
    return body[:at] + "\n" + text + "\n" + body[at:]


def build_unit(ws, unit_name):
    tpl_path = os.path.join(VERIF, "contracts", "verus", unit_name + ".rs")
    lines = open(tpl_path).read().split("\n")
    out, report = [], []
    source, pending = None, None
    src_cache = {}
    i = 0
    while i < len(lines):
        ln = lines[i]
        st = ln.strip()
        if st.startswith("//@@"):
            d = st[4:].strip()
            if d.startswith("source "):
                source = d[len("source "):].strip()
            elif d.startswith("extract"):
                kv = dict(re.findall(r'(\w+)="((?:[^"\\]|\\.)*)"', d))
                m = re.search(r"nth=(\d+)", d)
                pending = {"source": source, "anchor": kv["anchor"], "within": kv.get("within"),
                           "nth": int(m.group(1)) if m else 1, "rewrites": [], "loops": {}, "after": [], "cur": None}
            elif d.startswith("rewrite-re"):
                m = re.match(r'rewrite-re\s+"((?:[^"\\]|\\.)*)"\s*=>\s*"((?:[^"\\]|\\.)*)"', d)
                pending["rewrites"].append(("re", m.group(1), m.group(2)))
            elif d.startswith("rewrite"):
                m = re.match(r'rewrite\s+"((?:[^"\\]|\\.)*)"\s*=>\s*"((?:[^"\\]|\\.)*)"', d)
                pending["rewrites"].append(("lit", m.group(1).replace('\\"', '"'), m.group(2).replace('\\"', '"')))
            elif d.startswith("loop"):
                k = int(d.split()[1])
                pending["loops"][k] = []
                pending["cur"] = pending["loops"][k]
            elif d.startswith("after") or d.startswith("before"):
                m = re.match(r'(after|before)\s+"((?:[^"\\]|\\.)*)"', d)
                ent = {"stmt": m.group(2).replace('\\"', '"'), "text": [], "before": m.group(1) == "before"}
                pending["after"].append(ent)
                pending["cur"] = ent["text"]
            elif d.startswith("|"):
                pending["cur"].append(d[1:])
            else:
                raise ExtractError("unknown directive: " + st)
            i += 1
            continue
        mexpr = re.search(r'/\*@@expr source="([^"]+)" anchor="([^"]+)"\*/', ln)
        if mexpr:
            path = os.path.join(ws, mexpr.group(1))
            if not os.path.exists(path):
                raise ExtractError("lost anchor: source file %s is missing" % mexpr.group(1))
            text = src_cache.setdefault(path, open(path).read())
            stripped, idx = _strip_ws_map(text)
            a = "".join(mexpr.group(2).split())
            pos = stripped.find(a)
            if pos < 0:
                raise ExtractError("lost anchor: `%s` not found in %s" % (mexpr.group(2), mexpr.group(1)))
            st_i = idx[pos + len(a) - 1] + 1
            en_i = text.index(";", st_i)
            val = text[st_i:en_i].strip()
            out.append(ln.replace(mexpr.group(0), val))
            report.append({"source": mexpr.group(1), "anchor": mexpr.group(2), "expr": val})
            i += 1
            continue
        if "/*@@body*/" in ln and not st.startswith("//"):
            if pending is None:
                raise ExtractError("body marker without extract directive (line %d)" % (i + 1))
            p = pending
            path = os.path.join(ws, p["source"])
            if path not in src_cache:
                if not os.path.exists(path):
                    raise ExtractError("lost anchor: source file %s is missing" % p["source"])
                src_cache[path] = open(path).read()
            text = src_cache[path]
            start, end = 0, None
            if p["within"]:
                o, c = find_item(text, p["within"])
                start, end = o, c
            o, c = find_item(text, p["anchor"], p["nth"], start, end)
            body = text[o + 1:c]
            raw_hash = hashlib.sha256(body.encode()).hexdigest()[:16]
            applied = []
            for kind, a, b in p["rewrites"]:
                if kind == "lit":
                    n = body.count(a)
                    body = body.replace(a, b)
                else:
                    body, n = re.subn(a, b, body, flags=re.S)
                applied.append({"kind": kind, "from": a, "to": b, "count": n})
            # loops: splice from the last to the first so indices stay valid
            if p["loops"]:
                hdrs = loop_headers(body)
                for k in sorted(p["loops"], reverse=True):
                    if k > len(hdrs):
                        raise ExtractError("lost anchor: loop %d of `%s` not found" % (k, p["anchor"]))
                    _, b_idx = hdrs[k - 1]
                    body = body[:b_idx] + "\n" + "\n".join(p["loops"][k]) + "\n" + body[b_idx:]
            for ent in p["after"]:
                body = splice_stmt(body, ent["stmt"], "\n".join(ent["text"]), ent["before"])
            out.append(ln.replace("/*@@body*/", body))
            report.append({"source": p["source"], "anchor": p["anchor"], "within": p["within"],
                           "body_sha256_16": raw_hash, "rewrites": applied,
                           "loop_annotations": sorted(p["loops"]), "spliced_proof_blocks": len(p["after"])})
            pending = None
            i += 1
            continue
        out.append(ln)
        i += 1
    return "\n".join(out), report


ERR_RE = re.compile(r"^(error(?:\[E\d+\])?: .*?)(?=^error|^warning|^note: |\Z)", re.M | re.S)


def classify(stderr):
    """split Verus' diagnostics into failed obligations vs undecided reasons"""
    failed, undecided = [], []
    for m in ERR_RE.finditer(stderr):
        blk = m.group(1)
        head = blk.split("\n")[0]
        if head.startswith("error: aborting due to"):
            continue
        loc = re.search(r"-->\s*(\S+):(\d+):(\d+)", blk)
        where = int(loc.group(2)) if loc else None
        h = head.lower()
        if any(k in h for k in ("postcondition not satisfied", "precondition not satisfied", "assertion failed",
                                "invariant not satisfied", "possible arithmetic", "possible bit shift",
                                "decreases not satisfied", "could not prove termination", "possible division by zero",
                                "recommendation not met", "index out of bounds", "possible truncation", "unreachable")):
            failed.append({"message": head, "line": where, "detail": blk[:1200]})
        elif "rlimit" in h or "resource limit" in h or "timed out" in h:
            undecided.append("solver resource limit: " + head)
        else:
            undecided.append("tool/compile error: " + head + (" (line %s)" % where if where else ""))
    return failed, undecided


def run_unit(scr, unit, tier):
    t0 = time.time()
    name = unit["unit"]
    res = {"unit": name, "functions": [], "verified": 0, "errors": 0, "status": "ok", "reason": "",
           "failed_obligations": [], "trusted": [], "extraction": None, "wall_s": 0.0}
    try:
        text, report = build_unit(scr.ws, unit["template"])
    except ExtractError as e:
        res.update(status="undecided", reason=str(e), wall_s=time.time() - t0)
        return res
    res["extraction"] = {"unit": name, "functions": report}
    vdir = os.path.join(scr.root, "verus")
    os.makedirs(vdir, exist_ok=True)
    path = os.path.join(vdir, unit["template"] + ".rs")
    open(path, "w").write(text)
    res["file"] = path
    # assumption scan
    for n, ln in enumerate(text.split("\n"), 1):
        if re.search(r"external_body|assume_specification|\bassume\(|\badmit\(|verifier::truncate|verifier::external", ln) \
                and not ln.strip().startswith("//"):
            res["trusted"].append("verus unit %s line %d: %s" % (name, n, ln.strip()[:160]))
    rlimit = str(unit.get("rlimit", 30 if tier == "quick" else 100))
    cmd = ["verus", path, "--output-json", "--time", "--rlimit", rlimit, "--multiple-errors", "4"] + unit.get("flags", [])
    env = dict(os.environ)
    p = subprocess.run(cmd, cwd=vdir, stdout=subprocess.PIPE, stderr=subprocess.PIPE, text=True, env=env,
                       timeout=unit.get("timeout", 1200))
    res["cmd"] = " ".join(cmd)
    res["stderr_tail"] = p.stderr[-8000:]
    try:
        js = json.loads(p.stdout)
    except Exception:
        js = None
    crate = unit["template"].replace("-", "_")
    lines = text.split("\n")
    if js and "times-ms" in js and "smt" in js["times-ms"]:
        for mod in js["times-ms"]["smt"].get("smt-run-module-times", []):
            for f in mod.get("function-breakdown", []):
                if not f["function"].startswith(crate + "::"):
                    continue
                if f.get("mode:") == "spec":
                    continue
                res["functions"].append({"name": f["function"][len(crate) + 2:], "mode": f.get("mode:"),
                                         "status": "verified" if f["success"] else "failed",
                                         "seconds": round(f.get("time-micros", 0) / 1e6, 3)})
        vr = js.get("verification-results", {})
        res["verified"], res["errors"] = vr.get("verified", 0), vr.get("errors", 0)
    failed, undecided = classify(p.stderr)
    if js is None or (js.get("verification-results", {}).get("encountered-vir-error")):
        undecided.append("verus produced no result (compile/VIR error)")
    # map failed diagnostics to functions by line number
    fn_starts = [(n, m.group(1)) for n, ln in enumerate(lines, 1)
                 for m in [re.search(r"\bfn\s+(\w+)", ln)] if m and not ln.strip().startswith("//")]
    for f in failed:
        fname = "?"
        for n, nm in fn_starts:
            if f["line"] and n <= f["line"]:
                fname = nm
        f["function"] = fname
    # canary functions (named *canary_must_fail) are expected to fail; a verified canary voids the run
    res["canaries"] = []
    canary_failed = {f["function"] for f in failed if f["function"].endswith("canary_must_fail")}
    failed = [f for f in failed if not f["function"].endswith("canary_must_fail")]
    for fr in list(res["functions"]):
        if fr["name"].endswith("canary_must_fail"):
            res["functions"].remove(fr)
            okc = fr["status"] == "failed"
            res["canaries"].append({"obligation": fr["name"], "failed_as_expected": okc})
            if not okc:
                undecided.append("canary %s was accepted (run is void)" % fr["name"])
    ncanary = len(res["canaries"])
    res["failed_obligations"] = failed
    if failed:
        res["status"] = "failed"
    elif undecided or (p.returncode != 0 and not ncanary) or res["errors"] > ncanary:
        res["status"] = "undecided"
        res["reason"] = "; ".join(undecided) or ("verus exit %d\n%s" % (p.returncode, p.stderr[-1500:]))
    elif not res["functions"]:
        res["status"] = "undecided"
        res["reason"] = "vacuity guard: zero obligations generated"
    res["undecided_notes"] = undecided
    # canary: the template must contain a function named *_canary_must_fail? handled by separate unit flag
    res["wall_s"] = round(time.time() - t0, 2)
    return res


def handle_failure(scr, unit, r, prop):
    rep = {"property": prop, "engine": "verus", "unit": unit["unit"],
           "obligations": ["%s.%s.%s :: %s" % (prop, unit["unit"], f["function"], f["message"]) for f in r["failed_obligations"]],
           "verus_cmd": r.get("cmd"), "verus_output": r.get("stderr_tail", "")[-6000:],
           "extraction": r.get("extraction"), "reproduced": False,
           "note": "Verus gives no counterexample; no failing input was found by the paired search (if any)"}
    srch = unit.get("search")
    if srch:
        import search_driver
        found = search_driver.run(scr, unit, srch, r)
        rep["search"] = found
        rep["reproduced"] = bool(found and found.get("reproduced"))
    return rep
