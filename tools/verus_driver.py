"""Verus route: build one Verus file per unit from a template (contracts/verus/<unit>.rs) whose
function bodies are cut mechanically out of the scratch copy of /repo on every run, run `verus`,
and classify the outcome.

Template directives (lines starting with //@@):
  //@@ source <repo-relative file>            current source file for the following extracts
  //@@ extract anchor="<signature text>" [within="<enclosing item header>"] [nth=<k>]
  //@@ rewrite "<literal>" => "<literal>"     token rewrite applied to the extracted body (recorded)
  //@@ rewrite-re "<regex>" => "<repl>"
  //@@ loop <k>                               text of the following //@@| lines is spliced between the
  //@@|   invariant ...                       header of the k-th loop of the body and its `{`
  //@@ itername <k> <name>                    the k-th loop `for p in e` becomes `for p in <name>: e` (ghost iterator name)
  //@@ loopstart <k> / loopend <k> / loopafter <k>   text spliced at the beginning / end of the k-th loop's body / after the loop
  //@@ after "<statement text>"               text of the following //@@| lines is spliced after the
  //@@|   proof { ... }                       first statement whose whitespace-free text matches
  //@@ before "<statement text>"              the same, spliced before the statement
  ... Verus signature + requires/ensures written by hand ...
  { <optional prologue> /*@@body*/ }          the marker is replaced by the real body's inner text

What the extraction keeps: the body text between the outer braces of the anchored function, verbatim
(comments included). What it drops: the original signature line (re-stated in Verus syntax in the
template; the anchor must still match the real signature, otherwise the run is UNDECIDED: lost anchor),
attributes above the function. Rewrites are listed per function in the evidence file.
"""
import hashlib
import json
import os
import re
import subprocess
import time

VERIF = os.path.dirname(os.path.dirname(os.path.abspath(__file__)))


class ExtractError(Exception):
    pass


def _strip_ws_map(text):
    chars, idx = [], []
    for i, c in enumerate(text):
        if not c.isspace():
            chars.append(c)
            idx.append(i)
    return "".join(chars), idx


def _skip_noncode(text, i):
    """if text[i:] starts a comment / string / char literal return index just past it, else None"""
    if text.startswith("//", i):
        j = text.find("\n", i)
        return len(text) if j < 0 else j
    if text.startswith("/*", i):
        depth, j = 1, i + 2
        while j < len(text) and depth:
            if text.startswith("/*", j):
                depth += 1
                j += 2
            elif text.startswith("*/", j):
                depth -= 1
                j += 2
            else:
                j += 1
        return j
    c = text[i]
    if c == '"':
        j = i + 1
        while j < len(text):
            if text[j] == "\\":
                j += 2
                continue
            if text[j] == '"':
                return j + 1
            j += 1
        return j
    if c == "'":
        # char literal or lifetime
        m = re.match(r"'(\\.[^']*|[^'\\])'", text[i:])
        if m:
            return i + m.end()
        return None
    return None


def match_brace(text, open_idx):
    assert text[open_idx] == "{"
    depth, i = 0, open_idx
    while i < len(text):
        s = _skip_noncode(text, i)
        if s is not None:
            i = s
            continue
        c = text[i]
        if c == "{":
            depth += 1
        elif c == "}":
            depth -= 1
            if depth == 0:
                return i
        i += 1
    raise ExtractError("unbalanced braces")


def find_item(text, anchor, nth=1, start=0, end=None):
    """locate `anchor` (whitespace-insensitive) in text[start:end]; return (body_open_idx, body_close_idx)"""
    region = text[start:end]
    stripped, idx = _strip_ws_map(region)
    a = "".join(anchor.split())
    pos, found = -1, 0
    while True:
        pos = stripped.find(a, pos + 1)
        if pos < 0:
            raise ExtractError("lost anchor: `%s` (occurrence %d) not found" % (anchor, nth))
        found += 1
        if found == nth:
            break
    after = start + idx[pos + len(a) - 1] + 1
    # next '{' outside comments (where clauses may sit in between)
    i = after
    sq = 0  # depth of [ ] (array types such as [[E; N]] contain a `;`)
    while i < len(text):
        s = _skip_noncode(text, i)
        if s is not None:
            i = s
            continue
        if text[i] == "[":
            sq += 1
        elif text[i] == "]":
            sq = max(0, sq - 1)
        if text[i] == "{":
            break
        if text[i] == ";" and sq == 0:
            raise ExtractError("anchor `%s` names an item without a body" % anchor)
        i += 1
    close = match_brace(text, i)
    return i, close


def loop_headers(body):
    """indices (kw_start, brace_idx) of each loop in body, in textual order"""
    out, i, n = [], 0, len(body)
    while i < n:
        s = _skip_noncode(body, i)
        if s is not None:
            i = s
            continue
        m = re.match(r"(for|while|loop)\b", body[i:])
        if m and (i == 0 or not (body[i - 1].isalnum() or body[i - 1] == "_")):
            j, depth = i + m.end(), 0
            while j < n:
                s = _skip_noncode(body, j)
                if s is not None:
                    j = s
                    continue
                if body[j] in "([":
                    depth += 1
                elif body[j] in ")]":
                    depth -= 1
                elif body[j] == "{" and depth == 0:
                    break
                j += 1
            out.append((i, j))
            i = j + 1
            continue
        i += 1
    return out


def rewrite_array_patterns(body):
    cnt = [0]

    def split_top(t):
        out, d, cur = [], 0, ""
        for c in t:
            if c in "([":
                d += 1
            if c in ")]":
                d -= 1
            if c == "," and d == 0:
                out.append(cur.strip())
                cur = ""
            else:
                cur += c
        if cur.strip():
            out.append(cur.strip())
        return out

    def rep(m):
        cnt[0] += 1
        n = "arr__%d" % cnt[0]
        els = split_top(m.group(2))
        return m.group(1) + "let %s = %s; " % (n, m.group(3)) + " ".join("let %s = %s[%d];" % (e, n, i) for i, e in enumerate(els))

    body = re.sub(r"(\s)let \[([^=]+)\] = ([^;]+);", rep, body)
    return body, cnt[0]


def splice_stmt(body, stmt, text, before=False):
    stripped, idx = _strip_ws_map(body)
    a = "".join(stmt.split())
    pos = stripped.find(a)
    if pos < 0:
        raise ExtractError("lost anchor: statement `%s` not found in body" % stmt)
    if before:
        at = idx[pos]
    else:
        at = idx[pos + len(a) - 1] + 1
    return body[:at] + "\n" + text + "\n" + body[at:]



# ------------------------------------------------------------------------------------------------
# autotrack: mechanical proof generation for straight-line field-arithmetic bodies
# ------------------------------------------------------------------------------------------------
TOK_RE = re.compile(r"\s*(?:(\d[\d_]*)|([A-Za-z_][A-Za-z0-9_]*(?:::[A-Za-z_][A-Za-z0-9_]*)*)|(.))")


def _tokenize(text):
    toks, i = [], 0
    while i < len(text):
        m = TOK_RE.match(text, i)
        if not m or m.end() == i:
            break
        if m.group(1):
            toks.append(("num", m.group(1)))
        elif m.group(2):
            toks.append(("id", m.group(2)))
        elif m.group(3) and not m.group(3).isspace():
            toks.append(("p", m.group(3)))
        i = m.end()
    return toks


class _Parser:
    def __init__(self, toks):
        self.t, self.i = toks, 0

    def peek(self):
        return self.t[self.i] if self.i < len(self.t) else ("eof", "")

    def eat(self, kind=None, val=None):
        k, v = self.peek()
        if (kind and k != kind) or (val and v != val):
            raise ExtractError("unsupported construct in tracked body near token %r" % (v,))
        self.i += 1
        return v

    def expr(self):
        n = self.term()
        while self.peek() in (("p", "+"), ("p", "-")):
            op = self.eat()
            r = self.term()
            n = ("add" if op == "+" else "sub", n, r)
        return n

    def term(self):
        n = self.unary()
        while self.peek() == ("p", "*"):
            self.eat()
            n = ("mul", n, self.unary())
        return n

    def unary(self):
        if self.peek() == ("p", "-"):
            self.eat()
            return ("neg", self.unary())
        return self.postfix()

    def postfix(self):
        n = self.primary()
        while True:
            if self.peek() == ("p", "."):
                self.eat()
                m = self.eat("id")
                self.eat("p", "(")
                self.eat("p", ")")
                if m not in ("double", "square"):
                    raise ExtractError("unsupported method .%s() in tracked body" % m)
                n = (m, n)
            elif self.peek() == ("p", "["):
                self.eat()
                idx = self.eat("num")
                self.eat("p", "]")
                if n[0] != "name":
                    raise ExtractError("unsupported indexing in tracked body")
                n = ("leaf", "%s[%s]" % (n[1], idx))
            else:
                return n

    def primary(self):
        k, v = self.peek()
        if k == "p" and v == "(":
            self.eat()
            n = self.expr()
            self.eat("p", ")")
            return n
        if k == "id":
            self.eat()
            if self.peek() == ("p", "(") and (v.endswith("::zero") or v.endswith("::one")):
                self.eat()
                self.eat("p", ")")
                return ("zero",) if v.endswith("::zero") else ("one",)
            if self.peek() == ("p", "("):
                if not v.endswith("::new"):
                    raise ExtractError("unsupported call %s(..) in tracked body" % v)
                self.eat()
                c = self.eat("num")
                self.eat("p", ")")
                return ("new", c)
            if v.endswith("::ZERO"):
                return ("zero",)
            if v.endswith("::ONE"):
                return ("one",)
            return ("name", v)
        if k == "num":
            self.eat()
            return ("numlit", v)
        raise ExtractError("unsupported token %r in tracked body" % (v,))



# --- exact polynomial arithmetic used to pre-expand products for the solver -----------------------
def _p_const(c):
    return {(): c} if c else {}


def _p_var(x):
    return {(x,): 1}


def _p_add(a, b, sign=1):
    r = dict(a)
    for m, c in b.items():
        r[m] = r.get(m, 0) + sign * c
        if r[m] == 0:
            del r[m]
    return r


def _p_mul(a, b):
    r = {}
    for m1, c1 in a.items():
        for m2, c2 in b.items():
            m = tuple(sorted(m1 + m2))
            r[m] = r.get(m, 0) + c1 * c2
            if r[m] == 0:
                del r[m]
    return r


def _p_str(p):
    if not p:
        return "0int"
    parts = []
    for m in sorted(p):
        c = p[m]
        mono = " * ".join(m)
        if not m:
            parts.append("(%dint)" % c)
        elif len(m) == 1:
            parts.append("(%dint) * %s" % (c, mono))
        else:
            parts.append("(%dint) * (%s)" % (c, mono))
    return "(" + " + ".join(parts) + ")"


def _poly_of_text(text):
    """polynomial of a hand-written target expression (names, integer literals, + - * and parentheses)"""
    pr = _Parser(_tokenize(text))

    def ev(n):
        k = n[0]
        if k == "name":
            return _p_var(n[1])
        if k == "numlit":
            return _p_const(int(n[1].replace("_", "")))
        if k == "neg":
            return _p_add({}, ev(n[1]), -1)
        if k == "add":
            return _p_add(ev(n[1]), ev(n[2]))
        if k == "sub":
            return _p_add(ev(n[1]), ev(n[2]), -1)
        if k == "mul":
            return _p_mul(ev(n[1]), ev(n[2]))
        raise ExtractError("unsupported construct in target polynomial: %s" % (n,))
    tree = pr.expr()
    if pr.peek()[0] != "eof":
        raise ExtractError("cannot parse target polynomial: %s" % text)
    return ev(tree)


def autotrack(body, leaves, finals):
    """body: `let x = e; ... [e0, e1, ..]` over + - * .double() .square() Self::new(c). Returns the body
    with generated ghost bookkeeping. Every value gets an integer 'ideal' tN with eqm(v(value), tN)
    (one congruence lemma per operator node) and an exact canonical polynomial over named monomials with
    tN == poly: sums are closed by linear arithmetic, each product by one small nonlinear_arith query
    whose only facts are the two factor polynomials and the monomial definitions. For every output k the
    hand-written target polynomial finals[k] must expand to the same canonical polynomial."""
    code = re.sub(r"//[^\n]*", "", body)
    stmts, depth, cur = [], 0, ""
    for ch in code:
        if ch in "([{":
            depth += 1
        elif ch in ")]}":
            depth -= 1
        if ch == ";" and depth == 0:
            stmts.append(cur.strip())
            cur = ""
        else:
            cur += ch
    tail = cur.strip()
    out = []
    leafmap = dict(leaves)
    for spec_leaf, g in leaves:
        out.append("let ghost %s: int = v(%s);" % (g, spec_leaf))
    mono_names, counter = {}, [0]
    var_info = {}    # let-bound variable -> (ideal name, poly)

    def mono(m, sink):
        if len(m) <= 1:
            return m[0] if m else None
        if m not in mono_names:
            nm = "m_" + "_".join(m)
            mono_names[m] = nm
            sink.append("let ghost %s: int = %s;" % (nm, " * ".join(m)))
        return mono_names[m]

    def pstr(p, sink):
        if not p:
            return "0int"
        parts = []
        for m in sorted(p):
            nm = mono(m, sink)
            parts.append("(%dint)" % p[m] if nm is None else "(%dint) * %s" % (p[m], nm))
        return "(" + " + ".join(parts) + ")"

    def mono_defs(polys):
        ds = []
        for p in polys:
            for m in p:
                if len(m) > 1:
                    ds.append("%s == %s" % (mono_names[m], " * ".join(m)))
        return sorted(set(ds))

    def fresh(expr, sink):
        counter[0] += 1
        nm = "t%d" % counter[0]
        sink.append("let ghost %s: int = %s;" % (nm, expr))
        return nm

    def gen(n, sink):
        """returns (spec term, ideal ghost name, exact polynomial); appends statements to sink"""
        k = n[0]
        if k == "leaf":
            if n[1] not in leafmap:
                raise ExtractError("tracked body reads %s which is not a declared leaf" % n[1])
            g = leafmap[n[1]]
            return n[1], g, _p_var(g)
        if k == "name":
            if n[1] in var_info:
                return n[1], var_info[n[1]][0], var_info[n[1]][1]
            if n[1] in leafmap:
                g = leafmap[n[1]]
                return n[1], g, _p_var(g)
            raise ExtractError("tracked body uses unknown variable %s" % n[1])
        if k == "numlit":
            raise ExtractError("integer literal used as a field element in tracked body")
        if k in ("new", "zero", "one"):
            c = {"zero": "0", "one": "1"}.get(k) or n[1].replace("_", "")
            spec = {"zero": "zero_of()", "one": "one_of()"}.get(k) or "new_of(%su64)" % c
            t = fresh("%sint" % c, sink)
            sink.append("proof { %s }" % ({"zero": "lemma_t_zero();", "one": "lemma_t_one();"}.get(k) or "lemma_t_new(%su64);" % c))
            return spec, t, _p_const(int(c))
        if k in ("neg", "double", "square"):
            s1, t1, p1 = gen(n[1], sink)
            if k == "square":
                poly = _p_mul(p1, p1)
                ps, p1s = pstr(poly, sink), pstr(p1, sink)
                t = fresh("%s * %s" % (t1, t1), sink)
                sink.append("proof { lemma_t_square(%s, %s); assert(%s * %s == %s) by (nonlinear_arith) requires %s; }" % (
                    s1, t1, t1, t1, ps, ", ".join(["%s == %s" % (t1, p1s)] + mono_defs([p1, poly]))))
            else:
                poly = _p_add({}, p1, -1) if k == "neg" else _p_add(p1, p1)
                ps = pstr(poly, sink)
                t = fresh(("0 - %s" if k == "neg" else "2 * %s") % t1, sink)
                sink.append("proof { lemma_t_%s(%s, %s); assert(%s == %s); }" % (k, s1, t1, t, ps))
            return "%s_of(%s)" % (k, s1), t, poly
        s1, t1, p1 = gen(n[1], sink)
        s2, t2, p2 = gen(n[2], sink)
        sym = {"add": "+", "sub": "-", "mul": "*"}[k]
        if k == "mul":
            poly = _p_mul(p1, p2)
            ps, p1s, p2s = pstr(poly, sink), pstr(p1, sink), pstr(p2, sink)
            t = fresh("%s * %s" % (t1, t2), sink)
            sink.append("proof { lemma_t_mul(%s, %s, %s, %s); assert(%s * %s == %s) by (nonlinear_arith) requires %s; }" % (
                s1, s2, t1, t2, t1, t2, ps,
                ", ".join(["%s == %s" % (t1, p1s), "%s == %s" % (t2, p2s)] + mono_defs([p1, p2, poly]))))
        else:
            poly = _p_add(p1, p2, 1 if k == "add" else -1)
            ps = pstr(poly, sink)
            t = fresh("%s %s %s" % (t1, sym, t2), sink)
            sink.append("proof { lemma_t_%s(%s, %s, %s, %s); assert(%s == %s); }" % (k, s1, s2, t1, t2, t, ps))
        return "%s_of(%s, %s)" % (k, s1, s2), t, poly

    for st in stmts:
        m = re.match(r"let\s+(?:mut\s+)?([A-Za-z_][A-Za-z0-9_]*)\s*=\s*(.*)$", st, re.S)
        if not m:
            raise ExtractError("unsupported statement in tracked body: %s" % st[:60])
        name, ex = m.group(1), m.group(2)
        pr = _Parser(_tokenize(ex))
        tree = pr.expr()
        if pr.peek()[0] != "eof":
            raise ExtractError("unsupported expression in tracked body: %s" % ex[:60])
        spec, t, poly = gen(tree, out)   # emitted before the statement: establishes the operators' preconditions
        out.append("let %s = %s;" % (name, ex))
        out.append("proof { assert(%s == %s); }" % (name, spec))
        var_info[name] = (t, poly)
    if not (tail.startswith("[") and tail.endswith("]")):
        raise ExtractError("tracked body does not end in an array expression")
    inner = tail[1:-1]
    parts, depth, cur = [], 0, ""
    for ch in inner:
        if ch in "([{":
            depth += 1
        elif ch in ")]}":
            depth -= 1
        if ch == "," and depth == 0:
            parts.append(cur.strip())
            cur = ""
        else:
            cur += ch
    if cur.strip():
        parts.append(cur.strip())
    if len(parts) != len(finals):
        raise ExtractError("tracked body returns %d outputs, %d targets given" % (len(parts), len(finals)))
    for k, ex in enumerate(parts):
        pr = _Parser(_tokenize(ex))
        tree = pr.expr()
        if pr.peek()[0] != "eof":
            raise ExtractError("unsupported output expression in tracked body: %s" % ex[:60])
        spec, t, poly = gen(tree, out)
        tpoly = _poly_of_text(finals[k])
        tps = pstr(tpoly, out)
        ps = pstr(poly, out)
        # the hand-written target is expanded by the solver; the body's polynomial was built step by step
        req = mono_defs([tpoly])
        out.append("proof { assert(%s == %s) by (nonlinear_arith)%s; assert(%s == %s); assert(%s == %s); assert(eqm(v(%s), %s)); }" % (
            finals[k], tps, (" requires " + ", ".join(req)) if req else "", t, ps, t, finals[k], spec, finals[k]))
    out.append(tail)
    return "\n".join(out)


def build_unit(ws, unit_name):
    tpl_path = os.path.join(VERIF, "contracts", "verus", unit_name + ".rs")
    raw = open(tpl_path).read()
    def _inc(m):
        return open(os.path.join(VERIF, "contracts", "verus", m.group(1))).read()
    raw = re.sub(r"^//@@ include (\S+)\s*$", _inc, raw, flags=re.M)
    lines = raw.split("\n")
    out, report = [], []
    source, pending = None, None
    src_cache = {}
    i = 0
    while i < len(lines):
        ln = lines[i]
        st = ln.strip()
        if st.startswith("//@@"):
            d = st[4:].strip()
            if d.startswith("source "):
                source = d[len("source "):].strip()
            elif d.startswith("extract"):
                kv = dict(re.findall(r'(\w+)="((?:[^"\\]|\\.)*)"', d))
                m = re.search(r"nth=(\d+)", d)
                pending = {"source": source, "anchor": kv["anchor"], "within": kv.get("within"),
                           "nth": int(m.group(1)) if m else 1, "rewrites": [], "loops": {}, "after": [], "cur": None,
                           "track": None, "finals": {}}
            elif d.startswith("rewrite-re"):
                m = re.match(r'rewrite-re\s+"((?:[^"\\]|\\.)*)"\s*=>\s*"((?:[^"\\]|\\.)*)"', d)
                pending["rewrites"].append(("re", m.group(1), m.group(2)))
            elif d.startswith("rewrite"):
                m = re.match(r'rewrite\s+"((?:[^"\\]|\\.)*)"\s*=>\s*"((?:[^"\\]|\\.)*)"', d)
                pending["rewrites"].append(("lit", m.group(1).replace('\\"', '"'), m.group(2).replace('\\"', '"')))
            elif d.startswith("autotrack"):
                m = re.search(r'leaves="([^"]*)"', d)
                pending["track"] = [tuple(x.split(":")) for x in m.group(1).split(",") if x]
            elif d.startswith("final"):
                m = re.match(r'final\s+(\d+)\s+"([^"]*)"', d)
                pending["finals"][int(m.group(1))] = m.group(2)
            elif d.startswith("tailbind"):
                # `tailbind name`: the body's trailing expression E becomes `let name = E; <following text>; name`
                pending["tailbind"] = d.split()[1]
                pending["tailbind_text"] = []
                pending["cur"] = pending["tailbind_text"]
            elif d.startswith("tail"):
                # text placed in front of the body's trailing expression (after the last top-level statement)
                pending["tail"] = []
                pending["cur"] = pending["tail"]
            elif d.startswith("arraypat"):
                # `arraypat`: `let [p0, p1, ..] = e;` (slice patterns, unsupported by Verus) becomes
                # `let arr__k = e; let p0 = arr__k[0]; let p1 = arr__k[1]; ..` (recorded as a rewrite)
                pending["arraypat"] = True
            elif d.startswith("itername"):
                # `itername k name`: the k-th loop is a `for pat in expr`; name its ghost iterator (`for pat in name: expr`)
                pending.setdefault("iternames", {})[int(d.split()[1])] = d.split()[2]
            elif d.startswith("loopafter"):
                # `loopafter k`: text placed right after the k-th loop (after its closing brace)
                k = int(d.split()[1])
                pending.setdefault("loopafters", {})[k] = []
                pending["cur"] = pending["loopafters"][k]
            elif d.startswith("loopstart"):
                # `loopstart k`: text placed at the beginning of the k-th loop's body
                k = int(d.split()[1])
                pending.setdefault("loopstarts", {})[k] = []
                pending["cur"] = pending["loopstarts"][k]
            elif d.startswith("loopend"):
                # `loopend k`: text placed at the end of the k-th loop's body; `loopend? k`: if that loop exists
                k = int(d.split()[1])
                pending.setdefault("loopends", {})[k] = []
                if d.split()[0] == "loopend?":
                    pending.setdefault("optional_loops", set()).add(k)
                pending["cur"] = pending["loopends"][k]
            elif d.startswith("loop"):
                # `loop k`: the k-th loop must exist; `loop? k`: annotate it if the body (still) has one
                k = int(d.split()[1])
                pending["loops"][k] = []
                if d.split()[0] == "loop?":
                    pending.setdefault("optional_loops", set()).add(k)
                pending["cur"] = pending["loops"][k]
            elif d.startswith("after") or d.startswith("before"):
                m = re.match(r'(after|before)\s+"((?:[^"\\]|\\.)*)"', d)
                ent = {"stmt": m.group(2).replace('\\"', '"'), "text": [], "before": m.group(1) == "before"}
                pending["after"].append(ent)
                pending["cur"] = ent["text"]
            elif d.startswith("|"):
                pending["cur"].append(d[1:])
            else:
                raise ExtractError("unknown directive: " + st)
            i += 1
            continue
        mexpr = re.search(r'/\*@@expr source="([^"]+)" anchor="([^"]+)"(?: end="([^"]+)")?(?: sub="([^"]+)" with="([^"]*)")?\*/', ln)
        if mexpr:
            path = os.path.join(ws, mexpr.group(1))
            if not os.path.exists(path):
                raise ExtractError("lost anchor: source file %s is missing" % mexpr.group(1))
            text = src_cache.setdefault(path, open(path).read())
            stripped, idx = _strip_ws_map(text)
            a = "".join(mexpr.group(2).split())
            pos = stripped.find(a)
            if pos < 0:
                raise ExtractError("lost anchor: `%s` not found in %s" % (mexpr.group(2), mexpr.group(1)))
            st_i = idx[pos + len(a) - 1] + 1
            en_i = text.index(mexpr.group(3) or ";", st_i)
            val = text[st_i:en_i].strip()
            if mexpr.group(4):
                val = re.sub(r"//[^\n]*", "", val).replace(mexpr.group(4), mexpr.group(5))
            out.append(ln.replace(mexpr.group(0), val))
            report.append({"source": mexpr.group(1), "anchor": mexpr.group(2), "expr": val if len(val) < 200 else val[:200] + "...",
                           "substitution": [mexpr.group(4), mexpr.group(5)] if mexpr.group(4) else None})
            i += 1
            continue
        if "/*@@body*/" in ln and not st.startswith("//"):
            if pending is None:
                raise ExtractError("body marker without extract directive (line %d)" % (i + 1))
            p = pending
            path = os.path.join(ws, p["source"])
            if path not in src_cache:
                if not os.path.exists(path):
                    raise ExtractError("lost anchor: source file %s is missing" % p["source"])
                src_cache[path] = open(path).read()
            text = src_cache[path]
            start, end = 0, None
            if p["within"]:
                o, c = find_item(text, p["within"])
                start, end = o, c
            o, c = find_item(text, p["anchor"], p["nth"], start, end)
            body = text[o + 1:c]
            raw_hash = hashlib.sha256(body.encode()).hexdigest()[:16]
            applied = []
            for kind, a, b in p["rewrites"]:
                if kind == "lit":
                    n = body.count(a)
                    body = body.replace(a, b)
                else:
                    body, n = re.subn(a, b, body, flags=re.S)
                applied.append({"kind": kind, "from": a, "to": b, "count": n})
            # loop ends first (closing braces, from the last position to the first), then loop headers
            if p.get("loopends") or p.get("loopafters") or p.get("loopstarts"):
                hdrs = loop_headers(body)
                ends = []
                for k in p.get("loopstarts", {}):
                    if k > len(hdrs):
                        raise ExtractError("lost anchor: loop %d of `%s` not found" % (k, p["anchor"]))
                    ends.append((hdrs[k - 1][1] + 1, "loopstarts", k))
                for kind in ("loopends", "loopafters"):
                    for k in p.get(kind, {}):
                        if k > len(hdrs):
                            if k in p.get("optional_loops", ()):
                                continue
                            raise ExtractError("lost anchor: loop %d of `%s` not found" % (k, p["anchor"]))
                        c_idx = match_brace(body, hdrs[k - 1][1])
                        ends.append((c_idx + (1 if kind == "loopafters" else 0), kind, k))
                for c_idx, kind, k in sorted(ends, reverse=True):
                    body = body[:c_idx] + "\n" + "\n".join(p[kind][k]) + "\n" + body[c_idx:]
            if p.get("arraypat"):
                body, n_ap = rewrite_array_patterns(body)
                applied.append({"kind": "arraypat", "from": "let [p0, p1, ..] = e;", "to": "let arr__k = e; let p0 = arr__k[0]; ..", "count": n_ap})
            if p.get("iternames"):
                hdrs = loop_headers(body)
                for k in sorted(p["iternames"], reverse=True):
                    if k > len(hdrs):
                        raise ExtractError("lost anchor: loop %d of `%s` not found" % (k, p["anchor"]))
                    kw, b_idx = hdrs[k - 1]
                    mi = re.match(r"for\s+(?:[^{]*?)\sin\s+", body[kw:b_idx], flags=re.S)
                    if not mi:
                        raise ExtractError("lost anchor: loop %d of `%s` is not a for-in loop" % (k, p["anchor"]))
                    body = body[:kw + mi.end()] + p["iternames"][k] + ": " + body[kw + mi.end():]
                    applied.append({"kind": "itername", "from": "for .. in", "to": "for .. in %s:" % p["iternames"][k], "count": 1})
            # loops: splice from the last to the first so indices stay valid
            if p["loops"]:
                hdrs = loop_headers(body)
                for k in sorted(p["loops"], reverse=True):
                    if k > len(hdrs):
                        if k in p.get("optional_loops", ()):
                            continue
                        raise ExtractError("lost anchor: loop %d of `%s` not found" % (k, p["anchor"]))
                    _, b_idx = hdrs[k - 1]
                    body = body[:b_idx] + "\n" + "\n".join(p["loops"][k]) + "\n" + body[b_idx:]
            for ent in p["after"]:
                body = splice_stmt(body, ent["stmt"], "\n".join(ent["text"]), ent["before"])
            if p.get("tail") or p.get("tailbind"):
                depth, bi, last = 0, 0, 0
                while bi < len(body):
                    sk = _skip_noncode(body, bi)
                    if sk is not None:
                        bi = sk
                        continue
                    ch = body[bi]
                    if ch in "([{":
                        depth += 1
                    elif ch in ")]}":
                        depth -= 1
                        if ch == "}" and depth == 0:
                            last = bi + 1
                    elif ch == ";" and depth == 0:
                        last = bi + 1
                    bi += 1
                if p.get("tailbind"):
                    expr = body[last:].strip()
                    if not expr:
                        raise ExtractError("lost anchor: `%s` has no trailing expression" % p["anchor"])
                    body = (body[:last] + "\n" + "\n".join(p.get("tail") or []) + "\nlet %s = %s;\n" % (p["tailbind"], expr)
                            + "\n".join(p["tailbind_text"]) + "\n" + p["tailbind"] + "\n")
                    applied.append({"kind": "tailbind", "from": "<trailing expression E>", "to": "let %s = E; ...; %s" % (p["tailbind"], p["tailbind"]), "count": 1})
                else:
                    body = body[:last] + "\n" + "\n".join(p["tail"]) + "\n" + body[last:]
            if p["track"] is not None:
                body = autotrack(body, p["track"], p["finals"])
            out.append(ln.replace("/*@@body*/", body))
            report.append({"source": p["source"], "anchor": p["anchor"], "within": p["within"],
                           "body_sha256_16": raw_hash, "rewrites": applied,
                           "loop_annotations": sorted(p["loops"]), "spliced_proof_blocks": len(p["after"]),
                           "autotrack": bool(p["track"])})
            pending = None
            i += 1
            continue
        out.append(ln)
        i += 1
    return "\n".join(out), report


ERR_RE = re.compile(r"^(error(?:\[E\d+\])?: .*?)(?=^error|^warning|^note: |\Z)", re.M | re.S)


def classify(stderr):
    """split Verus' diagnostics into failed obligations vs undecided reasons"""
    failed, undecided = [], []
    for m in ERR_RE.finditer(stderr):
        blk = m.group(1)
        head = blk.split("\n")[0]
        if head.startswith("error: aborting due to"):
            continue
        loc = re.search(r"-->\s*(\S+):(\d+):(\d+)", blk)
        where = int(loc.group(2)) if loc else None
        h = head.lower()
        if any(k in h for k in ("postcondition not satisfied", "precondition not satisfied", "assertion failed",
                                "invariant not satisfied", "possible arithmetic", "possible bit shift",
                                "decreases not satisfied", "could not prove termination", "possible division by zero",
                                "recommendation not met", "index out of bounds", "possible truncation", "unreachable",
                                "expression simplifies to", "bitvector assertion not satisfied", "requires not satisfied")):
            failed.append({"message": head, "line": where, "detail": blk[:1200]})
        elif "rlimit" in h or "resource limit" in h or "timed out" in h:
            undecided.append("solver resource limit: " + head)
        else:
            undecided.append("tool/compile error: " + head + (" (line %s)" % where if where else ""))
    return failed, undecided


def _run_unit_once(scr, unit, tier, extra_flags=(), rlimit_mult=1):
    t0 = time.time()
    name = unit["unit"]
    res = {"unit": name, "functions": [], "verified": 0, "errors": 0, "status": "ok", "reason": "",
           "failed_obligations": [], "trusted": [], "extraction": None, "wall_s": 0.0}
    try:
        text, report = build_unit(scr.ws, unit["template"])
    except ExtractError as e:
        res.update(status="undecided", reason=str(e), wall_s=time.time() - t0)
        return res
    res["extraction"] = {"unit": name, "functions": report}
    vdir = os.path.join(scr.root, "verus")
    os.makedirs(vdir, exist_ok=True)
    path = os.path.join(vdir, unit["template"] + ".rs")
    open(path, "w").write(text)
    res["file"] = path
    # assumption scan
    for n, ln in enumerate(text.split("\n"), 1):
        if re.search(r"external_body|assume_specification|\bassume\(|\badmit\(|verifier::truncate|verifier::external|exec_allows_no_decreases_clause", ln) \
                and not ln.strip().startswith("//"):
            res["trusted"].append("verus unit %s line %d: %s" % (name, n, ln.strip()[:160]))
    rlimit = str(unit.get("rlimit", 30 if tier == "quick" else 100) * rlimit_mult)
    cmd = ["verus", path, "--output-json", "--time", "--rlimit", rlimit, "--multiple-errors", "4"] + unit.get("flags", []) + list(extra_flags)
    env = dict(os.environ)
    p = subprocess.run(cmd, cwd=vdir, stdout=subprocess.PIPE, stderr=subprocess.PIPE, text=True, env=env,
                       timeout=unit.get("timeout", 1200))
    res["cmd"] = " ".join(cmd)
    res["stderr_tail"] = p.stderr[-8000:]
    try:
        js = json.loads(p.stdout)
    except Exception:
        js = None
    crate = unit["template"].replace("-", "_")
    lines = text.split("\n")
    if js and "times-ms" in js and "smt" in js["times-ms"]:
        for mod in js["times-ms"]["smt"].get("smt-run-module-times", []):
            for f in mod.get("function-breakdown", []):
                if not f["function"].startswith(crate + "::"):
                    continue
                if f.get("mode:") == "spec":
                    continue
                res["functions"].append({"name": f["function"][len(crate) + 2:], "mode": f.get("mode:"),
                                         "status": "verified" if f["success"] else "failed",
                                         "seconds": round(f.get("time-micros", 0) / 1e6, 3)})
        vr = js.get("verification-results", {})
        res["verified"], res["errors"] = vr.get("verified", 0), vr.get("errors", 0)
    failed, undecided = classify(p.stderr)
    if js is None or (js.get("verification-results", {}).get("encountered-vir-error")):
        undecided.append("verus produced no result (compile/VIR error)")
    # map failed diagnostics to functions by line number
    fn_starts = [(n, m.group(1)) for n, ln in enumerate(lines, 1)
                 for m in [re.search(r"\bfn\s+(\w+)", ln)] if m and not ln.strip().startswith("//")]
    for f in failed:
        fname = "?"
        for n, nm in fn_starts:
            if f["line"] and n <= f["line"]:
                fname = nm
        f["function"] = fname
    # canary functions (named *canary_must_fail) are expected to fail; a verified canary voids the run
    res["canaries"] = []
    canary_failed = {f["function"] for f in failed if f["function"].endswith("canary_must_fail")}
    failed = [f for f in failed if not f["function"].endswith("canary_must_fail")]
    for fr in list(res["functions"]):
        if fr["name"].endswith("canary_must_fail"):
            res["functions"].remove(fr)
            okc = fr["status"] == "failed"
            res["canaries"].append({"obligation": fr["name"], "failed_as_expected": okc})
            if not okc:
                undecided.append("canary %s was accepted (run is void)" % fr["name"])
    ncanary = len(res["canaries"])
    res["failed_obligations"] = failed
    if failed:
        res["status"] = "failed"
    elif undecided or (p.returncode != 0 and not ncanary) or res["errors"] > ncanary:
        res["status"] = "undecided"
        res["reason"] = "; ".join(undecided) or ("verus exit %d\n%s" % (p.returncode, p.stderr[-1500:]))
    elif not res["functions"]:
        res["status"] = "undecided"
        res["reason"] = "vacuity guard: zero obligations generated"
    res["undecided_notes"] = undecided
    # canary: the template must contain a function named *_canary_must_fail? handled by separate unit flag
    res["wall_s"] = round(time.time() - t0, 2)
    return res


def run_unit(scr, unit, tier):
    """Run the unit; an obligation is reported as failed only if it fails in every one of up to three attempts
    (second and third attempt: other SMT random seeds, three times the resource limit). A proof that goes through
    in one attempt is a proof; the unstable attempts are recorded in the result."""
    r = _run_unit_once(scr, unit, tier)
    if r["status"] != "failed":
        return r
    first = r
    persistent = {f["function"] for f in r["failed_obligations"]}
    attempts = [sorted(persistent)]
    for seed in (17, 4242):
        r2 = _run_unit_once(scr, unit, tier, extra_flags=["--smt-option", "smt.random_seed=%d" % seed, "--smt-option", "sat.random_seed=%d" % seed], rlimit_mult=3)
        if r2["status"] == "ok":
            r2["unstable_attempts"] = attempts
            r2["wall_s"] = round(first["wall_s"] + r2["wall_s"], 2)
            return r2
        if r2["status"] == "failed":
            now = {f["function"] for f in r2["failed_obligations"]}
            attempts.append(sorted(now))
            persistent &= now
            if not persistent:
                # different obligations fail in different attempts: nothing fails reproducibly -> undecided, not a violation
                r2["status"] = "undecided"
                r2["reason"] = "unstable proof: no obligation fails in every attempt (%s)" % attempts
                r2["failed_obligations"] = []
                r2["unstable_attempts"] = attempts
                return r2
            first = r2
        else:
            attempts.append(["<undecided: %s>" % r2.get("reason", "")[:80]])
    first["failed_obligations"] = [f for f in first["failed_obligations"] if f["function"] in persistent]
    first["unstable_attempts"] = attempts
    return first


def handle_failure(scr, unit, r, prop):
    rep = {"property": prop, "engine": "verus", "unit": unit["unit"],
           "obligations": ["%s.%s.%s :: %s" % (prop, unit["unit"], f["function"], f["message"]) for f in r["failed_obligations"]],
           "verus_cmd": r.get("cmd"), "verus_output": r.get("stderr_tail", "")[-6000:],
           "extraction": r.get("extraction"), "reproduced": False,
           "note": "Verus gives no counterexample; no failing input was found by the paired search (if any)"}
    srch = unit.get("search")
    if srch:
        import search_driver
        found = search_driver.run(scr, unit, srch, r)
        rep["search"] = found
        rep["reproduced"] = bool(found and found.get("reproduced"))
    return rep
