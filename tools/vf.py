#!/usr/bin/env python3
"""Driver of the contract-based checks (see DESIGN.md section 2).

  ./check <id> quick|thorough        decide property <id> on /repo's current working tree
  ./check <id> --replay <file>       re-run a recorded counterexample against the real code

exit 0: every obligation discharged (or only listed known findings)
exit 1: a "VIOLATION property=<id> replay=<path>" line was printed
exit 2: undecided / infrastructure problem (never used to hide a failed obligation)
"""
import concurrent.futures as cf
import hashlib
import json
import os
import re
import shutil
import subprocess
import sys
import tempfile
import time

VERIF = os.path.dirname(os.path.dirname(os.path.abspath(__file__)))
REPO = os.environ.get("VERIF_REPO", "/repo")
sys.path.insert(0, os.path.join(VERIF, "contracts"))

ENV = dict(os.environ)
ENV.update({"CARGO_NET_OFFLINE": "true", "CARGO_TERM_COLOR": "never"})
ENV.pop("RUSTUP_TOOLCHAIN", None)
JOBS = int(os.environ.get("VERIF_JOBS", "14"))
TIMEOUT_SCALE = float(os.environ.get("VERIF_TIMEOUT_SCALE", "3"))


def log(*a):
    print(*a, flush=True)


# ------------------------------------------------------------------------------------------------
# scratch workspace
# ------------------------------------------------------------------------------------------------
class Scratch:
    """A copy of /repo's working tree (minus target/.git) under /var/tmp, removed on exit unless
    VERIF_SCRATCH names a directory to reuse (development only: keeps Kani's build cache)."""

    def __init__(self, tag):
        keep = os.environ.get("VERIF_SCRATCH")
        if keep:
            self.root = os.path.join(keep, tag)
            self.keep = True
            os.makedirs(self.root, exist_ok=True)
        else:
            base = os.environ.get("VERIF_SCRATCH_BASE", "/var/tmp")
            self.root = tempfile.mkdtemp(prefix="verif-scratch-%s-" % tag, dir=base)
            self.keep = False
        self.ws = os.path.join(self.root, "w")
        subprocess.run(["rsync", "-a", "--delete", "--checksum", "--exclude", "/target", "--exclude", ".git",
                        REPO + "/", self.ws + "/"], check=True)
        lock = os.path.join(REPO, "Cargo.lock")
        if os.path.exists(lock):
            shutil.copy(lock, os.path.join(self.ws, "Cargo.lock"))
        self.injected = {}

    def cleanup(self):
        if not self.keep:
            shutil.rmtree(self.root, ignore_errors=True)

    def inject(self, into, harness_rel, modname):
        """add-only edit of the scratch copy: copy the harness file next to the workspace and append a
        cfg(kani) child module declaration to the real source file."""
        src = os.path.join(VERIF, "contracts", harness_rel)
        dst_dir = os.path.join(self.root, "harness")
        os.makedirs(dst_dir, exist_ok=True)
        dst = os.path.join(dst_dir, harness_rel.replace("/", "__"))
        # shared include files (verification doubles) live next to the harness files
        inc = os.path.join(VERIF, "contracts", "kani", "include")
        for f in sorted(os.listdir(inc)) if os.path.isdir(inc) else []:
            t = os.path.join(dst_dir, f)
            new_inc = open(os.path.join(inc, f)).read()
            if not os.path.exists(t) or open(t).read() != new_inc:
                open(t, "w").write(new_inc)
        # only rewrite if changed, to keep cargo's fingerprints stable on a reused scratch
        new = open(src).read()
        if not os.path.exists(dst) or open(dst).read() != new:
            open(dst, "w").write(new)
        target = os.path.join(self.ws, into)
        if not os.path.exists(target):
            raise Undecided("lost anchor: %s does not exist" % into)
        decl = '\n#[cfg(kani)]\n#[path = "%s"]\nmod %s;\n' % (dst, modname)
        text = open(target).read()
        if decl not in text:
            open(target, "a").write(decl)
        self.injected[harness_rel] = dst
        return dst


class Undecided(Exception):
    pass


# ------------------------------------------------------------------------------------------------
# Kani
# ------------------------------------------------------------------------------------------------
# (a description is the text of the assertion and may span several lines)
CHECK_RE = re.compile(r"^Check (\d+): (.*)\n\s+- Status: (\S+)\n\s+- Description: \"((?:.|\n)*?)\"\n\s+- Location: (.*)$",
                      re.M)


def parse_kani(out):
    checks = []
    for m in CHECK_RE.finditer(out):
        checks.append({"name": m.group(2), "status": m.group(3), "desc": " ".join(m.group(4).split()), "loc": m.group(5).strip()})
    verdict = None
    if "VERIFICATION:- SUCCESSFUL" in out:
        verdict = "SUCCESSFUL"
    elif "VERIFICATION:- FAILED" in out:
        verdict = "FAILED"
    t = re.search(r"Verification Time: ([0-9.]+)s", out)
    return checks, verdict, float(t.group(1)) if t else None


def kani_cmd(pkg, full, h, extra=()):
    cmd = ["cargo", "kani", "-p", pkg, "--harness", full, "--exact"]
    z = set(h.get("z", []))
    if h.get("stubs", True):
        z.add("stubbing")
    if h.get("contracts"):
        z.add("function-contracts")
    for f in sorted(z):
        cmd += ["-Z", f]
    if h.get("solver"):
        cmd += ["--solver", h["solver"]]
    if h.get("no_unwinding_checks"):
        cmd += ["--no-unwinding-checks"]
    cmd += list(extra)
    return cmd


def run_harness(scr, unit, h, tier):
    full = "%s::%s" % (unit["modpath"], h["name"]) if unit.get("modpath") else h["name"]
    if h.get("modpath"):
        full = "%s::%s" % (h["modpath"], h["name"])
    # the declared time-outs were measured on an idle 16-core machine; a loaded or slower machine must not turn a
    # discharged obligation into an undecided one, hence the slack (VERIF_TIMEOUT_SCALE, default 3)
    timeout = (h.get("timeout_thorough", 1800) if tier == "thorough" else h.get("timeout", 300)) * TIMEOUT_SCALE
    cmd = kani_cmd(unit["package"], full, h)
    t0 = time.time()
    try:
        p = subprocess.run(cmd, cwd=scr.ws, env=ENV, stdout=subprocess.PIPE, stderr=subprocess.STDOUT,
                           timeout=timeout, text=True, start_new_session=True)
        out = p.stdout
        timed_out = False
    except subprocess.TimeoutExpired as e:
        out = (e.stdout or b"")
        out = out.decode(errors="replace") if isinstance(out, bytes) else out
        timed_out = True
        subprocess.run("pkill -9 -f 'cbmc.*%s' || true" % scr.root, shell=True)
    wall = time.time() - t0
    checks, verdict, vt = parse_kani(out)
    res = {"harness": h["name"], "full": full, "unit": unit["unit"], "cmd": " ".join(cmd), "wall_s": round(wall, 2),
           "solver_s": vt, "checks": len(checks), "verdict": verdict, "timed_out": timed_out,
           "failed": [c for c in checks if c["status"] == "FAILURE"
                      and not (h.get("ignore_nan") and (c["desc"].startswith("NaN on") or "NaN" in c["name"]))],
           "undetermined": [c for c in checks if c["status"] in ("UNDETERMINED", "ERROR")],
           "covers": [c for c in checks if c["status"] in ("SATISFIED", "UNSATISFIABLE", "UNREACHABLE")
                      and ".cover." in c["name"]],
           "unreachable_asserts": [c for c in checks if c["status"] == "UNREACHABLE" and "harness/" in c["loc"]
                                   and c["desc"].startswith("assertion failed")],
           "out_tail": out[-6000:]}
    if h.get("ignore_nan") and verdict == "FAILED" and not res["failed"] and not res["undetermined"] and checks:
        res["verdict"] = "SUCCESSFUL"
        res["note"] = "float NaN checks ignored (not Rust panics)"
    if "Stub:" in out:
        res["stubs_applied"] = sorted(set(re.findall(r"- Stub: (.*)", out)))
    return res


def build_package(scr, pkg, zflags):
    cmd = ["cargo", "kani", "-p", pkg, "--only-codegen"]
    for f in sorted(zflags):
        cmd += ["-Z", f]
    t0 = time.time()
    p = subprocess.run(cmd, cwd=scr.ws, env=ENV, stdout=subprocess.PIPE, stderr=subprocess.STDOUT, text=True)
    return p.returncode, p.stdout, time.time() - t0


def playback_values(scr, unit, h):
    """Ask Kani for the concrete values of the counterexample (kani::any() order)."""
    full = "%s::%s" % (h.get("modpath") or unit["modpath"], h["name"])
    hh = dict(h)
    hh["z"] = list(set(h.get("z", [])) | {"concrete-playback"})
    cmd = kani_cmd(unit["package"], full, hh, ["--concrete-playback=print"])
    try:
        p = subprocess.run(cmd, cwd=scr.ws, env=ENV, stdout=subprocess.PIPE, stderr=subprocess.STDOUT, text=True,
                           timeout=h.get("timeout_thorough", 1800))
    except subprocess.TimeoutExpired:
        return None
    tests = re.findall(r"```\n(.*?)```", p.stdout, re.S)
    # Kani also prints a witness test for every satisfied cover!(); prefer the tests labelled with a failed check. When the
    # counterexample coincides with a cover witness Kani prints ONE test, labelled with the cover: such tests are kept as
    # candidates - the native playback decides (a witness that does not violate anything simply does not reproduce)
    failing = [t for t in tests if "Check for `cover`" not in t]
    return failing or tests or None


def run_playback(scr, unit, h, tests):
    """Compile the harness natively against the real code (cargo kani playback) with the recorded values
    and report whether the failure reproduces (the generated #[test] panics)."""
    hfile = scr.injected[unit["harness_file"]]
    orig = open(hfile).read()
    names = []
    body = orig + "\n// ---- replay tests appended by tools/vf.py ----\n"
    for i, t in enumerate(tests):
        m = re.search(r"fn (kani_concrete_playback_\w+)\(", t)
        if not m:
            continue
        names.append(m.group(1))
        # the crates are no_std + alloc: name Vec / vec! by path
        t = t.replace("Vec<Vec<u8>>", "alloc::vec::Vec<alloc::vec::Vec<u8>>").replace("= vec![", "= alloc::vec![").replace(" vec![", " alloc::vec![")
        body += t + "\n"
    open(hfile, "w").write(body)
    try:
        results = {}
        for n in names:
            cmd = ["cargo", "kani", "playback", "-Z", "concrete-playback", "-p", unit["package"], "--", n]
            try:
                p = subprocess.run(cmd, cwd=scr.ws, env=ENV, stdout=subprocess.PIPE, stderr=subprocess.STDOUT,
                                   text=True, timeout=900)
                out = p.stdout
                pan = re.findall(r"panicked at ([^\n]*)", out)
                if pan and all("concrete_playback.rs" in x for x in pan):
                    results[n] = ("not-reproduced (playback ran out of recorded values)", out[-1500:])
                elif re.search(r"test result: FAILED", out) or pan:
                    results[n] = ("reproduced", out[-3000:])
                elif re.search(r"test result: ok\. 1 passed", out):
                    results[n] = ("not-reproduced", out[-1500:])
                else:
                    results[n] = ("replay-build-error", out[-3000:])
            except subprocess.TimeoutExpired:
                results[n] = ("reproduced-as-timeout", "replay did not terminate within 900 s")
        return results
    finally:
        open(hfile, "w").write(orig)



# ------------------------------------------------------------------------------------------------
# native bounded stand-ins (labelled bounded, never counted as proved)
# ------------------------------------------------------------------------------------------------
def run_native(scr, unit, tier, seed):
    src = os.path.join(VERIF, "contracts", unit["test_file"])
    name = "verif_" + os.path.splitext(os.path.basename(unit["test_file"]))[0]
    dst_dir = os.path.join(scr.ws, unit["crate_dir"], "tests")
    os.makedirs(dst_dir, exist_ok=True)
    dst = os.path.join(dst_dir, name + ".rs")
    new = open(src).read()
    if not os.path.exists(dst) or open(dst).read() != new:
        open(dst, "w").write(new)
    cmd = ["cargo", "test", "-p", unit["package"], "--offline", "--release"]
    if unit.get("features"):
        # a unit may build the crate with a cargo feature of /repo (e.g. `concurrent`: the rayon code paths)
        cmd += ["--features", unit["features"]]
    cmd += ["--test", name, "--", "--nocapture", "--test-threads", "1"]
    env = dict(ENV)
    for k, v in (unit.get("env") or {}).items():
        env[k] = v
    env["VERIF_SEED"] = str(seed)
    env["VERIF_TIER"] = tier
    # optimised build, but with the arithmetic-overflow and debug assertions of a debug build
    env["CARGO_PROFILE_RELEASE_OVERFLOW_CHECKS"] = "true"
    # (a unit may opt out of debug assertions: the prover's debug-only degree validation rejects traces with
    # periodic columns, which C17's stand-in needs; overflow checks stay on)
    env["CARGO_PROFILE_RELEASE_DEBUG_ASSERTIONS"] = "true" if unit.get("debug_assertions", True) else "false"
    env["CARGO_PROFILE_RELEASE_LTO"] = "off"
    env["CARGO_PROFILE_RELEASE_CODEGEN_UNITS"] = "16"
    t0 = time.time()
    try:
        p = subprocess.run(cmd, cwd=scr.ws, env=env, stdout=subprocess.PIPE, stderr=subprocess.STDOUT, text=True,
                           timeout=unit.get("timeout", 1200) * TIMEOUT_SCALE)
        out, timed_out, rc = p.stdout, False, p.returncode
    except subprocess.TimeoutExpired as e:
        out = e.stdout.decode(errors="replace") if isinstance(e.stdout, bytes) else (e.stdout or "")
        timed_out, rc = True, -1
    res = {"unit": unit["unit"], "cmd": " ".join(cmd), "wall_s": round(time.time() - t0, 1), "timed_out": timed_out,
           "rc": rc, "bound": unit["bounded"], "functions": unit.get("fn", []), "clause": unit.get("clause", ""),
           "results": [dict(re.findall(r"(\w+)=(\S+)", l[l.index("NB-RESULT"):])) for l in out.splitlines() if "NB-RESULT" in l],
           "violations": sorted({l[l.index("NB-VIOLATION"):].strip() for l in out.splitlines() if "NB-VIOLATION" in l}),
           "compile_error": bool(re.search(r"^error(\[E\d+\])?:", out, re.M)) and "test result:" not in out,
           "out_tail": out[-5000:]}
    res["panics"] = re.findall(r"panicked at ([^\n]*\n[^\n]*)", out)[:5] if rc != 0 and not res["violations"] else []
    return res

# ------------------------------------------------------------------------------------------------
# known findings
# ------------------------------------------------------------------------------------------------
def load_known():
    known = []
    path = os.path.join(VERIF, "KNOWN_FINDINGS.txt")
    if not os.path.exists(path):
        return known
    for line in open(path):
        line = line.strip()
        if not line.startswith("known:"):
            continue
        d = dict(re.findall(r'(\w+)=("[^"]*"|\S+)', line[len("known:"):]))
        d = {k: v.strip('"') for k, v in d.items()}
        known.append(d)
    return known


def match_known(known, prop, harness, failed_check):
    for k in known:
        if k.get("property") != prop or k.get("obligation") != harness:
            continue
        if k.get("check", "") in failed_check["desc"] and k.get("where", "") in failed_check["loc"]:
            return k
    return None


# ------------------------------------------------------------------------------------------------
# main check
# ------------------------------------------------------------------------------------------------
def select(units, prop, tier):
    sel = []
    for u in units:
        hs = [h for h in u["harnesses"] if prop in h["props"] and (tier == "thorough" or h.get("tier", "quick") == "quick")]
        only = os.environ.get("VERIF_ONLY")  # development aid: regex over harness names
        if only:
            hs = [h for h in hs if re.search(only, h["name"])]
        if hs:
            sel.append((u, hs))
    return sel


def write_evidence(prop, ev):
    os.makedirs(os.path.join(VERIF, "evidence"), exist_ok=True)
    path = os.path.join(VERIF, "evidence", prop + ".json")
    if os.environ.get("VERIF_UNITS") or os.environ.get("VERIF_ONLY") or os.environ.get("VERIF_REPO"):
        # development / seeded-change runs cover a subset or another tree: never overwrite the real evidence
        path = os.path.join(os.environ.get("VERIF_EVIDENCE_DIR", "/var/tmp"), "evidence-dev-" + prop + ".json")
    json.dump(ev, open(path, "w"), indent=1)
    return path


def check(prop, tier):
    import registry
    t0 = time.time()
    seed = int(os.environ.get("VERIF_SEED", "0") or 0)
    units = registry.UNITS
    kani_units = [u for u in units if u["engine"] == "kani"]
    verus_units = [u for u in units if u["engine"] == "verus"]
    sel = select(kani_units, prop, tier)
    vsel = [u for u in verus_units if prop in u["props"]]
    nsel = [u for u in units if u["engine"] == "native" and prop in u["props"] and (tier == "thorough" or u.get("tier", "quick") == "quick")]
    only_units = os.environ.get("VERIF_UNITS")  # development aid: regex over unit names (no evidence is written)
    if only_units:
        sel = [(u, hs) for (u, hs) in sel if re.search(only_units, u["unit"])] if sel and isinstance(sel[0], tuple) else sel
        vsel = [u for u in vsel if re.search(only_units, u["unit"])]
        nsel = [u for u in nsel if re.search(only_units, u["unit"])]
    meta = registry.PROPS.get(prop)
    if meta is None or (not sel and not vsel and not nsel):
        log("UNDECIDED property=%s reason=no-check-registered" % prop)
        return 2
    known = load_known()
    scr = Scratch(prop)
    results, vresults, nresults = [], [], []
    undecided, violations, known_hits = [], [], []
    nviol = []
    native_future, native_pool = None, None
    try:
        # the native bounded stand-ins build and run in their own target directory (target/release; Kani uses target/kani):
        # they are started first and joined after the Kani and Verus stages, so that their wall time overlaps with the solvers'
        if nsel:
            native_pool = cf.ThreadPoolExecutor(max_workers=1)
            # two stand-ins at a time: their cargo builds serialise on the target-directory lock, their test runs overlap
            def _run_natives():
                with cf.ThreadPoolExecutor(max_workers=int(os.environ.get("VERIF_NATIVE_JOBS", "2"))) as npool:
                    return list(npool.map(lambda u: run_native(scr, u, tier, seed), nsel))
            native_future = native_pool.submit(_run_natives)
        # ---------------- Kani ----------------
        if sel:
            pkgs = {}
            for u, hs in sel:
                scr.inject(u["into"], u["harness_file"], u["modname"])
                for extra in u.get("extra_inject", []):
                    scr.inject(extra["into"], extra["harness_file"], extra["modname"])
                z = pkgs.setdefault(u["package"], set())
                for h in hs:
                    z.update(h.get("z", []))
                    if h.get("stubs", True):
                        z.add("stubbing")
                    if h.get("contracts"):
                        z.add("function-contracts")
            for pkg, z in pkgs.items():
                rc, out, bt = build_package(scr, pkg, z)
                log("[build] cargo kani -p %s --only-codegen: rc=%d %.1fs" % (pkg, rc, bt))
                if rc != 0:
                    log(out[-4000:])
                    raise Undecided("kani build of %s failed (harness does not compile against the current tree: "
                                    "lost anchor or changed signature)" % pkg)
            jobs = [(u, h) for u, hs in sel for h in hs]
            jobs.sort(key=lambda x: -x[1].get("cost", 1))
            with cf.ThreadPoolExecutor(max_workers=JOBS) as ex:
                futs = {ex.submit(run_harness, scr, u, h, tier): (u, h) for u, h in jobs}
                for f in cf.as_completed(futs):
                    u, h = futs[f]
                    r = f.result()
                    r["canary"] = bool(h.get("canary"))
                    r["bounded"] = h.get("bounded")
                    r["functions"] = h.get("fn", [])
                    r["clause"] = h.get("clause", "")
                    results.append(r)
                    log("[kani] %-55s %-10s checks=%-4d failed=%d  %.1fs" % (
                        r["harness"], "TIMEOUT" if r["timed_out"] else r["verdict"], r["checks"], len(r["failed"]),
                        r["wall_s"]))
            results.sort(key=lambda r: r["harness"])
            hmap = {h["name"]: (u, h) for u, h in jobs}
            for r in results:
                u, h = hmap[r["harness"]]
                if r["timed_out"]:
                    undecided.append("%s: timeout" % r["harness"])
                    continue
                if r["verdict"] is None:
                    undecided.append("%s: no verdict (tool error)\n%s" % (r["harness"], r["out_tail"][-1500:]))
                    continue
                if r["canary"]:
                    if r["verdict"] != "FAILED":
                        undecided.append("%s: canary obligation was accepted (run is void)" % r["harness"])
                    continue
                bad_cov = [c for c in r["covers"] if c["status"] != "SATISFIED"]
                if bad_cov:
                    undecided.append("%s: vacuity guard: cover not satisfiable: %s" % (r["harness"], bad_cov[0]["desc"]))
                if r["unreachable_asserts"]:
                    undecided.append("%s: vacuity guard: harness assertion unreachable: %s" % (
                        r["harness"], r["unreachable_asserts"][0]["desc"]))
                if r["verdict"] != "SUCCESSFUL" and not r["failed"]:
                    undecided.append("%s: verifier verdict %s without a parsed failing check (tool error / out of memory)\n%s" % (
                        r["harness"], r["verdict"], r["out_tail"][-800:]))
                if r["undetermined"] and not r["failed"]:
                    undecided.append("%s: undetermined checks: %s" % (r["harness"], r["undetermined"][0]["desc"]))
                if r["failed"]:
                    unwind_only = all("unwinding assertion" in c["desc"] for c in r["failed"])
                    if unwind_only:
                        undecided.append("%s: unwinding bound too small" % r["harness"])
                        continue
                    new = []
                    for c in r["failed"]:
                        if "unwinding assertion" in c["desc"]:
                            continue
                        k = match_known(known, prop, r["harness"], c)
                        if k:
                            known_hits.append((k, r, c))
                        else:
                            new.append(c)
                    if new:
                        violations.append((u, h, r, new))
        # ---------------- Verus ----------------
        if vsel:
            import verus_driver
            for u in vsel:
                vr = verus_driver.run_unit(scr, u, tier)
                vresults.append(vr)
                for fnr in vr["functions"]:
                    log("[verus] %-30s %-40s %s" % (u["unit"], fnr["name"], fnr["status"]))
                log("[verus] unit %s: verified=%s errors=%s %.1fs" % (u["unit"], vr["verified"], vr["errors"], vr["wall_s"]))
                if vr["status"] == "undecided":
                    undecided.append("verus unit %s: %s" % (u["unit"], vr["reason"]))
                elif vr["status"] == "failed":
                    violations.append((u, None, vr, vr["failed_obligations"]))

        # ---------------- native bounded stand-ins ----------------
        native_runs = native_future.result() if native_future else []
        native_future = None
        for u, nr in zip(nsel, native_runs):
            nresults.append(nr)
            log("[native] %-40s rc=%s results=%s violations=%d %.1fs" % (u["unit"], nr["rc"], nr["results"], len(nr["violations"]), nr["wall_s"]))
            if nr["timed_out"]:
                undecided.append("native unit %s: timeout" % u["unit"])
            elif nr["compile_error"]:
                undecided.append("native unit %s: does not compile against the current tree\n%s" % (u["unit"], nr["out_tail"][-1500:]))
            elif nr["rc"] != 0:
                nviol.append((u, nr))
            elif not nr["results"]:
                undecided.append("native unit %s: vacuity guard: no NB-RESULT line" % u["unit"])

        # ---------------- report ----------------
        rc = 0
        printed = set()
        for k, r, c in known_hits:
            key = (k.get("obligation"), k.get("check"))
            if key in printed:
                continue
            printed.add(key)
            log("KNOWN-FINDING: property=%s %s (obligation %s, check \"%s\")" % (prop, k.get("what", ""), r["harness"], c["desc"]))
        rdir = os.path.join(VERIF, "replays", prop)
        for u, h, r, new in violations:
            os.makedirs(rdir, exist_ok=True)
            if h is None:  # verus
                rpath = os.path.join(rdir, "verus_%s.json" % u["unit"])
                rep = verus_driver.handle_failure(scr, u, r, prop)
                json.dump(rep, open(rpath, "w"), indent=1)
                if rep.get("undecided"):
                    undecided.append("verus unit %s: %s" % (u["unit"], rep["undecided"]))
                    continue
                suffix = "" if rep.get("reproduced") else " no-failing-input-found"
                log("VIOLATION property=%s replay=%s%s" % (prop, rpath, suffix))
                for fo in r["failed_obligations"]:
                    log("  failed obligation: %s.%s :: %s" % (u["unit"], fo["function"], fo["message"]))
                rc = 1
                continue
            rpath = os.path.join(rdir, "%s.json" % r["harness"])
            tests = playback_values(scr, u, h)
            rep = {"property": prop, "engine": "kani", "obligation": "%s.%s.%s" % (prop, u["unit"], r["harness"]),
                   "harness": r["harness"], "unit": u["unit"], "package": u["package"], "clause": h.get("clause", ""),
                   "failed_checks": new, "kani_cmd": r["cmd"], "verifier_output_tail": r["out_tail"][-3000:],
                   "playback_tests": tests, "replay": None}
            reproduced = False
            if tests:
                pr = run_playback(scr, u, h, tests)
                rep["replay"] = {n: {"status": s, "output_tail": o} for n, (s, o) in pr.items()}
                reproduced = any(s.startswith("reproduced") for s, _ in pr.values())
            json.dump(rep, open(rpath, "w"), indent=1)
            suffix = "" if reproduced else " no-failing-input-found"
            log("VIOLATION property=%s replay=%s%s" % (prop, rpath, suffix))
            for c in new:
                log("  failed obligation: %s.%s.%s :: %s @ %s" % (prop, u["unit"], r["harness"], c["desc"], c["loc"]))
            rc = 1
        for u, nr in nviol:
            os.makedirs(rdir, exist_ok=True)
            rpath = os.path.join(rdir, "native_%s.json" % u["unit"])
            json.dump({"property": prop, "engine": "native-bounded", "unit": u["unit"], "bound": u["bounded"],
                       "violations": nr["violations"], "panics": nr["panics"], "cmd": nr["cmd"], "seed": seed,
                       "test_file": u["test_file"], "output_tail": nr["out_tail"]}, open(rpath, "w"), indent=1)
            log("VIOLATION property=%s replay=%s" % (prop, rpath))
            for vline in (nr["violations"] or [x.replace("\n", " ") for x in nr["panics"]])[:5]:
                log("  failed (bounded stand-in %s): %s" % (u["unit"], vline[:300]))
            rc = 1
        if undecided:
            for m in undecided:
                log("UNDECIDED property=%s obligation=%s" % (prop, m))
            if rc == 0:
                rc = 2
        ev = build_evidence(prop, tier, seed, meta, results, vresults, known_hits, violations, undecided, time.time() - t0, nresults, nviol)
        write_evidence(prop, ev)
        log("[done] property=%s tier=%s rc=%d wall=%.1fs obligations=%d discharged=%d" % (
            prop, tier, rc, time.time() - t0, ev["coverage"].get("obligations", 0), ev["coverage"].get("discharged", 0)))
        return rc
    except Undecided as e:
        log("UNDECIDED property=%s reason=%s" % (prop, e))
        ev = build_evidence(prop, tier, seed, meta, results, vresults, known_hits, violations, [str(e)], time.time() - t0, nresults, nviol)
        write_evidence(prop, ev)
        return 2
    finally:
        if native_future is not None:
            # an earlier stage bailed out: let the stand-in thread finish before the scratch copy disappears under it
            try:
                native_future.result()
            except Exception:
                pass
        if native_pool is not None:
            native_pool.shutdown(wait=True)
        scr.cleanup()


def build_evidence(prop, tier, seed, meta, results, vresults, known_hits, violations, undecided, wall, nresults=(), nviol=()):
    import registry
    normal = [r for r in results if not r.get("canary")]
    ok = lambda r: (not r["timed_out"]) and r["verdict"] == "SUCCESSFUL"
    unb = [r for r in normal if not r.get("bounded")]
    bnd = [r for r in normal if r.get("bounded")]
    vfun = [f for v in vresults for f in v["functions"]]
    obligations = len(unb) + len(vfun)
    discharged = len([r for r in unb if ok(r)]) + len([f for f in vfun if f["status"] == "verified"])
    known_names = sorted({r["harness"] for _, r, _ in known_hits})
    # harness whose only failures are known findings is *not* counted as discharged
    stubs = sorted({s for r in results for s in r.get("stubs_applied", [])})
    trusted = list(registry.TRUSTED_BASE) + list(meta.get("trusted", []))
    trusted += ["kani stub applied: " + s for s in stubs]
    for v in vresults:
        trusted += v.get("trusted", [])
    level = meta["level"]
    cov = {
        "obligations": obligations,
        "discharged": discharged,
        "checker_cmd": "cargo kani -p <crate> --harness <h> --exact -Z stubbing (CBMC 6.11 + CaDiCaL) per obligation; "
                       "verus <unit>.rs (Z3) per Verus unit; driver: /verif/check %s %s" % (prop, tier),
        "trusted_base": trusted,
        "cbmc_checks_total": sum(r["checks"] for r in normal),
        "solver_time_s": round(sum((r["solver_s"] or 0) for r in results) + sum(v["wall_s"] for v in vresults), 2),
        "functions_under_contract": sorted({f for r in normal for f in r["functions"]} | {f["name"] for f in vfun}),
        "unbounded_obligations": [
            {"obligation": "%s.%s.%s" % (prop, r["unit"], r["harness"]), "backend": "kani/cbmc/cadical",
             "status": "discharged" if ok(r) else ("known-finding" if r["harness"] in known_names else "not-discharged"),
             "cbmc_checks": r["checks"], "seconds": r["wall_s"], "clause": r["clause"]} for r in unb] + [
            {"obligation": "%s.%s.%s" % (prop, v["unit"], f["name"]), "backend": "verus/z3", "status": f["status"],
             "seconds": f.get("seconds")} for v in vresults for f in v["functions"]],
        "bounded": [{"obligation": "%s.%s.%s" % (prop, r["unit"], r["harness"]), "bound": r["bounded"],
                     "status": "passed-within-bound" if ok(r) else ("known-finding" if r["harness"] in known_names else "failed"),
                     "cbmc_checks": r["checks"], "seconds": r["wall_s"], "clause": r["clause"]} for r in bnd],
        "native_bounded_standins": [{"unit": n["unit"], "bound": n["bound"], "clause": n["clause"], "functions": n["functions"],
                                     "results": n["results"], "status": "passed-within-bound" if n["rc"] == 0 else "failed",
                                     "seconds": n["wall_s"], "cmd": n["cmd"]} for n in nresults],
        "bounded_obligations": len(bnd) + len(nresults),
        "bounded_passed": len([r for r in bnd if ok(r)]),
        "canaries": [{"obligation": r["harness"], "must_fail": True, "failed_as_expected": r["verdict"] == "FAILED"}
                     for r in results if r.get("canary")],
        "known_findings_hit": [{"obligation": r["harness"], "check": c["desc"], "what": k.get("what")} for k, r, c in known_hits],
        "undecided": undecided,
        "samples": [{"obligation": "%s.%s.%s" % (prop, r["unit"], r["harness"]), "clause": r["clause"],
                     "functions": r["functions"], "cbmc_checks": r["checks"]} for r in (unb + bnd)[:6]] +
                   [{"obligation": "%s.%s.%s" % (prop, v["unit"], f["name"]), "backend": "verus"} for v in vresults for f in v["functions"][:3]],
        "explanation": meta.get("explanation", ""),
        "extraction": [v.get("extraction") for v in vresults if v.get("extraction")],
    }
    ev = {"property_id": prop, "tier": tier, "seed": seed, "level": level, "coverage": cov,
          "assumptions": trusted + meta.get("not_decided", []), "wall_s": round(wall, 1),
          "violations": len(violations) + len(nviol)}
    return ev


def replay(prop, path):
    """Re-run a recorded counterexample against the current /repo tree."""
    import registry
    rep = json.load(open(path))
    if rep.get("engine") == "native-bounded":
        unit = [u for u in registry.UNITS if u["unit"] == rep["unit"]][0]
        scr = Scratch(prop + "-replay")
        try:
            nr = run_native(scr, unit, "quick", rep.get("seed", 0))
            log(nr["out_tail"][-3000:])
            if nr["rc"] != 0:
                log("VIOLATION property=%s replay=%s" % (prop, path))
                return 1
            return 0
        finally:
            scr.cleanup()
    if rep.get("engine") != "kani" or not rep.get("playback_tests"):
        log("replay file carries no concrete input (obligation %s); verifier output:" % rep.get("obligation"))
        log(rep.get("verifier_output_tail", rep.get("verus_output", "")))
        return 1
    unit = [u for u in registry.UNITS if u["unit"] == rep["unit"] and u["engine"] == "kani"][0]
    h = [h for h in unit["harnesses"] if h["name"] == rep["harness"]][0]
    scr = Scratch(prop + "-replay")
    try:
        scr.inject(unit["into"], unit["harness_file"], unit["modname"])
        for extra in unit.get("extra_inject", []):
            scr.inject(extra["into"], extra["harness_file"], extra["modname"])
        pr = run_playback(scr, unit, h, rep["playback_tests"])
        bad = False
        for n, (s, o) in pr.items():
            log("[replay] %s: %s" % (n, s))
            log(o[-1500:])
            bad |= s.startswith("reproduced")
        if bad:
            log("VIOLATION property=%s replay=%s" % (prop, path))
            return 1
        return 0
    finally:
        scr.cleanup()


def main(argv):
    if len(argv) < 3:
        print(__doc__)
        return 2
    prop = argv[1]
    if argv[2] == "--replay":
        return replay(prop, argv[3])
    tier = argv[2]
    if tier not in ("quick", "thorough"):
        print(__doc__)
        return 2
    return check(prop, tier)


if __name__ == "__main__":
    sys.exit(main(sys.argv))
