#!/bin/bash
# usage: seed_confirm.sh <seed dir with patch.diff demo.rs demo.txt> <worktree>
# confirms: patch applies; workspace tests pass with patch; demo fails with patch; demo passes without.
set -u
SD=$1; WT=$2
OUT=$SD/confirm.txt
: > $OUT
cd $WT || exit 2
git checkout -q -- . ; git clean -qfd -e target
git apply $SD/patch.diff || { echo "APPLY-FAILED" >> $OUT; exit 1; }
if CARGO_NET_OFFLINE=true cargo test --workspace --offline >$SD/tests_with_patch.log 2>&1; then echo "tests_with_patch=PASS" >> $OUT; else echo "tests_with_patch=FAIL" >> $OUT; fi
# demo placement: first path-looking token ending in .rs in demo.txt that is not demo.rs itself
DEMO_PATH=$(grep -o '[A-Za-z0-9_/.-]*tests/[A-Za-z0-9_]*\.rs' $SD/demo.txt | head -1)
DEMO_PATH=${DEMO_PATH#/tmp/wt-*/}
DEMO_PATH=$(echo $DEMO_PATH | sed 's#^/tmp/wt-[A-Z0-9]*/##')
CMD=$(grep -o 'cargo test[^`]*' $SD/demo.txt | head -1)
echo "demo_path=$DEMO_PATH" >> $OUT; echo "demo_cmd=$CMD" >> $OUT
mkdir -p $(dirname $DEMO_PATH); cp $SD/demo.rs $DEMO_PATH
if (eval "CARGO_NET_OFFLINE=true $CMD") >$SD/demo_with_patch.log 2>&1; then echo "demo_with_patch=PASS" >> $OUT; else echo "demo_with_patch=FAIL" >> $OUT; fi
git apply -R $SD/patch.diff
if (eval "CARGO_NET_OFFLINE=true $CMD") >$SD/demo_without_patch.log 2>&1; then echo "demo_without_patch=PASS" >> $OUT; else echo "demo_without_patch=FAIL" >> $OUT; fi
git checkout -q -- . ; git clean -qfd -e target
cat $OUT
