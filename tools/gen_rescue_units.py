# generates contracts/verus/rescuev.rs (three modules of identical shape)
hdr = '''// Verus unit rescuev: the round structure of the three Rescue permutations (crypto/src/hash/rescue/{rp64_256, rp62_248,
// rp64_256_jive}/mod.rs), bodies of apply_round / apply_permutation (and the straight-line S-box of the 64-bit hashers) cut
// out of /repo. The five layer functions are abstract (uninterpreted): what is decided is the COMPOSITION the reference
// definition prescribes -
//   round r        = add ARK2[r] . MDS . inverse S-box . add ARK1[r] . MDS . S-box
//   permutation    = round 6 . round 5 . ... . round 0      (NUM_ROUNDS is read from the source and must be 7)
//   S-box (64-bit) = lane-wise x -> x^7 through exp7 (whose contract x^7 mod p is proved in unit f64v)
// - for every state. A reordered layer, a swapped or shifted round-constant table, a changed number of rounds or a lane
// left out of the S-box fails an obligation. Not decided here: the layers themselves (MDS product: units mds8 / mds12;
// inverse S-box and constant addition are closure-based bodies outside Verus: unit tests of the repository only); the
// round constants have no independent definition in the repository.
use vstd::prelude::*;
verus! {
global size_of usize == 8;

#[derive(Copy, Clone, PartialEq, Eq, Structural)]
pub struct E(pub u64);
pub uninterp spec fn exp7_of(x: E) -> E;
impl E {
    #[verifier::external_body]
    pub fn exp7(self) -> (r: E) ensures r == exp7_of(self) { unimplemented!() }
}
'''
mod = '''
pub mod @NAME@ {
    use super::*;
    pub const STATE_WIDTH: usize = @W@;
    pub const NUM_ROUNDS: usize = /*@@expr source="@SRC@" anchor="const NUM_ROUNDS: usize ="*/;
    pub const ARK1: [[E; @W@]; 7] = @ARK1@;
    pub const ARK2: [[E; @W@]; 7] = @ARK2@;
@SBOXSPEC@
    pub uninterp spec fn inv_sbox_of(s: Seq<E>) -> Seq<E>;
    pub uninterp spec fn mds_of(s: Seq<E>) -> Seq<E>;
    pub uninterp spec fn addc_of(s: Seq<E>, k: Seq<E>) -> Seq<E>;

    pub open spec fn round_of(s: Seq<E>, r: int) -> Seq<E> {
        addc_of(mds_of(inv_sbox_of(addc_of(mds_of(sbox_of(s)), ARK1[r]@))), ARK2[r]@)
    }
    pub open spec fn rounds_of(s: Seq<E>, n: int) -> Seq<E>
        decreases n
    {
        if n <= 0 { s } else { round_of(rounds_of(s, n - 1), n - 1) }
    }

    pub struct Hasher;
    impl Hasher {
        #[verifier::external_body]
        pub fn apply_mds(state: &mut [E; @W@]) ensures final(state)@ == mds_of(old(state)@) { unimplemented!() }
        #[verifier::external_body]
        pub fn add_constants(state: &mut [E; @W@], ark: &[E; @W@]) ensures final(state)@ == addc_of(old(state)@, ark@) { unimplemented!() }
        #[verifier::external_body]
        pub fn apply_inv_sbox(state: &mut [E; @W@]) ensures final(state)@ == inv_sbox_of(old(state)@) { unimplemented!() }
@SBOX@
        //@@ source @SRC@
        //@@ extract anchor="fn apply_round(state: &mut [BaseElement; STATE_WIDTH], round: usize)"
@RW@
@AFTERSBOX@
        pub fn apply_round(state: &mut [E; @W@], round: usize)
            requires round < 7
            ensures final(state)@ == round_of(old(state)@, round as int)
        {
            /*@@body*/
        }

        //@@ extract anchor="fn apply_permutation(state: &mut [BaseElement; STATE_WIDTH])"
@RW@
        //@@ loop 1
        //@@|                invariant state@ == rounds_of(old(state)@, i as int), NUM_ROUNDS == 7,
        pub fn apply_permutation(state: &mut [E; @W@])
            ensures final(state)@ == rounds_of(old(state)@, 7)
        {
            /*@@body*/
        }
    }
}
'''
sbox_abs = '''        #[verifier::external_body]
        pub fn apply_sbox(state: &mut [E; @W@]) ensures final(state)@ == sbox_of(old(state)@) { unimplemented!() }
'''
sbox_real = '''        //@@ source @SRC@
        //@@ extract anchor="fn apply_sbox(state: &mut [BaseElement; STATE_WIDTH])"
        pub fn apply_sbox(state: &mut [E; @W@])
            ensures
                final(state)@.len() == @W@,
                forall|i: int| 0 <= i < @W@ ==> #[trigger] final(state)@[i] == exp7_of(old(state)@[i]),
        {
            /*@@body*/
        }
'''
out = hdr
for name, src, w, real, free in (("rp64", "crypto/src/hash/rescue/rp64_256/mod.rs", 12, True, False),
                                 ("jive", "crypto/src/hash/rescue/rp64_256_jive/mod.rs", 8, True, False),
                                 ("rp62", "crypto/src/hash/rescue/rp62_248/mod.rs", 12, False, True)):
    m = mod.replace("@SBOX@", sbox_real if real else sbox_abs)
    m = m.replace("@SBOXSPEC@", "    pub open spec fn sbox_of(s: Seq<E>) -> Seq<E> { Seq::new(@W@, |i: int| exp7_of(s[i])) }" if real
                  else "    pub uninterp spec fn sbox_of(s: Seq<E>) -> Seq<E>;")
    m = m.replace("@AFTERSBOX@", '        //@@ after "Self::apply_sbox(state);"\n        //@@|            proof { assert(state@ =~= sbox_of(old(state)@)); }' if real else "        //")
    # free functions (rp62) are called without the Self:: prefix: rewrite the calls to the methods of the abstract hasher
    rw = "\n".join('        //@@ rewrite "%s(" => "Self::%s("' % (f, f) for f in ("apply_sbox", "apply_mds", "add_constants", "apply_inv_sbox", "apply_round")) if free else ""
    m = m.replace("@RW@", rw if rw else "        //")
    lit = lambda v: "[" + ", ".join("[" + ", ".join("E(%d)" % (v + 10 * r) for _ in range(w)) + "]" for r in range(7)) + "]"
    m = m.replace("@ARK1@", lit(1)).replace("@ARK2@", lit(2))
    m = m.replace("@NAME@", name).replace("@SRC@", src).replace("@W@", str(w))
    out += m
out += '''
proof fn rescuev_canary_must_fail(s: Seq<E>)
    ensures rp64::rounds_of(s, 7) == rp64::rounds_of(s, 6)
{
}

} // verus!

fn main() {}
'''
open("/verif/contracts/verus/rescuev.rs", "w").write(out)
