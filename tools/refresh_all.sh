#!/bin/bash
# Re-run the quick tier of every claimed property on /repo's working tree (two at a time), rewriting evidence/<id>.json.
# usage: tools/refresh_all.sh [tier]      logs: /var/tmp/refresh-<id>.log ; summary on stdout
cd "$(dirname "$0")/.."
TIER=${1:-quick}
IDS=$(python3 -c "import json;print(' '.join(c['property_id'] for c in json.load(open('MANIFEST.json'))['checks']))")
run() { id=$1; /usr/bin/time -f "%e s" ./check $id $TIER > /var/tmp/refresh-$id.log 2>&1; echo "$id rc=$? $(tail -n 1 /var/tmp/refresh-$id.log)"; }
export -f run; export TIER
echo $IDS | tr ' ' '\n' | xargs -P 2 -I{} bash -c 'run {}'
