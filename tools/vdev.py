#!/usr/bin/env python3
"""development aid: build a Verus unit from /repo's tree and run verus on it, printing diagnostics"""
import sys, os, subprocess
sys.path.insert(0, os.path.dirname(os.path.abspath(__file__)))
import verus_driver as vd
unit = sys.argv[1]
ws = os.environ.get("VERIF_REPO", "/repo")
text, report = vd.build_unit(ws, unit)
os.makedirs("/var/tmp/vx", exist_ok=True)
path = "/var/tmp/vx/%s.rs" % unit
open(path, "w").write(text)
cmd = ["verus", path, "--rlimit", os.environ.get("RLIMIT", "30"), "--multiple-errors", "4"] + sys.argv[2:]
p = subprocess.run(cmd, cwd="/var/tmp/vx")
sys.exit(p.returncode)
