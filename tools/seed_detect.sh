#!/bin/bash
# usage: seed_detect.sh <seed dir> <property id> [tier]
# applies the seeded patch to a private worktree of /repo and runs the registered check against it
set -u
SD=$1; PROP=$2; TIER=${3:-quick}
WT=/tmp/wt-detect-$PROP${SEED_SUFFIX:-}
if [ ! -d $WT ]; then git -C /repo worktree add -q --detach $WT HEAD; fi
git -C $WT checkout -q --detach $(git -C /repo rev-parse HEAD) ; git -C $WT checkout -q -- . ; git -C $WT clean -qfd
git -C $WT apply $SD/patch.diff || { echo "APPLY-FAILED" > $SD/detect_$PROP.txt; exit 1; }
cd /verif
VERIF_REPO=$WT VERIF_SCRATCH=/var/tmp/vs-detect${SEED_SUFFIX:-} ./check $PROP $TIER > $SD/detect_$PROP.log 2>&1
RC=$?
{ echo "rc=$RC"; grep -E "^VIOLATION|^UNDECIDED|^KNOWN|failed obligation" $SD/detect_$PROP.log | head -20; } > $SD/detect_$PROP.txt
git -C $WT checkout -q -- . ; git -C $WT clean -qfd
cat $SD/detect_$PROP.txt
