#!/usr/bin/env python3
"""Re-validate seeded changes kept under /verif/seeded/<seed>/ against /repo HEAD and record which checks report them.

usage: seed_run.py [--confirm] [--props C07,C08] [--tier quick] <seed> [<seed> ...]   (seed = C07-2, or 'all')
       seed_run.py --matrix            (only regenerate seeded/MATRIX.md from the meta.json files)

For every seed: a private worktree of /repo HEAD is created under /tmp (removed afterwards, with its build output), the
patch is applied there, and `VERIF_REPO=<worktree> ./check <prop> <tier>` is run for the property the seed breaks (plus
any given with --props). With --confirm the existing suite and the demonstration are run too (suite passes with the
patch, demo fails with it and passes without). Results go to seeded/<seed>/meta.json; /repo itself is never touched."""
import json, os, re, subprocess, sys, shutil, glob, time

SEEDED = "/verif/seeded"
ENV = dict(os.environ, CARGO_NET_OFFLINE="true")


def sh(cmd, cwd=None, env=None, timeout=None):
    p = subprocess.run(cmd, shell=True, cwd=cwd, env=env or ENV, capture_output=True, text=True, timeout=timeout)
    return p.returncode, p.stdout + p.stderr


def head():
    return subprocess.run(["git", "-C", "/repo", "rev-parse", "--short", "HEAD"], capture_output=True, text=True).stdout.strip()


def demo_info(sd, meta):
    path, cmd = meta.get("demo_path"), meta.get("demo_cmd")
    txt = os.path.join(sd, "demo.txt")
    if (not path or not cmd) and os.path.exists(txt):
        t = open(txt).read()
        m = re.search(r"[A-Za-z0-9_/.-]*tests/[A-Za-z0-9_]*\.rs", t)
        path = re.sub(r"^/tmp/wt-[A-Za-z0-9-]*/", "", m.group(0)) if m else None
        m = re.search(r"cargo test[^`\n]*", t)
        cmd = m.group(0).strip() if m else None
    return path, cmd


def run_seed(seed, confirm, extra_props, tier):
    sd = os.path.join(SEEDED, seed)
    mp = os.path.join(sd, "meta.json")
    meta = json.load(open(mp)) if os.path.exists(mp) else {"seed": seed, "breaks_property": seed.split("-")[0]}
    wt = "/tmp/wt-seedrun-%s" % seed
    sh("git -C /repo worktree remove --force %s" % wt)
    shutil.rmtree(wt, ignore_errors=True)
    rc, out = sh("git -C /repo worktree add -q --detach %s HEAD" % wt)
    if rc:
        print(out); return None
    try:
        rc, out = sh("git apply %s/patch.diff" % sd, cwd=wt)
        if rc:
            meta["status"] = "patch does not apply to /repo HEAD %s" % head()
            print(seed, meta["status"], out)
            json.dump(meta, open(mp, "w"), indent=1)
            return meta
        meta["validated_on_repo_head"] = head()
        if confirm:
            path, cmd = demo_info(sd, meta)
            meta["demo_path"], meta["demo_cmd"] = path, cmd
            rc_t, out_t = sh("cargo test --workspace --offline", cwd=wt)
            os.makedirs(os.path.dirname(os.path.join(wt, path)), exist_ok=True)
            shutil.copy(os.path.join(sd, "demo.rs"), os.path.join(wt, path))
            rc_d1, o1 = sh(cmd, cwd=wt)
            sh("git apply -R %s/patch.diff" % sd, cwd=wt)
            rc_d0, o0 = sh(cmd, cwd=wt)
            os.remove(os.path.join(wt, path))
            sh("git apply %s/patch.diff" % sd, cwd=wt)
            meta["confirm"] = {"tests_with_patch": "PASS" if rc_t == 0 else "FAIL", "demo_with_patch": "PASS" if rc_d1 == 0 else "FAIL",
                               "demo_without_patch": "PASS" if rc_d0 == 0 else "FAIL", "repo_head": head()}
            ok = rc_t == 0 and rc_d1 != 0 and rc_d0 == 0
            meta["status"] = "valid" if ok else "not valid on the current tree"
            print(seed, "confirm:", meta["confirm"])
            if not ok:
                open(os.path.join(sd, "confirm_fail.log"), "w").write(out_t[-3000:] + "\n=====\n" + o1[-3000:] + "\n=====\n" + o0[-3000:])
            sh("rm -rf %s/target" % wt)
        props = [meta.get("breaks_property", seed.split("-")[0])] + [p for p in extra_props if p]
        det = meta.get("detection") if isinstance(meta.get("detection"), dict) else {}
        for p in dict.fromkeys(props):
            os.makedirs("/var/tmp/seed-evidence-%s" % seed, exist_ok=True)
            env = dict(ENV, VERIF_REPO=wt, VERIF_EVIDENCE_DIR="/var/tmp/seed-evidence-%s" % seed)
            t0 = time.time()
            rc, out = sh("./check %s %s" % (p, tier), cwd="/verif", env=env, timeout=7200)
            lines = out.splitlines()
            first = next((l for l in lines if l.startswith(("VIOLATION", "UNDECIDED"))), "")
            if rc == 1 and not first.startswith("VIOLATION"):
                rc = 3  # the driver itself failed (traceback): neither detected nor passed
            obl = [l.strip() for l in lines if ("failed obligation" in l or "FAILED" in l) and "canary" not in l][:4]
            det[p] = {"rc": str(rc), "line": first, "obligation": " ;; ".join(obl)[:600], "tier": tier, "seconds": int(time.time() - t0),
                      "verif_commit": subprocess.run(["git", "-C", "/verif", "rev-parse", "--short", "HEAD"], capture_output=True, text=True).stdout.strip()}
            open(os.path.join("/var/tmp", "seedrun-%s-%s.log" % (seed, p)), "w").write(out)
            print(seed, p, "rc=%d" % rc, first, obl[:1])
        meta["detection"] = det
        meta["detected_by"] = sorted(p for p, v in det.items() if v["rc"] == "1")
        meta["reported_undecided_by"] = sorted(p for p, v in det.items() if v["rc"] == "2")
        json.dump(meta, open(mp, "w"), indent=1)
        return meta
    finally:
        sh("git -C /repo worktree remove --force %s" % wt)
        shutil.rmtree(wt, ignore_errors=True)
        shutil.rmtree("/var/tmp/seed-evidence-%s" % seed, ignore_errors=True)


def import_seed(seed):
    """copy a sub-agent's output (/tmp/seed-out/<seed>/{patch.diff,demo.rs,demo.txt,meta.txt}) into seeded/<seed>/ and start its meta.json"""
    src, dst = os.path.join("/tmp/seed-out", seed), os.path.join(SEEDED, seed)
    os.makedirs(dst, exist_ok=True)
    for f in ("patch.diff", "demo.rs", "demo.txt"):
        shutil.copy(os.path.join(src, f), os.path.join(dst, f))
    props = {json.loads(l)["id"]: json.loads(l)["title"] for l in open("/verif/properties.jsonl")}
    mt = os.path.join(src, "meta.txt")
    meta = {"seed": seed, "breaks_property": seed.split("-")[0], "property_title": props.get(seed.split("-")[0], ""),
            "what_it_needs_to_manifest": open(mt).read().strip()[:3000] if os.path.exists(mt) else "",
            "origin": "fresh sub-agent given only the property text and a private worktree of /repo",
            "what_i_ran": ["git apply patch.diff in a fresh worktree of /repo HEAD", "cargo test --workspace --offline (must pass with the patch)",
                           "the demonstration (must fail with the patch, pass without)", "VERIF_REPO=<worktree with patch> ./check <id> quick for the ids under `detection`"]}
    json.dump(meta, open(os.path.join(dst, "meta.json"), "w"), indent=1)


def matrix():
    rows = []
    for mp in sorted(glob.glob(os.path.join(SEEDED, "C*-*", "meta.json"))):
        m = json.load(open(mp))
        det = m.get("detection") if isinstance(m.get("detection"), dict) else {}
        by = m.get("detected_by") or []
        und = m.get("reported_undecided_by") or []
        what = "; ".join("%s: %s" % (p, (v.get("obligation") or v.get("line") or "")) for p, v in det.items() if v.get("rc") != "0")
        rows.append((m["seed"], m.get("status", "valid"), ", ".join(by) or ("undecided: " + ", ".join(und) if und else "NOT DETECTED"),
                     what[:400], m.get("validated_on_repo_head", "")))
    with open(os.path.join(SEEDED, "MATRIX.md"), "w") as f:
        f.write("# Seeded changes and the checks that report them\n\n(regenerated by tools/seed_run.py --matrix from seeded/*/meta.json; `detected by` lists the "
                "property checks whose quick tier exits 1 with a VIOLATION line when the patch is applied to /repo HEAD)\n\n")
        f.write("| seed | status | detected by | failing obligation | repo HEAD |\n|---|---|---|---|---|\n")
        for r in rows:
            f.write("| %s | %s | %s | %s | %s |\n" % tuple(str(x).replace("|", "\\|").replace("\n", " ") for x in r))
    for r in rows:
        print("%-7s %-10s %s" % (r[0], r[1][:10], r[2]))


if __name__ == "__main__":
    a = sys.argv[1:]
    if "--matrix" in a:
        matrix(); sys.exit(0)
    confirm = "--confirm" in a
    tier, extra = "quick", []
    if "--tier" in a:
        tier = a[a.index("--tier") + 1]
    if "--props" in a:
        extra = a[a.index("--props") + 1].split(",")
    seeds = [x for x in a if re.match(r"^C\d+-\d+$", x)]
    if "--import" in a:
        for s_ in seeds:
            import_seed(s_)
    if "all" in a:
        seeds = sorted(os.path.basename(os.path.dirname(p)) for p in glob.glob(os.path.join(SEEDED, "C*-*", "patch.diff")))
    for s in seeds:
        run_seed(s, confirm, extra, tier)
    matrix()
