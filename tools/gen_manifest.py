#!/usr/bin/env python3
"""regenerate MANIFEST.json from contracts/registry.py (PROPS / NOT_APPLICABLE)"""
import json, os, sys
VERIF = os.path.dirname(os.path.dirname(os.path.abspath(__file__)))
sys.path.insert(0, os.path.join(VERIF, "contracts"))
import registry

ids = [json.loads(l)["id"] for l in open(os.path.join(VERIF, "properties.jsonl"))]
checks = []
for pid in ids:
    m = registry.PROPS.get(pid)
    if not m or not m.get("claimed", True):
        continue
    checks.append({
        "property_id": pid,
        "quick_cmd": "./check %s quick" % pid,
        "thorough_cmd": "./check %s thorough" % pid,
        "evidence_file": "/verif/evidence/%s.json" % pid,
        "replay_cmd_template": "./check %s --replay {path}" % pid,
        "engine": m.get("engine", "kani+verus"),
        "level_claimed": {"category": m["level"], "text": m["level_text"], "design_ref": m.get("design_ref", "DESIGN.md section 4." + pid)},
        "level_note": m["level_note"],
        "technique": m.get("technique", "contract-based deductive verification of the real code (Kani function-level harnesses over full-domain symbolic inputs; Verus on mechanically extracted bodies)"),
    })
claimed = {c["property_id"] for c in checks}
na = []
for pid in ids:
    if pid in claimed:
        continue
    na.append({"property_id": pid, "reason": registry.NOT_APPLICABLE.get(pid, "check not built yet (build phase in progress); see DESIGN.md")})
man = {
    "version": 1,
    "setup_cmd": "true",
    "hooks": {
        "guard": "kani",
        "enable": "none needed in /repo: every check copies /repo's working tree to a scratch directory under /var/tmp and appends cfg(kani) harness modules there (add-only); Verus units are cut out of the same copy",
        "baseline_off_cmd": "cd /repo && cargo test --workspace --no-fail-fast --offline",
        "source_commits": [],
        "add_only": True,
    },
    "engines": [
        {"name": "kani", "path": "/verif/contracts/kani", "serves_properties": sorted(claimed & {p for u in registry.UNITS if u["engine"] == "kani" for h in u["harnesses"] for p in h["props"]}), "kind_free_text": "Kani 0.68 / CBMC 6.11 harnesses compiled as child modules of the real source files"},
        {"name": "verus", "path": "/verif/contracts/verus", "serves_properties": sorted(claimed & {p for u in registry.UNITS if u["engine"] == "verus" for p in u["props"]}), "kind_free_text": "Verus 0.2026.09.13 on function bodies extracted mechanically on every run"},
        {"name": "native-bounded", "path": "/verif/contracts/native", "serves_properties": sorted(claimed & {p for u in registry.UNITS if u["engine"] == "native" for p in u["props"]}), "kind_free_text": "bounded stand-ins: the real functions executed natively over an enumerated space where neither verifier reaches them; labelled bounded, never counted as proved"},
    ],
    "checks": checks,
    "not_applicable": na,
    "notes": "Entry point ./check <id> quick|thorough; exit 0 held / 1 VIOLATION / 2 undecided (tool limit, lost anchor). KNOWN_FINDINGS.txt lists repaired and recorded defects.",
}
json.dump(man, open(os.path.join(VERIF, "MANIFEST.json"), "w"), indent=1)
print("claimed:", sorted(claimed))
