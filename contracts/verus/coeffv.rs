// Verus unit coeffv: the challenges of the constraint composition and of the DEEP composition are successive draws from the public
// coin (C04) - Air::get_constraint_composition_coefficients and Air::get_deep_composition_coefficients (air/src/air/mod.rs, the
// trait's provided methods, which prover and verifier both call), bodies cut out of /repo.
// Decided, for every number of constraints, assertions, trace columns and composition columns: whenever the function returns Ok,
// coefficient number i of the documented order (transition constraints, then boundary constraints, then - with a Lagrange kernel
// column - log2(trace length) Lagrange transition coefficients and one Lagrange boundary coefficient; resp. trace columns, then
// composition columns, then the Lagrange coefficient) IS the i-th value the coin yields from its state at the call: every
// coefficient is a fresh draw, none is reused, and the coin has advanced by exactly the number of coefficients.
// The coin is abstract: a ghost count of draws and an uninterpreted `nth_draw(k)` (its state transition is proved in unit coinv,
// C19). Literal rewrites (listed): `self.context().f()` / `self.trace_info().width()` read the fields of a context double;
// `x.ilog2()` is the shim ilog2; the loop pattern `_` is named.
use vstd::prelude::*;
verus! {
global size_of usize == 8;

#[derive(Copy, Clone, PartialEq, Eq, Structural)]
pub struct E(pub u64);
pub struct RandomCoinError;
pub uninterp spec fn nth_draw(k: int) -> E;
pub struct Coin { pub count: Ghost<int> }
impl Coin {
    #[verifier::external_body]
    pub fn draw(&mut self) -> (r: Result<E, RandomCoinError>)
        ensures
            r is Ok ==> final(self).count@ == old(self).count@ + 1 && r->Ok_0 == nth_draw(old(self).count@),
            r is Err ==> final(self).count@ == old(self).count@,
    { unimplemented!() }
}
pub uninterp spec fn ilog2_spec(x: usize) -> u32;
#[verifier::external_body]
pub fn ilog2(x: usize) -> (r: u32) requires x >= 1 ensures r == ilog2_spec(x), r < 64 { x.ilog2() }

pub struct LagrangeConstraintsCompositionCoefficients { pub transition: Vec<E>, pub boundary: E }
pub struct ConstraintCompositionCoefficients { pub transition: Vec<E>, pub boundary: Vec<E>, pub lagrange: Option<LagrangeConstraintsCompositionCoefficients> }
pub struct DeepCompositionCoefficients { pub trace: Vec<E>, pub constraints: Vec<E>, pub lagrange: Option<E> }

pub struct AirDouble {
    pub num_transition_constraints: usize,
    pub num_assertions: usize,
    pub has_lagrange: bool,
    pub trace_len: usize,
    pub width: usize,
    pub num_composition_columns: usize,
}
impl AirDouble {
    pub fn num_transition_constraints(&self) -> (r: usize) ensures r == self.num_transition_constraints { self.num_transition_constraints }
    pub fn num_assertions(&self) -> (r: usize) ensures r == self.num_assertions { self.num_assertions }
    pub fn has_lagrange_kernel_aux_column(&self) -> (r: bool) ensures r == self.has_lagrange { self.has_lagrange }
    pub fn trace_len(&self) -> (r: usize) ensures r == self.trace_len { self.trace_len }
    pub fn width(&self) -> (r: usize) ensures r == self.width { self.width }
    pub fn num_constraint_composition_columns(&self) -> (r: usize) ensures r == self.num_composition_columns { self.num_composition_columns }

    //@@ source air/src/air/mod.rs
    //@@ extract anchor="fn get_constraint_composition_coefficients<E, R>("
    //@@ rewrite "self.context()." => "self."
    //@@ rewrite "self.trace_len().ilog2()" => "ilog2(self.trace_len())"
    //@@ rewrite-re "for _ in" => "for _k in"
    //@@ rewrite "let mut t_coefficients = Vec::new();" => "let mut t_coefficients: Vec<E> = Vec::new();"
    //@@ rewrite "let mut b_coefficients = Vec::new();" => "let mut b_coefficients: Vec<E> = Vec::new();"
    //@@ rewrite "let mut lagrange_kernel_t_coefficients = Vec::new();" => "let mut lagrange_kernel_t_coefficients: Vec<E> = Vec::new();"
    //@@ loop 1
    //@@|            invariant
    //@@|                public_coin.count@ == c0 + _k, t_coefficients@.len() == _k,
    //@@|                forall|i: int| 0 <= i < _k ==> #[trigger] t_coefficients@[i] == nth_draw(c0 + i),
    //@@ loop 2
    //@@|            invariant
    //@@|                t_coefficients@.len() == self.num_transition_constraints,
    //@@|                forall|i: int| 0 <= i < t_coefficients@.len() ==> #[trigger] t_coefficients@[i] == nth_draw(c0 + i),
    //@@|                public_coin.count@ == c0 + self.num_transition_constraints + _k, b_coefficients@.len() == _k,
    //@@|                forall|i: int| 0 <= i < _k ==> #[trigger] b_coefficients@[i] == nth_draw(c0 + self.num_transition_constraints + i),
    //@@ loop 3
    //@@|            invariant
    //@@|                public_coin.count@ == c0 + self.num_transition_constraints + self.num_assertions + _k, lagrange_kernel_t_coefficients@.len() == _k,
    //@@|                forall|i: int| 0 <= i < _k ==> #[trigger] lagrange_kernel_t_coefficients@[i] == nth_draw(c0 + self.num_transition_constraints + self.num_assertions + i),
    pub fn get_constraint_composition_coefficients(&self, public_coin: &mut Coin) -> (r: Result<ConstraintCompositionCoefficients, RandomCoinError>)
        requires self.trace_len >= 1
        ensures
            r is Ok ==> {
                let c0 = old(public_coin).count@;
                let t = self.num_transition_constraints as int;
                let a = self.num_assertions as int;
                let l = ilog2_spec(self.trace_len) as int;
                &&& r->Ok_0.transition@.len() == t && r->Ok_0.boundary@.len() == a
                &&& forall|i: int| 0 <= i < t ==> #[trigger] r->Ok_0.transition@[i] == nth_draw(c0 + i)
                &&& forall|i: int| 0 <= i < a ==> #[trigger] r->Ok_0.boundary@[i] == nth_draw(c0 + t + i)
                &&& (self.has_lagrange <==> r->Ok_0.lagrange is Some)
                &&& (self.has_lagrange ==> r->Ok_0.lagrange->Some_0.transition@.len() == l
                        && (forall|i: int| 0 <= i < l ==> #[trigger] r->Ok_0.lagrange->Some_0.transition@[i] == nth_draw(c0 + t + a + i))
                        && r->Ok_0.lagrange->Some_0.boundary == nth_draw(c0 + t + a + l)
                        && final(public_coin).count@ == c0 + t + a + l + 1)
                &&& (!self.has_lagrange ==> final(public_coin).count@ == c0 + t + a)
            },
    {
        let ghost c0 = public_coin.count@;
        /*@@body*/
    }

    //@@ extract anchor="fn get_deep_composition_coefficients<E, R>("
    //@@ rewrite "self.context()." => "self."
    //@@ rewrite "self.trace_info().width()" => "self.width()"
    //@@ rewrite-re "for _ in" => "for _k in"
    //@@ rewrite "let mut t_coefficients = Vec::new();" => "let mut t_coefficients: Vec<E> = Vec::new();"
    //@@ rewrite "let mut c_coefficients = Vec::new();" => "let mut c_coefficients: Vec<E> = Vec::new();"
    //@@ loop 1
    //@@|            invariant
    //@@|                public_coin.count@ == c0 + _k, t_coefficients@.len() == _k,
    //@@|                forall|i: int| 0 <= i < _k ==> #[trigger] t_coefficients@[i] == nth_draw(c0 + i),
    //@@ loop 2
    //@@|            invariant
    //@@|                t_coefficients@.len() == self.width,
    //@@|                forall|i: int| 0 <= i < t_coefficients@.len() ==> #[trigger] t_coefficients@[i] == nth_draw(c0 + i),
    //@@|                public_coin.count@ == c0 + self.width + _k, c_coefficients@.len() == _k,
    //@@|                forall|i: int| 0 <= i < _k ==> #[trigger] c_coefficients@[i] == nth_draw(c0 + self.width + i),
    pub fn get_deep_composition_coefficients(&self, public_coin: &mut Coin) -> (r: Result<DeepCompositionCoefficients, RandomCoinError>)
        ensures
            r is Ok ==> {
                let c0 = old(public_coin).count@;
                let w = self.width as int;
                let m = self.num_composition_columns as int;
                &&& r->Ok_0.trace@.len() == w && r->Ok_0.constraints@.len() == m
                &&& forall|i: int| 0 <= i < w ==> #[trigger] r->Ok_0.trace@[i] == nth_draw(c0 + i)
                &&& forall|i: int| 0 <= i < m ==> #[trigger] r->Ok_0.constraints@[i] == nth_draw(c0 + w + i)
                &&& (self.has_lagrange <==> r->Ok_0.lagrange is Some)
                &&& (self.has_lagrange ==> r->Ok_0.lagrange->Some_0 == nth_draw(c0 + w + m) && final(public_coin).count@ == c0 + w + m + 1)
                &&& (!self.has_lagrange ==> final(public_coin).count@ == c0 + w + m)
            },
    {
        let ghost c0 = public_coin.count@;
        /*@@body*/
    }
}

proof fn coeffv_canary_must_fail()
    ensures nth_draw(0) == nth_draw(1)
{
}

} // verus!
fn main() {}
