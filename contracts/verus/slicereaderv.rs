// Verus unit slicereaderv: the in-memory reader every decoder and the streaming reader are measured against (C13, C06, C12) -
// SliceReader::{new, read_u8, peek_u8, read_slice, read_array, check_eor, has_more_bytes} (utils/core/src/serde/byte_reader.rs),
// bodies cut out of /repo.
// Decided, for EVERY byte slice, position and requested length (lengths up to usize::MAX included):
//   the reader is the sequential reader of its byte string: an operation that asks for k bytes returns Ok exactly when k bytes
//   are left (k <= len - pos), then returns bytes pos .. pos + k of the source and advances the position by k; otherwise it
//   returns UnexpectedEOF and the position is unchanged; peek_u8 / check_eor / has_more_bytes never move the position;
//   the representation invariant pos <= len is kept by every operation; no arithmetic overflow, no out-of-range index -
//   i.e. no panic - for any length.
// Literal rewrite (listed): `result.copy_from_slice(&self.source[a..b])` becomes `copy_from(&mut result, &self.source[a..b])`, a
// shim with the contract of <[u8]>::copy_from_slice for equal lengths. The return type of read_slice names the lifetime of the
// source (`&'a [u8]`) where the trait method ties it to the borrow of the reader; the body is unchanged.
use vstd::prelude::*;
verus! {
global size_of usize == 8;

pub enum DeserializationError { UnexpectedEOF, InvalidValue, UnknownError }

pub struct SliceReader<'a> { pub source: &'a [u8], pub pos: usize }

// the second conjunct is a fact about every Rust slice (its length is a usize); `new` establishes it from the exec length
pub open spec fn wf(r: SliceReader) -> bool { r.pos <= r.source@.len() && r.source@.len() <= usize::MAX }
pub open spec fn left(r: SliceReader) -> int { r.source@.len() - r.pos }

#[verifier::external_body]
pub fn copy_from<const N: usize>(dst: &mut [u8; N], src: &[u8])
    requires src@.len() == N
    ensures final(dst)@ == src@
{ dst.copy_from_slice(src) }

impl<'a> SliceReader<'a> {
    //@@ source utils/core/src/serde/byte_reader.rs
    //@@ extract anchor="pub fn new(source: &'a [u8]) -> Self" within="impl<'a> SliceReader<'a>"
    pub fn new(source: &'a [u8]) -> (r: Self)
        ensures wf(r), r.pos == 0, r.source@ == source@
    {
        let ghost n = source.len();
        proof { assert(source@.len() == n as int); }
        /*@@body*/
    }

    //@@ extract anchor="fn check_eor(&self, num_bytes: usize) -> Result<(), DeserializationError>" within="impl<'a> ByteReader for SliceReader<'a>"
    pub fn check_eor(&self, num_bytes: usize) -> (r: Result<(), DeserializationError>)
        requires wf(*self)
        ensures
            r is Ok <==> num_bytes <= left(*self),
            r is Err ==> r->Err_0 is UnexpectedEOF,
    {
        /*@@body*/
    }

    //@@ extract anchor="fn read_u8(&mut self) -> Result<u8, DeserializationError>" within="impl<'a> ByteReader for SliceReader<'a>"
    pub fn read_u8(&mut self) -> (r: Result<u8, DeserializationError>)
        requires wf(*old(self))
        ensures
            wf(*final(self)), final(self).source == old(self).source,
            r is Ok <==> left(*old(self)) >= 1,
            r is Ok ==> r->Ok_0 == old(self).source@[old(self).pos as int] && final(self).pos == old(self).pos + 1,
            r is Err ==> r->Err_0 is UnexpectedEOF && final(self).pos == old(self).pos,
    {
        /*@@body*/
    }

    //@@ extract anchor="fn peek_u8(&self) -> Result<u8, DeserializationError>" within="impl<'a> ByteReader for SliceReader<'a>"
    pub fn peek_u8(&self) -> (r: Result<u8, DeserializationError>)
        requires wf(*self)
        ensures
            r is Ok <==> left(*self) >= 1,
            r is Ok ==> r->Ok_0 == self.source@[self.pos as int],
            r is Err ==> r->Err_0 is UnexpectedEOF,
    {
        /*@@body*/
    }

    //@@ extract anchor="fn read_slice(&mut self, len: usize) -> Result<&[u8], DeserializationError>" within="impl<'a> ByteReader for SliceReader<'a>"
    pub fn read_slice(&mut self, len: usize) -> (r: Result<&'a [u8], DeserializationError>)
        requires wf(*old(self))
        ensures
            wf(*final(self)), final(self).source == old(self).source,
            r is Ok <==> len <= left(*old(self)),
            r is Ok ==> r->Ok_0@ == old(self).source@.subrange(old(self).pos as int, old(self).pos + len) && final(self).pos == old(self).pos + len,
            r is Err ==> r->Err_0 is UnexpectedEOF && final(self).pos == old(self).pos,
    {
        /*@@body*/
    }

    //@@ extract anchor="fn read_array<const N: usize>(&mut self) -> Result<[u8; N], DeserializationError>" within="impl<'a> ByteReader for SliceReader<'a>"
    //@@ rewrite "result.copy_from_slice(" => "copy_from(&mut result, "
    pub fn read_array<const N: usize>(&mut self) -> (r: Result<[u8; N], DeserializationError>)
        requires wf(*old(self))
        ensures
            wf(*final(self)), final(self).source == old(self).source,
            r is Ok <==> N <= left(*old(self)),
            r is Ok ==> r->Ok_0@ == old(self).source@.subrange(old(self).pos as int, old(self).pos + N) && final(self).pos == old(self).pos + N,
            r is Err ==> r->Err_0 is UnexpectedEOF && final(self).pos == old(self).pos,
    {
        /*@@body*/
    }

    //@@ extract anchor="fn has_more_bytes(&self) -> bool" within="impl<'a> ByteReader for SliceReader<'a>"
    pub fn has_more_bytes(&self) -> (r: bool)
        requires wf(*self)
        ensures r <==> left(*self) >= 1
    {
        /*@@body*/
    }
}

// the sequential-reader reading of the contracts (specification level): two reads of a and b bytes return what one read of
// a + b bytes returns, split at a - the reader has no state but its position
proof fn lemma_reads_compose(s: Seq<u8>, p: int, a: int, b: int)
    requires 0 <= p, 0 <= a, 0 <= b, p + a + b <= s.len()
    ensures s.subrange(p, p + a) + s.subrange(p + a, p + a + b) == s.subrange(p, p + a + b)
{
    assert(s.subrange(p, p + a) + s.subrange(p + a, p + a + b) =~= s.subrange(p, p + a + b));
}

proof fn slicereaderv_canary_must_fail(r: SliceReader)
    requires wf(r)
    ensures left(r) >= 1
{
}

} // verus!
fn main() {}
