// Verus unit extinv: the generic inversion of QuadExtension<B> / CubeExtension<B>
// (math/src/field/extensions/{quadratic,cubic}.rs) against an abstract base field B.
// Decided: the control structure and the formula - zero (all coefficients zero) maps to itself, every
// other element x to numerator(x) * inv(norm(x)[0]) with numerator = product of the non-trivial
// conjugates and norm = x * numerator, and the code's own debug assertions (the norm lies in the base
// field). Assumed (algebra, listed): that norm lies in the base field, and that this formula is the inverse.
use vstd::prelude::*;
use vstd::std_specs::ops::*;

verus! {

#[derive(Copy, Clone, PartialEq, Eq, Structural)]
pub struct B(pub u64);

pub uninterp spec fn mul_of(a: B, b: B) -> B;
pub uninterp spec fn inv_of(a: B) -> B;
pub uninterp spec fn frob2_of(x: [B; 2]) -> [B; 2];
pub uninterp spec fn mul2_of(a: [B; 2], b: [B; 2]) -> [B; 2];
pub uninterp spec fn frob3_of(x: [B; 3]) -> [B; 3];
pub uninterp spec fn mul3_of(a: [B; 3], b: [B; 3]) -> [B; 3];

impl MulSpecImpl<B> for B {
    open spec fn obeys_mul_spec() -> bool { true }
    open spec fn mul_req(self, rhs: B) -> bool { true }
    open spec fn mul_spec(self, rhs: B) -> B { mul_of(self, rhs) }
}
impl core::ops::Mul for B { type Output = Self; #[verifier::external_body] fn mul(self, rhs: Self) -> Self { unimplemented!() } }

impl B {
    pub const ZERO: B = B(0);
    #[verifier::external_body] pub fn inv(self) -> (r: B) ensures r == inv_of(self) { unimplemented!() }
    #[verifier::external_body] pub fn ext2_frobenius(x: [B; 2]) -> (r: [B; 2]) ensures r == frob2_of(x) { unimplemented!() }
    #[verifier::external_body] pub fn ext2_mul(a: [B; 2], b: [B; 2]) -> (r: [B; 2]) ensures r == mul2_of(a, b) { unimplemented!() }
    #[verifier::external_body] pub fn ext3_frobenius(x: [B; 3]) -> (r: [B; 3]) ensures r == frob3_of(x) { unimplemented!() }
    #[verifier::external_body] pub fn ext3_mul(a: [B; 3], b: [B; 3]) -> (r: [B; 3]) ensures r == mul3_of(a, b) { unimplemented!() }
}

// algebraic facts assumed about every supported base field (norm of an element lies in the base field)
pub open spec fn num2(x: [B; 2]) -> [B; 2] { frob2_of(x) }
pub open spec fn norm2(x: [B; 2]) -> [B; 2] { mul2_of(x, num2(x)) }
pub open spec fn num3(x: [B; 3]) -> [B; 3] { mul3_of(frob3_of(x), frob3_of(frob3_of(x))) }
pub open spec fn norm3(x: [B; 3]) -> [B; 3] { mul3_of(x, num3(x)) }
#[verifier::external_body] pub proof fn ax_norm2(x: [B; 2]) ensures norm2(x)[1] == B::ZERO {}
#[verifier::external_body] pub proof fn ax_norm3(x: [B; 3]) ensures norm3(x)[1] == B::ZERO, norm3(x)[2] == B::ZERO {}

#[derive(Copy, Clone, PartialEq, Eq, Structural)]
pub struct QuadExtension(pub B, pub B);
#[derive(Copy, Clone, PartialEq, Eq, Structural)]
pub struct CubeExtension(pub B, pub B, pub B);

impl QuadExtension {
    pub const ZERO: QuadExtension = QuadExtension(B::ZERO, B::ZERO);

    //@@ source math/src/field/extensions/quadratic.rs
    //@@ extract within="impl<B: ExtensibleField<2>> FieldElement for QuadExtension<B>" anchor="fn inv(self) -> Self"
    //@@ rewrite "<B as ExtensibleField<2>>::" => "B::ext2_"
    //@@ rewrite-re "debug_assert_eq!\(([^,]+), ([^,]+), \"[^\"]*\"\);" => "assert(\1 == \2);"
    pub fn inv(self) -> (r: Self)
        ensures
            (self.0 == B::ZERO && self.1 == B::ZERO) ==> r == self,
            !(self.0 == B::ZERO && self.1 == B::ZERO) ==> ({
                let x = [self.0, self.1];
                let d = inv_of(norm2(x)[0]);
                r == QuadExtension(mul_of(num2(x)[0], d), mul_of(num2(x)[1], d))
            }),
    {
        proof { ax_norm2([self.0, self.1]); }
        /*@@body*/
    }
}

impl CubeExtension {
    pub const ZERO: CubeExtension = CubeExtension(B::ZERO, B::ZERO, B::ZERO);

    //@@ source math/src/field/extensions/cubic.rs
    //@@ extract within="impl<B: ExtensibleField<3>> FieldElement for CubeExtension<B>" anchor="fn inv(self) -> Self"
    //@@ rewrite "<B as ExtensibleField<3>>::" => "B::ext3_"
    //@@ rewrite-re "debug_assert_eq!\(([^,]+), ([^,]+), \"[^\"]*\"\);" => "assert(\1 == \2);"
    pub fn inv(self) -> (r: Self)
        ensures
            (self.0 == B::ZERO && self.1 == B::ZERO && self.2 == B::ZERO) ==> r == self,
            !(self.0 == B::ZERO && self.1 == B::ZERO && self.2 == B::ZERO) ==> ({
                let x = [self.0, self.1, self.2];
                let d = inv_of(norm3(x)[0]);
                r == CubeExtension(mul_of(num3(x)[0], d), mul_of(num3(x)[1], d), mul_of(num3(x)[2], d))
            }),
    {
        proof { ax_norm3([self.0, self.1, self.2]); }
        /*@@body*/
    }
}

proof fn extinv_canary_must_fail()
    ensures forall|a: B| inv_of(a) == a
{
}

} // verus!

fn main() {}
