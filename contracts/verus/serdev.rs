// Verus unit serdev: the length-prefixed container (de)serializers of utils/core/src/serde - ByteReader::read_many,
// ByteWriter::write_many, <Vec<T> as Serializable>::write_into, <Vec<T> as Deserializable>::read_from - bodies cut out of
// /repo, for EVERY vector length and EVERY element type.
// The reader is abstract (a ghost sequence of bytes not yet consumed), the element type is abstract: its encoder / decoder are
// the uninterpreted functions enc_t / dec_t, and the element-level round trip `elem_rt()` - dec_t(enc_t(x) ++ rest) ==
// (x, rest), what the Kani contracts of C12 prove for the concrete element types - is a HYPOTHESIS of the round-trip theorem,
// not an axiom; likewise `usize_rt()` for the vint64 length prefix (proved by Kani for every u64: utils_usize_roundtrip).
// Decided:
//   read_many(n)    returns exactly what n successive element decodings return (dec_many), consuming exactly those bytes;
//                   Err exactly when one of them fails; the pre-allocation is bounded whatever n is
//   write_many      appends the concatenation of the element encodings, in order
//   Vec::write_into appends enc_usize(len) ++ the element encodings;  Vec::read_from decodes a length, then that many elements
//   theorem_vec_roundtrip   read_from(write_into(v) ++ rest) == Ok(v) with exactly `rest` left, for every v and rest
// Not decided here: BTreeMap / BTreeSet / String / Option / array / tuple impls (bounded stand-in serde_native, Kani bounded).
use vstd::prelude::*;
verus! {
global size_of usize == 8;

#[derive(Copy, Clone, PartialEq, Eq, Structural)]
pub struct T(pub u64);
pub uninterp spec fn enc_t(x: T) -> Seq<u8>;
pub uninterp spec fn dec_t(s: Seq<u8>) -> Option<(T, Seq<u8>)>;
pub uninterp spec fn enc_usize(v: usize) -> Seq<u8>;
pub uninterp spec fn dec_usize(s: Seq<u8>) -> Option<(usize, Seq<u8>)>;

#[verifier::opaque]
pub open spec fn elem_rt() -> bool { forall|x: T, rest: Seq<u8>| dec_t(#[trigger] (enc_t(x) + rest)) == Some((x, rest)) }
#[verifier::opaque]
pub open spec fn usize_rt() -> bool { forall|v: usize, rest: Seq<u8>| dec_usize(#[trigger] (enc_usize(v) + rest)) == Some((v, rest)) }

pub struct DeserializationError;
pub struct Reader { pub rem: Ghost<Seq<u8>> }
pub struct Writer { pub out: Ghost<Seq<u8>> }

// n successive element decodings
pub open spec fn dec_many(s: Seq<u8>, n: nat) -> Option<(Seq<T>, Seq<u8>)>
    decreases n
{
    if n == 0 { Some((Seq::<T>::empty(), s)) } else {
        match dec_t(s) {
            None => None,
            Some((x, r1)) => match dec_many(r1, (n - 1) as nat) {
                None => None,
                Some((xs, r2)) => Some((seq![x] + xs, r2)),
            },
        }
    }
}
// the same with an accumulator in front (what the loop of read_many maintains)
pub open spec fn dec_acc(acc: Seq<T>, s: Seq<u8>, n: nat) -> Option<(Seq<T>, Seq<u8>)> {
    match dec_many(s, n) { None => None, Some((xs, r)) => Some((acc + xs, r)) }
}
proof fn lemma_dec_step(acc: Seq<T>, s: Seq<u8>, n: nat)
    requires n >= 1
    ensures
        dec_t(s) is None ==> dec_acc(acc, s, n) is None,
        dec_t(s) is Some ==> dec_acc(acc, s, n) == dec_acc(acc.push(dec_t(s)->Some_0.0), dec_t(s)->Some_0.1, (n - 1) as nat),
{
    if dec_t(s) is Some {
        let x = dec_t(s)->Some_0.0;
        let r1 = dec_t(s)->Some_0.1;
        match dec_many(r1, (n - 1) as nat) {
            None => {},
            Some((xs, r2)) => { assert(acc + (seq![x] + xs) =~= acc.push(x) + xs); },
        }
    }
}

pub open spec fn enc_many(v: Seq<T>) -> Seq<u8>
    decreases v.len()
{
    if v.len() == 0 { Seq::<u8>::empty() } else { enc_many(v.drop_last()) + enc_t(v.last()) }
}

impl T {
    // contract of an element's Deserializable::read_from: it is the decoder dec_t on the unread bytes
    #[verifier::external_body]
    pub fn read_from(source: &mut Reader) -> (r: Result<T, DeserializationError>)
        ensures
            r is Ok <==> dec_t(old(source).rem@) is Some,
            r is Ok ==> r->Ok_0 == dec_t(old(source).rem@)->Some_0.0 && final(source).rem@ == dec_t(old(source).rem@)->Some_0.1,
    { unimplemented!() }
    // contract of an element's Serializable::write_into: it appends enc_t
    #[verifier::external_body]
    pub fn write_into(&self, target: &mut Writer)
        ensures final(target).out@ == old(target).out@ + enc_t(*self)
    { unimplemented!() }
}

#[verifier::external_body]
pub fn size_of_elem() -> (r: usize) { unimplemented!() }
pub fn max_usize(a: usize, b: usize) -> (r: usize) ensures r == (if a > b { a } else { b }) { if a > b { a } else { b } }
pub fn min_usize(a: usize, b: usize) -> (r: usize) ensures r == (if a < b { a } else { b }) { if a < b { a } else { b } }

impl Reader {
    // contract of ByteReader::read_usize (vint64; proved by Kani for SliceReader on every u64)
    #[verifier::external_body]
    pub fn read_usize(&mut self) -> (r: Result<usize, DeserializationError>)
        ensures
            r is Ok <==> dec_usize(old(self).rem@) is Some,
            r is Ok ==> r->Ok_0 == dec_usize(old(self).rem@)->Some_0.0 && final(self).rem@ == dec_usize(old(self).rem@)->Some_0.1,
    { unimplemented!() }

    //@@ source utils/core/src/serde/byte_reader.rs
    //@@ extract anchor="fn read_many<D>(&mut self, num_elements: usize) -> Result<Vec<D>, DeserializationError>"
    //@@ rewrite "core::cmp::max(core::mem::size_of::<D>(), 1)" => "max_usize(size_of_elem(), 1)"
    //@@ rewrite "core::cmp::min(num_elements, max_prealloc)" => "min_usize(num_elements, max_prealloc)"
    //@@ rewrite "for _ in 0..num_elements {" => "for k in 0..num_elements {"
    //@@ rewrite "D::read_from(self)?" => "T::read_from(self)?"
    //@@ rewrite "let mut result = Vec::with_capacity" => "let mut result: Vec<T> = Vec::with_capacity"
    //@@ before "let mut result"
    //@@|        proof { assert((if num_elements < max_prealloc { num_elements } else { max_prealloc }) <= 4096); }   // the allocation request is bounded whatever the (untrusted) count is
    //@@ loop 1
    //@@|            invariant
    //@@|                result.len() == k, s0 == old(self).rem@,
    //@@|                dec_acc(result@, self.rem@, (num_elements - k) as nat) == dec_many(s0, num_elements as nat),
    //@@|            ensures
    //@@|                result.len() == num_elements,
    //@@|                dec_many(s0, num_elements as nat) == Some((result@, self.rem@)),
    //@@ loopstart 1
    //@@|            proof { lemma_dec_step(result@, self.rem@, (num_elements - k) as nat); }
    pub fn read_many(&mut self, num_elements: usize) -> (r: Result<Vec<T>, DeserializationError>)
        ensures
            r is Ok <==> dec_many(old(self).rem@, num_elements as nat) is Some,
            r is Ok ==> r->Ok_0.len() == num_elements
                && dec_many(old(self).rem@, num_elements as nat) == Some((r->Ok_0@, final(self).rem@)),
    {
        let ghost s0 = self.rem@;
        proof { assert(Seq::<T>::empty() + dec_many(s0, num_elements as nat)->Some_0.0 =~= dec_many(s0, num_elements as nat)->Some_0.0); }
        /*@@body*/
    }
}

impl Writer {
    // contract of ByteWriter::write_usize (vint64; proved by Kani for every u64)
    #[verifier::external_body]
    pub fn write_usize(&mut self, value: usize)
        ensures final(self).out@ == old(self).out@ + enc_usize(value)
    { unimplemented!() }

    //@@ source utils/core/src/serde/byte_writer.rs
    //@@ extract anchor="fn write_many<S, T>(&mut self, elements: T)"
    //@@ rewrite "for element in elements {" => "for element in elements.iter() {"
    //@@ itername 1 it
    //@@ loop 1
    //@@|            invariant
    //@@|                0 <= it.index@ <= elements@.len(),
    //@@|                self.out@ == old(self).out@ + enc_many(elements@.take(it.index@)),
    //@@ loopend 1
    //@@|            proof {
    //@@|                lemma_enc_take(elements@, it.index@);
    //@@|                assert(*element == elements@[it.index@]);
    //@@|                assert((old(self).out@ + enc_many(elements@.take(it.index@))) + enc_t(*element) =~= old(self).out@ + (enc_many(elements@.take(it.index@)) + enc_t(*element)));
    //@@|            }
    pub fn write_many(&mut self, elements: &Vec<T>)
        ensures final(self).out@ == old(self).out@ + enc_many(elements@)
    {
        proof { assert(elements@.take(0) =~= Seq::<T>::empty()); assert(old(self).out@ + Seq::<u8>::empty() =~= old(self).out@); }
        /*@@body*/
        proof { assert(elements@.take(elements@.len() as int) =~= elements@); }
    }
}

proof fn lemma_enc_take(v: Seq<T>, k: int)
    requires 0 <= k < v.len()
    ensures enc_many(v.take(k + 1)) == enc_many(v.take(k)) + enc_t(v[k])
{
    assert(v.take(k + 1).drop_last() =~= v.take(k));
    assert(v.take(k + 1).last() == v[k]);
}

pub struct VecT { pub v: Vec<T> }
impl VecT {
    //@@ source utils/core/src/serde/mod.rs
    //@@ extract anchor="fn write_into<W: ByteWriter>(&self, target: &mut W)" within="impl<T: Serializable> Serializable for Vec<T>"
    //@@ rewrite "self.len()" => "self.v.len()"
    //@@ rewrite "target.write_many(self);" => "target.write_many(&self.v);"
    pub fn write_into(&self, target: &mut Writer)
        ensures final(target).out@ == old(target).out@ + enc_usize(self.v.len()) + enc_many(self.v@)
    {
        /*@@body*/
    }

    //@@ extract anchor="fn read_from<R: ByteReader>(source: &mut R) -> Result<Self, DeserializationError>" within="impl<T: Deserializable> Deserializable for Vec<T>"
    //@@ rewrite "source.read_many(len)" => "VecT::wrap(source.read_many(len))"
    pub fn read_from(source: &mut Reader) -> (r: Result<VecT, DeserializationError>)
        ensures
            r is Ok <==> dec_vec(old(source).rem@) is Some,
            r is Ok ==> dec_vec(old(source).rem@) == Some((r->Ok_0.v@, final(source).rem@)),
    {
        /*@@body*/
    }

    // the wrapper type stands for Vec<T> itself (`Self` in the source)
    pub fn wrap(r: Result<Vec<T>, DeserializationError>) -> (w: Result<VecT, DeserializationError>)
        ensures r is Ok <==> w is Ok, r is Ok ==> w->Ok_0.v == r->Ok_0
    {
        match r { Ok(v) => Ok(VecT { v }), Err(e) => Err(e) }
    }
}

// a length prefix, then that many elements
pub open spec fn dec_vec(s: Seq<u8>) -> Option<(Seq<T>, Seq<u8>)> {
    match dec_usize(s) { None => None, Some((len, r1)) => dec_many(r1, len as nat) }
}

proof fn lemma_many_roundtrip(v: Seq<T>, rest: Seq<u8>)
    requires elem_rt()
    ensures dec_many(enc_many(v) + rest, v.len()) == Some((v, rest))
    decreases v.len()
{
    if v.len() == 0 {
        assert(enc_many(v) + rest =~= rest);
        assert(v =~= Seq::<T>::empty());
    } else {
        // peel the LAST element off the encoding, the FIRST off the decoding: generalise through dec_acc
        lemma_many_front(v, rest);
    }
}

// enc_many is defined from the back, dec_many from the front: enc_many(v) == enc_t(v[0]) ++ enc_many(v[1..])
proof fn lemma_enc_front(v: Seq<T>)
    requires v.len() >= 1
    ensures enc_many(v) == enc_t(v[0]) + enc_many(v.subrange(1, v.len() as int))
    decreases v.len()
{
    let tail = v.subrange(1, v.len() as int);
    if v.len() == 1 {
        assert(v.drop_last() =~= Seq::<T>::empty());
        assert(tail =~= Seq::<T>::empty());
        assert(enc_many(v) == enc_many(v.drop_last()) + enc_t(v.last()));
        assert(Seq::<u8>::empty() + enc_t(v[0]) =~= enc_t(v[0]) + Seq::<u8>::empty());
    } else {
        lemma_enc_front(v.drop_last());
        assert(v.drop_last().subrange(1, v.len() - 1) =~= tail.drop_last());
        assert(tail.last() == v.last());
        assert(enc_many(tail) == enc_many(tail.drop_last()) + enc_t(tail.last()));
        assert((enc_t(v[0]) + enc_many(tail.drop_last())) + enc_t(v.last()) =~= enc_t(v[0]) + (enc_many(tail.drop_last()) + enc_t(v.last())));
    }
}

proof fn lemma_many_front(v: Seq<T>, rest: Seq<u8>)
    requires elem_rt(), v.len() >= 1
    ensures dec_many(enc_many(v) + rest, v.len()) == Some((v, rest))
    decreases v.len(), 0int
{
    let tail = v.subrange(1, v.len() as int);
    lemma_enc_front(v);
    assert((enc_t(v[0]) + enc_many(tail)) + rest =~= enc_t(v[0]) + (enc_many(tail) + rest));
    reveal(elem_rt);
    assert(dec_t(enc_t(v[0]) + (enc_many(tail) + rest)) == Some((v[0], enc_many(tail) + rest)));
    lemma_many_roundtrip(tail, rest);
    assert(seq![v[0]] + tail =~= v);
}

// THEOREM (container round trip, every length): what Vec::write_into appends decodes back to the same vector, and exactly
// the bytes that followed remain
pub proof fn theorem_vec_roundtrip(v: Seq<T>, rest: Seq<u8>)
    requires elem_rt(), usize_rt(), v.len() <= usize::MAX
    ensures dec_vec(enc_usize(v.len() as usize) + enc_many(v) + rest) == Some((v, rest))
{
    reveal(usize_rt);
    assert(enc_usize(v.len() as usize) + enc_many(v) + rest =~= enc_usize(v.len() as usize) + (enc_many(v) + rest));
    lemma_many_roundtrip(v, rest);
}

proof fn serdev_canary_must_fail(v: Seq<T>, rest: Seq<u8>)
    requires v.len() >= 1
    ensures dec_many(enc_many(v) + rest, v.len()) == Some((v, rest))
{
}

} // verus!

fn main() {}
