// Verus unit contextv: the number of columns the constraint composition polynomial is committed in (C17) -
// TransitionConstraintDegree::get_evaluation_degree (air/src/air/transition/degree.rs) and
// AirContext::num_constraint_composition_columns (air/src/air/context.rs), bodies cut out of /repo.
// Decided, for every trace length, every list of constraint degrees (with any cycle lengths) and every exemption count:
//   get_evaluation_degree   is base * (n - 1) + the sum over the cycles of (n / cycle) * (cycle - 1);
//   num_constraint_composition_columns   with d = (highest evaluation degree) - (n - exemptions) the degree of the quotient by the
//                 transition divisor, the result c is the LEAST c >= 1 with c * n >= d + 1: the c columns of n coefficients hold all
//                 d + 1 coefficients of the composition polynomial (nothing is cut off) and no column is surplus.
// Second part (below): AirContext::set_num_transition_exemptions and theorem_columns_fit.
// Literal rewrites (listed): the loop header `for degree in self.main…iter().chain(self.aux…iter())` becomes a loop over
// `chain_degs(main, aux)` - a shim for Iterator::chain whose assumed contract is "the first list followed by the second";
// `for cycle_length in self.cycles.iter()` binds the dereferenced value (Verus has no arithmetic on `&usize`);
// `cmp::max` is a shim with the contract of core::cmp::max.
// Machine arithmetic is checked (no overflow / underflow) under the stated preconditions: degrees whose evaluation degree plus n
// fits a usize, a non-empty list of main degrees with base >= 1 (AirContext::new and TransitionConstraintDegree::new assert both),
// 1 <= exemptions <= n (set_num_transition_exemptions asserts it).
use vstd::prelude::*;
verus! {
global size_of usize == 8;

pub struct TransitionConstraintDegree { pub base: usize, pub cycles: Vec<usize> }

pub open spec fn cyc_sum(c: Seq<usize>, n: int, upto: nat) -> int
    decreases upto
{
    if upto == 0 { 0 } else { cyc_sum(c, n, (upto - 1) as nat) + (n / (c[upto - 1] as int)) * (c[upto - 1] as int - 1) }
}
pub open spec fn eval_deg(d: TransitionConstraintDegree, n: int) -> int {
    d.base as int * (n - 1) + cyc_sum(d.cycles@, n, d.cycles@.len())
}
pub open spec fn deg_ok(d: TransitionConstraintDegree, n: int) -> bool {
    &&& d.base >= 1
    &&& forall|j: int| 0 <= j < d.cycles@.len() ==> #[trigger] d.cycles@[j] >= 1
    &&& eval_deg(d, n) + n <= usize::MAX
}

proof fn l_term_bounds(n: int, c: int)
    requires n >= 1, c >= 1
    ensures 0 <= (n / c) * (c - 1) <= n
{
    let q = n / c;
    assert(q >= 0 && q * c <= n) by (nonlinear_arith) requires n >= 1, c >= 1, q == n / c;
    assert(0 <= q * (c - 1) <= q * c) by (nonlinear_arith) requires q >= 0, c >= 1;
}
proof fn l_cyc_mono(c: Seq<usize>, n: int, a: nat, b: nat)
    requires n >= 1, a <= b <= c.len(), forall|j: int| 0 <= j < c.len() ==> #[trigger] c[j] >= 1
    ensures 0 <= cyc_sum(c, n, a) <= cyc_sum(c, n, b)
    decreases b
{
    if a == 0 && b == 0 {
    } else if a == b {
        l_cyc_mono(c, n, 0, (b - 1) as nat);
        l_term_bounds(n, c[b - 1] as int);
    } else {
        l_cyc_mono(c, n, a, (b - 1) as nat);
        l_term_bounds(n, c[b - 1] as int);
    }
}

impl TransitionConstraintDegree {
    //@@ source air/src/air/transition/degree.rs
    //@@ extract anchor="pub fn get_evaluation_degree(&self, trace_length: usize) -> usize"
    //@@ rewrite "for cycle_length in self.cycles.iter() {" => "for cycle_ref in self.cycles.iter() { let cycle_length = *cycle_ref;"
    //@@ before "let mut result"
    //@@|        proof {
    //@@|            l_cyc_mono(self.cycles@, trace_length as int, 0, self.cycles@.len());
    //@@|            assert(0 <= self.base as int * (trace_length as int - 1)) by (nonlinear_arith) requires self.base >= 1, trace_length >= 1;
    //@@|        }
    //@@ itername 1 it
    //@@ loop 1
    //@@|            invariant
    //@@|                trace_length >= 1, deg_ok(*self, trace_length as int),
    //@@|                0 <= it.index@ <= self.cycles@.len(),
    //@@|                result == self.base as int * (trace_length as int - 1) + cyc_sum(self.cycles@, trace_length as int, it.index@ as nat),
    //@@ loopstart 1
    //@@|            proof {
    //@@|                assert(*cycle_ref == self.cycles@[it.index@]);
    //@@|                l_term_bounds(trace_length as int, self.cycles@[it.index@] as int);
    //@@|                l_cyc_mono(self.cycles@, trace_length as int, (it.index@ + 1) as nat, self.cycles@.len());
    //@@|            }
    pub fn get_evaluation_degree(&self, trace_length: usize) -> (r: usize)
        requires trace_length >= 1, deg_ok(*self, trace_length as int)
        ensures r == eval_deg(*self, trace_length as int)
    {
        /*@@body*/
    }
}

// the highest evaluation degree among the first `upto` degrees (0 for none)
pub open spec fn max_deg(s: Seq<TransitionConstraintDegree>, n: int, upto: nat) -> int
    decreases upto
{
    if upto == 0 { 0 } else {
        let m = max_deg(s, n, (upto - 1) as nat);
        let e = eval_deg(s[upto - 1], n);
        if e > m { e } else { m }
    }
}
proof fn l_max_ge(s: Seq<TransitionConstraintDegree>, n: int, upto: nat, j: int)
    requires 0 <= j < upto <= s.len()
    ensures max_deg(s, n, upto) >= eval_deg(s[j], n)
    decreases upto
{
    if j < upto - 1 { l_max_ge(s, n, (upto - 1) as nat, j); }
}
proof fn l_max_le(s: Seq<TransitionConstraintDegree>, n: int, upto: nat)
    requires upto <= s.len(), 1 <= n <= usize::MAX, forall|j: int| 0 <= j < s.len() ==> deg_ok(#[trigger] s[j], n)
    ensures 0 <= max_deg(s, n, upto) <= usize::MAX - n
    decreases upto
{
    if upto > 0 {
        l_max_le(s, n, (upto - 1) as nat);
        let d = s[upto - 1];
        assert(deg_ok(d, n));
        assert(eval_deg(d, n) + n <= usize::MAX);
    }
}

pub struct AirContext {
    pub main_transition_constraint_degrees: Vec<TransitionConstraintDegree>,
    pub aux_transition_constraint_degrees: Vec<TransitionConstraintDegree>,
    pub trace_len: usize,
    pub num_transition_exemptions: usize,
}
// std shim: a.iter().chain(b.iter()) visits the elements of a, then those of b
#[verifier::external_body]
pub fn chain_degs<'a>(a: &'a Vec<TransitionConstraintDegree>, b: &'a Vec<TransitionConstraintDegree>) -> (r: Vec<&'a TransitionConstraintDegree>)
    ensures r@.len() == a@.len() + b@.len(), forall|j: int| 0 <= j < r@.len() ==> *(#[trigger] r@[j]) == (a@ + b@)[j]
{ a.iter().chain(b.iter()).collect() }
#[allow(non_camel_case_types)]
pub struct cmp;
impl cmp {
    pub fn max(a: usize, b: usize) -> (r: usize) ensures r == (if a >= b { a } else { b }) { if a >= b { a } else { b } }
}

pub open spec fn all_degs(c: AirContext) -> Seq<TransitionConstraintDegree> {
    c.main_transition_constraint_degrees@ + c.aux_transition_constraint_degrees@
}
// degree of the composition polynomial: the highest evaluation degree minus the degree of the transition divisor
pub open spec fn quotient_degree(c: AirContext) -> int {
    max_deg(all_degs(c), c.trace_len as int, all_degs(c).len()) - (c.trace_len as int - c.num_transition_exemptions as int)
}

impl AirContext {
    pub fn trace_len(&self) -> (r: usize) ensures r == self.trace_len { self.trace_len }
    pub fn num_transition_exemptions(&self) -> (r: usize) ensures r == self.num_transition_exemptions { self.num_transition_exemptions }
    // the other accessors of the context a changed body may reach for (one-line getters of the source, contracts assumed)
    pub fn trace_poly_degree(&self) -> (r: usize) requires self.trace_len >= 1 ensures r == self.trace_len - 1 { self.trace_len - 1 }

    //@@ source air/src/air/context.rs
    //@@ extract anchor="pub fn num_constraint_composition_columns(&self) -> usize"
    //@@ rewrite-re "for degree in self\s*\.main_transition_constraint_degrees\s*\.iter\(\)\s*\.chain\(self\.aux_transition_constraint_degrees\.iter\(\)\)\s*\{" => "let all_degrees = chain_degs(&self.main_transition_constraint_degrees, &self.aux_transition_constraint_degrees); for degree_ref in all_degrees.iter() { let degree = *degree_ref;"
    //@@ itername 1 it
    //@@ loop 1
    //@@|            invariant
    //@@|                self.trace_len >= 1,
    //@@|                all_degrees@.len() == all_degs(*self).len(),
    //@@|                forall|j: int| 0 <= j < all_degrees@.len() ==> *(#[trigger] all_degrees@[j]) == all_degs(*self)[j],
    //@@|                forall|j: int| 0 <= j < all_degs(*self).len() ==> deg_ok(#[trigger] all_degs(*self)[j], self.trace_len as int),
    //@@|                0 <= it.index@ <= all_degrees@.len(),
    //@@|                highest_constraint_degree == max_deg(all_degs(*self), self.trace_len as int, it.index@ as nat),
    //@@ loopstart 1
    //@@|            proof { assert(*degree_ref == all_degrees@[it.index@]); assert(**degree_ref == all_degs(*self)[it.index@]); }
    //@@ before "let trace_length"
    //@@|        proof {
    //@@|            let n = self.trace_len as int;
    //@@|            l_max_le(all_degs(*self), n, all_degs(*self).len());
    //@@|            l_max_ge(all_degs(*self), n, all_degs(*self).len(), 0);
    //@@|            let d0 = all_degs(*self)[0];
    //@@|            assert(deg_ok(d0, n));
    //@@|            l_cyc_mono(d0.cycles@, n, 0, d0.cycles@.len());
    //@@|            assert(d0.base as int * (n - 1) >= n - 1) by (nonlinear_arith) requires d0.base >= 1, n >= 1;
    //@@|        }
    //@@ tailbind r
    //@@ tail
    //@@|        proof {
    //@@|            let n = self.trace_len as int;
    //@@|            let d = quotient_degree(*self);
    //@@|            let q = (d + n) / n;
    //@@|            assert(num_constraint_col == q);
    //@@|            assert(q * n <= d + n && d + n < (q + 1) * n) by (nonlinear_arith) requires q == (d + n) / n, n >= 1, d >= 0;
    //@@|            assert((q - 1) * n == q * n - n) by (nonlinear_arith);
    //@@|            assert((q + 1) * n == q * n + n) by (nonlinear_arith);
    //@@|        }
    pub fn num_constraint_composition_columns(&self) -> (r: usize)
        requires
            self.trace_len >= 1,
            1 <= self.num_transition_exemptions <= self.trace_len,
            self.main_transition_constraint_degrees@.len() >= 1,
            forall|j: int| 0 <= j < all_degs(*self).len() ==> deg_ok(#[trigger] all_degs(*self)[j], self.trace_len as int),
        ensures
            r >= 1,
            // the r columns of trace_len coefficients hold every one of the quotient_degree + 1 coefficients ...
            r * self.trace_len >= quotient_degree(*self) + 1,
            // ... and with one column fewer they would not (unless a single column is all there is)
            r == 1 || (r - 1) * self.trace_len < quotient_degree(*self) + 1,
    {
        /*@@body*/
    }
}

// ---------------------------------------------------------------------------------------------------------------------
// AirContext::set_num_transition_exemptions (air/src/air/context.rs): the validation of the exemption count. A documented
// panic never returns (`documented_panic`), so the post-condition states what holds WHENEVER the function returns: the count
// is in 1..=n/2+1, the degree of the quotient of EVERY constraint by the transition divisor is at most ce_domain_size - 1
// (so the composition polynomial is determined by its evaluations over the constraint evaluation domain), the count is
// stored and nothing else changes. Literal rewrites (listed): the receiver `mut self` is the parameter `ctx` re-bound
// as `this` (the installed Verus has no `mut self`); `assert!(c, ..)` becomes `if !(c) { documented_panic(); }`; the chain of
// the two degree lists as above.
#[verifier::external_body]
pub fn documented_panic() ensures false { panic!() }

pub struct AirContextFull {
    pub main_transition_constraint_degrees: Vec<TransitionConstraintDegree>,
    pub aux_transition_constraint_degrees: Vec<TransitionConstraintDegree>,
    pub trace_len: usize,
    pub ce_blowup_factor: usize,
    pub num_transition_exemptions: usize,
}
impl AirContextFull {
    pub fn trace_len(&self) -> (r: usize) ensures r == self.trace_len { self.trace_len }
    pub fn ce_domain_size(&self) -> (r: usize)
        requires self.trace_len * self.ce_blowup_factor <= usize::MAX
        ensures r == self.trace_len * self.ce_blowup_factor
    { self.trace_len * self.ce_blowup_factor }
}
pub open spec fn all_degs_full(c: AirContextFull) -> Seq<TransitionConstraintDegree> {
    c.main_transition_constraint_degrees@ + c.aux_transition_constraint_degrees@
}
pub open spec fn ctx_ok(c: AirContextFull) -> bool {
    &&& c.trace_len >= 1
    &&& c.ce_blowup_factor >= 1
    &&& c.trace_len * c.ce_blowup_factor + c.trace_len <= usize::MAX
    &&& forall|j: int| 0 <= j < all_degs_full(c).len() ==> deg_ok(#[trigger] all_degs_full(c)[j], c.trace_len as int)
    // what AirContext::new establishes by choosing ce_blowup_factor >= every degree's min_blowup_factor
    &&& forall|j: int| 0 <= j < all_degs_full(c).len() ==>
            eval_deg(#[trigger] all_degs_full(c)[j], c.trace_len as int) <= c.trace_len * c.ce_blowup_factor - 1 + c.trace_len
}

//@@ source air/src/air/context.rs
//@@ extract anchor="pub fn set_num_transition_exemptions(mut self, n: usize) -> Self"
//@@ rewrite-re "assert!\(\s*(n <= max_exemptions),[^;]*\)(\s*\})" => "if !(\1) { documented_panic(); }\2"
//@@ rewrite-re "assert!\(\s*([^,]+),[^;]*\);" => "if !(\1) { documented_panic(); }"
//@@ rewrite-re "for degree in self\s*\.main_transition_constraint_degrees\s*\.iter\(\)\s*\.chain\(self\.aux_transition_constraint_degrees\.iter\(\)\)\s*\{" => "let all_degrees = chain_degs(&self.main_transition_constraint_degrees, &self.aux_transition_constraint_degrees); for degree_ref in all_degrees.iter() { let degree = *degree_ref;"
//@@ rewrite-re "\bself\b" => "this"
//@@ itername 1 it
//@@ loop 1
//@@|        invariant
//@@|            this == ctx, ctx_ok(ctx),
//@@|            all_degrees@.len() == all_degs_full(ctx).len(),
//@@|            forall|j: int| 0 <= j < all_degrees@.len() ==> *(#[trigger] all_degrees@[j]) == all_degs_full(ctx)[j],
//@@|            0 <= it.index@ <= all_degrees@.len(),
//@@|            forall|j: int| 0 <= j < it.index@ ==>
//@@|                eval_deg(#[trigger] all_degs_full(ctx)[j], ctx.trace_len as int) - (ctx.trace_len - n) <= ctx.trace_len * ctx.ce_blowup_factor - 1,
//@@ loopstart 1
//@@|        proof {
//@@|            assert(*degree_ref == all_degrees@[it.index@]); assert(**degree_ref == all_degs_full(ctx)[it.index@]);
//@@|            assert(ctx.trace_len * ctx.ce_blowup_factor >= 1) by (nonlinear_arith) requires ctx.trace_len >= 1, ctx.ce_blowup_factor >= 1;
//@@|        }
pub fn set_num_transition_exemptions(ctx: AirContextFull, n: usize) -> (r: AirContextFull)
    requires ctx_ok(ctx)
    ensures
        1 <= n <= ctx.trace_len / 2 + 1,
        forall|j: int| 0 <= j < all_degs_full(ctx).len() ==>
            eval_deg(#[trigger] all_degs_full(ctx)[j], ctx.trace_len as int) - (ctx.trace_len - n) <= ctx.trace_len * ctx.ce_blowup_factor - 1,
        r.num_transition_exemptions == n,
        r.main_transition_constraint_degrees == ctx.main_transition_constraint_degrees,
        r.aux_transition_constraint_degrees == ctx.aux_transition_constraint_degrees,
        r.trace_len == ctx.trace_len, r.ce_blowup_factor == ctx.ce_blowup_factor,
{
    let mut this = ctx;
    /*@@body*/
}

// The two contracts together (specification level): for a context that set_num_transition_exemptions returned, the columns
// prescribed by num_constraint_composition_columns fit the constraint evaluation domain - columns <= ce_blowup_factor - so the
// polynomial interpolated from the ce_domain_size evaluations has no coefficient beyond the committed columns and none is cut off.
proof fn theorem_columns_fit(n: int, b: int, d: int, c: int)
    requires
        n >= 1, b >= 1, 0 <= d <= n * b - 1,          // quotient degree at most ce_domain_size - 1 (set_num_transition_exemptions)
        c >= 1, c * n >= d + 1, c == 1 || (c - 1) * n < d + 1,   // num_constraint_composition_columns
    ensures
        c <= b, c * n <= n * b,
{
    if c > b {
        assert((c - 1) * n >= b * n) by (nonlinear_arith) requires c - 1 >= b, n >= 1;
        assert(b * n == n * b) by (nonlinear_arith);
    }
    assert(c * n <= n * b) by (nonlinear_arith) requires c <= b, n >= 1;
}

// ---------------------------------------------------------------------------------------------------------------------
// TransitionConstraintDegree::min_blowup_factor (air/src/air/transition/degree.rs) and what it is for: a constraint
// evaluation domain of n * min_blowup_factor points accommodates the quotient of the constraint by the default divisor, and
// leaves the head-room ctx_ok asks for. `usize::next_power_of_two` is a std shim (assumed: the result is >= its argument).
pub struct ProofOptions { pub blowup: usize }
impl ProofOptions {
    pub const MIN_BLOWUP_FACTOR: usize = 2;
    pub fn blowup_factor(&self) -> (r: usize) ensures r == self.blowup { self.blowup }
}
pub uninterp spec fn npot_spec(x: usize) -> usize;
#[verifier::external_body]
pub fn next_power_of_two(x: usize) -> (r: usize)
    requires x <= usize::MAX / 2
    ensures r == npot_spec(x), r >= x, r >= 1
{ x.next_power_of_two() }
pub open spec fn min_blowup_spec(d: TransitionConstraintDegree) -> usize {
    let p = npot_spec(degree_bound(d) as usize);
    if p >= 2 { p } else { 2 }
}

pub open spec fn degree_bound(d: TransitionConstraintDegree) -> int { d.base as int + d.cycles@.len() - 1 }

proof fn l_cyc_le(c: Seq<usize>, n: int, upto: nat)
    requires n >= 1, upto <= c.len(), forall|j: int| 0 <= j < c.len() ==> #[trigger] c[j] >= 1
    ensures cyc_sum(c, n, upto) <= upto * (n - 1)
    decreases upto
{
    if upto > 0 {
        l_cyc_le(c, n, (upto - 1) as nat);
        let cl = c[upto - 1] as int;
        let q = n / cl;
        // a positive term has q >= 1, and q * (cl - 1) = q * cl - q <= n - 1
        assert(q >= 0 && q * cl <= n) by (nonlinear_arith) requires n >= 1, cl >= 1, q == n / cl;
        assert(q * (cl - 1) == q * cl - q) by (nonlinear_arith);
        if q == 0 { assert(q * (cl - 1) == 0) by (nonlinear_arith) requires q == 0; }
        assert(upto * (n - 1) == (upto - 1) * (n - 1) + (n - 1)) by (nonlinear_arith);
    }
}
// the evaluation degree is at most (base + number of cycles) * (n - 1), which a blowup of at least base + cycles - 1 accommodates
proof fn l_eval_deg_fits(d: TransitionConstraintDegree, n: int, b: int)
    requires n >= 1, d.base >= 1, forall|j: int| 0 <= j < d.cycles@.len() ==> #[trigger] d.cycles@[j] >= 1, b >= degree_bound(d), b >= 1
    ensures
        eval_deg(d, n) <= (degree_bound(d) + 1) * (n - 1),
        // the quotient by the default divisor (degree n - 1) fits the constraint evaluation domain ...
        eval_deg(d, n) - (n - 1) <= n * b - 1,
        // ... and the head-room ctx_ok asks for
        eval_deg(d, n) <= n * b - 1 + n,
{
    l_cyc_le(d.cycles@, n, d.cycles@.len());
    let k = d.cycles@.len() as int;
    assert(d.base as int * (n - 1) + k * (n - 1) == (degree_bound(d) + 1) * (n - 1)) by (nonlinear_arith) requires degree_bound(d) == d.base as int + k - 1;
    assert((degree_bound(d) + 1) * (n - 1) <= (b + 1) * (n - 1)) by (nonlinear_arith) requires b >= degree_bound(d), n >= 1;
    assert((b + 1) * (n - 1) == n * b - b + n - 1) by (nonlinear_arith);
}

impl TransitionConstraintDegree {
    //@@ source air/src/air/transition/degree.rs
    //@@ extract anchor="pub fn min_blowup_factor(&self) -> usize"
    //@@ rewrite "degree_bound.next_power_of_two()" => "next_power_of_two(degree_bound)"
    pub fn min_blowup_factor(&self) -> (r: usize)
        requires self.base >= 1, self.base + self.cycles@.len() <= usize::MAX / 2
        ensures r == min_blowup_spec(*self), r >= degree_bound(*self), r >= 2
    {
        /*@@body*/
    }
}

// ---------------------------------------------------------------------------------------------------------------------
// AirContext::new_multi_segment (air/src/air/context.rs): whenever the constructor returns, the constraint-evaluation blowup
// is at least every constraint's degree bound (base + cycles - 1) and at least 2, the LDE blowup is at least as large, there
// is at least one main constraint degree, the degree lists are stored unchanged and the exemption count is 1. With
// l_eval_deg_fits this is the last conjunct of ctx_ok, i.e. what set_num_transition_exemptions and the column count rely on.
// Shims (assumed contracts, named): TraceInfo accessors, `usize::ilog2`, `B::get_root_of_unity` (uninterpreted results).
pub struct TraceInfo { pub length: usize, pub multi: bool, pub aux_width: usize }
impl TraceInfo {
    pub fn length(&self) -> (r: usize) ensures r == self.length { self.length }
    pub fn is_multi_segment(&self) -> (r: bool) ensures r == self.multi { self.multi }
    pub fn get_aux_segment_width(&self) -> (r: usize) ensures r == self.aux_width { self.aux_width }
}
#[derive(Copy, Clone)]
pub struct B(pub u64);
pub uninterp spec fn root_of(k: u32) -> B;
impl B {
    #[verifier::external_body]
    pub fn get_root_of_unity(k: u32) -> (r: B) ensures r == root_of(k) { unimplemented!() }
}
pub uninterp spec fn ilog2_spec(x: usize) -> u32;
#[verifier::external_body]
pub fn ilog2(x: usize) -> (r: u32) requires x >= 1 ensures r == ilog2_spec(x) { x.ilog2() }

pub struct AirContextNew {
    pub options: ProofOptions,
    pub trace_info: TraceInfo,
    pub main_transition_constraint_degrees: Vec<TransitionConstraintDegree>,
    pub aux_transition_constraint_degrees: Vec<TransitionConstraintDegree>,
    pub num_main_assertions: usize,
    pub num_aux_assertions: usize,
    pub lagrange_kernel_aux_column_idx: Option<usize>,
    pub ce_blowup_factor: usize,
    pub trace_domain_generator: B,
    pub lde_domain_generator: B,
    pub num_transition_exemptions: usize,
}
pub open spec fn deg_small(d: TransitionConstraintDegree) -> bool { d.base >= 1 && d.base + d.cycles@.len() <= usize::MAX / 2 }

//@@ source air/src/air/context.rs
//@@ extract anchor="pub fn new_multi_segment("
//@@ rewrite-re "(?s)assert!\(\s*([^,]+),.*?\);" => "if !(\1) { documented_panic(); }"
//@@ before "let lde_domain_size"
//@@|        proof { assert(trace_info.length * options.blowup >= 1) by (nonlinear_arith) requires trace_info.length >= 1, options.blowup >= 1; }
//@@ rewrite "AirContext {" => "AirContextNew {"
//@@ rewrite "trace_length.ilog2()" => "ilog2(trace_length)"
//@@ rewrite "lde_domain_size.ilog2()" => "ilog2(lde_domain_size)"
//@@ itername 1 it1
//@@ loop 1
//@@|        invariant
//@@|            0 <= it1.index@ <= main_transition_constraint_degrees@.len(),
//@@|            forall|j: int| 0 <= j < main_transition_constraint_degrees@.len() ==> deg_small(#[trigger] main_transition_constraint_degrees@[j]),
//@@|            forall|j: int| 0 <= j < it1.index@ ==> ce_blowup_factor >= degree_bound(#[trigger] main_transition_constraint_degrees@[j]),
//@@|            it1.index@ >= 1 ==> ce_blowup_factor >= 2,
//@@ loopstart 1
//@@|        proof { assert(*degree == main_transition_constraint_degrees@[it1.index@]); }
//@@ itername 2 it2
//@@ loop 2
//@@|        invariant
//@@|            0 <= it2.index@ <= aux_transition_constraint_degrees@.len(),
//@@|            forall|j: int| 0 <= j < aux_transition_constraint_degrees@.len() ==> deg_small(#[trigger] aux_transition_constraint_degrees@[j]),
//@@|            forall|j: int| 0 <= j < main_transition_constraint_degrees@.len() ==> ce_blowup_factor >= degree_bound(#[trigger] main_transition_constraint_degrees@[j]),
//@@|            forall|j: int| 0 <= j < it2.index@ ==> ce_blowup_factor >= degree_bound(#[trigger] aux_transition_constraint_degrees@[j]),
//@@|            ce_blowup_factor >= 2,
//@@ loopstart 2
//@@|        proof { assert(*degree == aux_transition_constraint_degrees@[it2.index@]); }
pub fn new_multi_segment(
    trace_info: TraceInfo,
    main_transition_constraint_degrees: Vec<TransitionConstraintDegree>,
    aux_transition_constraint_degrees: Vec<TransitionConstraintDegree>,
    num_main_assertions: usize,
    num_aux_assertions: usize,
    lagrange_kernel_aux_column_idx: Option<usize>,
    options: ProofOptions,
) -> (r: AirContextNew)
    requires
        trace_info.length >= 1, options.blowup >= 1, trace_info.length * options.blowup <= usize::MAX,
        trace_info.aux_width >= 1 || lagrange_kernel_aux_column_idx is None,
        forall|j: int| 0 <= j < main_transition_constraint_degrees@.len() ==> deg_small(#[trigger] main_transition_constraint_degrees@[j]),
        forall|j: int| 0 <= j < aux_transition_constraint_degrees@.len() ==> deg_small(#[trigger] aux_transition_constraint_degrees@[j]),
    ensures
        r.main_transition_constraint_degrees == main_transition_constraint_degrees,
        r.aux_transition_constraint_degrees == aux_transition_constraint_degrees,
        r.main_transition_constraint_degrees@.len() >= 1,
        r.num_main_assertions == num_main_assertions, num_main_assertions >= 1,
        r.num_aux_assertions == num_aux_assertions,
        trace_info.multi ==> r.aux_transition_constraint_degrees@.len() >= 1 && num_aux_assertions >= 1,
        !trace_info.multi ==> r.aux_transition_constraint_degrees@.len() == 0 && num_aux_assertions == 0,
        r.num_transition_exemptions == 1,
        r.ce_blowup_factor >= 2, r.options.blowup >= r.ce_blowup_factor,
        forall|j: int| 0 <= j < main_transition_constraint_degrees@.len() ==> r.ce_blowup_factor >= degree_bound(#[trigger] main_transition_constraint_degrees@[j]),
        forall|j: int| 0 <= j < aux_transition_constraint_degrees@.len() ==> r.ce_blowup_factor >= degree_bound(#[trigger] aux_transition_constraint_degrees@[j]),
        r.trace_info == trace_info, r.options == options,
        r.lagrange_kernel_aux_column_idx == lagrange_kernel_aux_column_idx,
        lagrange_kernel_aux_column_idx is Some ==> lagrange_kernel_aux_column_idx->0 == trace_info.aux_width - 1,
{
    /*@@body*/
}

// canary: must FAIL (a column count that is always 1 is not what the contract says)
proof fn contextv_canary_must_fail(c: AirContext)
    requires c.trace_len >= 1
    ensures quotient_degree(c) + 1 <= c.trace_len
{
}

} // verus!
fn main() {}
