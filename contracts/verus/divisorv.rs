// Verus unit divisorv: boundary-constraint divisors of air/src/air/divisor.rs for EVERY power-of-two trace length and every
// well-formed assertion. Bodies cut out of /repo: ConstraintDivisor::from_assertion, get_trace_domain_value_at.
// The field is abstract (uninterpreted multiplication; monoid laws `blaws()` as a hypothesis).
// Decided:
//   from_assertion   returns the divisor x^k - g^(k * first_step) (no exemptions), k = the number of asserted steps, g the
//                    trace-domain generator returned by get_root_of_unity(log2 n); the offset is 1 when first_step == 0
//   theorem_zero_set   for every step i < n: (g^i)^k == g^(k * first_step)  <==>  i is one of the asserted steps
//                    (i == first_step for a single assertion, i mod stride == first_step otherwise) - relative to
//                    `ord_ok(g, n)`: g^a == g^b <==> a == b (mod n), i.e. g has order exactly n (what C07 proves for
//                    get_root_of_unity of the three fields), stated as a hypothesis
// Assumed (listed): the contract of Assertion::get_num_steps on a validated assertion (Kani: air_assertion_* harnesses);
// get_root_of_unity / exp contracts (C07).
use vstd::prelude::*;
use vstd::arithmetic::div_mod::*;
use vstd::arithmetic::mul::*;
use vstd::std_specs::ops::*;
verus! {
global size_of usize == 8;

#[derive(Copy, Clone, PartialEq, Eq, Structural)]
pub struct B(pub u64);
pub uninterp spec fn mul_b(a: B, b: B) -> B;
pub uninterp spec fn one_b() -> B;

#[verifier::opaque]
pub open spec fn blaws() -> bool {
    &&& forall|a: B, b: B, c: B| mul_b(mul_b(a, b), c) == mul_b(a, mul_b(b, c))
    &&& forall|a: B| mul_b(a, one_b()) == a
    &&& forall|a: B| mul_b(one_b(), a) == a
}
proof fn l_mul_assoc(a: B, b: B, c: B) requires blaws() ensures mul_b(mul_b(a, b), c) == mul_b(a, mul_b(b, c)) { reveal(blaws); }
proof fn l_mul_one_r(a: B) requires blaws() ensures mul_b(a, one_b()) == a { reveal(blaws); }

pub open spec fn pw(w: B, e: nat) -> B
    decreases e
{
    if e == 0 { one_b() } else { mul_b(pw(w, (e - 1) as nat), w) }
}
proof fn l_pw_add(w: B, a: nat, b: nat)
    requires blaws()
    ensures pw(w, a + b) == mul_b(pw(w, a), pw(w, b))
    decreases b
{
    if b == 0 {
        l_mul_one_r(pw(w, a));
    } else {
        l_pw_add(w, a, (b - 1) as nat);
        assert(pw(w, a + b) == mul_b(pw(w, (a + b - 1) as nat), w));
        l_mul_assoc(pw(w, a), pw(w, (b - 1) as nat), w);
    }
}
proof fn l_pw_mul(w: B, a: nat, b: nat)
    requires blaws()
    ensures pw(pw(w, a), b) == pw(w, a * b)
    decreases b
{
    if b == 0 {
        assert(a * b == 0) by (nonlinear_arith) requires b == 0;
    } else {
        l_pw_mul(w, a, (b - 1) as nat);
        assert(a * b == a * (b - 1) + a) by (nonlinear_arith) requires b >= 1;
        assert(a * (b - 1) >= 0) by (nonlinear_arith) requires b >= 1, a >= 0;
        l_pw_add(w, (a * (b - 1)) as nat, a);
        assert(pw(pw(w, a), b) == mul_b(pw(pw(w, a), (b - 1) as nat), pw(w, a)));
    }
}

// g has multiplicative order exactly n
pub open spec fn ord_ok(g: B, n: int) -> bool {
    n > 0 && forall|a: nat, b: nat| (#[trigger] pw(g, a) == #[trigger] pw(g, b)) <==> (a as int) % n == (b as int) % n
}

pub open spec fn log2f(n: int) -> int
    decreases n
{
    if n <= 1 { 0 } else { 1 + log2f(n / 2) }
}
pub assume_specification [usize::ilog2] (x: usize) -> (r: u32)
    requires x > 0
    ensures r == log2f(x as int);
pub uninterp spec fn root_spec(k: int) -> B;
pub struct PI(pub u64);
impl PI {
    // `<u64 as Into<B::PositiveInteger>>::into`
    #[verifier::external_body]
    pub fn from_u64(x: u64) -> (r: PI) ensures r.0 == x { unimplemented!() }
}
impl B {
    #[verifier::external_body]
    pub fn one() -> (r: B) ensures r == one_b() { unimplemented!() }
    #[verifier::external_body]
    pub fn get_root_of_unity(k: u32) -> (r: B) ensures r == root_spec(k as int) { unimplemented!() }
    #[verifier::external_body]
    pub fn exp(self, power: PI) -> (r: B) ensures r == pw(self, power.0 as nat) { unimplemented!() }
}

// the shape of a validated assertion (what Assertion::single / periodic / sequence + validate_trace_length establish; Kani)
pub struct Assertion { pub column: usize, pub first_step: usize, pub stride: usize, pub num_values: usize }
pub open spec fn is_single(a: Assertion) -> bool { a.stride == 0 }
pub open spec fn valid(a: Assertion, n: int) -> bool {
    if is_single(a) { a.num_values == 1 && a.first_step < n }
    else { a.stride >= 2 && a.first_step < a.stride && n % (a.stride as int) == 0 && (a.num_values == 1 || a.num_values as int == n / (a.stride as int)) }
}
pub open spec fn num_steps(a: Assertion, n: int) -> int { if is_single(a) { 1 } else { n / (a.stride as int) } }
pub open spec fn asserted(a: Assertion, i: int) -> bool {
    if is_single(a) { i == a.first_step } else { i % (a.stride as int) == a.first_step }
}
impl Assertion {
    #[verifier::external_body]
    pub fn get_num_steps(&self, trace_length: usize) -> (r: usize)
        requires valid(*self, trace_length as int)
        ensures r == num_steps(*self, trace_length as int)
    { unimplemented!() }
}

pub struct ConstraintDivisor { pub numerator: Vec<(usize, B)>, pub exemptions: Vec<B> }

//@@ source air/src/air/divisor.rs
//@@ extract anchor="fn get_trace_domain_value_at<B: StarkField>(trace_length: usize, step: usize) -> B"
//@@ rewrite-re "debug_assert!\(([^,]+),[^;]*\);" => "assert(\1);"
//@@ rewrite "(step as u64).into()" => "PI::from_u64(step as u64)"
fn get_trace_domain_value_at(trace_length: usize, step: usize) -> (r: B)
    requires trace_length > 0, step < trace_length
    ensures r == pw(root_spec(log2f(trace_length as int)), step as nat)
{
    /*@@body*/
}

impl ConstraintDivisor {
    //@@ extract anchor="fn new(numerator: Vec<(usize, B)>, exemptions: Vec<B>) -> Self"
    fn new(numerator: Vec<(usize, B)>, exemptions: Vec<B>) -> (r: Self)
        ensures r.numerator == numerator, r.exemptions == exemptions
    {
        /*@@body*/
    }

    //@@ extract anchor="pub fn from_assertion<E>(assertion: &Assertion<E>, trace_length: usize) -> Self"
    //@@ rewrite "B::ONE" => "B::one()"
    //@@ rewrite "get_trace_domain_value_at::<B>(" => "get_trace_domain_value_at("
    //@@ before "let trace_offset"
    //@@|            proof { lemma_offset_in_range(*assertion, trace_length as int); }
    pub fn from_assertion(assertion: &Assertion, trace_length: usize) -> (r: Self)
        requires valid(*assertion, trace_length as int), trace_length > 0
        ensures
            r.exemptions@.len() == 0,
            r.numerator@.len() == 1,
            r.numerator@[0].0 == num_steps(*assertion, trace_length as int),
            r.numerator@[0].1 == pw(root_spec(log2f(trace_length as int)), (num_steps(*assertion, trace_length as int) * assertion.first_step) as nat),
    {
        proof { lemma_offset_in_range(*assertion, trace_length as int); }
        /*@@body*/
    }
}

// k * first_step stays inside the trace domain (no overflow, get_trace_domain_value_at's pre-condition)
proof fn lemma_offset_in_range(a: Assertion, n: int)
    requires valid(a, n), 0 < n <= usize::MAX
    ensures 0 <= num_steps(a, n) * a.first_step < n, num_steps(a, n) >= 1 || n < a.stride
{
    if is_single(a) {
    } else {
        let s = a.stride as int;
        let k = n / s;
        lemma_fundamental_div_mod(n, s);
        assert(n == s * k);
        assert(k * a.first_step < k * s || k == 0) by (nonlinear_arith) requires 0 <= a.first_step < s, k >= 0;
        assert(k * s == s * k) by (nonlinear_arith);
        assert(k * a.first_step >= 0) by (nonlinear_arith) requires a.first_step >= 0, k >= 0;
        if k == 0 { assert(s * k == 0) by (nonlinear_arith) requires k == 0; assert(false); }
    }
}

// THEOREM: on the trace domain the numerator x^k - g^(k * first_step) vanishes exactly at the asserted steps
pub proof fn theorem_zero_set(a: Assertion, n: int, g: B, i: int)
    requires blaws(), ord_ok(g, n), valid(a, n), 0 <= i < n
    ensures
        (pw(pw(g, i as nat), num_steps(a, n) as nat) == pw(g, (num_steps(a, n) * a.first_step) as nat)) <==> asserted(a, i),
{
    let k = num_steps(a, n);
    let f = a.first_step as int;
    lemma_offset_in_range_any(a, n);
    assert(k >= 1);
    l_pw_mul(g, i as nat, k as nat);
    assert(i * k >= 0) by (nonlinear_arith) requires i >= 0, k >= 0;
    assert(k * f >= 0) by (nonlinear_arith) requires f >= 0, k >= 0;
    // g^(i*k) == g^(k*f)  <==>  i*k == k*f (mod n)
    assert((pw(g, (i * k) as nat) == pw(g, (k * f) as nat)) <==> ((i * k) % n == (k * f) % n));
    if is_single(a) {
        assert(k == 1);
        assert(i * 1 == i && 1 * f == f);
        lemma_small_mod(i as nat, n as nat);
        lemma_small_mod(f as nat, n as nat);
    } else {
        let s = a.stride as int;
        lemma_fundamental_div_mod(n, s);
        assert(n == s * k);
        // (k * i) % (k * s) == k * (i % s)
        lemma_truncate_middle(i, k, s);
        lemma_truncate_middle(f, k, s);
        assert(k * s == n) by (nonlinear_arith) requires n == s * k;
        assert(i * k == k * i) by (nonlinear_arith);
        lemma_small_mod(f as nat, s as nat);
        assert((i * k) % n == k * (i % s));
        assert((k * f) % n == k * f);
        assert((k * (i % s) == k * f) <==> (i % s == f)) by (nonlinear_arith) requires k >= 1;
    }
}

proof fn lemma_offset_in_range_any(a: Assertion, n: int)
    requires valid(a, n), 0 < n
    ensures num_steps(a, n) >= 1
{
    if !is_single(a) {
        let s = a.stride as int;
        lemma_fundamental_div_mod(n, s);
        let k = n / s;
        if k <= 0 { assert(s * k <= 0) by (nonlinear_arith) requires s > 0, k <= 0; assert(false); }
    }
}

// ---------------------------------------------------------------------------------------------------------------------
// ConstraintDivisor::evaluate_at: the product of the numerator terms (x^degree - constant), divided by the product of the
// exemption terms. E is the (extension) field of the evaluation point, abstract; B embeds into it.
#[derive(Copy, Clone, PartialEq, Eq, Structural)]
pub struct E(pub u64);
pub uninterp spec fn e_one() -> E;
pub uninterp spec fn e_sub(a: E, b: E) -> E;
pub uninterp spec fn e_mul(a: E, b: E) -> E;
pub uninterp spec fn e_div(a: E, b: E) -> E;
pub uninterp spec fn e_from(b: B) -> E;
pub uninterp spec fn e_exp(x: E, p: nat) -> E;
pub uninterp spec fn exemptions_product(ex: Seq<B>, x: E) -> E;
pub struct PI32(pub u64);
impl PI32 {
    // `<u32 as Into<E::PositiveInteger>>::into`
    #[verifier::external_body]
    pub fn from_u32(x: u32) -> (r: PI32) ensures r.0 == x { unimplemented!() }
}
impl E {
    #[verifier::external_body]
    pub fn one() -> (r: E) ensures r == e_one() { unimplemented!() }
    #[verifier::external_body]
    pub fn exp(self, power: PI32) -> (r: E) ensures r == e_exp(self, power.0 as nat) { unimplemented!() }
    #[verifier::external_body]
    pub fn from(b: B) -> (r: E) ensures r == e_from(b) { unimplemented!() }
    #[verifier::external_body]
    pub fn sub(self, o: E) -> (r: E) ensures r == e_sub(self, o) { unimplemented!() }
    #[verifier::external_body]
    pub fn mul(self, o: E) -> (r: E) ensures r == e_mul(self, o) { unimplemented!() }
    #[verifier::external_body]
    pub fn div(self, o: E) -> (r: E) ensures r == e_div(self, o) { unimplemented!() }
}
// product of (x^degree - constant) over the first t numerator terms, in order
pub open spec fn num_product(num: Seq<(usize, B)>, x: E, t: nat) -> E
    decreases t
{
    if t == 0 { e_one() } else {
        e_mul(num_product(num, x, (t - 1) as nat), e_sub(e_exp(x, num[t - 1].0 as nat), e_from(num[t - 1].1)))
    }
}
impl ConstraintDivisor {
    // contract of evaluate_exemptions_at (an iterator fold: outside the installed Verus): named, not interpreted
    #[verifier::external_body]
    pub fn evaluate_exemptions_at(&self, x: E) -> (r: E) ensures r == exemptions_product(self.exemptions@, x) { unimplemented!() }

    //@@ extract anchor="pub fn evaluate_at<E: FieldElement<BaseField = B>>(&self, x: E) -> E"
    //@@ rewrite "E::ONE" => "E::one()"
    //@@ rewrite "for (degree, constant) in self.numerator.iter() {" => "for term in self.numerator.iter() { let (degree, constant) = (&term.0, &term.1);"
    //@@ rewrite "(*degree as u32).into()" => "PI32::from_u32(*degree as u32)"
    //@@ rewrite "let v = v - E::from(*constant);" => "let v = v.sub(E::from(*constant));"
    //@@ rewrite "numerator *= v;" => "numerator = numerator.mul(v);"
    //@@ rewrite "numerator / denominator" => "numerator.div(denominator)"
    //@@ itername 1 it
    //@@ loop 1
    //@@|            invariant
    //@@|                0 <= it.index@ <= self.numerator@.len(),
    //@@|                forall|t: int| 0 <= t < self.numerator@.len() ==> (#[trigger] self.numerator@[t]).0 <= u32::MAX,
    //@@|                numerator == num_product(self.numerator@, x, it.index@ as nat),
    //@@ loopstart 1
    //@@|            proof { assert(*term == self.numerator@[it.index@]); }
    pub fn evaluate_at(&self, x: E) -> (r: E)
        requires forall|t: int| 0 <= t < self.numerator@.len() ==> (#[trigger] self.numerator@[t]).0 <= u32::MAX
        ensures r == e_div(num_product(self.numerator@, x, self.numerator@.len()), exemptions_product(self.exemptions@, x))
    {
        /*@@body*/
    }
}

// ---------------------------------------------------------------------------------------------------------------------
// TransitionConstraints::new (air/src/air/transition/mod.rs, C17): the composition coefficients drawn for the transition
// constraints are handed out in order - the first `num_main` to the main constraints, the FOLLOWING `num_aux` to the auxiliary
// ones -, the degrees are the context's, and the divisor is from_transition(trace length, the context's exemption count).
#[derive(Copy, Clone, PartialEq, Eq, Structural)]
pub struct Deg(pub u64);
pub struct AirContext {
    pub main_transition_constraint_degrees: Vec<Deg>,
    pub aux_transition_constraint_degrees: Vec<Deg>,
    pub trace_len: usize,
    pub num_transition_exemptions: usize,
}
// the transition divisor of n steps with k exemptions: numerator x^n - 1, exemption points g^(n-k) .. g^(n-1)
pub open spec fn is_transition_divisor(d: ConstraintDivisor, n: int, k: int) -> bool {
    &&& d.numerator@.len() == 1 && d.numerator@[0].0 == n && d.numerator@[0].1 == one_b()
    &&& d.exemptions@.len() == k
    &&& forall|t: int| 0 <= t < k ==> #[trigger] d.exemptions@[t] == pw(root_spec(log2f(n)), (n - k + t) as nat)
}
// `(lo..hi).map(|step| get_trace_domain_value_at::<B>(n, step)).collect()`: ASSUMED (Iterator::map / collect over a range) to
// apply the function to lo, lo + 1, .., hi - 1 in order; the function's own contract is the one proved above
#[verifier::external_body]
pub fn domain_values(lo: usize, hi: usize, n: usize) -> (r: Vec<B>)
    requires lo <= hi <= n, n > 0
    ensures r@.len() == hi - lo, forall|t: int| 0 <= t < hi - lo ==> #[trigger] r@[t] == pw(root_spec(log2f(n as int)), (lo + t) as nat)
{ unimplemented!() }
impl AirContext {
    #[verifier::external_body]
    pub fn num_transition_constraints(&self) -> (r: usize)
        ensures r == self.main_transition_constraint_degrees.len() + self.aux_transition_constraint_degrees.len()
    { unimplemented!() }
    pub fn trace_len(&self) -> (r: usize) ensures r == self.trace_len { self.trace_len }
    pub fn num_transition_exemptions(&self) -> (r: usize) ensures r == self.num_transition_exemptions { self.num_transition_exemptions }
}
impl ConstraintDivisor {
    //@@ source air/src/air/divisor.rs
    //@@ extract anchor="pub fn from_transition("
    //@@ rewrite-re "\(constraint_enforcement_domain_size - num_exemptions\s*\.\.constraint_enforcement_domain_size\)\s*\.map\(\|step\| get_trace_domain_value_at::<B>\(constraint_enforcement_domain_size, step\)\)\s*\.collect\(\)" => "domain_values(constraint_enforcement_domain_size - num_exemptions, constraint_enforcement_domain_size, constraint_enforcement_domain_size)"
    //@@ rewrite "B::ONE" => "B::one()"
    pub fn from_transition(constraint_enforcement_domain_size: usize, num_exemptions: usize) -> (r: ConstraintDivisor)
        requires constraint_enforcement_domain_size > 0, num_exemptions <= constraint_enforcement_domain_size
        ensures is_transition_divisor(r, constraint_enforcement_domain_size as int, num_exemptions as int)
    {
        /*@@body*/
    }
}

// THEOREM (C16, transition constraints): on the trace domain the numerator x^n - 1 of the transition divisor vanishes at EVERY
// step, and an exemption factor (x - g^j), n - k <= j < n, vanishes at step i exactly when i == j; so the divisor vanishes on
// exactly the steps 0 .. n - k - 1: transition constraints are enforced there and nowhere else. Relative to `g has order n`.
pub proof fn theorem_transition_zero_set(n: int, k: int, g: B, i: int)
    requires blaws(), ord_ok(g, n), 0 <= k <= n, 0 <= i < n
    ensures
        pw(pw(g, i as nat), n as nat) == one_b(),
        (exists|j: int| n - k <= j < n && pw(g, i as nat) == #[trigger] pw(g, j as nat)) <==> i >= n - k,
{
    l_pw_mul(g, i as nat, n as nat);
    assert(i * n >= 0) by (nonlinear_arith) requires i >= 0, n >= 0;
    lemma_mod_multiples_basic(i, n);
    assert((i * n) % n == 0);
    lemma_small_mod(0nat, n as nat);
    assert(pw(g, (i * n) as nat) == pw(g, 0nat));
    if i >= n - k {
        assert(n - k <= i < n && pw(g, i as nat) == pw(g, i as nat));
    } else {
        assert forall|j: int| n - k <= j < n implies pw(g, i as nat) != #[trigger] pw(g, j as nat) by {
            lemma_small_mod(i as nat, n as nat);
            lemma_small_mod(j as nat, n as nat);
        }
    }
}
#[verifier::external_body]
pub fn must_not_panic() requires false { unimplemented!() }
// std shims: Vec::clone, <[T]>::split_at, <[T]>::to_vec
#[verifier::external_body]
pub fn clone_degs(v: &Vec<Deg>) -> (r: Vec<Deg>) ensures r@ == v@ { v.clone() }
#[verifier::external_body]
pub fn split_at_e(s: &[E], mid: usize) -> (r: (&[E], &[E]))
    requires mid <= s.len()
    ensures r.0@ == s@.subrange(0, mid as int), r.1@ == s@.subrange(mid as int, s.len() as int)
{ s.split_at(mid) }
#[verifier::external_body]
pub fn to_vec_e(s: &[E]) -> (r: Vec<E>) ensures r@ == s@ { s.to_vec() }

pub struct TransitionConstraints {
    pub main_constraint_coef: Vec<E>,
    pub main_constraint_degrees: Vec<Deg>,
    pub aux_constraint_coef: Vec<E>,
    pub aux_constraint_degrees: Vec<Deg>,
    pub divisor: ConstraintDivisor,
}
impl TransitionConstraints {
    //@@ source air/src/air/transition/mod.rs
    //@@ extract anchor="pub fn new(context: &AirContext<E::BaseField>, composition_coefficients: &[E]) -> Self"
    //@@ rewrite-re "assert_eq!\(\s*([^,]+),\s*([^,]+),[^;]*\);" => "if !(\1 == \2) { must_not_panic(); }"
    //@@ rewrite "context.main_transition_constraint_degrees.clone()" => "clone_degs(&context.main_transition_constraint_degrees)"
    //@@ rewrite "context.aux_transition_constraint_degrees.clone()" => "clone_degs(&context.aux_transition_constraint_degrees)"
    //@@ rewrite "composition_coefficients.split_at(" => "split_at_e(composition_coefficients, "
    //@@ rewrite "main_constraint_coef.to_vec()" => "to_vec_e(main_constraint_coef)"
    //@@ rewrite "aux_constraint_coef.to_vec()" => "to_vec_e(aux_constraint_coef)"
    pub fn new(context: &AirContext, composition_coefficients: &[E]) -> (r: Self)
        requires
            // the documented pre-condition (the assertion of the source): one coefficient per transition constraint
            composition_coefficients.len() == context.main_transition_constraint_degrees.len() + context.aux_transition_constraint_degrees.len(),
            // what the context's constructors guarantee (unit contextv: the exemption count is in 1..=n/2+1)
            context.trace_len > 0, context.num_transition_exemptions <= context.trace_len,
        ensures
            r.main_constraint_coef@ == composition_coefficients@.subrange(0, context.main_transition_constraint_degrees.len() as int),
            r.aux_constraint_coef@ == composition_coefficients@.subrange(context.main_transition_constraint_degrees.len() as int, composition_coefficients.len() as int),
            r.main_constraint_degrees@ == context.main_transition_constraint_degrees@,
            r.aux_constraint_degrees@ == context.aux_transition_constraint_degrees@,
            is_transition_divisor(r.divisor, context.trace_len as int, context.num_transition_exemptions as int),
    {
        /*@@body*/
    }
}

// ---------------------------------------------------------------------------------------------------------------------
// BoundaryConstraint::evaluate_at (air/src/air/boundary/constraint.rs): trace value minus asserted value, the asserted value
// being the constant for a one-coefficient value polynomial and otherwise the value polynomial evaluated at x * offset
// (offset = the inverse trace-domain generator raised to first_step, stored in poly_offset.1).
pub uninterp spec fn poly_eval(p: Seq<B>, x: E) -> E;
impl MulSpecImpl<E> for E {
    open spec fn obeys_mul_spec() -> bool { true }
    open spec fn mul_req(self, rhs: E) -> bool { true }
    open spec fn mul_spec(self, rhs: E) -> E { e_mul(self, rhs) }
}
impl core::ops::Mul for E { type Output = Self; #[verifier::external_body] fn mul(self, rhs: Self) -> Self { unimplemented!() } }
impl SubSpecImpl<E> for E {
    open spec fn obeys_sub_spec() -> bool { true }
    open spec fn sub_req(self, rhs: E) -> bool { true }
    open spec fn sub_spec(self, rhs: E) -> E { e_sub(self, rhs) }
}
impl core::ops::Sub for E { type Output = Self; #[verifier::external_body] fn sub(self, rhs: Self) -> Self { unimplemented!() } }
#[allow(non_camel_case_types)]
pub struct polynom;
impl polynom {
    // contract of math::polynom::eval (an iterator fold: bounded stand-in poly_native): named, not interpreted
    #[verifier::external_body]
    pub fn eval(p: &Vec<B>, x: E) -> (r: E) ensures r == poly_eval(p@, x) { unimplemented!() }
}
pub struct BoundaryConstraint { pub column: usize, pub poly: Vec<B>, pub poly_offset: (usize, B), pub cc: E }
impl BoundaryConstraint {
    //@@ source air/src/air/boundary/constraint.rs
    //@@ extract anchor="pub fn evaluate_at(&self, x: E, trace_value: E) -> E"
    pub fn evaluate_at(&self, x: E, trace_value: E) -> (r: E)
        requires self.poly.len() >= 1
        ensures
            self.poly.len() == 1 ==> r == e_sub(trace_value, e_from(self.poly@[0])),
            self.poly.len() > 1 ==> r == e_sub(trace_value, poly_eval(self.poly@, e_mul(x, e_from(self.poly_offset.1)))),
    {
        /*@@body*/
    }
}

// ---------------------------------------------------------------------------------------------------------------------
// BoundaryConstraintGroup::evaluate_at (air/src/air/boundary/constraint_group.rs) - what the verifier adds to the
// out-of-domain evaluation for every group: sum over the group's constraints, in order, of
// (trace value of the constraint's column - asserted value) * composition coefficient, divided by the group divisor at x.
pub uninterp spec fn e_zero() -> E;
pub uninterp spec fn e_add(a: E, b: E) -> E;
impl E { pub const ZERO: E = E(0); }
impl AddAssignSpecImpl<E> for E {
    open spec fn obeys_add_assign_spec() -> bool { true }
    open spec fn add_assign_req(&self, rhs: E) -> bool { true }
    open spec fn add_assign_spec(&self, rhs: E) -> &E { &e_add(*self, rhs) }
}
impl core::ops::AddAssign for E { #[verifier::external_body] fn add_assign(&mut self, rhs: Self) { unimplemented!() } }
impl DivSpecImpl<E> for E {
    open spec fn obeys_div_spec() -> bool { true }
    open spec fn div_req(self, rhs: E) -> bool { true }
    open spec fn div_spec(self, rhs: E) -> E { e_div(self, rhs) }
}
impl core::ops::Div for E { type Output = Self; #[verifier::external_body] fn div(self, rhs: Self) -> Self { unimplemented!() } }
impl BoundaryConstraint {
    pub fn column(&self) -> (r: usize) ensures r == self.column { self.column }
    pub fn cc(&self) -> (r: &E) ensures *r == self.cc { &self.cc }
}
pub open spec fn bc_value(c: BoundaryConstraint, x: E, tv: E) -> E {
    if c.poly.len() == 1 { e_sub(tv, e_from(c.poly@[0])) } else { e_sub(tv, poly_eval(c.poly@, e_mul(x, e_from(c.poly_offset.1)))) }
}
pub open spec fn group_sum(cs: Seq<BoundaryConstraint>, state: Seq<E>, x: E, t: nat) -> E
    decreases t
{
    if t == 0 { E::ZERO } else {
        e_add(group_sum(cs, state, x, (t - 1) as nat), e_mul(bc_value(cs[t - 1], x, state[cs[t - 1].column as int]), cs[t - 1].cc))
    }
}
pub struct BoundaryConstraintGroup { pub constraints: Vec<BoundaryConstraint>, pub divisor: ConstraintDivisor }
impl BoundaryConstraintGroup {
    pub fn constraints(&self) -> (r: &Vec<BoundaryConstraint>) ensures r@ == self.constraints@ { &self.constraints }

    //@@ source air/src/air/boundary/constraint_group.rs
    //@@ extract anchor="pub fn evaluate_at(&self, state: &[E], x: E) -> E"
    //@@ itername 1 it
    //@@ loop 1
    //@@|            invariant
    //@@|                0 <= it.index@ <= self.constraints@.len(),
    //@@|                forall|t: int| 0 <= t < self.constraints@.len() ==> (#[trigger] self.constraints@[t]).column < state.len() && self.constraints@[t].poly.len() >= 1,
    //@@|                numerator == group_sum(self.constraints@, state@, x, it.index@ as nat),
    //@@ loopstart 1
    //@@|            proof { assert(*constraint == self.constraints@[it.index@]); }
    pub fn evaluate_at(&self, state: &[E], x: E) -> (r: E)
        requires
            forall|t: int| 0 <= t < self.constraints@.len() ==> (#[trigger] self.constraints@[t]).column < state.len() && self.constraints@[t].poly.len() >= 1,
            forall|t: int| 0 <= t < self.divisor.numerator@.len() ==> (#[trigger] self.divisor.numerator@[t]).0 <= u32::MAX,
        ensures
            r == e_div(group_sum(self.constraints@, state@, x, self.constraints@.len()),
                       e_div(num_product(self.divisor.numerator@, x, self.divisor.numerator@.len()), exemptions_product(self.divisor.exemptions@, x))),
    {
        /*@@body*/
    }
}

proof fn divisorv_canary_must_fail(a: Assertion, n: int, g: B, i: int)
    requires blaws(), ord_ok(g, n), valid(a, n), 0 <= i < n
    ensures pw(pw(g, i as nat), num_steps(a, n) as nat) == pw(g, (num_steps(a, n) * a.first_step) as nat)
{
}

} // verus!

fn main() {}
