// Verus unit fftcore: the butterfly network of math/src/fft/fft_inputs.rs - `fft_in_place`, the core of every
// evaluate_poly* / interpolate_poly* / Segment LDE - body cut out of /repo, for EVERY power-of-two length, EVERY element
// value and EVERY twiddle table. Elements and twiddles are abstract (uninterpreted +, -, * by a base element; nothing is
// assumed about them). Decided: the in-place network with its (count, stride, offset) batching and the MAX_LOOP recursion
// switch computes, on each of the `count` interleaved subsequences it is responsible for, the textbook radix-2
// decimation-in-time recursion `fft` below -
//     fft(s) = s                                                     for one element
//     fft(s)[2k]   = fft(evens(s))[k] + tw[k] * fft(odds(s))[k]     (the product is omitted for k == 0, as in the code)
//     fft(s)[2k+1] = fft(evens(s))[k] - tw[k] * fft(odds(s))[k]
// (outputs in the bit-reversed order that FftInputs::permute - unit fftv - undoes) - and leaves every other position
// untouched. No unwinding bound, no size bound.
// Not decided here: that `fft` equals the discrete Fourier transform when tw[k] = w^bitrev(k) in a field (a property of
// the specification function, not of code; the bounded stand-in fft_native compares the real transforms with direct
// evaluation); the array-of-columns implementation of butterfly / butterfly_twiddle ([[E; N]]).
// Literal rewrites (stated in coverage.extraction): `for offset in offset..(offset + count) {` gets its bounds hoisted into
// two `let`s (the loop variable shadows the parameter the bounds are computed from, which the installed Verus mis-scopes in its
// automatic range invariant); the iterator-adapter loop header
// `for (i, offset) in (offset..last_offset).step_by(2 * stride).enumerate().skip(1) {` becomes
// `for i in 1..(size / 2) { let offset = offset + i * (2 * stride);` (same index / offset pairs, the installed Verus has no
// step_by / enumerate / skip); `debug_assert_eq!(a, b)` becomes `debug_assert!(a == b)`.
// Assumed: usize::is_power_of_two(x) == is_p2(x) (assume_specification); the element-level effect of butterfly /
// butterfly_twiddle on a slice (their three-line bodies are restated as the specification of external_body functions).
use vstd::prelude::*;
verus! {
global size_of usize == 8;

#[derive(Copy, Clone, PartialEq, Eq, Structural)]
pub struct E(pub u64);
#[derive(Copy, Clone, PartialEq, Eq, Structural)]
pub struct B(pub u64);
pub uninterp spec fn add_of(a: E, b: E) -> E;
pub uninterp spec fn sub_of(a: E, b: E) -> E;
pub uninterp spec fn mulb_of(a: E, b: B) -> E;

pub const MAX_LOOP: usize = /*@@expr source="math/src/fft/fft_inputs.rs" anchor="const MAX_LOOP: usize ="*/;

pub open spec fn is_p2(m: int) -> bool
    decreases m
{
    m == 1 || (m > 1 && m % 2 == 0 && is_p2(m / 2))
}
pub assume_specification [usize::is_power_of_two] (x: usize) -> (r: bool)
    ensures r == is_p2(x as int);

pub struct Inputs { pub v: Vec<E> }
pub type I = Inputs;

impl Inputs {
    pub fn len(&self) -> (r: usize) ensures r == self.v.len() { self.v.len() }

    // impl<E: FieldElement> FftInputs<E> for [E]:  temp = self[i]; self[i] = temp + self[j]; self[j] = temp - self[j];
    #[verifier::external_body]
    pub fn butterfly(values: &mut Inputs, offset: usize, stride: usize)
        requires offset + stride < old(values).v.len()
        ensures final(values).v@ == old(values).v@
            .update(offset as int, add_of(old(values).v@[offset as int], old(values).v@[offset + stride]))
            .update(offset + stride, sub_of(old(values).v@[offset as int], old(values).v@[offset + stride]))
    { unimplemented!() }

    // temp = self[i]; self[j] = self[j].mul_base(twiddle); self[i] = temp + self[j]; self[j] = temp - self[j];
    #[verifier::external_body]
    pub fn butterfly_twiddle(values: &mut Inputs, twiddle: B, offset: usize, stride: usize)
        requires offset + stride < old(values).v.len()
        ensures final(values).v@ == old(values).v@
            .update(offset as int, add_of(old(values).v@[offset as int], mulb_of(old(values).v@[offset + stride], twiddle)))
            .update(offset + stride, sub_of(old(values).v@[offset as int], mulb_of(old(values).v@[offset + stride], twiddle)))
    { unimplemented!() }
}

// ---------------------------------------------------------------------------------------------------------------------
// specification: radix-2 decimation in time, outputs in bit-reversed order
pub open spec fn evens(s: Seq<E>) -> Seq<E> { Seq::new((s.len() / 2) as nat, |k: int| s[2 * k]) }
pub open spec fn odds(s: Seq<E>) -> Seq<E> { Seq::new((s.len() / 2) as nat, |k: int| s[2 * k + 1]) }
pub open spec fn comb(e: Seq<E>, o: Seq<E>, tw: Seq<B>, p: int) -> E {
    let k = p / 2;
    let t = if k == 0 { o[0] } else { mulb_of(o[k], tw[k]) };
    if p % 2 == 0 { add_of(e[k], t) } else { sub_of(e[k], t) }
}
pub open spec fn fft(s: Seq<E>, tw: Seq<B>) -> Seq<E>
    decreases s.len()
{
    if s.len() < 2 { s } else {
        let e = fft(evens(s), tw);
        let o = fft(odds(s), tw);
        Seq::new(s.len(), |p: int| comb(e, o, tw, p))
    }
}

// position of element q of the subsequence that starts at o and advances by st
pub open spec fn idx(o: int, q: int, st: int) -> int { o + q * st }
pub open spec fn sub(s: Seq<E>, o: int, st: int, m: int) -> Seq<E> { Seq::new(m as nat, |q: int| s[idx(o, q, st)]) }

// value of position (o, q) after the combination step, from the state v1 that holds the two half-size transforms
pub open spec fn target(v1: Seq<E>, tw: Seq<B>, o: int, st: int, q: int) -> E {
    let k = q / 2;
    let ev = v1[idx(o, 2 * k, st)];
    let od = v1[idx(o, 2 * k + 1, st)];
    let t = if k == 0 { od } else { mulb_of(od, tw[k]) };
    if q % 2 == 0 { add_of(ev, t) } else { sub_of(ev, t) }
}

// pairs (k, o) are combined in the order k = 0, 1, ...; within one k in increasing o. (kk, oo) is the next pair.
pub open spec fn done(o: int, q: int, off0: int, cnt: int, kk: int, oo: int) -> bool {
    off0 <= o < off0 + cnt && (q / 2 < kk || (q / 2 == kk && o < oo))
}
#[verifier::opaque]
pub open spec fn st_ok(v: Seq<E>, v1: Seq<E>, tw: Seq<B>, st: int, m: int, off0: int, cnt: int, kk: int, oo: int) -> bool {
    &&& v.len() == v1.len()
    &&& forall|o: int, q: int| 0 <= o < st && 0 <= q < m ==> #[trigger] v[idx(o, q, st)] ==
            (if done(o, q, off0, cnt, kk, oo) { target(v1, tw, o, st, q) } else { v1[idx(o, q, st)] })
}

proof fn lemma_idx_bounds(o: int, q: int, st: int, m: int)
    requires 0 <= o < st, 0 <= q < m
    ensures 0 <= idx(o, q, st) < m * st
{
    assert(o + q * st < m * st) by (nonlinear_arith) requires 0 <= o < st, 0 <= q < m;
    assert(0 <= q * st) by (nonlinear_arith) requires 0 <= q, 0 < st;
}

proof fn lemma_idx_unique(o: int, q: int, o2: int, q2: int, st: int)
    requires 0 <= o < st, 0 <= o2 < st, idx(o, q, st) == idx(o2, q2, st)
    ensures o == o2 && q == q2
{
    assert(q == q2) by (nonlinear_arith) requires 0 <= o < st, 0 <= o2 < st, o + q * st == o2 + q2 * st;
}

proof fn lemma_p2_half(m: int)
    requires is_p2(m), m > 2
    ensures m % 2 == 0, is_p2(m / 2), m / 2 >= 2
{
    reveal_with_fuel(is_p2, 3);
}

proof fn lemma_st_start(v1: Seq<E>, tw: Seq<B>, st: int, m: int, off0: int, cnt: int)
    ensures st_ok(v1, v1, tw, st, m, off0, cnt, 0, off0)
{
    reveal(st_ok);
}

proof fn lemma_st_next_row(v: Seq<E>, v1: Seq<E>, tw: Seq<B>, st: int, m: int, off0: int, cnt: int, kk: int)
    requires st_ok(v, v1, tw, st, m, off0, cnt, kk, off0 + cnt)
    ensures st_ok(v, v1, tw, st, m, off0, cnt, kk + 1, off0)
{
    reveal(st_ok);
    assert forall|o: int, q: int| 0 <= o < st && 0 <= q < m implies #[trigger] v[idx(o, q, st)] ==
            (if done(o, q, off0, cnt, kk + 1, off0) { target(v1, tw, o, st, q) } else { v1[idx(o, q, st)] }) by {
        assert(done(o, q, off0, cnt, kk + 1, off0) == done(o, q, off0, cnt, kk, off0 + cnt));
    }
}

// one butterfly: the pair (kk, oo) is combined
proof fn lemma_st_step(v: Seq<E>, v2: Seq<E>, v1: Seq<E>, tw: Seq<B>, st: int, m: int, off0: int, cnt: int, kk: int, oo: int, a: int)
    requires
        st_ok(v, v1, tw, st, m, off0, cnt, kk, oo),
        0 < st, 0 <= off0, off0 + cnt <= st, off0 <= oo < off0 + cnt, 0 <= kk, 2 * kk + 1 < m, v.len() == m * st,
        a == idx(oo, 2 * kk, st), a + st == idx(oo, 2 * kk + 1, st),
        v2 == v.update(a, target(v1, tw, oo, st, 2 * kk)).update(a + st, target(v1, tw, oo, st, 2 * kk + 1)),
    ensures
        st_ok(v2, v1, tw, st, m, off0, cnt, kk, oo + 1),
{
    reveal(st_ok);
    lemma_idx_bounds(oo, 2 * kk, st, m);
    lemma_idx_bounds(oo, 2 * kk + 1, st, m);
    assert forall|o: int, q: int| 0 <= o < st && 0 <= q < m implies #[trigger] v2[idx(o, q, st)] ==
            (if done(o, q, off0, cnt, kk, oo + 1) { target(v1, tw, o, st, q) } else { v1[idx(o, q, st)] }) by {
        lemma_idx_bounds(o, q, st, m);
        if idx(o, q, st) == a {
            lemma_idx_unique(o, q, oo, 2 * kk, st);
        } else if idx(o, q, st) == a + st {
            lemma_idx_unique(o, q, oo, 2 * kk + 1, st);
        } else {
            assert(v2[idx(o, q, st)] == v[idx(o, q, st)]);
            if o == oo && q / 2 == kk {
                assert(q == 2 * kk || q == 2 * kk + 1);
                assert(false);
            }
            assert(done(o, q, off0, cnt, kk, oo + 1) == done(o, q, off0, cnt, kk, oo));
        }
    }
}

// what a butterfly reads is still the value of v1 (the pair has not been combined yet)
proof fn lemma_st_read(v: Seq<E>, v1: Seq<E>, tw: Seq<B>, st: int, m: int, off0: int, cnt: int, kk: int, oo: int)
    requires
        st_ok(v, v1, tw, st, m, off0, cnt, kk, oo),
        0 < st, 0 <= off0, off0 + cnt <= st, off0 <= oo < off0 + cnt, 0 <= kk, 2 * kk + 1 < m,
    ensures
        v[idx(oo, 2 * kk, st)] == v1[idx(oo, 2 * kk, st)],
        v[idx(oo, 2 * kk + 1, st)] == v1[idx(oo, 2 * kk + 1, st)],
{
    reveal(st_ok);
    assert(!done(oo, 2 * kk, off0, cnt, kk, oo));
    assert(!done(oo, 2 * kk + 1, off0, cnt, kk, oo));
}

// unfolding the specification once: with the two half-size transforms in place, `target` is the transform
proof fn lemma_target_is_fft(old_v: Seq<E>, v1: Seq<E>, tw: Seq<B>, o: int, st: int, m: int, q: int)
    requires
        0 < st, 0 <= o < st, m >= 2, m % 2 == 0, 0 <= q < m, old_v.len() == m * st, v1.len() == m * st,
        forall|k: int| 0 <= k < m / 2 ==> #[trigger] v1[idx(o, k, 2 * st)] == fft(sub(old_v, o, 2 * st, m / 2), tw)[k],
        forall|k: int| 0 <= k < m / 2 ==> #[trigger] v1[idx(o + st, k, 2 * st)] == fft(sub(old_v, o + st, 2 * st, m / 2), tw)[k],
    ensures
        target(v1, tw, o, st, q) == fft(sub(old_v, o, st, m), tw)[q],
{
    let s = sub(old_v, o, st, m);
    let h = m / 2;
    assert(evens(s) =~= sub(old_v, o, 2 * st, h)) by {
        assert forall|k: int| 0 <= k < h implies evens(s)[k] == sub(old_v, o, 2 * st, h)[k] by {
            assert(idx(o, 2 * k, st) == idx(o, k, 2 * st)) by (nonlinear_arith);
        }
    }
    assert(odds(s) =~= sub(old_v, o + st, 2 * st, h)) by {
        assert forall|k: int| 0 <= k < h implies odds(s)[k] == sub(old_v, o + st, 2 * st, h)[k] by {
            assert(idx(o, 2 * k + 1, st) == idx(o + st, k, 2 * st)) by (nonlinear_arith);
        }
    }
    let k = q / 2;
    assert(idx(o, 2 * k, st) == idx(o, k, 2 * st)) by (nonlinear_arith);
    assert(idx(o, 2 * k + 1, st) == idx(o + st, k, 2 * st)) by (nonlinear_arith);
    assert(0 <= k < h);
    assert(v1[idx(o, k, 2 * st)] == fft(sub(old_v, o, 2 * st, h), tw)[k]);
    assert(v1[idx(o + st, k, 2 * st)] == fft(sub(old_v, o + st, 2 * st, h), tw)[k]);
    assert(fft(s, tw)[q] == comb(fft(evens(s), tw), fft(odds(s), tw), tw, q));
    if k == 0 {
        assert(idx(o + st, 0, 2 * st) == idx(o + st, k, 2 * st));
    }
}

// the contract of the network, as one predicate (v_old -> v_new)
pub open spec fn fft_post(v_old: Seq<E>, v_new: Seq<E>, tw: Seq<B>, cnt: int, st: int, off0: int, m: int) -> bool {
    &&& v_new.len() == v_old.len()
    &&& forall|o: int, q: int| off0 <= o < off0 + cnt && 0 <= q < m ==> #[trigger] v_new[idx(o, q, st)] == fft(sub(v_old, o, st, m), tw)[q]
    &&& forall|o: int, q: int| 0 <= o < st && !(off0 <= o < off0 + cnt) && 0 <= q < m ==> #[trigger] v_new[idx(o, q, st)] == v_old[idx(o, q, st)]
}


// the state after the recursive calls: both half-size transforms of every subsequence are in place
#[verifier::opaque]
pub open spec fn halves_ok(v0: Seq<E>, v1: Seq<E>, tw: Seq<B>, cnt: int, st: int, off0: int, m: int) -> bool {
    &&& v1.len() == v0.len()
    &&& forall|o: int, k: int| off0 <= o < off0 + cnt && 0 <= k < m / 2 ==>
            #[trigger] v1[idx(o, k, 2 * st)] == fft(sub(v0, o, 2 * st, m / 2), tw)[k]
    &&& forall|o: int, k: int| off0 <= o < off0 + cnt && 0 <= k < m / 2 ==>
            #[trigger] v1[idx(o + st, k, 2 * st)] == fft(sub(v0, o + st, 2 * st, m / 2), tw)[k]
    &&& forall|o: int, q: int| 0 <= o < st && !(off0 <= o < off0 + cnt) && 0 <= q < m ==> #[trigger] v1[idx(o, q, st)] == v0[idx(o, q, st)]
}

proof fn lemma_halves_base(v0: Seq<E>, tw: Seq<B>, cnt: int, st: int, off0: int)
    requires 0 < st, 0 <= off0, off0 + cnt <= st, v0.len() == 2 * st
    ensures halves_ok(v0, v0, tw, cnt, st, off0, 2)
{
    reveal(halves_ok);
    assert forall|o: int, k: int| off0 <= o < off0 + cnt && 0 <= k < 1 implies
            #[trigger] v0[idx(o, k, 2 * st)] == fft(sub(v0, o, 2 * st, 1), tw)[k] by {
        assert(sub(v0, o, 2 * st, 1).len() == 1);
    }
    assert forall|o: int, k: int| off0 <= o < off0 + cnt && 0 <= k < 1 implies
            #[trigger] v0[idx(o + st, k, 2 * st)] == fft(sub(v0, o + st, 2 * st, 1), tw)[k] by {
        assert(sub(v0, o + st, 2 * st, 1).len() == 1);
    }
}

// one recursive call over all 2 * cnt interleaved subsequences (stride == count, hence offset == 0)
proof fn lemma_halves_a(v0: Seq<E>, v1: Seq<E>, tw: Seq<B>, st: int, m: int)
    requires 0 < st, m >= 4, m % 2 == 0, v0.len() == m * st, fft_post(v0, v1, tw, 2 * st, 2 * st, 0, m / 2)
    ensures halves_ok(v0, v1, tw, st, st, 0, m)
{
    reveal(halves_ok);
    assert forall|o: int, k: int| 0 <= o < st && 0 <= k < m / 2 implies
            #[trigger] v1[idx(o + st, k, 2 * st)] == fft(sub(v0, o + st, 2 * st, m / 2), tw)[k] by {
        assert(0 <= o + st < 2 * st);
    }
}

// two recursive calls: subsequences starting in [off0, off0 + cnt), then those starting in [off0 + st, off0 + st + cnt)
proof fn lemma_halves_b(v0: Seq<E>, va: Seq<E>, v1: Seq<E>, tw: Seq<B>, cnt: int, st: int, off0: int, m: int)
    requires
        0 < st, 0 <= off0, 1 <= cnt, off0 + cnt <= st, m >= 4, m % 2 == 0, v0.len() == m * st,
        fft_post(v0, va, tw, cnt, 2 * st, off0, m / 2),
        fft_post(va, v1, tw, cnt, 2 * st, off0 + st, m / 2),
    ensures halves_ok(v0, v1, tw, cnt, st, off0, m)
{
    reveal(halves_ok);
    let h = m / 2;
    assert forall|o: int, k: int| off0 <= o < off0 + cnt && 0 <= k < h implies
            #[trigger] v1[idx(o, k, 2 * st)] == fft(sub(v0, o, 2 * st, h), tw)[k] by {
        assert(va[idx(o, k, 2 * st)] == fft(sub(v0, o, 2 * st, h), tw)[k]);
        assert(0 <= o < 2 * st && !(off0 + st <= o < off0 + st + cnt));
        assert(v1[idx(o, k, 2 * st)] == va[idx(o, k, 2 * st)]);
    }
    assert forall|o: int, k: int| off0 <= o < off0 + cnt && 0 <= k < h implies
            #[trigger] v1[idx(o + st, k, 2 * st)] == fft(sub(v0, o + st, 2 * st, h), tw)[k] by {
        assert(off0 + st <= o + st < off0 + st + cnt);
        assert(v1[idx(o + st, k, 2 * st)] == fft(sub(va, o + st, 2 * st, h), tw)[k]);
        assert(sub(va, o + st, 2 * st, h) =~= sub(v0, o + st, 2 * st, h)) by {
            assert forall|j: int| 0 <= j < h implies #[trigger] sub(va, o + st, 2 * st, h)[j] == sub(v0, o + st, 2 * st, h)[j] by {
                assert(0 <= o + st < 2 * st && !(off0 <= o + st < off0 + cnt));
                assert(va[idx(o + st, j, 2 * st)] == v0[idx(o + st, j, 2 * st)]);
            }
        }
    }
    assert forall|o: int, q: int| 0 <= o < st && !(off0 <= o < off0 + cnt) && 0 <= q < m implies #[trigger] v1[idx(o, q, st)] == v0[idx(o, q, st)] by {
        let k = q / 2;
        let b = q % 2;
        let o2 = if b == 0 { o } else { o + st };
        assert(b == 0 || b == 1);
        assert(idx(o, q, st) == idx(o2, k, 2 * st)) by (nonlinear_arith) requires q == 2 * k + b, b == 0 || b == 1, o2 == (if b == 0 { o } else { o + st });
        assert(0 <= o2 < 2 * st && !(off0 <= o2 < off0 + cnt) && !(off0 + st <= o2 < off0 + st + cnt));
        assert(0 <= k < h);
        assert(va[idx(o2, k, 2 * st)] == v0[idx(o2, k, 2 * st)]);
        assert(v1[idx(o2, k, 2 * st)] == va[idx(o2, k, 2 * st)]);
    }
}

// all pairs combined: the contract of the network holds
proof fn lemma_finish(v0: Seq<E>, v1: Seq<E>, v: Seq<E>, tw: Seq<B>, cnt: int, st: int, off0: int, m: int)
    requires
        0 < st, 0 <= off0, 1 <= cnt, off0 + cnt <= st, m >= 2, m % 2 == 0, v0.len() == m * st,
        halves_ok(v0, v1, tw, cnt, st, off0, m),
        st_ok(v, v1, tw, st, m, off0, cnt, m / 2, off0),
    ensures fft_post(v0, v, tw, cnt, st, off0, m)
{
    reveal(halves_ok);
    reveal(st_ok);
    assert forall|o: int, q: int| off0 <= o < off0 + cnt && 0 <= q < m implies #[trigger] v[idx(o, q, st)] == fft(sub(v0, o, st, m), tw)[q] by {
        assert(done(o, q, off0, cnt, m / 2, off0));
        lemma_target_is_fft(v0, v1, tw, o, st, m, q);
    }
    assert forall|o: int, q: int| 0 <= o < st && !(off0 <= o < off0 + cnt) && 0 <= q < m implies #[trigger] v[idx(o, q, st)] == v0[idx(o, q, st)] by {
        assert(!done(o, q, off0, cnt, m / 2, off0));
    }
}

// n == m * st with m even: the same n splits into m / 2 rows of 2 * st
proof fn lemma_split(n: int, st: int, m: int)
    requires 0 < st, m >= 2, m % 2 == 0, n == m * st
    ensures n == (m / 2) * (2 * st), n / (2 * st) == m / 2, n / st == m, n % m == 0
{
    let h = m / 2;
    assert(n == h * (2 * st)) by (nonlinear_arith) requires n == m * st, m == 2 * h;
    vstd::arithmetic::div_mod::lemma_div_by_multiple(h, 2 * st);
    vstd::arithmetic::div_mod::lemma_div_by_multiple(m, st);
    vstd::arithmetic::div_mod::lemma_mod_multiples_basic(st, m);
    assert(st * m == m * st) by (nonlinear_arith);
}

//@@ source math/src/fft/fft_inputs.rs
//@@ extract anchor="fn fft_in_place<E, I>("
//@@ rewrite "debug_assert_eq!(values.len() % size, 0);" => "debug_assert!(values.len() % size == 0);"
//@@ rewrite "for (i, offset) in (offset..last_offset).step_by(2 * stride).enumerate().skip(1) {" => "for i in 1..(size / 2) { let offset = offset + i * (2 * stride);"
//@@ rewrite "for offset in offset..(offset + count) {" => "let offset_lo = offset; let offset_hi = offset + count; for offset in offset_lo..offset_hi {"
//@@ before "if stride == count"
//@@|        proof { lemma_p2_half(m); lemma_split(n, st, m); }
//@@ after "fft_in_place(values, twiddles, 2 * count, 2 * stride, offset);"
//@@|            proof { lemma_halves_a(v0, values.v@, twiddles@, st, m); }
//@@ after "fft_in_place(values, twiddles, count, 2 * stride, offset);"
//@@|            let ghost va = values.v@;
//@@ after "fft_in_place(values, twiddles, count, 2 * stride, offset + stride);"
//@@|            proof { lemma_halves_b(v0, va, values.v@, twiddles@, count as int, st, off0, m); }
//@@ before "// Apply butterfly operations."
//@@|    proof { if m == 2 { lemma_halves_base(v0, twiddles@, count as int, st, off0); } }
//@@|    let ghost v1 = values.v@;
//@@|    proof { lemma_st_start(v1, twiddles@, st, m, off0, count as int); }
//@@ loop 1
//@@|        invariant
//@@|            values.v.len() == n, offset_lo == off0, offset_hi == off0 + count, off0 <= offset <= off0 + count, st == stride, 0 < st, 0 <= off0, 1 <= count, off0 + count <= st, n == m * st, m >= 2, m % 2 == 0, twiddles.len() >= m / 2, n <= usize::MAX / 4, 2 * st <= n,
//@@|            st_ok(values.v@, v1, twiddles@, st, m, off0, count as int, 0, offset as int),
//@@ loopstart 1
//@@|        let ghost vb = values.v@;
//@@|        proof {
//@@|            lemma_st_read(vb, v1, twiddles@, st, m, off0, count as int, 0, offset as int);
//@@|            lemma_idx_bounds(offset as int, 1, st, m);
//@@|            assert(idx(offset as int, 0, st) == offset && idx(offset as int, 1, st) == offset + st) by (nonlinear_arith) requires st == stride;
//@@|        }
//@@ loopend 1
//@@|        proof { lemma_st_step(vb, values.v@, v1, twiddles@, st, m, off0, count as int, 0, offset as int, offset as int); }
//@@ loopafter 1
//@@|    proof { lemma_st_next_row(values.v@, v1, twiddles@, st, m, off0, count as int, 0); }
//@@ loop 2
//@@|        invariant
//@@|            values.v.len() == n, size == m, 1 <= i <= m / 2, offset == off0, st == stride, 0 < st, 0 <= off0, 1 <= count, off0 + count <= st, n == m * st, m >= 2, m % 2 == 0, twiddles.len() >= m / 2, n <= usize::MAX / 4, 2 * st <= n,
//@@|            st_ok(values.v@, v1, twiddles@, st, m, off0, count as int, i as int, off0),
//@@ loopstart 2
//@@|        proof {
//@@|            lemma_idx_bounds(off0, 2 * i as int, st, m);
//@@|            assert(idx(off0, 2 * i as int, st) == off0 + i * (2 * st)) by (nonlinear_arith);
//@@|            assert(i * (2 * stride) == i * (2 * st)) by (nonlinear_arith) requires st == stride;
//@@|        }
//@@ loop 3
//@@|            invariant
//@@|                values.v.len() == n, size == m, 1 <= i < m / 2, offset == off0 + i * (2 * st), offset <= j <= offset + count, st == stride, 0 < st, 0 <= off0, 1 <= count, off0 + count <= st, n == m * st, m >= 2, m % 2 == 0, twiddles.len() >= m / 2, n <= usize::MAX / 4, 2 * st <= n,
//@@|                st_ok(values.v@, v1, twiddles@, st, m, off0, count as int, i as int, off0 + (j - offset)),
//@@ loopstart 3
//@@|            let ghost vb = values.v@;
//@@|            let ghost oo = off0 + (j - offset);
//@@|            proof {
//@@|                lemma_st_read(vb, v1, twiddles@, st, m, off0, count as int, i as int, oo);
//@@|                lemma_idx_bounds(oo, 2 * i as int + 1, st, m);
//@@|                assert(idx(oo, 2 * i as int, st) == j && idx(oo, 2 * i as int + 1, st) == j + st) by (nonlinear_arith)
//@@|                    requires st == stride, oo == off0 + (j - offset), offset == off0 + i * (2 * st);
//@@|            }
//@@ loopend 3
//@@|            proof { lemma_st_step(vb, values.v@, v1, twiddles@, st, m, off0, count as int, i as int, oo, j as int); }
//@@ loopafter 3
//@@|        proof { lemma_st_next_row(values.v@, v1, twiddles@, st, m, off0, count as int, i as int); }
//@@ tail
//@@|    proof { lemma_finish(v0, v1, values.v@, twiddles@, count as int, st, off0, m); }
fn fft_in_place(values: &mut Inputs, twiddles: &[B], count: usize, stride: usize, offset: usize)
    requires
        stride >= 1, count >= 1, offset + count <= stride,
        old(values).v.len() == (old(values).v.len() / stride) * stride,
        is_p2((old(values).v.len() / stride) as int), old(values).v.len() / stride >= 2,
        twiddles.len() >= (old(values).v.len() / stride) / 2,
        old(values).v.len() <= usize::MAX / 4,
    ensures
        fft_post(old(values).v@, final(values).v@, twiddles@, count as int, stride as int, offset as int, (old(values).v.len() / stride) as int),
    decreases old(values).v.len() / stride
{
    let ghost v0 = values.v@;
    let ghost off0 = offset as int;
    let ghost st = stride as int;
    let ghost n = values.v.len() as int;
    let ghost m = n / st;
    proof {
        reveal_with_fuel(is_p2, 2);
        assert(m % 2 == 0);
        lemma_split(n, st, m);
        assert(m * st >= 2 * st) by (nonlinear_arith) requires m >= 2, st > 0;
        assert(2 * st <= n);
    }
    /*@@body*/
}

// the entry point used by evaluate_poly* / interpolate_poly*: the whole input is one subsequence
impl Inputs {
    //@@ extract anchor="fn fft_in_place(&mut self, twiddles: &[E::BaseField])"
    pub fn fft_in_place_entry(&mut self, twiddles: &[B])
        requires
            is_p2(old(self).v.len() as int), old(self).v.len() >= 2, twiddles.len() >= old(self).v.len() / 2,
            old(self).v.len() <= usize::MAX / 4,
        ensures
            final(self).v@ =~= fft(old(self).v@, twiddles@),
    {
        let ghost v0 = self.v@;
        proof { assert(sub(v0, 0, 1, v0.len() as int) =~= v0); }
        /*@@body*/
        proof {
            assert forall|q: int| 0 <= q < v0.len() implies self.v@[q] == fft(v0, twiddles@)[q] by {
                assert(self.v@[idx(0, q, 1)] == fft(sub(v0, 0, 1, v0.len() as int), twiddles@)[q]);
            }
            assert(fft(v0, twiddles@).len() == v0.len());
        }
    }
}


// math/src/fft/serial.rs evaluate_poly: the network followed by the bit-reversal permutation (whose contract is proved in
// unit fftv against permute_index's Kani-proved contract; restated here as the specification of an external_body method)
pub uninterp spec fn pidx(n: int, i: int) -> int;
impl Inputs {
    #[verifier::external_body]
    pub fn permute(&mut self)
        ensures
            final(self).v.len() == old(self).v.len(),
            forall|t: int| 0 <= t < old(self).v.len() ==> #[trigger] final(self).v@[t] == old(self).v@[pidx(old(self).v.len() as int, t)],
    { unimplemented!() }
}

//@@ source math/src/fft/serial.rs
//@@ extract anchor="pub fn evaluate_poly<B, E>(p: &mut [E], twiddles: &[B])"
//@@ rewrite "p.fft_in_place(twiddles);" => "p.fft_in_place_entry(twiddles);"
pub fn evaluate_poly(p: &mut Inputs, twiddles: &[B])
    requires
        is_p2(old(p).v.len() as int), old(p).v.len() >= 2, twiddles.len() >= old(p).v.len() / 2, old(p).v.len() <= usize::MAX / 4,
    ensures
        final(p).v.len() == old(p).v.len(),
        forall|t: int| 0 <= t < old(p).v.len() ==> #[trigger] final(p).v@[t] == fft(old(p).v@, twiddles@)[pidx(old(p).v.len() as int, t)],
{
    /*@@body*/
}

proof fn fftcore_canary_must_fail(a: E, b: E)
    ensures add_of(a, b) == add_of(b, a)
{
}

} // verus!

fn main() {}
