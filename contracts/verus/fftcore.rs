// Verus unit fftcore: the butterfly network of math/src/fft/fft_inputs.rs - `fft_in_place`, the core of every
// evaluate_poly* / interpolate_poly* / Segment LDE - body cut out of /repo, for EVERY power-of-two length, EVERY element
// value and EVERY twiddle table. Elements and twiddles are abstract (uninterpreted +, -, * by a base element; nothing is
// assumed about them). Decided: the in-place network with its (count, stride, offset) batching and the MAX_LOOP recursion
// switch computes, on each of the `count` interleaved subsequences it is responsible for, the textbook radix-2
// decimation-in-time recursion `fft` below -
//     fft(s) = s                                                     for one element
//     fft(s)[2k]   = fft(evens(s))[k] + tw[k] * fft(odds(s))[k]     (the product is omitted for k == 0, as in the code)
//     fft(s)[2k+1] = fft(evens(s))[k] - tw[k] * fft(odds(s))[k]
// (outputs in the bit-reversed order that FftInputs::permute - unit fftv - undoes) - and leaves every other position
// untouched. No unwinding bound, no size bound.
// Session 5: the recursion IS the discrete Fourier transform. theorem_fft_is_dft proves, for every power-of-two size, that with
// twiddles tw[k] == w^bitrev(k) and w^(n/2) == -1 output p of `fft` equals sum_i s[i] * w^(i * bitrev(p)) - relative to the
// module laws `laws()` (E a module over the commutative ring B, x - y == x + (-1) * y), which are a HYPOTHESIS of the theorem and
// of the contracts below, not an axiom. On top of it, from bodies cut out of /repo:
//   evaluate_poly        result[t] == sum_i p[i] * w^(i*t)  (the polynomial evaluated at w^t, natural order)
//   get_twiddles         the table is w^bitrev(k), w = get_root_of_unity(log2 n), and w^(n/2) == -1
//   get_inv_twiddles     the same for w^(n-1); (w^(n-1))^(n/2) == -1
//   interpolate_poly     result[t] == (1/n) * sum_i v[i] * w^(i*t) with the inverse table (the inverse-transform formula)
//   butterfly / butterfly_twiddle of the slice implementation (no longer assumed)
// Not decided here: that the inverse-transform formula inverts evaluation (orthogonality of the roots of unity - needs a
// field, not a ring), the offset / blowup variants (closure / chunks_mut / zip bodies), the array-of-columns implementation
// of butterfly / butterfly_twiddle ([[E; N]]); the bounded stand-in fft_native compares all of them with direct evaluation.
// Literal rewrites (stated in coverage.extraction): `for offset in offset..(offset + count) {` gets its bounds hoisted into
// two `let`s (the loop variable shadows the parameter the bounds are computed from, which the installed Verus mis-scopes in its
// automatic range invariant); the iterator-adapter loop header
// `for (i, offset) in (offset..last_offset).step_by(2 * stride).enumerate().skip(1) {` becomes
// `for i in 1..(size / 2) { let offset = offset + i * (2 * stride);` (same index / offset pairs, the installed Verus has no
// step_by / enumerate / skip); `debug_assert_eq!(a, b)` becomes `debug_assert!(a == b)`; a runtime `assert!(c, "..")` becomes
// `if !(c) { must_not_panic(); }` with `must_not_panic` requiring false (the assertion is PROVED never to fire under the
// stated pre-condition); `self[` becomes `self.v[` (the receiver is the slice itself in the source); `B::TWO_ADICITY` becomes a
// call that returns an uninterpreted value; `.into()` conversions from u32 become named conversion functions.
// Assumed (all listed in trusted_base): usize::is_power_of_two(x) == is_p2(x), usize::ilog2 == floor log2
// (assume_specification); permute_index's contract incl. the bit-reversal recurrence (ax_pidx; proved by Kani for every
// power-of-two size: fft_permute_index_contract, fft_permute_index_recurrence_contract); FftInputs::permute's contract (proved
// in unit fftv); get_root_of_unity's contract r^(2^(n-1)) == -1 and exp's contract (proved for the three real fields under
// C07); get_power_series returns b^i (macro body; its worker fill_power_series is proved in unit polyv); shift_by multiplies
// every element (iter_mut body); B::inv / conversions from u32 are uninterpreted.
use vstd::prelude::*;
use vstd::std_specs::ops::*;
verus! {
global size_of usize == 8;

#[derive(Copy, Clone, PartialEq, Eq, Structural)]
pub struct E(pub u64);
#[derive(Copy, Clone, PartialEq, Eq, Structural)]
pub struct B(pub u64);
pub uninterp spec fn add_of(a: E, b: E) -> E;
pub uninterp spec fn sub_of(a: E, b: E) -> E;
pub uninterp spec fn mulb_of(a: E, b: B) -> E;

impl AddSpecImpl<E> for E {
    open spec fn obeys_add_spec() -> bool { true }
    open spec fn add_req(self, rhs: E) -> bool { true }
    open spec fn add_spec(self, rhs: E) -> E { add_of(self, rhs) }
}
impl core::ops::Add for E { type Output = Self; #[verifier::external_body] fn add(self, rhs: Self) -> Self { unimplemented!() } }
impl SubSpecImpl<E> for E {
    open spec fn obeys_sub_spec() -> bool { true }
    open spec fn sub_req(self, rhs: E) -> bool { true }
    open spec fn sub_spec(self, rhs: E) -> E { sub_of(self, rhs) }
}
impl core::ops::Sub for E { type Output = Self; #[verifier::external_body] fn sub(self, rhs: Self) -> Self { unimplemented!() } }
impl E {
    #[verifier::external_body]
    pub fn mul_base(self, b: B) -> (r: E) ensures r == mulb_of(self, b) { unimplemented!() }
}

pub const MAX_LOOP: usize = /*@@expr source="math/src/fft/fft_inputs.rs" anchor="const MAX_LOOP: usize ="*/;

pub open spec fn is_p2(m: int) -> bool
    decreases m
{
    m == 1 || (m > 1 && m % 2 == 0 && is_p2(m / 2))
}
pub assume_specification [usize::is_power_of_two] (x: usize) -> (r: bool)
    ensures r == is_p2(x as int);

pub struct Inputs { pub v: Vec<E> }
pub type I = Inputs;

impl Inputs {
    pub fn len(&self) -> (r: usize) ensures r == self.v.len() { self.v.len() }

    // impl<E: FieldElement> FftInputs<E> for [E] - the slice implementation every serial transform uses; the receiver
    // `self` is the slice itself in the source, the vector inside the wrapper here (rewrite `self[` => `self.v[`)
    //@@ source math/src/fft/fft_inputs.rs
    //@@ extract anchor="fn butterfly(&mut self, offset: usize, stride: usize)" within="impl<E: FieldElement> FftInputs<E> for [E]"
    //@@ rewrite "self[" => "self.v["
    pub fn butterfly(&mut self, offset: usize, stride: usize)
        requires offset + stride < old(self).v.len(), stride >= 1
        ensures final(self).v@ == old(self).v@
            .update(offset as int, add_of(old(self).v@[offset as int], old(self).v@[offset + stride]))
            .update(offset + stride, sub_of(old(self).v@[offset as int], old(self).v@[offset + stride]))
    {
        /*@@body*/
    }

    //@@ extract anchor="fn butterfly_twiddle(&mut self, twiddle: E::BaseField, offset: usize, stride: usize)" within="impl<E: FieldElement> FftInputs<E> for [E]"
    //@@ rewrite "self[" => "self.v["
    pub fn butterfly_twiddle(&mut self, twiddle: B, offset: usize, stride: usize)
        requires offset + stride < old(self).v.len(), stride >= 1
        ensures final(self).v@ == old(self).v@
            .update(offset as int, add_of(old(self).v@[offset as int], mulb_of(old(self).v@[offset + stride], twiddle)))
            .update(offset + stride, sub_of(old(self).v@[offset as int], mulb_of(old(self).v@[offset + stride], twiddle)))
    {
        /*@@body*/
    }
}

// ---------------------------------------------------------------------------------------------------------------------
// specification: radix-2 decimation in time, outputs in bit-reversed order
pub open spec fn evens(s: Seq<E>) -> Seq<E> { Seq::new((s.len() / 2) as nat, |k: int| s[2 * k]) }
pub open spec fn odds(s: Seq<E>) -> Seq<E> { Seq::new((s.len() / 2) as nat, |k: int| s[2 * k + 1]) }
pub open spec fn comb(e: Seq<E>, o: Seq<E>, tw: Seq<B>, p: int) -> E {
    let k = p / 2;
    let t = if k == 0 { o[0] } else { mulb_of(o[k], tw[k]) };
    if p % 2 == 0 { add_of(e[k], t) } else { sub_of(e[k], t) }
}
pub open spec fn fft(s: Seq<E>, tw: Seq<B>) -> Seq<E>
    decreases s.len()
{
    if s.len() < 2 { s } else {
        let e = fft(evens(s), tw);
        let o = fft(odds(s), tw);
        Seq::new(s.len(), |p: int| comb(e, o, tw, p))
    }
}

// position of element q of the subsequence that starts at o and advances by st
pub open spec fn idx(o: int, q: int, st: int) -> int { o + q * st }
pub open spec fn sub(s: Seq<E>, o: int, st: int, m: int) -> Seq<E> { Seq::new(m as nat, |q: int| s[idx(o, q, st)]) }

// value of position (o, q) after the combination step, from the state v1 that holds the two half-size transforms
pub open spec fn target(v1: Seq<E>, tw: Seq<B>, o: int, st: int, q: int) -> E {
    let k = q / 2;
    let ev = v1[idx(o, 2 * k, st)];
    let od = v1[idx(o, 2 * k + 1, st)];
    let t = if k == 0 { od } else { mulb_of(od, tw[k]) };
    if q % 2 == 0 { add_of(ev, t) } else { sub_of(ev, t) }
}

// pairs (k, o) are combined in the order k = 0, 1, ...; within one k in increasing o. (kk, oo) is the next pair.
pub open spec fn done(o: int, q: int, off0: int, cnt: int, kk: int, oo: int) -> bool {
    off0 <= o < off0 + cnt && (q / 2 < kk || (q / 2 == kk && o < oo))
}
#[verifier::opaque]
pub open spec fn st_ok(v: Seq<E>, v1: Seq<E>, tw: Seq<B>, st: int, m: int, off0: int, cnt: int, kk: int, oo: int) -> bool {
    &&& v.len() == v1.len()
    &&& forall|o: int, q: int| 0 <= o < st && 0 <= q < m ==> #[trigger] v[idx(o, q, st)] ==
            (if done(o, q, off0, cnt, kk, oo) { target(v1, tw, o, st, q) } else { v1[idx(o, q, st)] })
}

proof fn lemma_idx_bounds(o: int, q: int, st: int, m: int)
    requires 0 <= o < st, 0 <= q < m
    ensures 0 <= idx(o, q, st) < m * st
{
    assert(o + q * st < m * st) by (nonlinear_arith) requires 0 <= o < st, 0 <= q < m;
    assert(0 <= q * st) by (nonlinear_arith) requires 0 <= q, 0 < st;
}

proof fn lemma_idx_unique(o: int, q: int, o2: int, q2: int, st: int)
    requires 0 <= o < st, 0 <= o2 < st, idx(o, q, st) == idx(o2, q2, st)
    ensures o == o2 && q == q2
{
    assert(q == q2) by (nonlinear_arith) requires 0 <= o < st, 0 <= o2 < st, o + q * st == o2 + q2 * st;
}

proof fn lemma_p2_half(m: int)
    requires is_p2(m), m > 2
    ensures m % 2 == 0, is_p2(m / 2), m / 2 >= 2
{
    reveal_with_fuel(is_p2, 3);
}

proof fn lemma_st_start(v1: Seq<E>, tw: Seq<B>, st: int, m: int, off0: int, cnt: int)
    ensures st_ok(v1, v1, tw, st, m, off0, cnt, 0, off0)
{
    reveal(st_ok);
}

proof fn lemma_st_next_row(v: Seq<E>, v1: Seq<E>, tw: Seq<B>, st: int, m: int, off0: int, cnt: int, kk: int)
    requires st_ok(v, v1, tw, st, m, off0, cnt, kk, off0 + cnt)
    ensures st_ok(v, v1, tw, st, m, off0, cnt, kk + 1, off0)
{
    reveal(st_ok);
    assert forall|o: int, q: int| 0 <= o < st && 0 <= q < m implies #[trigger] v[idx(o, q, st)] ==
            (if done(o, q, off0, cnt, kk + 1, off0) { target(v1, tw, o, st, q) } else { v1[idx(o, q, st)] }) by {
        assert(done(o, q, off0, cnt, kk + 1, off0) == done(o, q, off0, cnt, kk, off0 + cnt));
    }
}

// one butterfly: the pair (kk, oo) is combined
proof fn lemma_st_step(v: Seq<E>, v2: Seq<E>, v1: Seq<E>, tw: Seq<B>, st: int, m: int, off0: int, cnt: int, kk: int, oo: int, a: int)
    requires
        st_ok(v, v1, tw, st, m, off0, cnt, kk, oo),
        0 < st, 0 <= off0, off0 + cnt <= st, off0 <= oo < off0 + cnt, 0 <= kk, 2 * kk + 1 < m, v.len() == m * st,
        a == idx(oo, 2 * kk, st), a + st == idx(oo, 2 * kk + 1, st),
        v2 == v.update(a, target(v1, tw, oo, st, 2 * kk)).update(a + st, target(v1, tw, oo, st, 2 * kk + 1)),
    ensures
        st_ok(v2, v1, tw, st, m, off0, cnt, kk, oo + 1),
{
    reveal(st_ok);
    lemma_idx_bounds(oo, 2 * kk, st, m);
    lemma_idx_bounds(oo, 2 * kk + 1, st, m);
    assert forall|o: int, q: int| 0 <= o < st && 0 <= q < m implies #[trigger] v2[idx(o, q, st)] ==
            (if done(o, q, off0, cnt, kk, oo + 1) { target(v1, tw, o, st, q) } else { v1[idx(o, q, st)] }) by {
        lemma_idx_bounds(o, q, st, m);
        if idx(o, q, st) == a {
            lemma_idx_unique(o, q, oo, 2 * kk, st);
        } else if idx(o, q, st) == a + st {
            lemma_idx_unique(o, q, oo, 2 * kk + 1, st);
        } else {
            assert(v2[idx(o, q, st)] == v[idx(o, q, st)]);
            if o == oo && q / 2 == kk {
                assert(q == 2 * kk || q == 2 * kk + 1);
                assert(false);
            }
            assert(done(o, q, off0, cnt, kk, oo + 1) == done(o, q, off0, cnt, kk, oo));
        }
    }
}

// what a butterfly reads is still the value of v1 (the pair has not been combined yet)
proof fn lemma_st_read(v: Seq<E>, v1: Seq<E>, tw: Seq<B>, st: int, m: int, off0: int, cnt: int, kk: int, oo: int)
    requires
        st_ok(v, v1, tw, st, m, off0, cnt, kk, oo),
        0 < st, 0 <= off0, off0 + cnt <= st, off0 <= oo < off0 + cnt, 0 <= kk, 2 * kk + 1 < m,
    ensures
        v[idx(oo, 2 * kk, st)] == v1[idx(oo, 2 * kk, st)],
        v[idx(oo, 2 * kk + 1, st)] == v1[idx(oo, 2 * kk + 1, st)],
{
    reveal(st_ok);
    assert(!done(oo, 2 * kk, off0, cnt, kk, oo));
    assert(!done(oo, 2 * kk + 1, off0, cnt, kk, oo));
}

// unfolding the specification once: with the two half-size transforms in place, `target` is the transform
proof fn lemma_target_is_fft(old_v: Seq<E>, v1: Seq<E>, tw: Seq<B>, o: int, st: int, m: int, q: int)
    requires
        0 < st, 0 <= o < st, m >= 2, m % 2 == 0, 0 <= q < m, old_v.len() == m * st, v1.len() == m * st,
        forall|k: int| 0 <= k < m / 2 ==> #[trigger] v1[idx(o, k, 2 * st)] == fft(sub(old_v, o, 2 * st, m / 2), tw)[k],
        forall|k: int| 0 <= k < m / 2 ==> #[trigger] v1[idx(o + st, k, 2 * st)] == fft(sub(old_v, o + st, 2 * st, m / 2), tw)[k],
    ensures
        target(v1, tw, o, st, q) == fft(sub(old_v, o, st, m), tw)[q],
{
    let s = sub(old_v, o, st, m);
    let h = m / 2;
    assert(evens(s) =~= sub(old_v, o, 2 * st, h)) by {
        assert forall|k: int| 0 <= k < h implies evens(s)[k] == sub(old_v, o, 2 * st, h)[k] by {
            assert(idx(o, 2 * k, st) == idx(o, k, 2 * st)) by (nonlinear_arith);
        }
    }
    assert(odds(s) =~= sub(old_v, o + st, 2 * st, h)) by {
        assert forall|k: int| 0 <= k < h implies odds(s)[k] == sub(old_v, o + st, 2 * st, h)[k] by {
            assert(idx(o, 2 * k + 1, st) == idx(o + st, k, 2 * st)) by (nonlinear_arith);
        }
    }
    let k = q / 2;
    assert(idx(o, 2 * k, st) == idx(o, k, 2 * st)) by (nonlinear_arith);
    assert(idx(o, 2 * k + 1, st) == idx(o + st, k, 2 * st)) by (nonlinear_arith);
    assert(0 <= k < h);
    assert(v1[idx(o, k, 2 * st)] == fft(sub(old_v, o, 2 * st, h), tw)[k]);
    assert(v1[idx(o + st, k, 2 * st)] == fft(sub(old_v, o + st, 2 * st, h), tw)[k]);
    assert(fft(s, tw)[q] == comb(fft(evens(s), tw), fft(odds(s), tw), tw, q));
    if k == 0 {
        assert(idx(o + st, 0, 2 * st) == idx(o + st, k, 2 * st));
    }
}

// the contract of the network, as one predicate (v_old -> v_new)
pub open spec fn fft_post(v_old: Seq<E>, v_new: Seq<E>, tw: Seq<B>, cnt: int, st: int, off0: int, m: int) -> bool {
    &&& v_new.len() == v_old.len()
    &&& forall|o: int, q: int| off0 <= o < off0 + cnt && 0 <= q < m ==> #[trigger] v_new[idx(o, q, st)] == fft(sub(v_old, o, st, m), tw)[q]
    &&& forall|o: int, q: int| 0 <= o < st && !(off0 <= o < off0 + cnt) && 0 <= q < m ==> #[trigger] v_new[idx(o, q, st)] == v_old[idx(o, q, st)]
}


// the state after the recursive calls: both half-size transforms of every subsequence are in place
#[verifier::opaque]
pub open spec fn halves_ok(v0: Seq<E>, v1: Seq<E>, tw: Seq<B>, cnt: int, st: int, off0: int, m: int) -> bool {
    &&& v1.len() == v0.len()
    &&& forall|o: int, k: int| off0 <= o < off0 + cnt && 0 <= k < m / 2 ==>
            #[trigger] v1[idx(o, k, 2 * st)] == fft(sub(v0, o, 2 * st, m / 2), tw)[k]
    &&& forall|o: int, k: int| off0 <= o < off0 + cnt && 0 <= k < m / 2 ==>
            #[trigger] v1[idx(o + st, k, 2 * st)] == fft(sub(v0, o + st, 2 * st, m / 2), tw)[k]
    &&& forall|o: int, q: int| 0 <= o < st && !(off0 <= o < off0 + cnt) && 0 <= q < m ==> #[trigger] v1[idx(o, q, st)] == v0[idx(o, q, st)]
}

proof fn lemma_halves_base(v0: Seq<E>, tw: Seq<B>, cnt: int, st: int, off0: int)
    requires 0 < st, 0 <= off0, off0 + cnt <= st, v0.len() == 2 * st
    ensures halves_ok(v0, v0, tw, cnt, st, off0, 2)
{
    reveal(halves_ok);
    assert forall|o: int, k: int| off0 <= o < off0 + cnt && 0 <= k < 1 implies
            #[trigger] v0[idx(o, k, 2 * st)] == fft(sub(v0, o, 2 * st, 1), tw)[k] by {
        assert(sub(v0, o, 2 * st, 1).len() == 1);
    }
    assert forall|o: int, k: int| off0 <= o < off0 + cnt && 0 <= k < 1 implies
            #[trigger] v0[idx(o + st, k, 2 * st)] == fft(sub(v0, o + st, 2 * st, 1), tw)[k] by {
        assert(sub(v0, o + st, 2 * st, 1).len() == 1);
    }
}

// one recursive call over all 2 * cnt interleaved subsequences (stride == count, hence offset == 0)
proof fn lemma_halves_a(v0: Seq<E>, v1: Seq<E>, tw: Seq<B>, st: int, m: int)
    requires 0 < st, m >= 4, m % 2 == 0, v0.len() == m * st, fft_post(v0, v1, tw, 2 * st, 2 * st, 0, m / 2)
    ensures halves_ok(v0, v1, tw, st, st, 0, m)
{
    reveal(halves_ok);
    assert forall|o: int, k: int| 0 <= o < st && 0 <= k < m / 2 implies
            #[trigger] v1[idx(o + st, k, 2 * st)] == fft(sub(v0, o + st, 2 * st, m / 2), tw)[k] by {
        assert(0 <= o + st < 2 * st);
    }
}

// two recursive calls: subsequences starting in [off0, off0 + cnt), then those starting in [off0 + st, off0 + st + cnt)
proof fn lemma_halves_b(v0: Seq<E>, va: Seq<E>, v1: Seq<E>, tw: Seq<B>, cnt: int, st: int, off0: int, m: int)
    requires
        0 < st, 0 <= off0, 1 <= cnt, off0 + cnt <= st, m >= 4, m % 2 == 0, v0.len() == m * st,
        fft_post(v0, va, tw, cnt, 2 * st, off0, m / 2),
        fft_post(va, v1, tw, cnt, 2 * st, off0 + st, m / 2),
    ensures halves_ok(v0, v1, tw, cnt, st, off0, m)
{
    reveal(halves_ok);
    let h = m / 2;
    assert forall|o: int, k: int| off0 <= o < off0 + cnt && 0 <= k < h implies
            #[trigger] v1[idx(o, k, 2 * st)] == fft(sub(v0, o, 2 * st, h), tw)[k] by {
        assert(va[idx(o, k, 2 * st)] == fft(sub(v0, o, 2 * st, h), tw)[k]);
        assert(0 <= o < 2 * st && !(off0 + st <= o < off0 + st + cnt));
        assert(v1[idx(o, k, 2 * st)] == va[idx(o, k, 2 * st)]);
    }
    assert forall|o: int, k: int| off0 <= o < off0 + cnt && 0 <= k < h implies
            #[trigger] v1[idx(o + st, k, 2 * st)] == fft(sub(v0, o + st, 2 * st, h), tw)[k] by {
        assert(off0 + st <= o + st < off0 + st + cnt);
        assert(v1[idx(o + st, k, 2 * st)] == fft(sub(va, o + st, 2 * st, h), tw)[k]);
        assert(sub(va, o + st, 2 * st, h) =~= sub(v0, o + st, 2 * st, h)) by {
            assert forall|j: int| 0 <= j < h implies #[trigger] sub(va, o + st, 2 * st, h)[j] == sub(v0, o + st, 2 * st, h)[j] by {
                assert(0 <= o + st < 2 * st && !(off0 <= o + st < off0 + cnt));
                assert(va[idx(o + st, j, 2 * st)] == v0[idx(o + st, j, 2 * st)]);
            }
        }
    }
    assert forall|o: int, q: int| 0 <= o < st && !(off0 <= o < off0 + cnt) && 0 <= q < m implies #[trigger] v1[idx(o, q, st)] == v0[idx(o, q, st)] by {
        let k = q / 2;
        let b = q % 2;
        let o2 = if b == 0 { o } else { o + st };
        assert(b == 0 || b == 1);
        assert(idx(o, q, st) == idx(o2, k, 2 * st)) by (nonlinear_arith) requires q == 2 * k + b, b == 0 || b == 1, o2 == (if b == 0 { o } else { o + st });
        assert(0 <= o2 < 2 * st && !(off0 <= o2 < off0 + cnt) && !(off0 + st <= o2 < off0 + st + cnt));
        assert(0 <= k < h);
        assert(va[idx(o2, k, 2 * st)] == v0[idx(o2, k, 2 * st)]);
        assert(v1[idx(o2, k, 2 * st)] == va[idx(o2, k, 2 * st)]);
    }
}

// all pairs combined: the contract of the network holds
proof fn lemma_finish(v0: Seq<E>, v1: Seq<E>, v: Seq<E>, tw: Seq<B>, cnt: int, st: int, off0: int, m: int)
    requires
        0 < st, 0 <= off0, 1 <= cnt, off0 + cnt <= st, m >= 2, m % 2 == 0, v0.len() == m * st,
        halves_ok(v0, v1, tw, cnt, st, off0, m),
        st_ok(v, v1, tw, st, m, off0, cnt, m / 2, off0),
    ensures fft_post(v0, v, tw, cnt, st, off0, m)
{
    reveal(halves_ok);
    reveal(st_ok);
    assert forall|o: int, q: int| off0 <= o < off0 + cnt && 0 <= q < m implies #[trigger] v[idx(o, q, st)] == fft(sub(v0, o, st, m), tw)[q] by {
        assert(done(o, q, off0, cnt, m / 2, off0));
        lemma_target_is_fft(v0, v1, tw, o, st, m, q);
    }
    assert forall|o: int, q: int| 0 <= o < st && !(off0 <= o < off0 + cnt) && 0 <= q < m implies #[trigger] v[idx(o, q, st)] == v0[idx(o, q, st)] by {
        assert(!done(o, q, off0, cnt, m / 2, off0));
    }
}

// n == m * st with m even: the same n splits into m / 2 rows of 2 * st
proof fn lemma_split(n: int, st: int, m: int)
    requires 0 < st, m >= 2, m % 2 == 0, n == m * st
    ensures n == (m / 2) * (2 * st), n / (2 * st) == m / 2, n / st == m, n % m == 0
{
    let h = m / 2;
    assert(n == h * (2 * st)) by (nonlinear_arith) requires n == m * st, m == 2 * h;
    vstd::arithmetic::div_mod::lemma_div_by_multiple(h, 2 * st);
    vstd::arithmetic::div_mod::lemma_div_by_multiple(m, st);
    vstd::arithmetic::div_mod::lemma_mod_multiples_basic(st, m);
    assert(st * m == m * st) by (nonlinear_arith);
}

//@@ source math/src/fft/fft_inputs.rs
//@@ extract anchor="fn fft_in_place<E, I>("
//@@ rewrite "debug_assert_eq!(values.len() % size, 0);" => "debug_assert!(values.len() % size == 0);"
//@@ rewrite "for (i, offset) in (offset..last_offset).step_by(2 * stride).enumerate().skip(1) {" => "for i in 1..(size / 2) { let offset = offset + i * (2 * stride);"
//@@ rewrite "for offset in offset..(offset + count) {" => "let offset_lo = offset; let offset_hi = offset + count; for offset in offset_lo..offset_hi {"
//@@ after "fft_in_place(values, twiddles, 2 * count, 2 * stride, offset);"
//@@|            proof { lemma_halves_a(v0, values.v@, twiddles@, st, m); }
//@@ after "fft_in_place(values, twiddles, count, 2 * stride, offset);"
//@@|            let ghost va = values.v@;
//@@ after "fft_in_place(values, twiddles, count, 2 * stride, offset + stride);"
//@@|            proof { lemma_halves_b(v0, va, values.v@, twiddles@, count as int, st, off0, m); }
//@@ before "// Apply butterfly operations."
//@@|    proof { if m == 2 { lemma_halves_base(v0, twiddles@, count as int, st, off0); } }
//@@|    let ghost v1 = values.v@;
//@@|    proof { lemma_st_start(v1, twiddles@, st, m, off0, count as int); }
//@@ loop 1
//@@|        invariant
//@@|            values.v.len() == n, offset_lo == off0, offset_hi == off0 + count, off0 <= offset <= off0 + count, st == stride, 0 < st, 0 <= off0, 1 <= count, off0 + count <= st, n == m * st, m >= 2, m % 2 == 0, twiddles.len() >= m / 2, n <= usize::MAX / 4, 2 * st <= n,
//@@|            st_ok(values.v@, v1, twiddles@, st, m, off0, count as int, 0, offset as int),
//@@ loopstart 1
//@@|        let ghost vb = values.v@;
//@@|        proof {
//@@|            lemma_st_read(vb, v1, twiddles@, st, m, off0, count as int, 0, offset as int);
//@@|            lemma_idx_bounds(offset as int, 1, st, m);
//@@|            assert(idx(offset as int, 0, st) == offset && idx(offset as int, 1, st) == offset + st) by (nonlinear_arith) requires st == stride;
//@@|        }
//@@ loopend 1
//@@|        proof { lemma_st_step(vb, values.v@, v1, twiddles@, st, m, off0, count as int, 0, offset as int, offset as int); }
//@@ loopafter 1
//@@|    proof { lemma_st_next_row(values.v@, v1, twiddles@, st, m, off0, count as int, 0); }
//@@ loop 2
//@@|        invariant
//@@|            values.v.len() == n, size == m, 1 <= i <= m / 2, offset == off0, st == stride, 0 < st, 0 <= off0, 1 <= count, off0 + count <= st, n == m * st, m >= 2, m % 2 == 0, twiddles.len() >= m / 2, n <= usize::MAX / 4, 2 * st <= n,
//@@|            st_ok(values.v@, v1, twiddles@, st, m, off0, count as int, i as int, off0),
//@@ loopstart 2
//@@|        proof {
//@@|            lemma_idx_bounds(off0, 2 * i as int, st, m);
//@@|            assert(idx(off0, 2 * i as int, st) == off0 + i * (2 * st)) by (nonlinear_arith);
//@@|            assert(i * (2 * stride) == i * (2 * st)) by (nonlinear_arith) requires st == stride;
//@@|        }
//@@ loop 3
//@@|            invariant
//@@|                values.v.len() == n, size == m, 1 <= i < m / 2, offset == off0 + i * (2 * st), offset <= j <= offset + count, st == stride, 0 < st, 0 <= off0, 1 <= count, off0 + count <= st, n == m * st, m >= 2, m % 2 == 0, twiddles.len() >= m / 2, n <= usize::MAX / 4, 2 * st <= n,
//@@|                st_ok(values.v@, v1, twiddles@, st, m, off0, count as int, i as int, off0 + (j - offset)),
//@@ loopstart 3
//@@|            let ghost vb = values.v@;
//@@|            let ghost oo = off0 + (j - offset);
//@@|            proof {
//@@|                lemma_st_read(vb, v1, twiddles@, st, m, off0, count as int, i as int, oo);
//@@|                lemma_idx_bounds(oo, 2 * i as int + 1, st, m);
//@@|                assert(idx(oo, 2 * i as int, st) == j && idx(oo, 2 * i as int + 1, st) == j + st) by (nonlinear_arith)
//@@|                    requires st == stride, oo == off0 + (j - offset), offset == off0 + i * (2 * st);
//@@|            }
//@@ loopend 3
//@@|            proof { lemma_st_step(vb, values.v@, v1, twiddles@, st, m, off0, count as int, i as int, oo, j as int); }
//@@ loopafter 3
//@@|        proof { lemma_st_next_row(values.v@, v1, twiddles@, st, m, off0, count as int, i as int); }
//@@ tail
//@@|    proof { lemma_finish(v0, v1, values.v@, twiddles@, count as int, st, off0, m); }
fn fft_in_place(values: &mut Inputs, twiddles: &[B], count: usize, stride: usize, offset: usize)
    requires
        stride >= 1, count >= 1, offset + count <= stride,
        old(values).v.len() == (old(values).v.len() / stride) * stride,
        is_p2((old(values).v.len() / stride) as int), old(values).v.len() / stride >= 2,
        twiddles.len() >= (old(values).v.len() / stride) / 2,
        old(values).v.len() <= usize::MAX / 4,
    ensures
        fft_post(old(values).v@, final(values).v@, twiddles@, count as int, stride as int, offset as int, (old(values).v.len() / stride) as int),
    decreases old(values).v.len() / stride
{
    let ghost v0 = values.v@;
    let ghost off0 = offset as int;
    let ghost st = stride as int;
    let ghost n = values.v.len() as int;
    let ghost m = n / st;
    proof {
        reveal_with_fuel(is_p2, 2);
        assert(m % 2 == 0);
        lemma_split(n, st, m);
        assert(m * st >= 2 * st) by (nonlinear_arith) requires m >= 2, st > 0;
        assert(2 * st <= n);
        // facts the recursive calls need (stated here, not at a statement anchor, so that an edited recursion condition
        // fails an obligation instead of losing an anchor)
        if m > 2 { lemma_p2_half(m); }
    }
    /*@@body*/
}

// the entry point used by evaluate_poly* / interpolate_poly*: the whole input is one subsequence
impl Inputs {
    //@@ extract anchor="fn fft_in_place(&mut self, twiddles: &[E::BaseField])"
    pub fn fft_in_place_entry(&mut self, twiddles: &[B])
        requires
            is_p2(old(self).v.len() as int), old(self).v.len() >= 2, twiddles.len() >= old(self).v.len() / 2,
            old(self).v.len() <= usize::MAX / 4,
        ensures
            final(self).v@ =~= fft(old(self).v@, twiddles@),
    {
        let ghost v0 = self.v@;
        proof { assert(sub(v0, 0, 1, v0.len() as int) =~= v0); }
        /*@@body*/
        proof {
            assert forall|q: int| 0 <= q < v0.len() implies self.v@[q] == fft(v0, twiddles@)[q] by {
                assert(self.v@[idx(0, q, 1)] == fft(sub(v0, 0, 1, v0.len() as int), twiddles@)[q]);
            }
            assert(fft(v0, twiddles@).len() == v0.len());
        }
    }
}


// =====================================================================================================================
// the recursion is the discrete Fourier transform
pub uninterp spec fn zero_e() -> E;
pub uninterp spec fn mul_b(a: B, b: B) -> B;
pub uninterp spec fn one_b() -> B;
pub uninterp spec fn neg_one_b() -> B;

// the algebraic laws the theorem is relative to (a hypothesis of every lemma below, not an axiom): E is a module over the
// commutative ring B, subtraction is addition of the (-1)-multiple
#[verifier::opaque]
pub open spec fn laws() -> bool {
    &&& forall|a: E, b: E, c: E| add_of(add_of(a, b), c) == add_of(a, add_of(b, c))
    &&& forall|a: E, b: E| add_of(a, b) == add_of(b, a)
    &&& forall|a: E| add_of(zero_e(), a) == a
    &&& forall|x: E, y: E, a: B| #[trigger] mulb_of(add_of(x, y), a) == add_of(mulb_of(x, a), mulb_of(y, a))
    &&& forall|x: E, a: B, b: B| mulb_of(mulb_of(x, a), b) == mulb_of(x, mul_b(a, b))
    &&& forall|x: E| mulb_of(x, one_b()) == x
    &&& forall|a: B| mulb_of(zero_e(), a) == zero_e()
    &&& forall|x: E, y: E| #[trigger] sub_of(x, y) == add_of(x, mulb_of(y, neg_one_b()))
    &&& forall|a: B, b: B, c: B| mul_b(mul_b(a, b), c) == mul_b(a, mul_b(b, c))
    &&& forall|a: B| mul_b(a, one_b()) == a
    &&& forall|a: B| mul_b(one_b(), a) == a
    &&& mul_b(neg_one_b(), neg_one_b()) == one_b()
}
proof fn l_add_assoc(a: E, b: E, c: E) requires laws() ensures add_of(add_of(a, b), c) == add_of(a, add_of(b, c)) { reveal(laws); }
proof fn l_add_comm(a: E, b: E) requires laws() ensures add_of(a, b) == add_of(b, a) { reveal(laws); }
proof fn l_add_zero(a: E) requires laws() ensures add_of(zero_e(), a) == a { reveal(laws); }
proof fn l_distr(x: E, y: E, a: B) requires laws() ensures mulb_of(add_of(x, y), a) == add_of(mulb_of(x, a), mulb_of(y, a)) { reveal(laws); }
proof fn l_mulb_mulb(x: E, a: B, b: B) requires laws() ensures mulb_of(mulb_of(x, a), b) == mulb_of(x, mul_b(a, b)) { reveal(laws); }
proof fn l_mulb_one(x: E) requires laws() ensures mulb_of(x, one_b()) == x { reveal(laws); }
proof fn l_mulb_zero(a: B) requires laws() ensures mulb_of(zero_e(), a) == zero_e() { reveal(laws); }
proof fn l_sub(x: E, y: E) requires laws() ensures sub_of(x, y) == add_of(x, mulb_of(y, neg_one_b())) { reveal(laws); }
proof fn l_mul_assoc(a: B, b: B, c: B) requires laws() ensures mul_b(mul_b(a, b), c) == mul_b(a, mul_b(b, c)) { reveal(laws); }
proof fn l_mul_one_r(a: B) requires laws() ensures mul_b(a, one_b()) == a { reveal(laws); }
proof fn l_mul_one_l(a: B) requires laws() ensures mul_b(one_b(), a) == a { reveal(laws); }
proof fn l_neg_sq() requires laws() ensures mul_b(neg_one_b(), neg_one_b()) == one_b() { reveal(laws); }

// ((a + b) + c) + d == (a + c) + (b + d)
proof fn l_add4(a: E, b: E, c: E, d: E)
    requires laws()
    ensures add_of(add_of(add_of(a, b), c), d) == add_of(add_of(a, c), add_of(b, d))
{
    l_add_assoc(a, b, c);          // (a+b)+c == a+(b+c)
    l_add_comm(b, c);              // b+c == c+b
    l_add_assoc(a, c, b);          // (a+c)+b == a+(c+b)
    l_add_assoc(add_of(a, c), b, d);
}

pub open spec fn pw(w: B, e: nat) -> B
    decreases e
{
    if e == 0 { one_b() } else { mul_b(pw(w, (e - 1) as nat), w) }
}

proof fn l_pw_add(w: B, a: nat, b: nat)
    requires laws()
    ensures pw(w, a + b) == mul_b(pw(w, a), pw(w, b))
    decreases b
{
    if b == 0 {
        l_mul_one_r(pw(w, a));
    } else {
        l_pw_add(w, a, (b - 1) as nat);
        assert(pw(w, a + b) == mul_b(pw(w, (a + b - 1) as nat), w));
        l_mul_assoc(pw(w, a), pw(w, (b - 1) as nat), w);
    }
}

proof fn l_pw_one(e: nat)
    requires laws()
    ensures pw(one_b(), e) == one_b()
    decreases e
{
    if e > 0 { l_pw_one((e - 1) as nat); l_mul_one_r(pw(one_b(), (e - 1) as nat)); }
}

proof fn l_pw_1(w: B)
    requires laws()
    ensures pw(w, 1) == w
{
    assert(pw(w, 1) == mul_b(pw(w, 0), w));
    l_mul_one_l(w);
}

proof fn l_pw_mul(w: B, a: nat, b: nat)
    requires laws()
    ensures pw(pw(w, a), b) == pw(w, a * b)
    decreases b
{
    if b == 0 {
        assert(a * b == 0) by (nonlinear_arith) requires b == 0;
    } else {
        l_pw_mul(w, a, (b - 1) as nat);
        assert(a * b == a * (b - 1) + a) by (nonlinear_arith) requires b >= 1;
        assert(a * (b - 1) >= 0) by (nonlinear_arith) requires b >= 1, a >= 0;
        l_pw_add(w, (a * (b - 1)) as nat, a);
        assert(pw(pw(w, a), b) == mul_b(pw(pw(w, a), (b - 1) as nat), pw(w, a)));
    }
}

// the discrete Fourier transform: dft(s, w, j) = sum over i < len of s[i] * w^(i * j)  ( = s evaluated at w^j )
pub open spec fn term(s: Seq<E>, w: B, j: nat, i: int) -> E { mulb_of(s[i], pw(w, (i * j) as nat)) }
pub open spec fn sum(s: Seq<E>, w: B, j: nat, t: nat) -> E
    decreases t
{
    if t == 0 { zero_e() } else { add_of(sum(s, w, j, (t - 1) as nat), term(s, w, j, t - 1)) }
}
pub open spec fn dft(s: Seq<E>, w: B, j: nat) -> E { sum(s, w, j, s.len()) }

// splitting the sum into even and odd positions
proof fn l_split(s: Seq<E>, w: B, jj: nat, t: nat)
    requires laws(), s.len() % 2 == 0, 2 * t <= s.len()
    ensures sum(s, w, jj, 2 * t) == add_of(sum(evens(s), pw(w, 2), jj, t), mulb_of(sum(odds(s), pw(w, 2), jj, t), pw(w, jj)))
    decreases t
{
    let e = evens(s);
    let o = odds(s);
    let w2 = pw(w, 2);
    let wj = pw(w, jj);
    if t == 0 {
        l_mulb_zero(wj);
        l_add_zero(zero_e());
    } else {
        let t1: int = t - 1;
        l_split(s, w, jj, t1 as nat);
        let se = sum(e, w2, jj, t1 as nat);
        let so = sum(o, w2, jj, t1 as nat);
        let te = term(e, w2, jj, t1);
        let to = term(o, w2, jj, t1);
        assert(t1 * jj >= 0) by (nonlinear_arith) requires t1 >= 0, jj >= 0;
        let ex = (t1 * jj) as nat;
        // even term
        assert(term(s, w, jj, 2 * t1) == te) by {
            l_pw_mul(w, 2, ex);
            assert((2 * t1) * jj == 2 * ex) by (nonlinear_arith) requires ex == t1 * jj;
            assert(e[t1] == s[2 * t1]);
        }
        // odd term
        assert(term(s, w, jj, 2 * t1 + 1) == mulb_of(to, wj)) by {
            l_pw_mul(w, 2, ex);
            assert((2 * t1 + 1) * jj == 2 * ex + jj) by (nonlinear_arith) requires ex == t1 * jj;
            l_pw_add(w, 2 * ex, jj);
            l_mulb_mulb(o[t1], pw(w2, ex), wj);
            assert(o[t1] == s[2 * t1 + 1]);
        }
        assert(sum(s, w, jj, 2 * t) == add_of(sum(s, w, jj, (2 * t - 1) as nat), term(s, w, jj, 2 * t - 1)));
        assert(sum(s, w, jj, (2 * t - 1) as nat) == add_of(sum(s, w, jj, (2 * t - 2) as nat), term(s, w, jj, 2 * t - 2)));
        // ((se + so*wj) + te) + to*wj == (se + te) + (so*wj + to*wj)
        l_add4(se, mulb_of(so, wj), te, mulb_of(to, wj));
        l_distr(so, to, wj);
    }
}

// periodicity: if w^h == 1 the sum with exponent j + h equals the sum with exponent j
proof fn l_period(s: Seq<E>, w: B, j: nat, h: nat, t: nat)
    requires laws(), pw(w, h) == one_b(), t <= s.len()
    ensures sum(s, w, j + h, t) == sum(s, w, j, t)
    decreases t
{
    if t > 0 {
        let t1 = (t - 1) as nat;
        l_period(s, w, j, h, t1);
        assert(t1 * (j + h) == t1 * j + h * t1) by (nonlinear_arith);
        assert(t1 * j >= 0 && h * t1 >= 0) by (nonlinear_arith) requires t1 >= 0, j >= 0, h >= 0;
        l_pw_add(w, (t1 * j) as nat, (h * t1) as nat);
        l_pw_mul(w, h, t1);
        l_pw_one(t1);
        l_mul_one_r(pw(w, (t1 * j) as nat));
    }
}

pub open spec fn bitrev(n: int, p: int) -> int
    decreases n
{
    if n <= 1 { 0 } else { (p % 2) * (n / 2) + bitrev(n / 2, p / 2) }
}

proof fn l_bitrev_range(n: int, p: int)
    requires is_p2(n), 0 <= p < n
    ensures 0 <= bitrev(n, p) < n
    decreases n
{
    if n > 1 {
        l_bitrev_range(n / 2, p / 2);
        assert((p % 2) * (n / 2) == 0 || (p % 2) * (n / 2) == n / 2) by (nonlinear_arith) requires p % 2 == 0 || p % 2 == 1;
    }
}

proof fn l_bitrev_double(m: int, k: int)
    requires is_p2(m), 0 <= k < m
    ensures bitrev(2 * m, k) == 2 * bitrev(m, k)
    decreases m
{
    if m == 1 {
        assert(bitrev(2, 0) == 0 + bitrev(1, 0));
    } else {
        l_bitrev_double(m / 2, k / 2);
        assert(bitrev(2 * m, k) == (k % 2) * m + bitrev(m, k / 2));
        assert(bitrev(m, k / 2) == 2 * bitrev(m / 2, k / 2));
        assert(bitrev(m, k) == (k % 2) * (m / 2) + bitrev(m / 2, k / 2));
        assert((k % 2) * m == 2 * ((k % 2) * (m / 2))) by (nonlinear_arith) requires m % 2 == 0;
    }
}

pub open spec fn tw_ok(tw: Seq<B>, w: B, n: int) -> bool {
    &&& tw.len() >= n / 2
    &&& forall|k: int| 0 <= k < n / 2 ==> #[trigger] tw[k] == pw(w, bitrev(n / 2, k) as nat)
    &&& n >= 2 ==> pw(w, (n / 2) as nat) == neg_one_b()
}

// THEOREM: with twiddles tw[k] == w^bitrev(n/2, k) and w^(n/2) == -1, output p of the recursion is the polynomial with
// coefficients s evaluated at w^bitrev(n, p)
pub proof fn theorem_fft_is_dft(s: Seq<E>, tw: Seq<B>, w: B, n: int)
    requires laws(), is_p2(n), s.len() == n, tw_ok(tw, w, n)
    ensures
        fft(s, tw).len() == n,
        forall|p: int| 0 <= p < n ==> #[trigger] fft(s, tw)[p] == dft(s, w, bitrev(n, p) as nat),
    decreases n
{
    if n == 1 {
        assert(bitrev(1, 0) == 0);
        assert(dft(s, w, 0) == add_of(sum(s, w, 0, 0), term(s, w, 0, 0)));
        l_add_zero(term(s, w, 0, 0));
        l_mulb_one(s[0]);
        assert(0 * 0 == 0);
    } else {
        let h = n / 2;
        let e = evens(s);
        let o = odds(s);
        let w2 = pw(w, 2);
        lemma_p2_halfany(n);
        // hypotheses for the two half-size transforms
        assert(tw_ok(tw, w2, h)) by {
            lemma_p2_halfany(n);
            if h >= 2 {
                lemma_p2_halfany(h);
                assert(is_p2(h) && h % 2 == 0);
                l_pw_mul(w, 2, (h / 2) as nat);
                assert(2 * (h / 2) == h);
                assert forall|k: int| 0 <= k < h / 2 implies #[trigger] tw[k] == pw(w2, bitrev(h / 2, k) as nat) by {
                    l_bitrev_double(h / 2, k);
                    l_bitrev_range(h / 2, k);
                    l_pw_mul(w, 2, bitrev(h / 2, k) as nat);
                    assert(tw[k] == pw(w, bitrev(h, k) as nat));
                }
            } else {
                assert(h / 2 == 0);
            }
        }
        theorem_fft_is_dft(e, tw, w2, h);
        theorem_fft_is_dft(o, tw, w2, h);
        let fe = fft(e, tw);
        let fo = fft(o, tw);
        // w2^h == 1
        assert(pw(w2, h as nat) == one_b()) by {
            l_pw_mul(w, 2, h as nat);
            l_pw_add(w, h as nat, h as nat);
            l_neg_sq();
        }
        assert forall|p: int| 0 <= p < n implies #[trigger] fft(s, tw)[p] == dft(s, w, bitrev(n, p) as nat) by {
            let k = p / 2;
            l_bitrev_range(h, k);
            let j = bitrev(h, k) as nat;
            let wj = pw(w, j);
            assert(fe[k] == dft(e, w2, j));
            assert(fo[k] == dft(o, w2, j));
            let t = if k == 0 { fo[0] } else { mulb_of(fo[k], tw[k]) };
            assert(t == mulb_of(fo[k], wj)) by {
                if k == 0 {
                    assert(bitrev(h, 0) == 0) by { l_bitrev_zero(h); }
                    l_mulb_one(fo[0]);
                }
            }
            assert(fft(s, tw)[p] == comb(fe, fo, tw, p));
            if p % 2 == 0 {
                assert(bitrev(n, p) == j) by { assert((p % 2) * h == 0); }
                l_split(s, w, j, h as nat);
            } else {
                assert(bitrev(n, p) == h + j) by { assert((p % 2) * h == h) by (nonlinear_arith) requires p % 2 == 1; }
                l_split(s, w, j + h as nat, h as nat);
                l_period(e, w2, j, h as nat, h as nat);
                l_period(o, w2, j, h as nat, h as nat);
                l_pw_add(w, j, h as nat);
                l_mulb_mulb(fo[k], wj, neg_one_b());
                l_sub(fe[k], mulb_of(fo[k], wj));
            }
        }
    }
}

proof fn l_bitrev_zero(n: int)
    requires is_p2(n)
    ensures bitrev(n, 0) == 0
    decreases n
{
    if n > 1 { l_bitrev_zero(n / 2); assert(0int % 2 == 0); assert((0int % 2) * (n / 2) == 0); }
}


// ---------------------------------------------------------------------------------------------------------------------
// the permutation index is the bit reversal `bitrev`. Cross-engine assumption: the contract of math/src/fft/mod.rs
// permute_index proved by Kani on the real function for every power-of-two size (fft_permute_index_contract: range and
// involution; fft_permute_index_recurrence_contract: the recurrence on the lowest bit)
pub uninterp spec fn pidx(n: int, i: int) -> int;
#[verifier::external_body]
pub proof fn ax_pidx(n: int, i: int)
    requires is_p2(n), 0 <= i < n
    ensures
        0 <= pidx(n, i) < n,
        pidx(n, pidx(n, i)) == i,
        pidx(n, i) == (if n == 1 { 0 } else { (i % 2) * (n / 2) + pidx(n / 2, i / 2) }),
{}

proof fn l_pidx_is_bitrev(n: int, i: int)
    requires is_p2(n), 0 <= i < n
    ensures pidx(n, i) == bitrev(n, i)
    decreases n
{
    ax_pidx(n, i);
    if n > 1 { l_pidx_is_bitrev(n / 2, i / 2); }
}

// math/src/fft/serial.rs evaluate_poly: the network followed by the bit-reversal permutation (whose contract is proved in
// unit fftv against permute_index's Kani-proved contract; restated here as the specification of an external_body method)
impl Inputs {
    #[verifier::external_body]
    pub fn permute(&mut self)
        ensures
            final(self).v.len() == old(self).v.len(),
            forall|t: int| 0 <= t < old(self).v.len() ==> #[trigger] final(self).v@[t] == old(self).v@[pidx(old(self).v.len() as int, t)],
    { unimplemented!() }
}

//@@ source math/src/fft/serial.rs
//@@ extract anchor="pub fn evaluate_poly<B, E>(p: &mut [E], twiddles: &[B])"
//@@ rewrite "p.fft_in_place(twiddles);" => "p.fft_in_place_entry(twiddles);"
pub fn evaluate_poly(p: &mut Inputs, twiddles: &[B])
    requires
        is_p2(old(p).v.len() as int), old(p).v.len() >= 2, twiddles.len() >= old(p).v.len() / 2, old(p).v.len() <= usize::MAX / 4,
    ensures
        final(p).v.len() == old(p).v.len(),
        forall|t: int| 0 <= t < old(p).v.len() ==> #[trigger] final(p).v@[t] == fft(old(p).v@, twiddles@)[pidx(old(p).v.len() as int, t)],
        // THE PROPERTY for the unshifted transform: whenever the element / twiddle operations obey the module laws and the table
        // holds the powers of a primitive root w in bit-reversed order (what get_twiddles builds, below), position t
        // of the result is the polynomial evaluated at w^t - natural order, every power-of-two size
        forall|w: B| laws() && #[trigger] tw_ok(twiddles@, w, old(p).v.len() as int) ==>
            (forall|t: int| 0 <= t < old(p).v.len() ==> #[trigger] final(p).v@[t] == dft(old(p).v@, w, t as nat)),
{
    let ghost s = p.v@;
    let ghost n = p.v.len() as int;
    /*@@body*/
    proof {
        assert forall|w: B| laws() && #[trigger] tw_ok(twiddles@, w, n) implies
            (forall|t: int| 0 <= t < n ==> #[trigger] p.v@[t] == dft(s, w, t as nat)) by {
            theorem_fft_is_dft(s, twiddles@, w, n);
            assert forall|t: int| 0 <= t < n implies #[trigger] p.v@[t] == dft(s, w, t as nat) by {
                ax_pidx(n, t);
                l_pidx_is_bitrev(n, pidx(n, t));
                l_pidx_is_bitrev(n, t);
                assert(p.v@[t] == fft(s, twiddles@)[pidx(n, t)]);
            }
        }
    }
}

// ---------------------------------------------------------------------------------------------------------------------
// math/src/fft/mod.rs get_twiddles: the table handed to the network holds w^bitrev(k) with w the 2^k-th root of unity
pub open spec fn log2f(n: int) -> int
    decreases n
{
    if n <= 1 { 0 } else { 1 + log2f(n / 2) }
}
pub assume_specification [usize::ilog2] (x: usize) -> (r: u32)
    requires x > 0
    ensures r == log2f(x as int);
pub uninterp spec fn root_spec(n: int) -> B;
pub uninterp spec fn two_adicity_spec() -> int;
pub open spec fn p2(e: int) -> int
    decreases e
{
    if e <= 0 { 1 } else { 2 * p2(e - 1) }
}
proof fn l_p2_log(m: int)
    requires is_p2(m), m >= 2
    ensures p2(log2f(m) - 1) == m / 2, log2f(m) >= 1
    decreases m
{
    if m > 2 {
        l_p2_log(m / 2);
    } else {
        assert(log2f(2) == 1 + log2f(1));
        assert(p2(0) == 1);
    }
}
impl B {
    // B::TWO_ADICITY (an associated constant of the abstract field)
    #[verifier::external_body]
    pub fn two_adicity() -> (r: u32) ensures r == two_adicity_spec() { unimplemented!() }
    // contract of StarkField::get_root_of_unity proved for the three real fields under C07 (units f64 / f62 / f128e):
    // r^(2^(n-1)) == -1
    #[verifier::external_body]
    pub fn get_root_of_unity(n: u32) -> (r: B)
        requires 1 <= n <= two_adicity_spec()
        ensures r == root_spec(n as int), pw(r, p2(n - 1) as nat) == neg_one_b()
    { unimplemented!() }
}
// contract of utils::get_power_series (macro body - batch_iter_mut! - outside Verus; its worker fill_power_series is proved
// in unit polyv, the whole function is compared with explicit powers by the stand-in poly_native): ASSUMED here
#[verifier::external_body]
pub fn get_power_series(b: B, n: usize) -> (r: Vec<B>)
    ensures r.len() == n, forall|i: int| 0 <= i < n ==> #[trigger] r@[i] == pw(b, i as nat)
{ unimplemented!() }
// contract of fft::permute (dispatch to FftInputs::permute, proved in unit fftv for every element type)
#[verifier::external_body]
pub fn permute(v: &mut Vec<B>)
    ensures
        final(v).len() == old(v).len(),
        forall|t: int| 0 <= t < old(v).len() ==> #[trigger] final(v)@[t] == old(v)@[pidx(old(v).len() as int, t)],
{ unimplemented!() }

// a runtime `assert!(c, "..")` of the source becomes `if !(c) { must_not_panic(); }`: the call is only admissible where it is unreachable
#[verifier::external_body]
pub fn must_not_panic() requires false { unimplemented!() }

proof fn l_p2_pos(e: int) ensures p2(e) >= 1 decreases e { if e > 0 { l_p2_pos(e - 1); } }

//@@ source math/src/fft/mod.rs
//@@ extract anchor="pub fn get_twiddles<B>(domain_size: usize) -> Vec<B>"
//@@ rewrite-re "assert!\(([^,]+),[^;]*\);" => "if !(\1) { must_not_panic(); }"
//@@ rewrite "B::TWO_ADICITY" => "B::two_adicity()"
//@@ tail
//@@|    proof {
//@@|        let h = (domain_size / 2) as int;
//@@|        assert forall|k: int| 0 <= k < h implies #[trigger] twiddles@[k] == pw(root, bitrev(h, k) as nat) by {
//@@|            l_pidx_is_bitrev(h, k);
//@@|            ax_pidx(h, k);
//@@|        }
//@@|    }
pub fn get_twiddles(domain_size: usize) -> (r: Vec<B>)
    requires
        is_p2(domain_size as int), domain_size >= 2, log2f(domain_size as int) <= two_adicity_spec(),
    ensures
        r.len() == domain_size / 2,
        tw_ok(r@, root_spec(log2f(domain_size as int)), domain_size as int),
{
    proof { l_p2_log(domain_size as int); lemma_p2_halfany(domain_size as int); }
    /*@@body*/
}

proof fn lemma_p2_halfany(m: int)
    requires is_p2(m), m >= 2
    ensures is_p2(m / 2), m % 2 == 0
{
    reveal_with_fuel(is_p2, 2);
}

// ---------------------------------------------------------------------------------------------------------------------
// math/src/fft/mod.rs get_inv_twiddles: the same table for the inverse root w^(n-1)
proof fn l_pw_neg_odd(e: nat)
    requires laws(), e % 2 == 1
    ensures pw(neg_one_b(), e) == neg_one_b()
    decreases e
{
    if e == 1 {
        l_pw_1(neg_one_b());
    } else {
        l_pw_neg_odd((e - 2) as nat);
        let x = pw(neg_one_b(), (e - 2) as nat);
        assert(pw(neg_one_b(), e) == mul_b(pw(neg_one_b(), (e - 1) as nat), neg_one_b()));
        assert(pw(neg_one_b(), (e - 1) as nat) == mul_b(x, neg_one_b()));
        l_mul_assoc(x, neg_one_b(), neg_one_b());
        l_neg_sq();
        l_mul_one_r(x);
    }
}
pub struct PI(pub u64);
impl PI {
    // `<u32 as Into<B::PositiveInteger>>::into`
    #[verifier::external_body]
    pub fn from_u32(x: u32) -> (r: PI) ensures r.0 == x { unimplemented!() }
}
impl B {
    // contract of FieldElement::exp proved for the three real fields under C07: self^power
    #[verifier::external_body]
    pub fn exp(self, power: PI) -> (r: B) ensures r == pw(self, power.0 as nat) { unimplemented!() }
}

//@@ source math/src/fft/mod.rs
//@@ extract anchor="pub fn get_inv_twiddles<B>(domain_size: usize) -> Vec<B>"
//@@ rewrite-re "assert!\(([^,]+),[^;]*\);" => "if !(\1) { must_not_panic(); }"
//@@ rewrite "B::TWO_ADICITY" => "B::two_adicity()"
//@@ rewrite "(domain_size as u32 - 1).into()" => "PI::from_u32(domain_size as u32 - 1)"
//@@ tail
//@@|    proof {
//@@|        let h = (domain_size / 2) as int;
//@@|        let n = domain_size as int;
//@@|        assert forall|k: int| 0 <= k < h implies #[trigger] inv_twiddles@[k] == pw(inv_root, bitrev(h, k) as nat) by {
//@@|            l_pidx_is_bitrev(h, k);
//@@|            ax_pidx(h, k);
//@@|        }
//@@|        if laws() {
//@@|            // (root^(n-1))^(n/2) == (root^(n/2))^(n-1) == (-1)^(n-1) == -1
//@@|            l_pw_mul(root, (n - 1) as nat, h as nat);
//@@|            l_pw_mul(root, h as nat, (n - 1) as nat);
//@@|            assert((n - 1) * h == h * (n - 1)) by (nonlinear_arith);
//@@|            l_pw_neg_odd((n - 1) as nat);
//@@|        }
//@@|    }
pub fn get_inv_twiddles(domain_size: usize) -> (r: Vec<B>)
    requires
        is_p2(domain_size as int), domain_size >= 2, log2f(domain_size as int) <= two_adicity_spec(), domain_size <= u32::MAX,
    ensures
        r.len() == domain_size / 2,
        laws() ==> tw_ok(r@, pw(root_spec(log2f(domain_size as int)), (domain_size - 1) as nat), domain_size as int),
{
    proof { l_p2_log(domain_size as int); lemma_p2_halfany(domain_size as int); }
    /*@@body*/
}

// ---------------------------------------------------------------------------------------------------------------------
// math/src/fft/serial.rs interpolate_poly: network with the inverse table, scaling by 1/n, permutation
pub uninterp spec fn inv_b(x: B) -> B;
pub uninterp spec fn b_of_u32(x: u32) -> B;
impl B {
    #[verifier::external_body]
    pub fn inv(x: B) -> (r: B) ensures r == inv_b(x) { unimplemented!() }
    // `<u32 as Into<B>>::into`
    #[verifier::external_body]
    pub fn from_u32(x: u32) -> (r: B) ensures r == b_of_u32(x) { unimplemented!() }
}
impl Inputs {
    // FftInputs::shift_by for [E] (`for d in self.iter_mut() { *d *= E::from(offset) }` - iter_mut is outside the installed
    // Verus): ASSUMED to multiply every element by the base-field value
    #[verifier::external_body]
    pub fn shift_by(&mut self, offset: B)
        ensures
            final(self).v.len() == old(self).v.len(),
            forall|t: int| 0 <= t < old(self).v.len() ==> #[trigger] final(self).v@[t] == mulb_of(old(self).v@[t], offset),
    { unimplemented!() }
}

//@@ source math/src/fft/serial.rs
//@@ extract anchor="pub fn interpolate_poly<B, E>(evaluations: &mut [E], inv_twiddles: &[B])"
//@@ rewrite-re "assert!\(([^,]+),[^;]*\);" => "if !(\1) { must_not_panic(); }"
//@@ rewrite "(evaluations.len() as u32).into()" => "B::from_u32(evaluations.len() as u32)"
//@@ rewrite "evaluations.fft_in_place(inv_twiddles);" => "evaluations.fft_in_place_entry(inv_twiddles);"
pub fn interpolate_poly(evaluations: &mut Inputs, inv_twiddles: &[B])
    requires
        is_p2(old(evaluations).v.len() as int), old(evaluations).v.len() >= 2, inv_twiddles.len() >= old(evaluations).v.len() / 2,
        old(evaluations).v.len() <= u32::MAX,
    ensures
        final(evaluations).v.len() == old(evaluations).v.len(),
        // the inverse-transform formula: with the table of the inverse root w, position t is (1/n) * sum_i v[i] * w^(i*t)
        forall|w: B| laws() && #[trigger] tw_ok(inv_twiddles@, w, old(evaluations).v.len() as int) ==>
            (forall|t: int| 0 <= t < old(evaluations).v.len() ==> #[trigger] final(evaluations).v@[t] ==
                mulb_of(dft(old(evaluations).v@, w, t as nat), inv_b(b_of_u32(old(evaluations).v.len() as u32)))),
{
    let ghost s = evaluations.v@;
    let ghost n = evaluations.v.len() as int;
    /*@@body*/
    proof {
        assert forall|w: B| laws() && #[trigger] tw_ok(inv_twiddles@, w, n) implies
            (forall|t: int| 0 <= t < n ==> #[trigger] evaluations.v@[t] == mulb_of(dft(s, w, t as nat), inv_b(b_of_u32(n as u32)))) by {
            theorem_fft_is_dft(s, inv_twiddles@, w, n);
            assert forall|t: int| 0 <= t < n implies #[trigger] evaluations.v@[t] == mulb_of(dft(s, w, t as nat), inv_b(b_of_u32(n as u32))) by {
                ax_pidx(n, t);
                l_pidx_is_bitrev(n, pidx(n, t));
                l_pidx_is_bitrev(n, t);
            }
        }
    }
}

// ---------------------------------------------------------------------------------------------------------------------
// math/src/fft/serial.rs interpolate_poly_with_offset: network with the inverse table, permutation, then scaling of
// coefficient t by (1/n) * (1/offset)^t
impl Inputs {
    // FftInputs::shift_by_series for [E] (`for d in self.iter_mut() { *d *= offset; offset *= increment; }` with offset and
    // increment embedded through E::from - iter_mut is outside the installed Verus): ASSUMED to multiply element t by the
    // base-field value offset * increment^t
    #[verifier::external_body]
    pub fn shift_by_series(&mut self, offset: B, increment: B)
        ensures
            final(self).v.len() == old(self).v.len(),
            forall|t: int| 0 <= t < old(self).v.len() ==> #[trigger] final(self).v@[t] == mulb_of(old(self).v@[t], mul_b(offset, pw(increment, t as nat))),
    { unimplemented!() }
}

//@@ source math/src/fft/serial.rs
//@@ extract anchor="pub fn interpolate_poly_with_offset<B, E>("
//@@ rewrite-re "assert!\(([^,]+),[^;]*\);" => "if !(\1) { must_not_panic(); }"
//@@ rewrite "(evaluations.len() as u32).into()" => "B::from_u32(evaluations.len() as u32)"
//@@ rewrite "evaluations.fft_in_place(inv_twiddles);" => "evaluations.fft_in_place_entry(inv_twiddles);"
//@@ before "let domain_offset"
//@@|    let ghost mid = evaluations.v@;
//@@|    proof {
//@@|        assert forall|w: B| laws() && #[trigger] tw_ok(inv_twiddles@, w, n) implies
//@@|            (forall|t: int| 0 <= t < n ==> #[trigger] mid[t] == dft(s, w, t as nat)) by {
//@@|            theorem_fft_is_dft(s, inv_twiddles@, w, n);
//@@|            assert forall|t: int| 0 <= t < n implies #[trigger] mid[t] == dft(s, w, t as nat) by {
//@@|                ax_pidx(n, t);
//@@|                l_pidx_is_bitrev(n, pidx(n, t));
//@@|                l_pidx_is_bitrev(n, t);
//@@|            }
//@@|        }
//@@|    }
pub fn interpolate_poly_with_offset(evaluations: &mut Inputs, inv_twiddles: &[B], domain_offset: B)
    requires
        is_p2(old(evaluations).v.len() as int), old(evaluations).v.len() >= 2, inv_twiddles.len() >= old(evaluations).v.len() / 2,
        old(evaluations).v.len() <= u32::MAX,
    ensures
        final(evaluations).v.len() == old(evaluations).v.len(),
        // with the table of the inverse root w, coefficient t is (sum_i v[i] * w^(i*t)) * ((1/n) * (1/offset)^t)
        forall|w: B| laws() && #[trigger] tw_ok(inv_twiddles@, w, old(evaluations).v.len() as int) ==>
            (forall|t: int| 0 <= t < old(evaluations).v.len() ==> #[trigger] final(evaluations).v@[t] ==
                mulb_of(dft(old(evaluations).v@, w, t as nat),
                    mul_b(inv_b(b_of_u32(old(evaluations).v.len() as u32)), pw(inv_b(domain_offset), t as nat)))),
{
    let ghost s = evaluations.v@;
    let ghost n = evaluations.v.len() as int;
    /*@@body*/
}

proof fn fftcore_canary_must_fail(a: E, b: E)
    ensures add_of(a, b) == add_of(b, a)
{
}

} // verus!

fn main() {}
