// Verus unit containerv: the length-prefixed byte containers a proof is made of - Queries, OodFrame, Commitments
// (air/src/proof/{queries,ood_frame,commitments}.rs) - (de)serializers cut out of /repo, for EVERY content and length.
// Reader / writer are abstract byte sequences; the fixed-width length prefixes are the uninterpreted encoders enc_u16 / enc_u32 with
// their decoders, whose round trip (`prefix_rt()`) is a hypothesis here and a complete Kani contract of C12 for the real readers.
// Decided:
//   write_into   appends, per byte vector, its length as the prefix of the documented width and then the bytes
//   read_from    reads a prefix, then exactly that many bytes, per vector, in the same order; Err exactly when a prefix is
//                missing or fewer bytes remain than it announces
//   round trips  for vectors whose lengths fit their prefix (u32 for Queries, u16 for OodFrame and Commitments - below the
//                constructors' limits) read_from(write_into(x) ++ rest) == Ok(x) with exactly `rest` left.
//   Commitments::write_into's assertion (fewer than 65535 bytes) is the documented pre-condition.
// The narrowing casts `len as u32` / `len as u16` are kept verbatim: the contracts state the range in which they are exact.
use vstd::prelude::*;
verus! {
global size_of usize == 8;

pub uninterp spec fn enc_u16(x: u16) -> Seq<u8>;
pub uninterp spec fn dec_u16(s: Seq<u8>) -> Option<(u16, Seq<u8>)>;
pub uninterp spec fn enc_u8(x: u8) -> Seq<u8>;
pub uninterp spec fn dec_u8(s: Seq<u8>) -> Option<(u8, Seq<u8>)>;
pub uninterp spec fn enc_u64(x: u64) -> Seq<u8>;
pub uninterp spec fn dec_u64(s: Seq<u8>) -> Option<(u64, Seq<u8>)>;
pub uninterp spec fn enc_u32(x: u32) -> Seq<u8>;
pub uninterp spec fn dec_u32(s: Seq<u8>) -> Option<(u32, Seq<u8>)>;
#[verifier::opaque]
pub open spec fn prefix_rt() -> bool {
    &&& forall|x: u16, r: Seq<u8>| dec_u16(#[trigger] (enc_u16(x) + r)) == Some((x, r))
    &&& forall|x: u32, r: Seq<u8>| dec_u32(#[trigger] (enc_u32(x) + r)) == Some((x, r))
}

pub struct Msg;
#[verifier::external_body]
pub fn err_text() -> Msg { unimplemented!() }
pub enum DeserializationError { InvalidValue(Msg), UnexpectedEOF }
pub struct Reader { pub rem: Ghost<Seq<u8>> }
pub struct Writer { pub out: Ghost<Seq<u8>> }
#[verifier::external_body]
pub fn must_not_panic() requires false { unimplemented!() }

impl Writer {
    #[verifier::external_body]
    pub fn write_u16(&mut self, x: u16) ensures final(self).out@ == old(self).out@ + enc_u16(x) { unimplemented!() }
    #[verifier::external_body]
    pub fn write_u32(&mut self, x: u32) ensures final(self).out@ == old(self).out@ + enc_u32(x) { unimplemented!() }
    // (the other fixed-width writers / readers, so that a changed prefix width is decided rather than a compile error)
    #[verifier::external_body]
    pub fn write_u8(&mut self, x: u8) ensures final(self).out@ == old(self).out@ + enc_u8(x) { unimplemented!() }
    #[verifier::external_body]
    pub fn write_u64(&mut self, x: u64) ensures final(self).out@ == old(self).out@ + enc_u64(x) { unimplemented!() }
    #[verifier::external_body]
    pub fn write_bytes(&mut self, b: &Vec<u8>) ensures final(self).out@ == old(self).out@ + b@ { unimplemented!() }
}
impl Reader {
    #[verifier::external_body]
    pub fn read_u16(&mut self) -> (r: Result<u16, DeserializationError>)
        ensures r is Ok <==> dec_u16(old(self).rem@) is Some,
                r is Ok ==> r->Ok_0 == dec_u16(old(self).rem@)->Some_0.0 && final(self).rem@ == dec_u16(old(self).rem@)->Some_0.1,
    { unimplemented!() }
    #[verifier::external_body]
    pub fn read_u32(&mut self) -> (r: Result<u32, DeserializationError>)
        ensures r is Ok <==> dec_u32(old(self).rem@) is Some,
                r is Ok ==> r->Ok_0 == dec_u32(old(self).rem@)->Some_0.0 && final(self).rem@ == dec_u32(old(self).rem@)->Some_0.1,
    { unimplemented!() }
    #[verifier::external_body]
    pub fn read_u8(&mut self) -> (r: Result<u8, DeserializationError>)
        ensures r is Ok <==> dec_u8(old(self).rem@) is Some,
                r is Ok ==> r->Ok_0 == dec_u8(old(self).rem@)->Some_0.0 && final(self).rem@ == dec_u8(old(self).rem@)->Some_0.1,
    { unimplemented!() }
    #[verifier::external_body]
    pub fn read_u64(&mut self) -> (r: Result<u64, DeserializationError>)
        ensures r is Ok <==> dec_u64(old(self).rem@) is Some,
                r is Ok ==> r->Ok_0 == dec_u64(old(self).rem@)->Some_0.0 && final(self).rem@ == dec_u64(old(self).rem@)->Some_0.1,
    { unimplemented!() }
    // contract of ByteReader::read_vec (read_slice + to_vec; Kani for SliceReader): the next `len` bytes, Err when fewer remain
    #[verifier::external_body]
    pub fn read_vec(&mut self, len: usize) -> (r: Result<Vec<u8>, DeserializationError>)
        ensures r is Ok <==> old(self).rem@.len() >= len,
                r is Ok ==> r->Ok_0@ == old(self).rem@.take(len as int) && final(self).rem@ == old(self).rem@.skip(len as int),
    { unimplemented!() }
}

// a length-prefixed byte vector, with a 16- or 32-bit prefix
pub open spec fn dec_v16(s: Seq<u8>) -> Option<(Seq<u8>, Seq<u8>)> {
    match dec_u16(s) { None => None, Some((n, r)) => if r.len() >= n { Some((r.take(n as int), r.skip(n as int))) } else { None } }
}
pub open spec fn dec_v32(s: Seq<u8>) -> Option<(Seq<u8>, Seq<u8>)> {
    match dec_u32(s) { None => None, Some((n, r)) => if r.len() >= n { Some((r.take(n as int), r.skip(n as int))) } else { None } }
}
proof fn lemma_v16(b: Seq<u8>, rest: Seq<u8>)
    requires prefix_rt(), b.len() <= u16::MAX
    ensures dec_v16(enc_u16(b.len() as u16) + b + rest) == Some((b, rest))
{
    reveal(prefix_rt);
    assert(enc_u16(b.len() as u16) + b + rest =~= enc_u16(b.len() as u16) + (b + rest));
    assert((b + rest).take(b.len() as int) =~= b);
    assert((b + rest).skip(b.len() as int) =~= rest);
}
proof fn lemma_v32(b: Seq<u8>, rest: Seq<u8>)
    requires prefix_rt(), b.len() <= u32::MAX
    ensures dec_v32(enc_u32(b.len() as u32) + b + rest) == Some((b, rest))
{
    reveal(prefix_rt);
    assert(enc_u32(b.len() as u32) + b + rest =~= enc_u32(b.len() as u32) + (b + rest));
    assert((b + rest).take(b.len() as int) =~= b);
    assert((b + rest).skip(b.len() as int) =~= rest);
}

// ---------------------------------------------------------------------------------------------------------------------
pub struct Queries { pub paths: Vec<u8>, pub values: Vec<u8> }
pub open spec fn enc_queries(q: Queries) -> Seq<u8> {
    enc_u32(q.values.len() as u32) + q.values@ + enc_u32(q.paths.len() as u32) + q.paths@
}
pub open spec fn dec_queries(s: Seq<u8>) -> Option<((Seq<u8>, Seq<u8>), Seq<u8>)> {
    match dec_v32(s) { None => None, Some((v, r1)) => match dec_v32(r1) { None => None, Some((p, r2)) => Some(((v, p), r2)) } }
}
impl Queries {
    //@@ source air/src/proof/queries.rs
    //@@ extract within="impl Serializable for Queries" anchor="fn write_into<W: ByteWriter>(&self, target: &mut W)"
    pub fn write_into(&self, target: &mut Writer)
        requires self.values.len() <= u32::MAX, self.paths.len() <= u32::MAX
        ensures final(target).out@ == old(target).out@ + enc_queries(*self)
    {
        /*@@body*/
        proof { assert(target.out@ =~= old(target).out@ + enc_queries(*self)); }
    }

    //@@ extract within="impl Deserializable for Queries" anchor="fn read_from<R: ByteReader>(source: &mut R) -> Result<Self, DeserializationError>"
    pub fn read_from(source: &mut Reader) -> (r: Result<Queries, DeserializationError>)
        ensures
            r is Ok <==> dec_queries(old(source).rem@) is Some,
            r is Ok ==> dec_queries(old(source).rem@) == Some(((r->Ok_0.values@, r->Ok_0.paths@), final(source).rem@)),
    {
        /*@@body*/
    }
}
proof fn theorem_queries_roundtrip(q: Queries, rest: Seq<u8>)
    requires prefix_rt(), q.values.len() <= u32::MAX, q.paths.len() <= u32::MAX
    ensures dec_queries(enc_queries(q) + rest) == Some(((q.values@, q.paths@), rest))
{
    let t = enc_u32(q.paths.len() as u32) + q.paths@ + rest;
    assert(enc_queries(q) + rest =~= enc_u32(q.values.len() as u32) + q.values@ + t);
    lemma_v32(q.values@, t);
    lemma_v32(q.paths@, rest);
}

// ---------------------------------------------------------------------------------------------------------------------
pub struct OodFrame { pub trace_states: Vec<u8>, pub lagrange_kernel_trace_states: Vec<u8>, pub evaluations: Vec<u8> }
pub open spec fn enc_ood(o: OodFrame) -> Seq<u8> {
    enc_u16(o.trace_states.len() as u16) + o.trace_states@ + enc_u16(o.lagrange_kernel_trace_states.len() as u16) + o.lagrange_kernel_trace_states@
        + enc_u16(o.evaluations.len() as u16) + o.evaluations@
}
pub open spec fn dec_ood(s: Seq<u8>) -> Option<((Seq<u8>, Seq<u8>, Seq<u8>), Seq<u8>)> {
    match dec_v16(s) { None => None, Some((a, r1)) => match dec_v16(r1) { None => None, Some((b, r2)) => match dec_v16(r2) { None => None, Some((c, r3)) => Some(((a, b, c), r3)) } } }
}
impl OodFrame {
    //@@ source air/src/proof/ood_frame.rs
    //@@ extract within="impl Serializable for OodFrame" anchor="fn write_into<W: ByteWriter>(&self, target: &mut W)"
    pub fn write_into(&self, target: &mut Writer)
        requires self.trace_states.len() <= u16::MAX, self.lagrange_kernel_trace_states.len() <= u16::MAX, self.evaluations.len() <= u16::MAX
        ensures final(target).out@ == old(target).out@ + enc_ood(*self)
    {
        /*@@body*/;
        proof { assert(target.out@ =~= old(target).out@ + enc_ood(*self)); }
    }

    //@@ extract within="impl Deserializable for OodFrame" anchor="fn read_from<R: ByteReader>(source: &mut R) -> Result<Self, DeserializationError>"
    pub fn read_from(source: &mut Reader) -> (r: Result<OodFrame, DeserializationError>)
        ensures
            r is Ok <==> dec_ood(old(source).rem@) is Some,
            r is Ok ==> dec_ood(old(source).rem@) == Some(((r->Ok_0.trace_states@, r->Ok_0.lagrange_kernel_trace_states@, r->Ok_0.evaluations@), final(source).rem@)),
    {
        /*@@body*/
    }
}
proof fn theorem_ood_roundtrip(o: OodFrame, rest: Seq<u8>)
    requires prefix_rt(), o.trace_states.len() <= u16::MAX, o.lagrange_kernel_trace_states.len() <= u16::MAX, o.evaluations.len() <= u16::MAX
    ensures dec_ood(enc_ood(o) + rest) == Some(((o.trace_states@, o.lagrange_kernel_trace_states@, o.evaluations@), rest))
{
    let t2 = enc_u16(o.evaluations.len() as u16) + o.evaluations@ + rest;
    let t1 = enc_u16(o.lagrange_kernel_trace_states.len() as u16) + o.lagrange_kernel_trace_states@ + t2;
    assert(enc_ood(o) + rest =~= enc_u16(o.trace_states.len() as u16) + o.trace_states@ + t1);
    lemma_v16(o.trace_states@, t1);
    lemma_v16(o.lagrange_kernel_trace_states@, t2);
    lemma_v16(o.evaluations@, rest);
}

// ---------------------------------------------------------------------------------------------------------------------
pub struct Commitments(pub Vec<u8>);
impl Commitments {
    //@@ source air/src/proof/commitments.rs
    //@@ extract within="impl Serializable for Commitments" anchor="fn write_into<W: ByteWriter>(&self, target: &mut W)"
    //@@ rewrite-re "assert!\(([^;]+)\);" => "if !(\1) { must_not_panic(); }"
    pub fn write_into(&self, target: &mut Writer)
        requires self.0.len() < u16::MAX
        ensures final(target).out@ == old(target).out@ + enc_u16(self.0.len() as u16) + self.0@
    {
        /*@@body*/
    }

    //@@ extract within="impl Deserializable for Commitments" anchor="fn read_from<R: ByteReader>(source: &mut R) -> Result<Self, DeserializationError>"
    pub fn read_from(source: &mut Reader) -> (r: Result<Commitments, DeserializationError>)
        ensures
            r is Ok <==> dec_v16(old(source).rem@) is Some,
            r is Ok ==> dec_v16(old(source).rem@) == Some((r->Ok_0.0@, final(source).rem@)),
    {
        /*@@body*/
    }
}

// ---------------------------------------------------------------------------------------------------------------------
// FRI proof parts (fri/src/proof.rs): a layer is two byte vectors behind 32-bit prefixes, the first of which must not be empty;
// a FRI proof is a layer count (one byte), the layers, the remainder behind a 16-bit prefix and the log2 of the number of
// partitions (one byte, refused when 2^k is not representable).
pub struct FriProofLayer { pub values: Vec<u8>, pub paths: Vec<u8> }
pub open spec fn enc_layer(l: FriProofLayer) -> Seq<u8> {
    enc_u32(l.values.len() as u32) + l.values@ + enc_u32(l.paths.len() as u32) + l.paths@
}
pub open spec fn dec_layer(s: Seq<u8>) -> Option<((Seq<u8>, Seq<u8>), Seq<u8>)> {
    match dec_v32(s) { None => None, Some((v, r1)) => if v.len() == 0 { None } else { match dec_v32(r1) { None => None, Some((p, r2)) => Some(((v, p), r2)) } } }
}
impl FriProofLayer {
    //@@ source fri/src/proof.rs
    //@@ extract within="impl Serializable for FriProofLayer" anchor="fn write_into<W: ByteWriter>(&self, target: &mut W)"
    pub fn write_into(&self, target: &mut Writer)
        requires self.values.len() <= u32::MAX, self.paths.len() <= u32::MAX
        ensures final(target).out@ == old(target).out@ + enc_layer(*self)
    {
        /*@@body*/
        proof { assert(target.out@ =~= old(target).out@ + enc_layer(*self)); }
    }

    //@@ extract within="impl Deserializable for FriProofLayer" anchor="fn read_from<R: ByteReader>(source: &mut R) -> Result<Self, DeserializationError>"
    //@@ rewrite-re "DeserializationError::InvalidValue\(\s*\"[^\"]*\"\s*\.to_string\(\),?\s*\)" => "DeserializationError::InvalidValue(err_text())"
    pub fn read_from(source: &mut Reader) -> (r: Result<FriProofLayer, DeserializationError>)
        ensures
            r is Ok <==> dec_layer(old(source).rem@) is Some,
            r is Ok ==> dec_layer(old(source).rem@) == Some(((r->Ok_0.values@, r->Ok_0.paths@), final(source).rem@)),
    {
        /*@@body*/
    }
}
proof fn theorem_layer_roundtrip(l: FriProofLayer, rest: Seq<u8>)
    requires prefix_rt(), 1 <= l.values.len() <= u32::MAX, l.paths.len() <= u32::MAX
    ensures dec_layer(enc_layer(l) + rest) == Some(((l.values@, l.paths@), rest))
{
    let t = enc_u32(l.paths.len() as u32) + l.paths@ + rest;
    assert(enc_layer(l) + rest =~= enc_u32(l.values.len() as u32) + l.values@ + t);
    lemma_v32(l.values@, t);
    lemma_v32(l.paths@, rest);
}

// a FRI proof: layer count (one byte), the layers, the remainder behind a 16-bit prefix, log2 of the number of partitions
pub struct FriProof { pub layers: Vec<FriProofLayer>, pub remainder: Vec<u8>, pub num_partitions: u8 }
pub open spec fn lview(l: FriProofLayer) -> (Seq<u8>, Seq<u8>) { (l.values@, l.paths@) }
pub open spec fn enc_layers(v: Seq<FriProofLayer>) -> Seq<u8>
    decreases v.len()
{
    if v.len() == 0 { Seq::<u8>::empty() } else { enc_layers(v.drop_last()) + enc_layer(v.last()) }
}
pub open spec fn dec_layers(s: Seq<u8>, n: nat) -> Option<(Seq<(Seq<u8>, Seq<u8>)>, Seq<u8>)>
    decreases n
{
    if n == 0 { Some((Seq::<(Seq<u8>, Seq<u8>)>::empty(), s)) } else {
        match dec_layer(s) {
            None => None,
            Some((x, r1)) => match dec_layers(r1, (n - 1) as nat) { None => None, Some((xs, r2)) => Some((seq![x] + xs, r2)) },
        }
    }
}
impl Reader {
    // contract of ByteReader::read_many::<FriProofLayer> (read_many is proved from its body in unit serdev; the element
    // decoder is FriProofLayer::read_from above)
    #[verifier::external_body]
    pub fn read_many(&mut self, n: usize) -> (r: Result<Vec<FriProofLayer>, DeserializationError>)
        ensures
            r is Ok <==> dec_layers(old(self).rem@, n as nat) is Some,
            r is Ok ==> r->Ok_0.len() == n && dec_layers(old(self).rem@, n as nat) == Some((r->Ok_0@.map_values(|l: FriProofLayer| lview(l)), final(self).rem@)),
    { unimplemented!() }
}
pub open spec fn dec_fri(s: Seq<u8>) -> Option<((Seq<(Seq<u8>, Seq<u8>)>, Seq<u8>, u8), Seq<u8>)> {
    match dec_u8(s) { None => None, Some((n, r1)) =>
    match dec_layers(r1, n as nat) { None => None, Some((ls, r2)) =>
    match dec_v16(r2) { None => None, Some((rem, r3)) =>
    match dec_u8(r3) { None => None, Some((p, r4)) => if p >= 64 { None } else { Some(((ls, rem, p), r4)) } }}}}
}
impl FriProof {
    //@@ source fri/src/proof.rs
    //@@ extract within="impl Serializable for FriProof" anchor="fn write_into<W: ByteWriter>(&self, target: &mut W)"
    //@@ itername 1 it
    //@@ loop 1
    //@@|            invariant
    //@@|                0 <= it.index@ <= self.layers@.len(),
    //@@|                forall|t: int| 0 <= t < self.layers@.len() ==> (#[trigger] self.layers@[t]).values.len() <= u32::MAX && self.layers@[t].paths.len() <= u32::MAX,
    //@@|                target.out@ == old(target).out@ + enc_u8(self.layers.len() as u8) + enc_layers(self.layers@.take(it.index@)),
    //@@ loopstart 1
    //@@|            proof { assert(*layer == self.layers@[it.index@]); }
    //@@ loopend 1
    //@@|            proof {
    //@@|                let k = it.index@;
    //@@|                assert(self.layers@.take(k + 1).drop_last() =~= self.layers@.take(k));
    //@@|                assert(self.layers@.take(k + 1).last() == self.layers@[k]);
    //@@|                assert(target.out@ =~= old(target).out@ + enc_u8(self.layers.len() as u8) + enc_layers(self.layers@.take(k + 1)));
    //@@|            }
    pub fn write_into(&self, target: &mut Writer)
        requires
            self.layers.len() <= u8::MAX, self.remainder.len() <= u16::MAX,
            forall|t: int| 0 <= t < self.layers@.len() ==> (#[trigger] self.layers@[t]).values.len() <= u32::MAX && self.layers@[t].paths.len() <= u32::MAX,
        ensures
            final(target).out@ == old(target).out@ + enc_u8(self.layers.len() as u8) + enc_layers(self.layers@)
                + enc_u16(self.remainder.len() as u16) + self.remainder@ + enc_u8(self.num_partitions),
    {
        proof {
            assert(self.layers@.take(0) =~= Seq::<FriProofLayer>::empty());
            assert(old(target).out@ + enc_u8(self.layers.len() as u8) + Seq::<u8>::empty() =~= old(target).out@ + enc_u8(self.layers.len() as u8));
        }
        /*@@body*/
        proof { assert(self.layers@.take(self.layers@.len() as int) =~= self.layers@); }
    }

    //@@ extract within="impl Deserializable for FriProof" anchor="fn read_from<R: ByteReader>(source: &mut R) -> Result<Self, DeserializationError>"
    //@@ rewrite-re "format!\([^;]*\)\)\);" => "err_text()));"
    pub fn read_from(source: &mut Reader) -> (r: Result<FriProof, DeserializationError>)
        ensures
            r is Ok <==> dec_fri(old(source).rem@) is Some,
            r is Ok ==> dec_fri(old(source).rem@) == Some(((r->Ok_0.layers@.map_values(|l: FriProofLayer| lview(l)), r->Ok_0.remainder@, r->Ok_0.num_partitions), final(source).rem@)),
    {
        /*@@body*/
    }
}

// ---------------------------------------------------------------------------------------------------------------------
// Context (air/src/proof/context.rs): trace info, the claimed field modulus behind a one-byte length prefix (non-empty), the proof
// options; the reader enforces Context::new's size limits (trace length and LDE domain size at most 2^32 - 1 ... see below).
// TraceInfo and ProofOptions are abstract components here (their headers are complete Kani contracts of C12 / C06).
#[derive(PartialEq, Eq, Structural)]
pub struct TraceInfo(pub u64);
#[derive(PartialEq, Eq, Structural)]
pub struct ProofOptions(pub u64);
pub uninterp spec fn enc_ti(x: TraceInfo) -> Seq<u8>;
pub uninterp spec fn dec_ti(s: Seq<u8>) -> Option<(TraceInfo, Seq<u8>)>;
pub uninterp spec fn enc_po(x: ProofOptions) -> Seq<u8>;
pub uninterp spec fn dec_po(s: Seq<u8>) -> Option<(ProofOptions, Seq<u8>)>;
pub uninterp spec fn ti_length(x: TraceInfo) -> usize;
pub uninterp spec fn po_blowup(x: ProofOptions) -> usize;
impl TraceInfo {
    #[verifier::external_body]
    pub fn read_from(source: &mut Reader) -> (r: Result<TraceInfo, DeserializationError>)
        ensures r is Ok <==> dec_ti(old(source).rem@) is Some,
                r is Ok ==> r->Ok_0 == dec_ti(old(source).rem@)->Some_0.0 && final(source).rem@ == dec_ti(old(source).rem@)->Some_0.1,
    { unimplemented!() }
    #[verifier::external_body]
    pub fn write_into(&self, target: &mut Writer) ensures final(target).out@ == old(target).out@ + enc_ti(*self) { unimplemented!() }
    #[verifier::external_body]
    pub fn length(&self) -> (r: usize) ensures r == ti_length(*self) { unimplemented!() }
}
impl ProofOptions {
    #[verifier::external_body]
    pub fn read_from(source: &mut Reader) -> (r: Result<ProofOptions, DeserializationError>)
        ensures r is Ok <==> dec_po(old(source).rem@) is Some,
                r is Ok ==> r->Ok_0 == dec_po(old(source).rem@)->Some_0.0 && final(source).rem@ == dec_po(old(source).rem@)->Some_0.1,
                // options accepted by the reader have a blowup factor of at most 128 (Kani: air_options_read_total_contract)
                r is Ok ==> po_blowup(r->Ok_0) <= 128,
    { unimplemented!() }
    #[verifier::external_body]
    pub fn write_into(&self, target: &mut Writer) ensures final(target).out@ == old(target).out@ + enc_po(*self) { unimplemented!() }
    // a blowup factor accepted by ProofOptions::read_from is at most 128 (Kani: air_options_*)
    #[verifier::external_body]
    pub fn blowup_factor(&self) -> (r: usize) ensures r == po_blowup(*self), r <= 128 { unimplemented!() }
}
pub struct Context { pub trace_info: TraceInfo, pub field_modulus_bytes: Vec<u8>, pub options: ProofOptions }
pub open spec fn dec_v8(s: Seq<u8>) -> Option<(Seq<u8>, Seq<u8>)> {
    match dec_u8(s) { None => None, Some((n, r)) => if n >= 1 && r.len() >= n { Some((r.take(n as int), r.skip(n as int))) } else { None } }
}
pub open spec fn limits_ok(t: TraceInfo, o: ProofOptions) -> bool {
    ti_length(t) <= u32::MAX && ti_length(t) * po_blowup(o) <= u32::MAX
}
pub open spec fn dec_context(s: Seq<u8>) -> Option<((TraceInfo, Seq<u8>, ProofOptions), Seq<u8>)> {
    match dec_ti(s) { None => None, Some((t, r1)) =>
    match dec_v8(r1) { None => None, Some((m, r2)) =>
    match dec_po(r2) { None => None, Some((o, r3)) => if limits_ok(t, o) { Some(((t, m, o), r3)) } else { None } }}}
}
impl Context {
    //@@ source air/src/proof/context.rs
    //@@ extract within="impl Serializable for Context" anchor="fn write_into<W: ByteWriter>(&self, target: &mut W)"
    //@@ rewrite-re "assert!\(([^;]+)\);" => "if !(\1) { must_not_panic(); }"
    pub fn write_into(&self, target: &mut Writer)
        requires self.field_modulus_bytes.len() < u8::MAX
        ensures final(target).out@ == old(target).out@ + enc_ti(self.trace_info) + enc_u8(self.field_modulus_bytes.len() as u8) + self.field_modulus_bytes@ + enc_po(self.options)
    {
        /*@@body*/
    }

    //@@ extract within="impl Deserializable for Context" anchor="fn read_from<R: ByteReader>(source: &mut R) -> Result<Self, DeserializationError>"
    //@@ rewrite-re "DeserializationError::InvalidValue\(\s*\"[^\"]*\"\s*\.to_string\(\),?\s*\)" => "DeserializationError::InvalidValue(err_text())"
    //@@ before "if trace_length > u32::MAX as usize"
    //@@|        proof {
    //@@|            assert(trace_length <= u32::MAX ==> trace_length * po_blowup(options) <= 0x7FFF_FFFF_80) by (nonlinear_arith)
    //@@|                requires po_blowup(options) <= 128, trace_length >= 0;
    //@@|        }
    pub fn read_from(source: &mut Reader) -> (r: Result<Context, DeserializationError>)
        ensures
            r is Ok <==> dec_context(old(source).rem@) is Some,
            r is Ok ==> dec_context(old(source).rem@) == Some(((r->Ok_0.trace_info, r->Ok_0.field_modulus_bytes@, r->Ok_0.options), final(source).rem@)),
    {
        /*@@body*/
    }
}
proof fn theorem_context_roundtrip(c: Context, rest: Seq<u8>)
    requires
        prefix_rt(), 1 <= c.field_modulus_bytes.len() < u8::MAX, limits_ok(c.trace_info, c.options),
        forall|x: TraceInfo, r: Seq<u8>| dec_ti(#[trigger] (enc_ti(x) + r)) == Some((x, r)),
        forall|x: ProofOptions, r: Seq<u8>| dec_po(#[trigger] (enc_po(x) + r)) == Some((x, r)),
        forall|x: u8, r: Seq<u8>| dec_u8(#[trigger] (enc_u8(x) + r)) == Some((x, r)),
    ensures
        dec_context(enc_ti(c.trace_info) + enc_u8(c.field_modulus_bytes.len() as u8) + c.field_modulus_bytes@ + enc_po(c.options) + rest)
            == Some(((c.trace_info, c.field_modulus_bytes@, c.options), rest)),
{
    let m = c.field_modulus_bytes@;
    let t2 = enc_po(c.options) + rest;
    let t1 = enc_u8(m.len() as u8) + (m + t2);
    assert(enc_ti(c.trace_info) + enc_u8(m.len() as u8) + m + enc_po(c.options) + rest =~= enc_ti(c.trace_info) + t1);
    assert(dec_ti(enc_ti(c.trace_info) + t1) == Some((c.trace_info, t1)));
    assert(dec_u8(enc_u8(m.len() as u8) + (m + t2)) == Some((m.len() as u8, m + t2)));
    assert((m + t2).take(m.len() as int) =~= m);
    assert((m + t2).skip(m.len() as int) =~= t2);
    assert(dec_po(enc_po(c.options) + rest) == Some((c.options, rest)));
}

// ---------------------------------------------------------------------------------------------------------------------
// BatchMerkleProof::deserialize (crypto/src/merkle/proofs.rs): one byte = number of node vectors; per vector one byte = number
// of digests, then the digests. Ok exactly when depth > 0, 1 <= leaves <= MAX_PATHS and every announced vector can be decoded;
// the node vectors are the decoded digests in order, leaves and depth are passed through. The digest type is abstract.
#[derive(Copy, Clone, PartialEq, Eq, Structural)]
pub struct D(pub u64);
pub uninterp spec fn dec_d(s: Seq<u8>) -> Option<(D, Seq<u8>)>;
pub open spec fn dec_ds(s: Seq<u8>, n: nat) -> Option<(Seq<D>, Seq<u8>)>
    decreases n
{
    if n == 0 { Some((Seq::<D>::empty(), s)) } else {
        match dec_d(s) { None => None, Some((x, r1)) => match dec_ds(r1, (n - 1) as nat) { None => None, Some((xs, r2)) => Some((seq![x] + xs, r2)) } }
    }
}
// one node vector: count byte, then that many digests
pub open spec fn dec_nv(s: Seq<u8>) -> Option<(Seq<D>, Seq<u8>)> {
    match dec_u8(s) { None => None, Some((k, r)) => dec_ds(r, k as nat) }
}
pub open spec fn dec_nvs(s: Seq<u8>, n: nat) -> Option<(Seq<Seq<D>>, Seq<u8>)>
    decreases n
{
    if n == 0 { Some((Seq::<Seq<D>>::empty(), s)) } else {
        match dec_nv(s) { None => None, Some((x, r1)) => match dec_nvs(r1, (n - 1) as nat) { None => None, Some((xs, r2)) => Some((seq![x] + xs, r2)) } }
    }
}
pub open spec fn dec_nvs_acc(acc: Seq<Seq<D>>, s: Seq<u8>, n: nat) -> Option<(Seq<Seq<D>>, Seq<u8>)> {
    match dec_nvs(s, n) { None => None, Some((xs, r)) => Some((acc + xs, r)) }
}
proof fn lemma_nvs_step(acc: Seq<Seq<D>>, s: Seq<u8>, n: nat)
    requires n >= 1
    ensures
        dec_nv(s) is None ==> dec_nvs_acc(acc, s, n) is None,
        dec_nv(s) is Some ==> dec_nvs_acc(acc, s, n) == dec_nvs_acc(acc.push(dec_nv(s)->Some_0.0), dec_nv(s)->Some_0.1, (n - 1) as nat),
{
    if dec_nv(s) is Some {
        let x = dec_nv(s)->Some_0.0;
        let r1 = dec_nv(s)->Some_0.1;
        match dec_nvs(r1, (n - 1) as nat) { None => {}, Some((xs, r2)) => { assert(acc + (seq![x] + xs) =~= acc.push(x) + xs); } }
    }
}
impl Reader {
    // contract of ByteReader::read_many::<Digest> (read_many is proved from its body in unit serdev)
    #[verifier::external_body]
    pub fn read_many_d(&mut self, n: usize) -> (r: Result<Vec<D>, DeserializationError>)
        ensures
            r is Ok <==> dec_ds(old(self).rem@, n as nat) is Some,
            r is Ok ==> r->Ok_0.len() == n && dec_ds(old(self).rem@, n as nat) == Some((r->Ok_0@, final(self).rem@)),
    { unimplemented!() }
}
pub const MAX_PATHS: usize = /*@@expr source="crypto/src/merkle/proofs.rs" anchor="pub(super) const MAX_PATHS: usize ="*/;
pub struct BatchMerkleProof { pub leaves: Vec<D>, pub nodes: Vec<Vec<D>>, pub depth: u8 }
pub open spec fn nodes_view(v: Seq<Vec<D>>) -> Seq<Seq<D>> { v.map_values(|x: Vec<D>| x@) }
impl BatchMerkleProof {
    //@@ source crypto/src/merkle/proofs.rs
    //@@ extract anchor="pub fn deserialize<R: ByteReader>("
    //@@ rewrite-re "DeserializationError::InvalidValue\(\s*\"[^\"]*\"\s*\.to_string\(\),?\s*\)" => "DeserializationError::InvalidValue(err_text())"
    //@@ rewrite-re "DeserializationError::InvalidValue\(format!\([^;]*\)\)\);" => "DeserializationError::InvalidValue(err_text()));"
    //@@ rewrite "for _ in 0..num_node_vectors {" => "for k in 0..num_node_vectors {"
    //@@ rewrite "let mut nodes = Vec::with_capacity(num_node_vectors);" => "let mut nodes: Vec<Vec<D>> = Vec::with_capacity(num_node_vectors);"
    //@@ rewrite "node_bytes.read_many(num_digests)?" => "node_bytes.read_many_d(num_digests)?"
    //@@ before "let mut nodes"
    //@@|        let ghost s1 = node_bytes.rem@;
    //@@|        proof { assert(Seq::<Seq<D>>::empty() + dec_nvs(s1, num_node_vectors as nat)->Some_0.0 =~= dec_nvs(s1, num_node_vectors as nat)->Some_0.0); }
    //@@ loop 1
    //@@|            invariant
    //@@|                nodes.len() == k, s0 == old(node_bytes).rem@, dec_u8(s0) == Some((num_node_vectors as u8, s1)), num_node_vectors <= 255,
    //@@|                depth > 0, 1 <= leaves.len() <= MAX_PATHS,
    //@@|                dec_nvs_acc(nodes_view(nodes@), node_bytes.rem@, (num_node_vectors - k) as nat) == dec_nvs(s1, num_node_vectors as nat),
    //@@|            ensures
    //@@|                nodes.len() == num_node_vectors,
    //@@|                dec_nvs(s1, num_node_vectors as nat) == Some((nodes_view(nodes@), node_bytes.rem@)),
    //@@ loopstart 1
    //@@|            proof { lemma_nvs_step(nodes_view(nodes@), node_bytes.rem@, (num_node_vectors - k) as nat); }
    //@@|            let ghost nodes_before = nodes@;
    //@@ loopend 1
    //@@|            proof { assert(nodes_view(nodes@) =~= nodes_view(nodes_before).push(digests@)); }
    pub fn deserialize(node_bytes: &mut Reader, leaves: Vec<D>, depth: u8) -> (r: Result<Self, DeserializationError>)
        ensures
            r is Ok <==> (depth > 0 && 1 <= leaves.len() <= MAX_PATHS && dec_u8(old(node_bytes).rem@) is Some
                && dec_nvs(dec_u8(old(node_bytes).rem@)->Some_0.1, dec_u8(old(node_bytes).rem@)->Some_0.0 as nat) is Some),
            r is Ok ==> r->Ok_0.leaves@ == leaves@ && r->Ok_0.depth == depth
                && dec_nvs(dec_u8(old(node_bytes).rem@)->Some_0.1, dec_u8(old(node_bytes).rem@)->Some_0.0 as nat) == Some((nodes_view(r->Ok_0.nodes@), final(node_bytes).rem@)),
    {
        let ghost s0 = node_bytes.rem@;
        /*@@body*/
    }
}

// BatchMerkleProof::serialize_nodes: the writer deserialize reads back - one byte for the number of node vectors, per vector
// one byte for its length and then the digests' encodings; the two assertions (at most 255 vectors / digests per vector) are
// the documented pre-condition.
pub uninterp spec fn enc_d(d: D) -> Seq<u8>;
pub open spec fn enc_ds(v: Seq<D>) -> Seq<u8>
    decreases v.len()
{
    if v.len() == 0 { Seq::<u8>::empty() } else { enc_ds(v.drop_last()) + enc_d(v.last()) }
}
pub open spec fn enc_nv(v: Seq<D>) -> Seq<u8> { seq![v.len() as u8] + enc_ds(v) }
pub open spec fn enc_nvs(v: Seq<Seq<D>>) -> Seq<u8>
    decreases v.len()
{
    if v.len() == 0 { Seq::<u8>::empty() } else { enc_nvs(v.drop_last()) + enc_nv(v.last()) }
}
impl D {
    // contract of Serializable::to_bytes for a digest
    #[verifier::external_body]
    pub fn to_bytes(&self) -> (r: Vec<u8>) ensures r@ == enc_d(*self) { unimplemented!() }
}
impl BatchMerkleProof {
    //@@ extract anchor="pub fn serialize_nodes(&self) -> Vec<u8>"
    //@@ rewrite-re "assert!\(([^,]+),[^;]*\);" => "if !(\1) { must_not_panic(); }"
    //@@ rewrite "let mut result = Vec::new();" => "let mut result: Vec<u8> = Vec::new();"
    //@@ itername 1 it
    //@@ itername 2 jt
    //@@ loop 1
    //@@|            invariant
    //@@|                0 <= it.index@ <= self.nodes@.len(), self.nodes.len() <= 255,
    //@@|                forall|t: int| 0 <= t < self.nodes@.len() ==> (#[trigger] self.nodes@[t]).len() <= 255,
    //@@|                result@ == seq![self.nodes.len() as u8] + enc_nvs(nodes_view(self.nodes@).take(it.index@)),
    //@@ loopstart 1
    //@@|            proof { assert(*nodes == self.nodes@[it.index@]); }
    //@@|            let ghost r0 = result@;
    //@@ loop 2
    //@@|                invariant
    //@@|                    0 <= jt.index@ <= nodes@.len(),
    //@@|                    result@ == r0 + seq![nodes.len() as u8] + enc_ds(nodes@.take(jt.index@)),
    //@@ loopstart 2
    //@@|                proof { assert(*node == nodes@[jt.index@]); }
    //@@|                let ghost r1 = result@;
    //@@ loopend 2
    //@@|                proof {
    //@@|                    let j = jt.index@;
    //@@|                    assert(nodes@.take(j + 1).drop_last() =~= nodes@.take(j));
    //@@|                    assert(nodes@.take(j + 1).last() == nodes@[j]);
    //@@|                    assert(result@ =~= r0 + seq![nodes.len() as u8] + enc_ds(nodes@.take(j + 1)));
    //@@|                }
    //@@ loopend 1
    //@@|            proof {
    //@@|                let k = it.index@;
    //@@|                let nv = nodes_view(self.nodes@);
    //@@|                assert(nodes@.take(nodes@.len() as int) =~= nodes@);
    //@@|                assert(nv.take(k + 1).drop_last() =~= nv.take(k));
    //@@|                assert(nv.take(k + 1).last() == nodes@);
    //@@|                assert(result@ =~= seq![self.nodes.len() as u8] + enc_nvs(nv.take(k + 1)));
    //@@|            }
    //@@ tail
    //@@|        proof { assert(nodes_view(self.nodes@).take(self.nodes@.len() as int) =~= nodes_view(self.nodes@)); }
    pub fn serialize_nodes(&self) -> (r: Vec<u8>)
        requires
            self.nodes.len() <= 255,
            forall|t: int| 0 <= t < self.nodes@.len() ==> (#[trigger] self.nodes@[t]).len() <= 255,
        ensures
            r@ == seq![self.nodes.len() as u8] + enc_nvs(nodes_view(self.nodes@)),
    {
        proof { assert(nodes_view(self.nodes@).take(0) =~= Seq::<Seq<D>>::empty()); }
        /*@@body*/
    }
}

proof fn containerv_canary_must_fail(b: Seq<u8>, rest: Seq<u8>)
    requires prefix_rt()
    ensures dec_v16(enc_u16(b.len() as u16) + b + rest) == Some((b, rest))
{
}

} // verus!

fn main() {}
