// Verus unit coinv: crypto/src/random/default.rs - the state machine of DefaultRandomCoin for EVERY hasher, seed,
// counter, nonce and EVERY requested number of integers (the Kani harnesses decide the same on a stub hasher with the
// count bounded by 3 and give counterexamples; this unit removes the bound and the concrete hasher).
// The hasher is abstract: merge_with_int / merge / hash_elements are uninterpreted functions of their arguments
// (nothing is assumed about them), so what is proved holds for every ElementHasher.
// Decided:
//   next           counter' == counter + 1, value == merge_with_int(seed, counter + 1), seed unchanged
//   new            seed == hash_elements(input), counter == 0
//   reseed         seed' == merge(seed, data), counter' == 0
//   draw_integers  for 1 <= n < domain (power of two): seed' == merge_with_int(seed, nonce); if n <= 1000 the result is Ok with
//                  EXACTLY n values, value i == le64(first 8 bytes of merge_with_int(seed', i + 1)) & (domain - 1), each
//                  below domain, and counter' == n (a later draw continues after the values already used);
//                  if n > 1000 the result is Err
//   draw           returns the element of the first of the next (at most 1000) candidates that from_random_bytes accepts,
//                  the candidates being the first ELEMENT_BYTES bytes of next(); counter' == counter + number of candidates
//                  tried; Err after 1000 refusals
//   check_leading_zeros   trailing_zeros(le64(first 8 bytes of merge_with_int(seed, value))), state unchanged
// Literal rewrites (byte-slicing expressions the installed Verus does not take; each is replaced by a prelude function
// whose specification names exactly the replaced expression; the byte-level meaning of that expression is decided by the Kani
// harnesses crypto_coin_* on the real code):  `.as_bytes()[..8].try_into().unwrap()` -> `.first8()`,
// `&value.as_bytes()[..E::ELEMENT_BYTES]` -> `value.prefix(E::ELEMENT_BYTES)`, `bytes[..8].try_into().unwrap()` -> `first8_of(&bytes)`, `u64::from_le_bytes(` -> `le64(`.
use vstd::prelude::*;
verus! {
global size_of usize == 8;

#[derive(Copy, Clone, PartialEq, Eq, Structural)]
pub struct D(pub u64);
#[derive(Copy, Clone, PartialEq, Eq, Structural)]
pub struct B(pub u64);
#[derive(Copy, Clone, PartialEq, Eq, Structural)]
pub struct E(pub u64);

pub uninterp spec fn mwi_of(seed: D, v: u64) -> D;
pub uninterp spec fn merge_of(a: D, b: D) -> D;
pub uninterp spec fn hash_elements_of(s: Seq<B>) -> D;
pub uninterp spec fn bytes_of(d: D) -> Seq<u8>;          // as_bytes(), 32 bytes
pub uninterp spec fn le64_of(b: Seq<u8>) -> u64;           // u64::from_le_bytes
pub uninterp spec fn frb_of(b: Seq<u8>) -> Option<E>;      // E::from_random_bytes
pub uninterp spec fn element_bytes() -> usize;              // E::ELEMENT_BYTES

pub open spec fn head8(d: D) -> u64 { le64_of(bytes_of(d).subrange(0, 8)) }

pub struct H;
impl H {
    #[verifier::external_body]
    pub fn merge_with_int(seed: D, value: u64) -> (r: D) ensures r == mwi_of(seed, value) { unimplemented!() }
    #[verifier::external_body]
    pub fn merge(v: &[D; 2]) -> (r: D) ensures r == merge_of(v[0], v[1]) { unimplemented!() }
    #[verifier::external_body]
    pub fn hash_elements(e: &[B]) -> (r: D) ensures r == hash_elements_of(e@) { unimplemented!() }
}
impl D {
    #[verifier::external_body]
    pub fn as_bytes(&self) -> (r: [u8; 32]) ensures r@ == bytes_of(*self), bytes_of(*self).len() == 32 { unimplemented!() }
    // stands for `.as_bytes()[..8].try_into().unwrap()`
    #[verifier::external_body]
    pub fn first8(&self) -> (r: [u8; 8]) ensures r@ == bytes_of(*self).subrange(0, 8) { unimplemented!() }
    // stands for `&self.as_bytes()[..n]`
    #[verifier::external_body]
    pub fn prefix(&self, n: usize) -> (r: Vec<u8>) ensures r@ == bytes_of(*self).subrange(0, n as int) { unimplemented!() }
}
// stands for `bytes[..8].try_into().unwrap()`
#[verifier::external_body]
pub fn first8_of(b: &[u8; 32]) -> (r: [u8; 8]) ensures r@ == b@.subrange(0, 8) { unimplemented!() }

impl E {
    pub const ELEMENT_BYTES: usize = 8;
    #[verifier::external_body]
    pub fn from_random_bytes(b: &[u8]) -> (r: Option<E>) ensures r == frb_of(b@) { unimplemented!() }
}

// stands for `u64::from_le_bytes` (its array length is written `size_of::<u64>()` in core, which assume_specification cannot name)
#[verifier::external_body]
pub fn le64(b: [u8; 8]) -> (r: u64) ensures r == le64_of(b@) { u64::from_le_bytes(b) }
pub uninterp spec fn is_pow2(x: usize) -> bool;
pub assume_specification [usize::is_power_of_two] (x: usize) -> (r: bool)
    ensures r == is_pow2(x);

pub enum RandomCoinError { FailedToDrawFieldElement(usize), FailedToDrawIntegers(usize, usize, usize) }

pub struct DefaultRandomCoin { pub seed: D, pub counter: u64 }

// the i-th integer (0-based) drawn after the nonce has been absorbed into seed s
pub open spec fn int_at(s: D, i: int, domain_size: usize) -> usize {
    (head8(mwi_of(s, (i + 1) as u64)) & ((domain_size - 1) as u64)) as usize
}
// candidate j (1-based) of a draw that starts at counter c
pub open spec fn cand(s: D, c: u64, j: int) -> Option<E> {
    frb_of(bytes_of(mwi_of(s, (c + j) as u64)).subrange(0, E::ELEMENT_BYTES as int))
}

// e is the result of a draw that starts at counter c and stops at candidate j: the first j - 1 candidates were refused
pub open spec fn drawn(s: D, c: u64, j: int, e: E) -> bool {
    1 <= j <= 1000 && cand(s, c, j) == Some(e) && forall|t: int| 1 <= t < j ==> cand(s, c, t) is None
}

proof fn lemma_mask(x: u64, m: u64)
    ensures (x & m) <= m
{
    assert((x & m) <= m) by (bit_vector);
}

impl DefaultRandomCoin {
    //@@ source crypto/src/random/default.rs
    //@@ extract anchor="fn next(&mut self) -> H::Digest"
    fn next(&mut self) -> (r: D)
        requires old(self).counter < u64::MAX
        ensures final(self).counter == old(self).counter + 1, final(self).seed == old(self).seed,
            r == mwi_of(old(self).seed, (old(self).counter + 1) as u64),
    {
        /*@@body*/
    }

    //@@ extract anchor="fn new(seed: &[Self::BaseField]) -> Self"
    fn new(seed: &[B]) -> (r: Self)
        ensures r.seed == hash_elements_of(seed@), r.counter == 0
    {
        /*@@body*/
    }

    //@@ extract anchor="fn reseed(&mut self, data: H::Digest)"
    fn reseed(&mut self, data: D)
        ensures final(self).seed == merge_of(old(self).seed, data), final(self).counter == 0
    {
        /*@@body*/
    }

    //@@ extract anchor="fn check_leading_zeros(&self, value: u64) -> u32"
    //@@ rewrite "bytes[..8].try_into().unwrap()" => "first8_of(&bytes)"
    //@@ rewrite "u64::from_le_bytes(" => "le64("
    fn check_leading_zeros(&self, value: u64) -> (r: u32)
        ensures r == head8(mwi_of(self.seed, value)).trailing_zeros()
    {
        /*@@body*/
    }

    //@@ extract anchor="fn draw<E: FieldElement>(&mut self) -> Result<E, RandomCoinError>"
    //@@ rewrite "&value.as_bytes()[..E::ELEMENT_BYTES]" => "value.prefix(E::ELEMENT_BYTES)"
    //@@ rewrite "E::from_random_bytes(bytes)" => "E::from_random_bytes(bytes.as_slice())"
    //@@ itername 1 it
    //@@ loop 1
    //@@|            invariant
    //@@|                self.seed == old(self).seed, self.counter == old(self).counter + it.index@,
    //@@|                old(self).counter + 1000 <= u64::MAX,
    //@@|                forall|j: int| 1 <= j <= it.index@ ==> cand(old(self).seed, old(self).counter, j) is None,
    //@@ before "return Ok(element)"
    //@@|                proof { assert(drawn(old(self).seed, old(self).counter, it.index@ + 1, element)); assert(self.counter == old(self).counter + (it.index@ + 1)); }
    fn draw(&mut self) -> (r: Result<E, RandomCoinError>)
        requires old(self).counter + 1000 <= u64::MAX
        ensures
            final(self).seed == old(self).seed,
            r is Ok ==> drawn(old(self).seed, old(self).counter, final(self).counter - old(self).counter, r->Ok_0),
            r is Err ==> forall|t: int| 1 <= t <= 1000 ==> cand(old(self).seed, old(self).counter, t) is None,
    {
        /*@@body*/
    }

    //@@ extract anchor="fn draw_integers("
    //@@ rewrite ".as_bytes()[..8].try_into().unwrap()" => ".first8()"
    //@@ rewrite "u64::from_le_bytes(" => "le64("
    //@@ rewrite "let mut values = Vec::new();" => "let mut values: Vec<usize> = Vec::new();"
    //@@ itername 1 it
    //@@ loop 1
    //@@|            invariant_except_break
    //@@|                values.len() == it.index@, values.len() < num_values,
    //@@|            invariant
    //@@|                self.seed == mwi_of(old(self).seed, nonce), self.counter == values.len(), values.len() <= 1000,
    //@@|                v_mask == (domain_size - 1) as u64, domain_size >= 1,
    //@@|                forall|t: int| 0 <= t < values.len() ==> #[trigger] values@[t] == int_at(self.seed, t, domain_size) && values@[t] < domain_size,
    //@@|            ensures
    //@@|                values.len() == num_values || (values.len() == 1000 && values.len() < num_values),
    //@@ loopstart 1
    //@@|            proof { lemma_mask(head8(mwi_of(self.seed, (self.counter + 1) as u64)), v_mask); }
    fn draw_integers(&mut self, num_values: usize, domain_size: usize, nonce: u64) -> (r: Result<Vec<usize>, RandomCoinError>)
        requires is_pow2(domain_size), 1 <= num_values < domain_size,
        ensures
            final(self).seed == mwi_of(old(self).seed, nonce),
            num_values <= 1000 ==> r is Ok && r->Ok_0.len() == num_values && final(self).counter == num_values
                && forall|t: int| 0 <= t < num_values ==> #[trigger] r->Ok_0@[t] == int_at(final(self).seed, t, domain_size) && r->Ok_0@[t] < domain_size,
            num_values > 1000 ==> r is Err,
    {
        /*@@body*/
    }
}

proof fn coinv_canary_must_fail(s: D, a: u64, b: u64)
    requires a != b
    ensures mwi_of(s, a) != mwi_of(s, b)
{
}

} // verus!

fn main() {}
