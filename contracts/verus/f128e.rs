// Verus unit f128e: what math/src/field/f128/mod.rs and the FieldElement default methods build on the raw 128-bit
// primitives: BaseElement::new, the operator wrappers (+, -, *, /, unary -), inv, double, square and exponentiation
// (FieldElement::exp -> exp_vartime, instantiated with PositiveInteger = u128). Bodies are cut out of /repo.
// Assumed (cross-unit, proved by unit f128v from the bodies of the raw functions): add / sub / mul / inv on canonical
// u128 words return canonical words congruent to the sum / difference / product / inverse modulo P.
use vstd::prelude::*;
use vstd::arithmetic::div_mod::*;
use vstd::arithmetic::mul::*;
use vstd::arithmetic::power2::*;
use vstd::std_specs::ops::*;

verus! {

pub const M: u128 = /*@@expr source="math/src/field/f128/mod.rs" anchor="const M: u128 ="*/;
/// the prime 2^128 - 45 * 2^40 + 1 as stated by the property
pub spec const P: int = 340282366920938463463374557953744961537int;

pub open spec fn eqm(x: int, y: int) -> bool { (x - y) % P == 0 }

proof fn lemma_consts() ensures M as int == P { assert(M as int == P) by (compute); }

// r canonical and congruent to x  ==>  r == x mod P
proof fn lemma_canon(r: int, x: int)
    requires 0 <= r < P, eqm(r, x)
    ensures r == x % P
{
    lemma_fundamental_div_mod(r - x, P);
    let k = (r - x) / P;
    assert(x == r - k * P) by (nonlinear_arith) requires r - x == P * k + 0;
    lemma_fundamental_div_mod_converse(x, P, -k, r);
}

// ---- the raw primitives, with the clauses unit f128v proves for their bodies -----------------------------
#[verifier::external_body]
pub fn add(a: u128, b: u128) -> (r: u128)
    requires (a as int) < P, (b as int) < P
    ensures (r as int) < P, r as int == ((a as int) + (b as int)) % P
{ unimplemented!() }
#[verifier::external_body]
pub fn sub(a: u128, b: u128) -> (r: u128)
    requires (a as int) < P, (b as int) < P
    ensures (r as int) < P, r as int == ((a as int) - (b as int)) % P
{ unimplemented!() }
#[verifier::external_body]
pub fn mul(a: u128, b: u128) -> (r: u128)
    requires (a as int) < P, (b as int) < P
    ensures (r as int) < P, eqm(r as int, (a as int) * (b as int))
{ unimplemented!() }
#[verifier::external_body]
pub fn inv(x: u128) -> (r: u128)
    requires (x as int) < P
    ensures (r as int) < P, x == 0 ==> r == 0, x != 0 ==> eqm((r as int) * (x as int), 1)
{ unimplemented!() }

#[derive(Copy, Clone, PartialEq, Eq, Structural)]
pub struct BaseElement(pub u128);

pub open spec fn v(e: BaseElement) -> int { e.0 as int }
pub open spec fn wf(e: BaseElement) -> bool { (e.0 as int) < P }

pub open spec fn powm(b: int, e: nat) -> int
    decreases e
{ if e == 0 { 1 } else { (b * powm(b, (e - 1) as nat)) % P } }

proof fn lemma_powm_range(b: int, e: nat)
    ensures 0 <= powm(b, e) < P
    decreases e
{
    reveal_with_fuel(powm, 1);
    if e > 0 { lemma_powm_range(b, (e - 1) as nat); }
}

proof fn lemma_powm_add(b: int, e1: nat, e2: nat)
    ensures powm(b, e1 + e2) == (powm(b, e1) * powm(b, e2)) % P
    decreases e1
{
    lemma_powm_range(b, e2);
    if e1 == 0 {
        reveal_with_fuel(powm, 1);
        lemma_small_mod(powm(b, e2) as nat, P as nat);
    } else {
        lemma_powm_add(b, (e1 - 1) as nat, e2);
        reveal_with_fuel(powm, 1);
        let x = powm(b, (e1 - 1) as nat);
        let y = powm(b, e2);
        assert(powm(b, e1 + e2) == (b * powm(b, (e1 + e2 - 1) as nat)) % P);
        assert(powm(b, (e1 + e2 - 1) as nat) == (x * y) % P);
        lemma_mul_mod_noop_right(b, x * y, P);
        lemma_mul_mod_noop_left(b * x, y, P);
        assert(b * (x * y) == (b * x) * y) by (nonlinear_arith);
    }
}

proof fn lemma_powm_one(b: int)
    requires 0 <= b < P
    ensures powm(b, 1) == b
{
    reveal_with_fuel(powm, 2);
    lemma_small_mod(b as nat, P as nat);
}

proof fn lemma_powm_zero_base(e: nat)
    requires e > 0
    ensures powm(0, e) == 0
{
    reveal_with_fuel(powm, 1);
}

/// (x^a)^b == x^(a*b)
proof fn lemma_powm_pow(x: int, a: nat, b: nat)
    requires 0 <= x < P
    ensures powm(powm(x, a), b) == powm(x, a * b)
    decreases b
{
    lemma_powm_range(x, a);
    if b == 0 {
        reveal_with_fuel(powm, 1);
        assert(a * 0 == 0);
    } else {
        lemma_powm_pow(x, a, (b - 1) as nat);
        reveal_with_fuel(powm, 1);
        lemma_powm_add(x, a, a * ((b - 1) as nat));
        assert(a + a * ((b - 1) as nat) == a * b) by (nonlinear_arith) requires b >= 1;
    }
}

/// one step of right-to-left square-and-multiply: with p = 2 p' + bit,
/// r * b^p == (r * b^bit) * (b^2)^p'
proof fn lemma_vartime_step(r: int, b: int, p: nat, bit: nat)
    requires 0 <= r < P, 0 <= b < P, bit <= 1, p % 2 == bit
    ensures (r * powm(b, p)) % P == (((r * powm(b, bit)) % P) * powm((b * b) % P, p / 2)) % P
{
    let h = p / 2;
    assert(p == 2 * h + bit);
    lemma_powm_one(b);
    reveal_with_fuel(powm, 3);
    lemma_small_mod(b as nat, P as nat);
    // (b*b % P) == powm(b, 2)
    assert(powm(b, 2) == (b * ((b * 1) % P)) % P);
    lemma_mul_mod_noop_right(b, b, P);
    lemma_powm_pow(b, 2, h);
    lemma_powm_add(b, bit, 2 * h);
    // r * (b^bit * b^(2h) % P) % P == ((r * b^bit) % P * b^(2h)) % P
    let x1 = powm(b, bit);
    let x2 = powm(b, 2 * h);
    assert(bit + 2 * h == p);
    lemma_mul_mod_noop_right(r, x1 * x2, P);
    lemma_mul_mod_noop_left(r * x1, x2, P);
    assert(r * (x1 * x2) == (r * x1) * x2) by (nonlinear_arith);
}

proof fn lemma_mul_val(a: BaseElement, b: BaseElement, r: BaseElement)
    requires wf(a), wf(b), wf(r), eqm(v(r), v(a) * v(b))
    ensures v(r) == (v(a) * v(b)) % P
{
    lemma_canon(v(r), v(a) * v(b));
}

// r == a * i, i * b == 1  ==>  r * b == a   (mod P)
proof fn lemma_div_cong(a: int, b: int, i: int, r: int)
    requires eqm(r, a * i), eqm(i * b, 1)
    ensures eqm(r * b, a)
{
    // r*b - a = (r - a*i)*b + a*(i*b - 1)
    lemma_fundamental_div_mod(r - a * i, P);
    lemma_fundamental_div_mod(i * b - 1, P);
    let k1 = (r - a * i) / P; let k2 = (i * b - 1) / P;
    assert(r * b - a == P * (k1 * b + a * k2)) by (nonlinear_arith) requires r - a * i == P * k1, i * b - 1 == P * k2;
    lemma_mod_multiples_basic(k1 * b + a * k2, P);
    assert((r * b - a) % P == 0) by { assert(P * (k1 * b + a * k2) == (k1 * b + a * k2) * P) by (nonlinear_arith); }
}

impl AddSpecImpl<BaseElement> for BaseElement {
    open spec fn obeys_add_spec() -> bool { false }
    open spec fn add_req(self, rhs: BaseElement) -> bool { wf(self) && wf(rhs) }
    open spec fn add_spec(self, rhs: BaseElement) -> BaseElement { arbitrary() }
}
impl core::ops::Add for BaseElement {
    type Output = Self;
    //@@ source math/src/field/f128/mod.rs
    //@@ extract within="impl Add for BaseElement" anchor="fn add(self, rhs: Self) -> Self"
    fn add(self, rhs: Self) -> (r: Self)
        ensures wf(r), v(r) == (v(self) + v(rhs)) % P
    { /*@@body*/ }
}
impl SubSpecImpl<BaseElement> for BaseElement {
    open spec fn obeys_sub_spec() -> bool { false }
    open spec fn sub_req(self, rhs: BaseElement) -> bool { wf(self) && wf(rhs) }
    open spec fn sub_spec(self, rhs: BaseElement) -> BaseElement { arbitrary() }
}
impl core::ops::Sub for BaseElement {
    type Output = Self;
    //@@ extract within="impl Sub for BaseElement" anchor="fn sub(self, rhs: Self) -> Self"
    fn sub(self, rhs: Self) -> (r: Self)
        ensures wf(r), v(r) == (v(self) - v(rhs)) % P
    { /*@@body*/ }
}
impl MulSpecImpl<BaseElement> for BaseElement {
    open spec fn obeys_mul_spec() -> bool { false }
    open spec fn mul_req(self, rhs: BaseElement) -> bool { wf(self) && wf(rhs) }
    open spec fn mul_spec(self, rhs: BaseElement) -> BaseElement { arbitrary() }
}
impl core::ops::Mul for BaseElement {
    type Output = Self;
    //@@ extract within="impl Mul for BaseElement" anchor="fn mul(self, rhs: Self) -> Self"
    fn mul(self, rhs: Self) -> (r: Self)
        ensures wf(r), v(r) == (v(self) * v(rhs)) % P
    {
        proof { assert forall|r: int| 0 <= r < P && #[trigger] eqm(r, v(self) * v(rhs)) implies r == (v(self) * v(rhs)) % P by { lemma_canon(r, v(self) * v(rhs)); } }
        /*@@body*/
    }
}
impl DivSpecImpl<BaseElement> for BaseElement {
    open spec fn obeys_div_spec() -> bool { false }
    open spec fn div_req(self, rhs: BaseElement) -> bool { wf(self) && wf(rhs) }
    open spec fn div_spec(self, rhs: BaseElement) -> BaseElement { arbitrary() }
}
impl core::ops::Div for BaseElement {
    type Output = Self;
    //@@ extract within="impl Div for BaseElement" anchor="fn div(self, rhs: Self) -> Self"
    fn div(self, rhs: Self) -> (r: Self)
        ensures
            wf(r),
            // self / rhs is self times the inverse of rhs: (r * rhs) == self (mod P) for rhs != 0, and 0 for rhs == 0
            v(rhs) != 0 ==> eqm(v(r) * v(rhs), v(self)),
            v(rhs) == 0 ==> v(r) == 0,
    {
        proof {
            assert forall|r: int, i: int| 0 <= r < P && 0 <= i < P && #[trigger] eqm(r, v(self) * i) && eqm(i * v(rhs), 1) implies eqm(r * v(rhs), v(self)) by {
                lemma_div_cong(v(self), v(rhs), i, r);
            }
            assert forall|r: int| 0 <= r < P && #[trigger] eqm(r, v(self) * 0) implies r == 0 by { lemma_canon(r, v(self) * 0); lemma_small_mod(0, P as nat); }
        }
        /*@@body*/
    }
}
impl NegSpecImpl for BaseElement {
    open spec fn obeys_neg_spec() -> bool { false }
    open spec fn neg_req(self) -> bool { wf(self) }
    open spec fn neg_spec(self) -> BaseElement { arbitrary() }
}
impl core::ops::Neg for BaseElement {
    type Output = Self;
    //@@ extract within="impl Neg for BaseElement" anchor="fn neg(self) -> Self"
    fn neg(self) -> (r: Self)
        ensures wf(r), v(r) == (0 - v(self)) % P
    { proof { lemma_consts(); } /*@@body*/ }
}

impl BaseElement {
    pub const ZERO: BaseElement = /*@@expr source="math/src/field/f128/mod.rs" anchor="const ZERO: Self ="*/;
    pub const ONE: BaseElement = /*@@expr source="math/src/field/f128/mod.rs" anchor="const ONE: Self ="*/;

    //@@ extract anchor="pub const fn new(value: u128) -> Self"
    pub const fn new(value: u128) -> (r: Self)
        requires (value as int) < 2 * P
        ensures wf(r), v(r) == (value as int) % P
    {
        proof {
            lemma_consts();
            if (value as int) < P { lemma_small_mod(value as nat, P as nat); } else {
                lemma_small_mod((value - P) as nat, P as nat);
                lemma_mod_multiples_vanish(-1, value as int, P);
            }
        }
        /*@@body*/
    }

    //@@ extract within="impl FieldElement for BaseElement" anchor="fn inv(self) -> Self"
    pub fn inv(self) -> (r: Self)
        requires wf(self)
        ensures wf(r), v(self) == 0 ==> v(r) == 0, v(self) != 0 ==> (v(r) * v(self)) % P == 1
    {
        proof {
            lemma_consts();
            assert forall|r: int| #[trigger] eqm(r * v(self), 1) implies (r * v(self)) % P == 1 by {
                lemma_small_mod(1, P as nat);
                lemma_sub_mod_noop(r * v(self), 1, P);
                lemma_fundamental_div_mod(r * v(self) - 1, P);
                let k = (r * v(self) - 1) / P;
                lemma_fundamental_div_mod_converse(r * v(self), P, k, 1);
            }
        }
        /*@@body*/
    }

    //@@ source math/src/field/traits.rs
    //@@ extract anchor="fn double(self) -> Self"
    pub fn double(self) -> (r: Self)
        requires wf(self)
        ensures wf(r), v(r) == (2 * v(self)) % P
    { /*@@body*/ }

    //@@ extract anchor="fn square(self) -> Self"
    pub fn square(self) -> (r: Self)
        requires wf(self)
        ensures wf(r), v(r) == (v(self) * v(self)) % P
    { /*@@body*/ }

    /// FieldElement::exp_vartime (generic default method, instantiated for the 128-bit field: PositiveInteger = u128)
    //@@ extract anchor="fn exp_vartime(self, power: Self::PositiveInteger) -> Self"
    //@@ rewrite "Self::PositiveInteger::from(0u32)" => "0u128"
    //@@ rewrite "Self::PositiveInteger::from(1u32)" => "1u128"
    //@@ rewrite "r *= b;" => "r = r * b;"
    //@@ rewrite "p >>= int_one;" => "p = p >> int_one;"
    //@@ loop 1
    //@@|            invariant wf(r), wf(b), x == v(self), 0 <= x < P, int_one == 1, int_zero == 0,
    //@@|                (v(r) * powm(v(b), p as nat)) % P == powm(x, power as nat),
    //@@|            decreases p
    //@@ loopstart 1
    //@@|            proof {
    //@@|                assert(p & 1 == p % 2) by (bit_vector);
    //@@|                assert(p >> 1 == p / 2) by (bit_vector);
    //@@|                lemma_vartime_step(v(r), v(b), p as nat, (p % 2) as nat);
    //@@|                lemma_powm_one(v(b));
    //@@|                reveal_with_fuel(powm, 1);
    //@@|                lemma_small_mod(v(r) as nat, P as nat);
    //@@|            }
    //@@ loopafter 1
    //@@|        proof { reveal_with_fuel(powm, 1); lemma_small_mod(v(r) as nat, P as nat); }
    pub fn exp_vartime(self, power: u128) -> (res: Self)
        requires wf(self)
        ensures wf(res), v(res) == powm(v(self), power as nat)
    {
        let ghost x = v(self);
        proof {
            lemma_consts(); if power > 0 { lemma_powm_zero_base(power as nat); } reveal_with_fuel(powm, 1);
            lemma_powm_range(x, power as nat); lemma_small_mod(powm(x, power as nat) as nat, P as nat);
            lemma_small_mod(1, P as nat);
        }
        /*@@body*/
    }

    //@@ extract anchor="fn exp(self, power: Self::PositiveInteger) -> Self"
    pub fn exp(self, power: u128) -> (res: Self)
        requires wf(self)
        ensures wf(res), v(res) == powm(v(self), power as nat)
    { /*@@body*/ }
}

// ---- roots of unity ------------------------------------------------------------------------------------
pub const G: u128 = /*@@expr source="math/src/field/f128/mod.rs" anchor="const G: u128 ="*/;

pub open spec fn pow_sq(b: int, e: nat) -> int
    decreases e
{
    if e == 0 { 1 } else {
        let h = pow_sq(b, e / 2);
        if e % 2 == 0 { (h * h) % P } else { (((h * h) % P) * b) % P }
    }
}

/// square-and-multiply equals the linear power (so that constants can be evaluated by `compute`)
proof fn lemma_pow_sq(b: int, e: nat)
    requires 0 <= b < P
    ensures pow_sq(b, e) == powm(b, e)
    decreases e
{
    if e == 0 {
        reveal_with_fuel(powm, 1);
    } else {
        let h = e / 2;
        lemma_pow_sq(b, h);
        lemma_powm_add(b, h, h);
        lemma_powm_range(b, h + h);
        if e % 2 == 1 {
            lemma_powm_add(b, h + h, 1);
            lemma_powm_one(b);
        }
    }
}

proof fn lemma_shl_pow2(k: u32)
    requires k < 128
    ensures (1u128 << k) == pow2(k as nat)
    decreases k
{
    if k == 0 {
        assert(1u128 << 0u32 == 1) by (bit_vector);
        lemma2_to64();
    } else {
        let j = (k - 1) as u32;
        lemma_shl_pow2(j);
        assert((1u128 << ((j + 1) as u32)) == 2 * (1u128 << j)) by (bit_vector) requires j < 127;
        lemma_pow2_unfold(k as nat);
    }
}

impl BaseElement {
    pub const TWO_ADICITY: u32 = /*@@expr source="math/src/field/f128/mod.rs" anchor="const TWO_ADICITY: u32 ="*/;
    pub const TWO_ADIC_ROOT_OF_UNITY: BaseElement = /*@@expr source="math/src/field/f128/mod.rs" anchor="const TWO_ADIC_ROOT_OF_UNITY: Self ="*/;

    /// StarkField::get_root_of_unity (default method, 128-bit instantiation): for every admissible n the result has
    /// multiplicative order exactly 2^n
    //@@ source math/src/field/traits.rs
    //@@ extract anchor="fn get_root_of_unity(n: u32) -> Self"
    //@@ rewrite "Self::PositiveInteger::from(1u32)" => "1u128"
    //@@ rewrite-re "assert!\(([^,]+),[^;]*\);" => "assert(\1);"
    pub fn get_root_of_unity(n: u32) -> (r: Self)
        requires n != 0, n <= BaseElement::TWO_ADICITY
        ensures
            wf(r),
            powm(v(r), (1u128 << n) as nat) == 1,
            powm(v(r), (1u128 << ((n - 1) as u32)) as nat) == P - 1,
    {
        let ghost a: nat = (1u128 << ((BaseElement::TWO_ADICITY - n) as u32)) as nat;
        proof {
            lemma_consts();
            assert(BaseElement::TWO_ADICITY == 40 && G as int == 23953097886125630542083529559205016746int) by (compute);
            let g = G as int;
            assert(pow_sq(G as int, 0x100_0000_0000nat) == 1) by (compute);
            assert(pow_sq(G as int, 0x80_0000_0000nat) == P - 1) by (compute);
            lemma_pow_sq(g, 0x100_0000_0000nat);
            lemma_pow_sq(g, 0x80_0000_0000nat);
            lemma_shl_pow2((40 - n) as u32); lemma_shl_pow2(n); lemma_shl_pow2((n - 1) as u32);
            lemma_pow2_adds((40 - n) as nat, n as nat);
            lemma_pow2_adds((40 - n) as nat, (n - 1) as nat);
            lemma2_to64(); lemma2_to64_rest();
            assert(pow2(40) == 0x100_0000_0000 && pow2(39) == 0x80_0000_0000);
            lemma_powm_pow(g, a, (1u128 << n) as nat);
            lemma_powm_pow(g, a, (1u128 << ((n - 1) as u32)) as nat);
        }
        /*@@body*/
    }
}

proof fn f128e_canary_must_fail(a: BaseElement)
    requires wf(a)
    ensures powm(v(a), 2) == v(a)
{
}

} // verus!

fn main() {}
