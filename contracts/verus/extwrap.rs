// Verus unit extwrap: the generic wrapper types QuadExtension<B> / CubeExtension<B>
// (math/src/field/extensions/{quadratic,cubic}.rs) against an ABSTRACT base field B whose operations are
// uninterpreted. Decided: every arithmetic wrapper hands exactly the right coefficients to the right base-field or
// ExtensibleField operation and puts the results back in order (new, to_base_elements, base_element, double, square,
// conjugate, mul_base, + - * / neg, From<B>): the "plumbing" between the operators users call and the
// ExtensibleField formulas proved in units f64x / f62x / f128x (and inv in unit extinv).
// (file generated in the third session; bodies are cut out of /repo on every run)
use vstd::prelude::*;
use vstd::std_specs::ops::*;

verus! {

#[derive(Copy, Clone, PartialEq, Eq, Structural)]
pub struct B(pub u64);

pub uninterp spec fn add_of(a: B, b: B) -> B;
pub uninterp spec fn sub_of(a: B, b: B) -> B;
pub uninterp spec fn mul_of(a: B, b: B) -> B;
pub uninterp spec fn neg_of(a: B) -> B;
pub uninterp spec fn double_of(a: B) -> B;
pub uninterp spec fn inv2_of(a: QuadExtension) -> QuadExtension;
pub uninterp spec fn inv3_of(a: CubeExtension) -> CubeExtension;

pub uninterp spec fn mul2_of(a: [B; 2], b: [B; 2]) -> [B; 2];
pub uninterp spec fn square2_of(a: [B; 2]) -> [B; 2];
pub uninterp spec fn mulbase2_of(a: [B; 2], b: B) -> [B; 2];
pub uninterp spec fn frob2_of(a: [B; 2]) -> [B; 2];
pub uninterp spec fn mul3_of(a: [B; 3], b: [B; 3]) -> [B; 3];
pub uninterp spec fn square3_of(a: [B; 3]) -> [B; 3];
pub uninterp spec fn mulbase3_of(a: [B; 3], b: B) -> [B; 3];
pub uninterp spec fn frob3_of(a: [B; 3]) -> [B; 3];
impl AddSpecImpl<B> for B {
    open spec fn obeys_add_spec() -> bool { true }
    open spec fn add_req(self, rhs: B) -> bool { true }
    open spec fn add_spec(self, rhs: B) -> B { add_of(self, rhs) }
}
impl core::ops::Add for B { type Output = Self; #[verifier::external_body] fn add(self, rhs: Self) -> Self { unimplemented!() } }
impl SubSpecImpl<B> for B {
    open spec fn obeys_sub_spec() -> bool { true }
    open spec fn sub_req(self, rhs: B) -> bool { true }
    open spec fn sub_spec(self, rhs: B) -> B { sub_of(self, rhs) }
}
impl core::ops::Sub for B { type Output = Self; #[verifier::external_body] fn sub(self, rhs: Self) -> Self { unimplemented!() } }
impl MulSpecImpl<B> for B {
    open spec fn obeys_mul_spec() -> bool { true }
    open spec fn mul_req(self, rhs: B) -> bool { true }
    open spec fn mul_spec(self, rhs: B) -> B { mul_of(self, rhs) }
}
impl core::ops::Mul for B { type Output = Self; #[verifier::external_body] fn mul(self, rhs: Self) -> Self { unimplemented!() } }
impl NegSpecImpl for B {
    open spec fn obeys_neg_spec() -> bool { true }
    open spec fn neg_req(self) -> bool { true }
    open spec fn neg_spec(self) -> B { neg_of(self) }
}
impl core::ops::Neg for B { type Output = Self; #[verifier::external_body] fn neg(self) -> Self { unimplemented!() } }

impl B {
    pub const ZERO: B = B(0);
    #[verifier::external_body] pub fn double(self) -> (r: B) ensures r == double_of(self) { unimplemented!() }
    #[verifier::external_body] pub fn ext2_mul(a: [B; 2], b: [B; 2]) -> (r: [B; 2]) ensures r == mul2_of(a, b) { unimplemented!() }
    #[verifier::external_body] pub fn ext2_square(a: [B; 2]) -> (r: [B; 2]) ensures r == square2_of(a) { unimplemented!() }
    #[verifier::external_body] pub fn ext2_mul_base(a: [B; 2], b: B) -> (r: [B; 2]) ensures r == mulbase2_of(a, b) { unimplemented!() }
    #[verifier::external_body] pub fn ext2_frobenius(a: [B; 2]) -> (r: [B; 2]) ensures r == frob2_of(a) { unimplemented!() }
    #[verifier::external_body] pub fn ext3_mul(a: [B; 3], b: [B; 3]) -> (r: [B; 3]) ensures r == mul3_of(a, b) { unimplemented!() }
    #[verifier::external_body] pub fn ext3_square(a: [B; 3]) -> (r: [B; 3]) ensures r == square3_of(a) { unimplemented!() }
    #[verifier::external_body] pub fn ext3_mul_base(a: [B; 3], b: B) -> (r: [B; 3]) ensures r == mulbase3_of(a, b) { unimplemented!() }
    #[verifier::external_body] pub fn ext3_frobenius(a: [B; 3]) -> (r: [B; 3]) ensures r == frob3_of(a) { unimplemented!() }
}

#[derive(Copy, Clone, PartialEq, Eq, Structural)]
pub struct QuadExtension(pub B, pub B);
#[derive(Copy, Clone, PartialEq, Eq, Structural)]
pub struct CubeExtension(pub B, pub B, pub B);

impl QuadExtension {
    //@@ source math/src/field/extensions/quadratic.rs
    //@@ extract anchor="pub const fn new(a: B, b: B) -> Self"
    pub const fn new(a: B, b: B) -> (r: Self) ensures r == QuadExtension(a, b) { /*@@body*/ }
    //@@ extract anchor="pub const fn to_base_elements(self) -> [B; 2]"
    pub const fn to_base_elements(self) -> (r: [B; 2]) ensures r[0] == self.0 && r[1] == self.1 { /*@@body*/ }
    //@@ extract within="impl<B: ExtensibleField<2>> FieldElement for QuadExtension<B>" anchor="fn double(self) -> Self"
    pub fn double(self) -> (r: Self) ensures r == QuadExtension(double_of(self.0), double_of(self.1)) { /*@@body*/ }
    //@@ extract within="impl<B: ExtensibleField<2>> FieldElement for QuadExtension<B>" anchor="fn square(self) -> Self"
    //@@ rewrite "<B as ExtensibleField<2>>::" => "B::ext2_"
    pub fn square(self) -> (r: Self) ensures r == QuadExtension(square2_of([self.0, self.1])[0], square2_of([self.0, self.1])[1]) { /*@@body*/ }
    //@@ extract within="impl<B: ExtensibleField<2>> FieldElement for QuadExtension<B>" anchor="fn conjugate(&self) -> Self"
    //@@ rewrite "<B as ExtensibleField<2>>::" => "B::ext2_"
    pub fn conjugate(&self) -> (r: Self) ensures r == QuadExtension(frob2_of([self.0, self.1])[0], frob2_of([self.0, self.1])[1]) { /*@@body*/ }
    //@@ extract within="impl<B: ExtensibleField<2>> FieldElement for QuadExtension<B>" anchor="fn base_element(&self, i: usize) -> Self::BaseField"
    //@@ rewrite-re "panic!\([^;]*\)" => "unreached()"
    pub fn base_element(&self, i: usize) -> (r: B) requires i < 2 ensures (i == 0 ==> r == self.0) && (i == 1 ==> r == self.1) { /*@@body*/ }
    //@@ extract within="impl<B: ExtensibleField<2>> ExtensionOf<B> for QuadExtension<B>" anchor="fn mul_base(self, other: B) -> Self"
    //@@ rewrite "<B as ExtensibleField<2>>::" => "B::ext2_"
    pub fn mul_base(self, other: B) -> (r: Self) ensures r == QuadExtension(mulbase2_of([self.0, self.1], other)[0], mulbase2_of([self.0, self.1], other)[1]) { /*@@body*/ }
    //@@ extract within="impl<B: ExtensibleField<2>> From<B> for QuadExtension<B>" anchor="fn from(value: B) -> Self"
    pub fn from(value: B) -> (r: Self) ensures r == QuadExtension(value, B::ZERO) { /*@@body*/ }
    #[verifier::external_body] pub fn inv(self) -> (r: Self) ensures r == inv2_of(self) { unimplemented!() }   // unit extinv
}
impl AddSpecImpl<QuadExtension> for QuadExtension {
    open spec fn obeys_add_spec() -> bool { true }
    open spec fn add_req(self, rhs: QuadExtension) -> bool { true }
    open spec fn add_spec(self, rhs: QuadExtension) -> QuadExtension { QuadExtension(add_of(self.0, rhs.0), add_of(self.1, rhs.1)) }
}
impl core::ops::Add for QuadExtension {
    type Output = Self;
    //@@ extract within="impl<B: ExtensibleField<2>> Add for QuadExtension<B>" anchor="fn add(self, rhs: Self) -> Self"
    //@@ rewrite "<B as ExtensibleField<2>>::" => "B::ext2_"
    fn add(self, rhs: Self) -> Self { /*@@body*/ }
}
impl SubSpecImpl<QuadExtension> for QuadExtension {
    open spec fn obeys_sub_spec() -> bool { true }
    open spec fn sub_req(self, rhs: QuadExtension) -> bool { true }
    open spec fn sub_spec(self, rhs: QuadExtension) -> QuadExtension { QuadExtension(sub_of(self.0, rhs.0), sub_of(self.1, rhs.1)) }
}
impl core::ops::Sub for QuadExtension {
    type Output = Self;
    //@@ extract within="impl<B: ExtensibleField<2>> Sub for QuadExtension<B>" anchor="fn sub(self, rhs: Self) -> Self"
    //@@ rewrite "<B as ExtensibleField<2>>::" => "B::ext2_"
    fn sub(self, rhs: Self) -> Self { /*@@body*/ }
}
impl MulSpecImpl<QuadExtension> for QuadExtension {
    open spec fn obeys_mul_spec() -> bool { true }
    open spec fn mul_req(self, rhs: QuadExtension) -> bool { true }
    open spec fn mul_spec(self, rhs: QuadExtension) -> QuadExtension { QuadExtension(mul2_of([self.0, self.1], [rhs.0, rhs.1])[0], mul2_of([self.0, self.1], [rhs.0, rhs.1])[1]) }
}
impl core::ops::Mul for QuadExtension {
    type Output = Self;
    //@@ extract within="impl<B: ExtensibleField<2>> Mul for QuadExtension<B>" anchor="fn mul(self, rhs: Self) -> Self"
    //@@ rewrite "<B as ExtensibleField<2>>::" => "B::ext2_"
    fn mul(self, rhs: Self) -> Self { /*@@body*/ }
}
impl DivSpecImpl<QuadExtension> for QuadExtension {
    open spec fn obeys_div_spec() -> bool { true }
    open spec fn div_req(self, rhs: QuadExtension) -> bool { true }
    open spec fn div_spec(self, rhs: QuadExtension) -> QuadExtension { MulSpec::mul_spec(self, inv2_of(rhs)) }
}
impl core::ops::Div for QuadExtension {
    type Output = Self;
    //@@ extract within="impl<B: ExtensibleField<2>> Div for QuadExtension<B>" anchor="fn div(self, rhs: Self) -> Self"
    fn div(self, rhs: Self) -> Self { /*@@body*/ }
}
impl NegSpecImpl for QuadExtension {
    open spec fn obeys_neg_spec() -> bool { true }
    open spec fn neg_req(self) -> bool { true }
    open spec fn neg_spec(self) -> QuadExtension { QuadExtension(neg_of(self.0), neg_of(self.1)) }
}
impl core::ops::Neg for QuadExtension {
    type Output = Self;
    //@@ extract within="impl<B: ExtensibleField<2>> Neg for QuadExtension<B>" anchor="fn neg(self) -> Self"
    fn neg(self) -> Self { /*@@body*/ }
}

impl CubeExtension {
    //@@ source math/src/field/extensions/cubic.rs
    //@@ extract anchor="pub const fn new(a: B, b: B, c: B) -> Self"
    pub const fn new(a: B, b: B, c: B) -> (r: Self) ensures r == CubeExtension(a, b, c) { /*@@body*/ }
    //@@ extract anchor="pub const fn to_base_elements(self) -> [B; 3]"
    pub const fn to_base_elements(self) -> (r: [B; 3]) ensures r[0] == self.0 && r[1] == self.1 && r[2] == self.2 { /*@@body*/ }
    //@@ extract within="impl<B: ExtensibleField<3>> FieldElement for CubeExtension<B>" anchor="fn double(self) -> Self"
    pub fn double(self) -> (r: Self) ensures r == CubeExtension(double_of(self.0), double_of(self.1), double_of(self.2)) { /*@@body*/ }
    //@@ extract within="impl<B: ExtensibleField<3>> FieldElement for CubeExtension<B>" anchor="fn square(self) -> Self"
    //@@ rewrite "<B as ExtensibleField<3>>::" => "B::ext3_"
    pub fn square(self) -> (r: Self) ensures r == CubeExtension(square3_of([self.0, self.1, self.2])[0], square3_of([self.0, self.1, self.2])[1], square3_of([self.0, self.1, self.2])[2]) { /*@@body*/ }
    //@@ extract within="impl<B: ExtensibleField<3>> FieldElement for CubeExtension<B>" anchor="fn conjugate(&self) -> Self"
    //@@ rewrite "<B as ExtensibleField<3>>::" => "B::ext3_"
    pub fn conjugate(&self) -> (r: Self) ensures r == CubeExtension(frob3_of([self.0, self.1, self.2])[0], frob3_of([self.0, self.1, self.2])[1], frob3_of([self.0, self.1, self.2])[2]) { /*@@body*/ }
    //@@ extract within="impl<B: ExtensibleField<3>> FieldElement for CubeExtension<B>" anchor="fn base_element(&self, i: usize) -> Self::BaseField"
    //@@ rewrite-re "panic!\([^;]*\)" => "unreached()"
    pub fn base_element(&self, i: usize) -> (r: B) requires i < 3 ensures (i == 0 ==> r == self.0) && (i == 1 ==> r == self.1) && (i == 2 ==> r == self.2) { /*@@body*/ }
    //@@ extract within="impl<B: ExtensibleField<3>> ExtensionOf<B> for CubeExtension<B>" anchor="fn mul_base(self, other: B) -> Self"
    //@@ rewrite "<B as ExtensibleField<3>>::" => "B::ext3_"
    pub fn mul_base(self, other: B) -> (r: Self) ensures r == CubeExtension(mulbase3_of([self.0, self.1, self.2], other)[0], mulbase3_of([self.0, self.1, self.2], other)[1], mulbase3_of([self.0, self.1, self.2], other)[2]) { /*@@body*/ }
    //@@ extract within="impl<B: ExtensibleField<3>> From<B> for CubeExtension<B>" anchor="fn from(value: B) -> Self"
    pub fn from(value: B) -> (r: Self) ensures r == CubeExtension(value, B::ZERO, B::ZERO) { /*@@body*/ }
    #[verifier::external_body] pub fn inv(self) -> (r: Self) ensures r == inv3_of(self) { unimplemented!() }   // unit extinv
}
impl AddSpecImpl<CubeExtension> for CubeExtension {
    open spec fn obeys_add_spec() -> bool { true }
    open spec fn add_req(self, rhs: CubeExtension) -> bool { true }
    open spec fn add_spec(self, rhs: CubeExtension) -> CubeExtension { CubeExtension(add_of(self.0, rhs.0), add_of(self.1, rhs.1), add_of(self.2, rhs.2)) }
}
impl core::ops::Add for CubeExtension {
    type Output = Self;
    //@@ extract within="impl<B: ExtensibleField<3>> Add for CubeExtension<B>" anchor="fn add(self, rhs: Self) -> Self"
    //@@ rewrite "<B as ExtensibleField<3>>::" => "B::ext3_"
    fn add(self, rhs: Self) -> Self { /*@@body*/ }
}
impl SubSpecImpl<CubeExtension> for CubeExtension {
    open spec fn obeys_sub_spec() -> bool { true }
    open spec fn sub_req(self, rhs: CubeExtension) -> bool { true }
    open spec fn sub_spec(self, rhs: CubeExtension) -> CubeExtension { CubeExtension(sub_of(self.0, rhs.0), sub_of(self.1, rhs.1), sub_of(self.2, rhs.2)) }
}
impl core::ops::Sub for CubeExtension {
    type Output = Self;
    //@@ extract within="impl<B: ExtensibleField<3>> Sub for CubeExtension<B>" anchor="fn sub(self, rhs: Self) -> Self"
    //@@ rewrite "<B as ExtensibleField<3>>::" => "B::ext3_"
    fn sub(self, rhs: Self) -> Self { /*@@body*/ }
}
impl MulSpecImpl<CubeExtension> for CubeExtension {
    open spec fn obeys_mul_spec() -> bool { true }
    open spec fn mul_req(self, rhs: CubeExtension) -> bool { true }
    open spec fn mul_spec(self, rhs: CubeExtension) -> CubeExtension { CubeExtension(mul3_of([self.0, self.1, self.2], [rhs.0, rhs.1, rhs.2])[0], mul3_of([self.0, self.1, self.2], [rhs.0, rhs.1, rhs.2])[1], mul3_of([self.0, self.1, self.2], [rhs.0, rhs.1, rhs.2])[2]) }
}
impl core::ops::Mul for CubeExtension {
    type Output = Self;
    //@@ extract within="impl<B: ExtensibleField<3>> Mul for CubeExtension<B>" anchor="fn mul(self, rhs: Self) -> Self"
    //@@ rewrite "<B as ExtensibleField<3>>::" => "B::ext3_"
    fn mul(self, rhs: Self) -> Self { /*@@body*/ }
}
impl DivSpecImpl<CubeExtension> for CubeExtension {
    open spec fn obeys_div_spec() -> bool { true }
    open spec fn div_req(self, rhs: CubeExtension) -> bool { true }
    open spec fn div_spec(self, rhs: CubeExtension) -> CubeExtension { MulSpec::mul_spec(self, inv3_of(rhs)) }
}
impl core::ops::Div for CubeExtension {
    type Output = Self;
    //@@ extract within="impl<B: ExtensibleField<3>> Div for CubeExtension<B>" anchor="fn div(self, rhs: Self) -> Self"
    fn div(self, rhs: Self) -> Self { /*@@body*/ }
}
impl NegSpecImpl for CubeExtension {
    open spec fn obeys_neg_spec() -> bool { true }
    open spec fn neg_req(self) -> bool { true }
    open spec fn neg_spec(self) -> CubeExtension { CubeExtension(neg_of(self.0), neg_of(self.1), neg_of(self.2)) }
}
impl core::ops::Neg for CubeExtension {
    type Output = Self;
    //@@ extract within="impl<B: ExtensibleField<3>> Neg for CubeExtension<B>" anchor="fn neg(self) -> Self"
    fn neg(self) -> Self { /*@@body*/ }
}

pub fn unreached() -> (r: B) requires false { B(0) }

proof fn extwrap_canary_must_fail()
    ensures forall|a: B, b: B| add_of(a, b) == add_of(b, a)
{
}

} // verus!

fn main() {}
