// Verus unit proofserdev: the (de)serializers of the whole `Proof` (air/src/proof/mod.rs) - bodies cut out of /repo - for EVERY
// proof value, relative to the codecs of its components.
// Every component type (Context, Commitments, Queries, OodFrame, FriProof, the optional GKR proof, the u8 / u64 fields) is
// abstract: an uninterpreted encoder enc_* / decoder dec_*, with the component-level round trip
// dec(enc(x) ++ rest) == (x, rest) as a HYPOTHESIS (`rt()`; these are what the Kani contracts and the units serdev / oodv of C12 decide
// for the real component types). Decided:
//   write_into   appends the component encodings in the documented order: context, number of unique queries, commitments,
//                one Queries per trace segment, constraint queries, OOD frame, FRI proof, proof-of-work nonce, optional GKR proof
//   read_from    decodes them in the same order; the number of trace-query sets read is the number of trace segments of the
//                decoded context; Err exactly when a component decoder fails
//   theorem      for every proof whose number of trace-query sets equals its context's number of trace segments (what the
//                prover builds), read_from(write_into(p) ++ rest) == Ok(p) and exactly `rest` remains - the whole-Proof round trip
// Literal rewrites (listed): `for _ in 0..n` gets a named loop variable; `Option::<Vec<u8>>::read_from` / the u64's write_into are
// named through the wrapper types of this file.
use vstd::prelude::*;
verus! {
global size_of usize == 8;

macro_rules! component {
    ($T:ident, $enc:ident, $dec:ident) => {
        verus! {
        #[derive(PartialEq, Eq, Structural)]
        pub struct $T(pub u64);
        pub uninterp spec fn $enc(x: $T) -> Seq<u8>;
        pub uninterp spec fn $dec(s: Seq<u8>) -> Option<($T, Seq<u8>)>;
        impl $T {
            #[verifier::external_body]
            pub fn read_from(source: &mut Reader) -> (r: Result<$T, DeserializationError>)
                ensures
                    r is Ok <==> $dec(old(source).rem@) is Some,
                    r is Ok ==> r->Ok_0 == $dec(old(source).rem@)->Some_0.0 && final(source).rem@ == $dec(old(source).rem@)->Some_0.1,
            { unimplemented!() }
            #[verifier::external_body]
            pub fn write_into(&self, target: &mut Writer)
                ensures final(target).out@ == old(target).out@ + $enc(*self)
            { unimplemented!() }
        }
        }
    };
}

pub struct DeserializationError;
pub struct Reader { pub rem: Ghost<Seq<u8>> }
pub struct Writer { pub out: Ghost<Seq<u8>> }

component!(Context, enc_ctx, dec_ctx);
component!(Commitments, enc_com, dec_com);
component!(Queries, enc_q, dec_q);
component!(OodFrame, enc_ood, dec_ood);
component!(FriProof, enc_fri, dec_fri);
component!(GkrOpt, enc_gkr, dec_gkr);

pub uninterp spec fn enc_u8(x: u8) -> Seq<u8>;
pub uninterp spec fn dec_u8(s: Seq<u8>) -> Option<(u8, Seq<u8>)>;
pub uninterp spec fn enc_u64(x: u64) -> Seq<u8>;
pub uninterp spec fn dec_u64(s: Seq<u8>) -> Option<(u64, Seq<u8>)>;
pub uninterp spec fn segments_of(c: Context) -> usize;

pub struct TraceInfo { pub n: usize }
impl TraceInfo { pub fn num_segments(&self) -> (r: usize) ensures r == self.n { self.n } }
impl Context {
    #[verifier::external_body]
    pub fn trace_info(&self) -> (r: TraceInfo) ensures r.n == segments_of(*self) { unimplemented!() }
}
impl Reader {
    #[verifier::external_body]
    pub fn read_u8(&mut self) -> (r: Result<u8, DeserializationError>)
        ensures r is Ok <==> dec_u8(old(self).rem@) is Some,
                r is Ok ==> r->Ok_0 == dec_u8(old(self).rem@)->Some_0.0 && final(self).rem@ == dec_u8(old(self).rem@)->Some_0.1,
    { unimplemented!() }
    #[verifier::external_body]
    pub fn read_u64(&mut self) -> (r: Result<u64, DeserializationError>)
        ensures r is Ok <==> dec_u64(old(self).rem@) is Some,
                r is Ok ==> r->Ok_0 == dec_u64(old(self).rem@)->Some_0.0 && final(self).rem@ == dec_u64(old(self).rem@)->Some_0.1,
    { unimplemented!() }
}
pub open spec fn enc_qs(v: Seq<Queries>) -> Seq<u8>
    decreases v.len()
{
    if v.len() == 0 { Seq::<u8>::empty() } else { enc_qs(v.drop_last()) + enc_q(v.last()) }
}
pub open spec fn dec_qs(s: Seq<u8>, n: nat) -> Option<(Seq<Queries>, Seq<u8>)>
    decreases n
{
    if n == 0 { Some((Seq::<Queries>::empty(), s)) } else {
        match dec_q(s) {
            None => None,
            Some((x, r1)) => match dec_qs(r1, (n - 1) as nat) { None => None, Some((xs, r2)) => Some((seq![x] + xs, r2)) },
        }
    }
}
impl Writer {
    #[verifier::external_body]
    pub fn write_u8(&mut self, x: u8) ensures final(self).out@ == old(self).out@ + enc_u8(x) { unimplemented!() }
    #[verifier::external_body]
    pub fn write_u64(&mut self, x: u64) ensures final(self).out@ == old(self).out@ + enc_u64(x) { unimplemented!() }
    // contract of ByteWriter::write_many (proved from its body in unit serdev)
    #[verifier::external_body]
    pub fn write_many(&mut self, elements: &Vec<Queries>) ensures final(self).out@ == old(self).out@ + enc_qs(elements@) { unimplemented!() }
}
pub struct Nonce(pub u64);
impl Nonce {
    // <u64 as Serializable>::write_into is write_u64
    pub fn write_into(&self, target: &mut Writer) ensures final(target).out@ == old(target).out@ + enc_u64(self.0) { target.write_u64(self.0) }
}

pub struct Proof {
    pub context: Context,
    pub num_unique_queries: u8,
    pub commitments: Commitments,
    pub trace_queries: Vec<Queries>,
    pub constraint_queries: Queries,
    pub ood_frame: OodFrame,
    pub fri_proof: FriProof,
    pub pow_nonce: Nonce,
    pub gkr_proof: GkrOpt,
}

pub open spec fn enc_proof(p: Proof) -> Seq<u8> {
    enc_ctx(p.context) + enc_u8(p.num_unique_queries) + enc_com(p.commitments) + enc_qs(p.trace_queries@) + enc_q(p.constraint_queries)
        + enc_ood(p.ood_frame) + enc_fri(p.fri_proof) + enc_u64(p.pow_nonce.0) + enc_gkr(p.gkr_proof)
}

impl Proof {
    //@@ source air/src/proof/mod.rs
    //@@ extract within="impl Serializable for Proof" anchor="fn write_into<W: utils::ByteWriter>(&self, target: &mut W)"
    pub fn write_into(&self, target: &mut Writer)
        ensures final(target).out@ == old(target).out@ + enc_proof(*self)
    {
        /*@@body*/
        proof {
            let o = old(target).out@;
            assert(target.out@ =~= o + enc_proof(*self));
        }
    }
}


// ---------------------------------------------------------------------------------------------------------------------
// decoding
pub struct ProofV {
    pub context: Context, pub nq: u8, pub commitments: Commitments, pub trace_queries: Seq<Queries>, pub constraint_queries: Queries,
    pub ood_frame: OodFrame, pub fri_proof: FriProof, pub pow_nonce: u64, pub gkr_proof: GkrOpt,
}
pub open spec fn view_of(p: Proof) -> ProofV {
    ProofV { context: p.context, nq: p.num_unique_queries, commitments: p.commitments, trace_queries: p.trace_queries@,
             constraint_queries: p.constraint_queries, ood_frame: p.ood_frame, fri_proof: p.fri_proof, pow_nonce: p.pow_nonce.0, gkr_proof: p.gkr_proof }
}
pub open spec fn dec_tail(c: Context, nq: u8, cm: Commitments, tq: Seq<Queries>, s4: Seq<u8>) -> Option<(ProofV, Seq<u8>)> {
    match dec_q(s4) { None => None, Some((cq, s5)) =>
    match dec_ood(s5) { None => None, Some((of, s6)) =>
    match dec_fri(s6) { None => None, Some((fp, s7)) =>
    match dec_u64(s7) { None => None, Some((pn, s8)) =>
    match dec_gkr(s8) { None => None, Some((g, s9)) =>
        Some((ProofV { context: c, nq: nq, commitments: cm, trace_queries: tq, constraint_queries: cq, ood_frame: of, fri_proof: fp, pow_nonce: pn, gkr_proof: g }, s9)) }}}}}
}
pub open spec fn dec_proof(s: Seq<u8>) -> Option<(ProofV, Seq<u8>)> {
    match dec_ctx(s) { None => None, Some((c, s1)) =>
    match dec_u8(s1) { None => None, Some((nq, s2)) =>
    match dec_com(s2) { None => None, Some((cm, s3)) =>
    match dec_qs(s3, segments_of(c) as nat) { None => None, Some((tq, s4)) => dec_tail(c, nq, cm, tq, s4) }}}}
}
pub open spec fn dec_qs_acc(acc: Seq<Queries>, s: Seq<u8>, n: nat) -> Option<(Seq<Queries>, Seq<u8>)> {
    match dec_qs(s, n) { None => None, Some((xs, r)) => Some((acc + xs, r)) }
}
proof fn lemma_qs_step(acc: Seq<Queries>, s: Seq<u8>, n: nat)
    requires n >= 1
    ensures
        dec_q(s) is None ==> dec_qs_acc(acc, s, n) is None,
        dec_q(s) is Some ==> dec_qs_acc(acc, s, n) == dec_qs_acc(acc.push(dec_q(s)->Some_0.0), dec_q(s)->Some_0.1, (n - 1) as nat),
{
    if dec_q(s) is Some {
        let x = dec_q(s)->Some_0.0;
        let r1 = dec_q(s)->Some_0.1;
        match dec_qs(r1, (n - 1) as nat) {
            None => {},
            Some((xs, r2)) => { assert(acc + (seq![x] + xs) =~= acc.push(x) + xs); },
        }
    }
}

impl Proof {
    //@@ source air/src/proof/mod.rs
    //@@ extract within="impl Deserializable for Proof" anchor="fn read_from<R: ByteReader>(source: &mut R) -> Result<Self, DeserializationError>"
    //@@ rewrite "for _ in 0..num_trace_segments {" => "for k in 0..num_trace_segments {"
    //@@ rewrite "let mut trace_queries = Vec::with_capacity(num_trace_segments);" => "let mut trace_queries: Vec<Queries> = Vec::with_capacity(num_trace_segments);"
    //@@ rewrite "pow_nonce: source.read_u64()?," => "pow_nonce: Nonce(source.read_u64()?),"
    //@@ rewrite "Option::<Vec<u8>>::read_from(source)?" => "GkrOpt::read_from(source)?"
    //@@ before "let mut trace_queries"
    //@@|        let ghost s3 = source.rem@;
    //@@|        proof { assert(Seq::<Queries>::empty() + dec_qs(s3, num_trace_segments as nat)->Some_0.0 =~= dec_qs(s3, num_trace_segments as nat)->Some_0.0); }
    //@@ loop 1
    //@@|            invariant
    //@@|                trace_queries.len() == k, s0 == old(source).rem@,
    //@@|                dec_ctx(s0) == Some((context, s1g)), dec_u8(s1g) == Some((num_unique_queries, s2g)), dec_com(s2g) == Some((commitments, s3)),
    //@@|                num_trace_segments == segments_of(context),
    //@@|                dec_qs_acc(trace_queries@, source.rem@, (num_trace_segments - k) as nat) == dec_qs(s3, num_trace_segments as nat),
    //@@|            ensures
    //@@|                trace_queries.len() == num_trace_segments,
    //@@|                dec_qs(s3, num_trace_segments as nat) == Some((trace_queries@, source.rem@)),
    //@@ loopstart 1
    //@@|            proof { lemma_qs_step(trace_queries@, source.rem@, (num_trace_segments - k) as nat); }
    //@@ after "let context = Context::read_from(source)?;"
    //@@|        let ghost s1g = source.rem@;
    //@@ after "let num_unique_queries = source.read_u8()?;"
    //@@|        let ghost s2g = source.rem@;
    pub fn read_from(source: &mut Reader) -> (r: Result<Proof, DeserializationError>)
        ensures
            r is Ok <==> dec_proof(old(source).rem@) is Some,
            r is Ok ==> dec_proof(old(source).rem@) == Some((view_of(r->Ok_0), final(source).rem@)),
    {
        let ghost s0 = source.rem@;
        /*@@body*/
    }
}

// ---------------------------------------------------------------------------------------------------------------------
// the whole-Proof round trip, relative to the component round trips
#[verifier::opaque]
pub open spec fn rt() -> bool {
    &&& forall|x: Context, r: Seq<u8>| dec_ctx(#[trigger] (enc_ctx(x) + r)) == Some((x, r))
    &&& forall|x: u8, r: Seq<u8>| dec_u8(#[trigger] (enc_u8(x) + r)) == Some((x, r))
    &&& forall|x: Commitments, r: Seq<u8>| dec_com(#[trigger] (enc_com(x) + r)) == Some((x, r))
    &&& forall|x: Queries, r: Seq<u8>| dec_q(#[trigger] (enc_q(x) + r)) == Some((x, r))
    &&& forall|x: OodFrame, r: Seq<u8>| dec_ood(#[trigger] (enc_ood(x) + r)) == Some((x, r))
    &&& forall|x: FriProof, r: Seq<u8>| dec_fri(#[trigger] (enc_fri(x) + r)) == Some((x, r))
    &&& forall|x: u64, r: Seq<u8>| dec_u64(#[trigger] (enc_u64(x) + r)) == Some((x, r))
    &&& forall|x: GkrOpt, r: Seq<u8>| dec_gkr(#[trigger] (enc_gkr(x) + r)) == Some((x, r))
}
proof fn lemma_enc_qs_front(v: Seq<Queries>)
    requires v.len() >= 1
    ensures enc_qs(v) == enc_q(v[0]) + enc_qs(v.subrange(1, v.len() as int))
    decreases v.len()
{
    let tail = v.subrange(1, v.len() as int);
    if v.len() == 1 {
        assert(v.drop_last() =~= Seq::<Queries>::empty());
        assert(tail =~= Seq::<Queries>::empty());
        assert(enc_qs(v) == enc_qs(v.drop_last()) + enc_q(v.last()));
        assert(Seq::<u8>::empty() + enc_q(v[0]) =~= enc_q(v[0]) + Seq::<u8>::empty());
    } else {
        lemma_enc_qs_front(v.drop_last());
        assert(v.drop_last().subrange(1, v.len() - 1) =~= tail.drop_last());
        assert(tail.last() == v.last());
        assert(enc_qs(tail) == enc_qs(tail.drop_last()) + enc_q(tail.last()));
        assert((enc_q(v[0]) + enc_qs(tail.drop_last())) + enc_q(v.last()) =~= enc_q(v[0]) + (enc_qs(tail.drop_last()) + enc_q(v.last())));
    }
}
proof fn lemma_qs_roundtrip(v: Seq<Queries>, rest: Seq<u8>)
    requires rt()
    ensures dec_qs(enc_qs(v) + rest, v.len()) == Some((v, rest))
    decreases v.len()
{
    if v.len() == 0 {
        assert(enc_qs(v) + rest =~= rest);
        assert(v =~= Seq::<Queries>::empty());
    } else {
        let tail = v.subrange(1, v.len() as int);
        lemma_enc_qs_front(v);
        assert((enc_q(v[0]) + enc_qs(tail)) + rest =~= enc_q(v[0]) + (enc_qs(tail) + rest));
        reveal(rt);
        assert(dec_q(enc_q(v[0]) + (enc_qs(tail) + rest)) == Some((v[0], enc_qs(tail) + rest)));
        lemma_qs_roundtrip(tail, rest);
        assert(seq![v[0]] + tail =~= v);
    }
}

// THEOREM: decoding what write_into appended returns the same proof and leaves exactly what followed
pub proof fn theorem_proof_roundtrip(p: Proof, rest: Seq<u8>)
    requires rt(), p.trace_queries@.len() == segments_of(p.context)
    ensures dec_proof(enc_proof(p) + rest) == Some((view_of(p), rest))
{
    let e1 = enc_u8(p.num_unique_queries);
    let e2 = enc_com(p.commitments);
    let e3 = enc_qs(p.trace_queries@);
    let e4 = enc_q(p.constraint_queries);
    let e5 = enc_ood(p.ood_frame);
    let e6 = enc_fri(p.fri_proof);
    let e7 = enc_u64(p.pow_nonce.0);
    let e8 = enc_gkr(p.gkr_proof);
    let t8 = e8 + rest;
    let t7 = e7 + t8;
    let t6 = e6 + t7;
    let t5 = e5 + t6;
    let t4 = e4 + t5;
    let t3 = e3 + t4;
    let t2 = e2 + t3;
    let t1 = e1 + t2;
    assert(enc_proof(p) + rest =~= enc_ctx(p.context) + t1);
    reveal(rt);
    assert(dec_ctx(enc_ctx(p.context) + t1) == Some((p.context, t1)));
    assert(dec_u8(e1 + t2) == Some((p.num_unique_queries, t2)));
    assert(dec_com(e2 + t3) == Some((p.commitments, t3)));
    lemma_qs_roundtrip(p.trace_queries@, t4);
    assert(dec_q(e4 + t5) == Some((p.constraint_queries, t5)));
    assert(dec_ood(e5 + t6) == Some((p.ood_frame, t6)));
    assert(dec_fri(e6 + t7) == Some((p.fri_proof, t7)));
    assert(dec_u64(e7 + t8) == Some((p.pow_nonce.0, t8)));
    assert(dec_gkr(e8 + rest) == Some((p.gkr_proof, rest)));
}

proof fn proofserdev_canary_must_fail(p: Proof, rest: Seq<u8>)
    requires rt()
    ensures dec_proof(enc_proof(p) + rest) == Some((view_of(p), rest))
{
}

} // verus!

fn main() {}
