// Verus unit f128v: math/src/field/f128/mod.rs - schoolbook 128x128 multiplication with stepwise reduction.
// Bodies marked with the body marker are cut out of /repo on every run.
use vstd::prelude::*;
use vstd::arithmetic::div_mod::*;
use vstd::arithmetic::mul::*;
use vstd::arithmetic::power2::*;

verus! {

pub const M: u128 = /*@@expr source="math/src/field/f128/mod.rs" anchor="const M: u128 ="*/;

/// the prime 2^128 - 45 * 2^40 + 1 as stated by the property
pub spec const P: int = 340282366920938463463374557953744961537int;
pub spec const W: int = 0x1_0000_0000_0000_0000int;          // 2^64
pub spec const W2: int = 0x1_0000_0000_0000_0000_0000_0000_0000_0000int;   // 2^128
pub spec const W3: int = W2 * W;                                             // 2^192
/// 2^128 - P
pub spec const C: int = 49478023249919int;

pub open spec fn val3(z0: u64, z1: u64, z2: u64) -> int { z0 as int + (z1 as int) * 0x1_0000_0000_0000_0000int + (z2 as int) * 0x1_0000_0000_0000_0000_0000_0000_0000_0000int }
pub open spec fn val2(z0: u64, z1: u64) -> int { z0 as int + (z1 as int) * 0x1_0000_0000_0000_0000int }

proof fn lemma_consts()
    ensures M as int == P, W2 == W * W, P == W2 - C, 0 < C < 0x4000_0000_0000int, W3 == W2 * W
{
    assert(M as int == P) by (compute);
    assert(W2 == W * W) by (compute);
    assert(P == W2 - C) by (compute);
}

//@@ source math/src/field/f128/mod.rs
//@@ extract anchor="const fn add64_with_carry(a: u64, b: u64, carry: u64) -> (u64, u64)"
//@@ rewrite "(ret as u64, (ret >> 64) as u64)" => "(#[verifier::truncate] (ret as u64), #[verifier::truncate] ((ret >> 64) as u64))"
//@@ after "let ret = (a as u128) + (b as u128) + (carry as u128);"
//@@|    proof {
//@@|        assert(ret >> 64 == ret / 0x1_0000_0000_0000_0000u128) by (bit_vector);
//@@|        assert((#[verifier::truncate] (ret as u64)) as u128 == ret % 0x1_0000_0000_0000_0000u128) by (bit_vector);
//@@|    }
pub fn add64_with_carry(a: u64, b: u64, carry: u64) -> (r: (u64, u64))
    requires carry <= 1
    ensures r.0 as int + (r.1 as int) * W == a as int + b as int + carry as int, r.1 <= 1
{
    /*@@body*/
}

//@@ extract anchor="fn mul_128x64(a: u128, b: u64) -> (u64, u64, u64)"
//@@ rewrite "let z_lo = ((a as u64) as u128) * (b as u128);" => "let z_lo = ((#[verifier::truncate] (a as u64)) as u128) * (b as u128);"
//@@ rewrite "(z_lo as u64, z_hi as u64, (z_hi >> 64) as u64)" => "(#[verifier::truncate] (z_lo as u64), #[verifier::truncate] (z_hi as u64), #[verifier::truncate] ((z_hi >> 64) as u64))"
//@@ before "let z_lo ="
//@@|    let ghost alo: int = (a as int) % W;
//@@|    let ghost ahi: int = (a as int) / W;
//@@|    proof {
//@@|        lemma_fundamental_div_mod(a as int, W);
//@@|        assert(a >> 64 == a / 0x1_0000_0000_0000_0000u128) by (bit_vector);
//@@|        assert((#[verifier::truncate] (a as u64)) as u128 == a % 0x1_0000_0000_0000_0000u128) by (bit_vector);
//@@|        assert(alo * (b as int) < W * W) by (nonlinear_arith) requires 0 <= alo < W, 0 <= (b as int) < W;
//@@|        assert(ahi * (b as int) <= (W - 1) * (W - 1)) by (nonlinear_arith) requires 0 <= ahi < W, 0 <= (b as int) < W;
//@@|        assert(0 <= alo * (b as int)) by (nonlinear_arith) requires 0 <= alo, 0 <= (b as int);
//@@|        assert(0 <= ahi * (b as int)) by (nonlinear_arith) requires 0 <= ahi, 0 <= (b as int);
//@@|    }
//@@ before "let z_hi = z_hi + (z_lo >> 64);"
//@@|    proof {
//@@|        assert(z_lo >> 64 == z_lo / 0x1_0000_0000_0000_0000u128) by (bit_vector);
//@@|        assert(z_lo as int == alo * (b as int));
//@@|        assert(z_hi as int == ahi * (b as int));
//@@|        assert((W - 1) * (W - 1) + W < W * W) by (nonlinear_arith) requires W > 2;
//@@|    }
//@@ after "let z_hi = z_hi + (z_lo >> 64);"
//@@|    proof {
//@@|        assert(z_lo >> 64 == z_lo / 0x1_0000_0000_0000_0000u128) by (bit_vector);
//@@|        assert(z_hi >> 64 == z_hi / 0x1_0000_0000_0000_0000u128) by (bit_vector);
//@@|        assert((#[verifier::truncate] (z_lo as u64)) as u128 == z_lo % 0x1_0000_0000_0000_0000u128) by (bit_vector);
//@@|        assert((#[verifier::truncate] (z_hi as u64)) as u128 == z_hi % 0x1_0000_0000_0000_0000u128) by (bit_vector);
//@@|        lemma_fundamental_div_mod(z_lo as int, W);
//@@|        lemma_fundamental_div_mod(z_hi as int, W);
//@@|        assert((a as int) * (b as int) == alo * (b as int) + ahi * (b as int) * W) by (nonlinear_arith)
//@@|            requires (a as int) == W * ahi + alo;
//@@|    }
pub fn mul_128x64(a: u128, b: u64) -> (r: (u64, u64, u64))
    ensures val3(r.0, r.1, r.2) == (a as int) * (b as int)
{
    proof { lemma_consts(); }
    /*@@body*/
}

//@@ extract anchor="fn sub_192x192(a0: u64, a1: u64, a2: u64, b0: u64, b1: u64, b2: u64) -> (u64, u64, u64)"
//@@ rewrite "(z0 as u64, z1 as u64, z2 as u64)" => "(#[verifier::truncate] (z0 as u64), #[verifier::truncate] (z1 as u64), #[verifier::truncate] (z2 as u64))"
//@@ after "let z0 = (a0 as u128).wrapping_sub(b0 as u128);"
//@@|    let ghost bw0: int = if a0 < b0 { 1 } else { 0 };
//@@|    proof {
//@@|        assert(z0 as int == a0 as int - b0 as int + bw0 * W2);
//@@|        assert(z0 >> 127 == (if z0 >= 0x8000_0000_0000_0000_0000_0000_0000_0000u128 { 1u128 } else { 0u128 })) by (bit_vector);
//@@|        assert((z0 >> 127) as int == bw0);
//@@|        assert((#[verifier::truncate] (z0 as u64)) as u128 == z0 % 0x1_0000_0000_0000_0000u128) by (bit_vector);
//@@|    }
//@@ after "let z1 = (a1 as u128).wrapping_sub((b1 as u128) + (z0 >> 127));"
//@@|    let ghost bw1: int = if (a1 as int) < (b1 as int) + bw0 { 1 } else { 0 };
//@@|    proof {
//@@|        assert(z1 as int == a1 as int - b1 as int - bw0 + bw1 * W2);
//@@|        assert(z1 >> 127 == (if z1 >= 0x8000_0000_0000_0000_0000_0000_0000_0000u128 { 1u128 } else { 0u128 })) by (bit_vector);
//@@|        assert((z1 >> 127) as int == bw1);
//@@|        assert((#[verifier::truncate] (z1 as u64)) as u128 == z1 % 0x1_0000_0000_0000_0000u128) by (bit_vector);
//@@|    }
//@@ after "let z2 = (a2 as u128).wrapping_sub((b2 as u128) + (z1 >> 127));"
//@@|    let ghost bw2: int = if (a2 as int) < (b2 as int) + bw1 { 1 } else { 0 };
//@@|    proof {
//@@|        assert(z2 as int == a2 as int - b2 as int - bw1 + bw2 * W2);
//@@|        assert((#[verifier::truncate] (z2 as u64)) as u128 == z2 % 0x1_0000_0000_0000_0000u128) by (bit_vector);
//@@|        // low limbs: (x + bw * 2^128) mod 2^64 == x + bw * 2^64 for x in (-2^64, 2^64)
//@@|        lemma_limb(a0 as int - b0 as int, bw0, z0 as int);
//@@|        lemma_limb(a1 as int - b1 as int - bw0, bw1, z1 as int);
//@@|        lemma_limb(a2 as int - b2 as int - bw1, bw2, z2 as int);
//@@|        assert(W3 == W2 * W && W2 == W * W) by (compute);
//@@|        assert(((z0 as int) % W) + ((z1 as int) % W) * W + ((z2 as int) % W) * W2
//@@|            == val3(a0, a1, a2) - val3(b0, b1, b2) + bw2 * W3) by (nonlinear_arith)
//@@|            requires (z0 as int) % W == a0 as int - b0 as int + bw0 * W,
//@@|                (z1 as int) % W == a1 as int - b1 as int - bw0 + bw1 * W,
//@@|                (z2 as int) % W == a2 as int - b2 as int - bw1 + bw2 * W,
//@@|                val3(a0, a1, a2) == a0 as int + (a1 as int) * W + (a2 as int) * W2,
//@@|                val3(b0, b1, b2) == b0 as int + (b1 as int) * W + (b2 as int) * W2,
//@@|                W3 == W2 * W, W2 == W * W;
//@@|    }
pub fn sub_192x192(a0: u64, a1: u64, a2: u64, b0: u64, b1: u64, b2: u64) -> (r: (u64, u64, u64))
    ensures val3(r.0, r.1, r.2) == val3(a0, a1, a2) - val3(b0, b1, b2)
        || val3(r.0, r.1, r.2) == val3(a0, a1, a2) - val3(b0, b1, b2) + W3
{
    proof { lemma_consts(); }
    /*@@body*/
}

/// z == x + bw * 2^128 with -2^64 < x < 2^64 and bw == (x < 0): the low 64 bits of z are x + bw * 2^64
proof fn lemma_limb(x: int, bw: int, z: int)
    requires -W <= x < W, bw == (if x < 0 { 1int } else { 0int }), z == x + bw * W2
    ensures z % W == x + bw * W
{
    assert(W2 == W * W) by (compute);
    if x < 0 {
        // z = x + W*W = (x + W) + W * (W - 1)
        assert(z == W * (W - 1) + (x + W)) by (nonlinear_arith) requires z == x + 1 * W2, W2 == W * W;
        lemma_mod_multiples_vanish(W - 1, x + W, W);
        lemma_small_mod((x + W) as nat, W as nat);
    } else {
        assert(bw * W2 == 0);
        lemma_small_mod(x as nat, W as nat);
    }
}

//@@ extract anchor="fn mul_by_modulus(a: u64) -> (u64, u64, u64)"
//@@ rewrite "(a_lo as u64, (a_lo >> 64) as u64, a_hi)" => "(#[verifier::truncate] (a_lo as u64), #[verifier::truncate] ((a_lo >> 64) as u64), a_hi)"
//@@ after "let a_lo = (a as u128).wrapping_mul(M);"
//@@|    proof {
//@@|        let ai = a as int;
//@@|        assert(0 <= ai * C < W * 0x4000_0000_0000int) by (nonlinear_arith) requires 0 <= ai < W, 0 < C < 0x4000_0000_0000int;
//@@|        assert(W * 0x4000_0000_0000int < W2) by (compute);
//@@|        assert(ai * P == ai * W2 - ai * C) by (nonlinear_arith) requires P == W2 - C;
//@@|        if a > 0 {
//@@|            assert(ai * P == W2 * (ai - 1) + (W2 - ai * C)) by (nonlinear_arith) requires ai * P == ai * W2 - ai * C;
//@@|            lemma_mod_multiples_vanish(ai - 1, W2 - ai * C, W2);
//@@|            lemma_small_mod((W2 - ai * C) as nat, W2 as nat);
//@@|            assert((ai * P) % W2 == W2 - ai * C);
//@@|        } else {
//@@|            assert(ai * P == 0);
//@@|        }
//@@|        assert(a_lo as int == (ai * P) % W2);
//@@|        assert(a_lo >> 64 == a_lo / 0x1_0000_0000_0000_0000u128) by (bit_vector);
//@@|        assert((#[verifier::truncate] (a_lo as u64)) as u128 == a_lo % 0x1_0000_0000_0000_0000u128) by (bit_vector);
//@@|        lemma_fundamental_div_mod(a_lo as int, W);
//@@|    }
pub fn mul_by_modulus(a: u64) -> (r: (u64, u64, u64))
    ensures val3(r.0, r.1, r.2) == (a as int) * P
{
    proof { lemma_consts(); }
    /*@@body*/
}

//@@ extract anchor="fn sub_modulus(a_lo: u64, a_hi: u64) -> (u64, u64)"
//@@ rewrite "(z as u64, (z >> 64) as u64)" => "(#[verifier::truncate] (z as u64), #[verifier::truncate] ((z >> 64) as u64))"
//@@ before "(#[verifier::truncate] (z as u64)"
//@@|    proof {
//@@|        assert(((a_hi as u128) << 64) == (a_hi as u128) * 0x1_0000_0000_0000_0000u128) by (bit_vector);
//@@|        assert(z >> 64 == z / 0x1_0000_0000_0000_0000u128) by (bit_vector);
//@@|        assert((#[verifier::truncate] (z as u64)) as u128 == z % 0x1_0000_0000_0000_0000u128) by (bit_vector);
//@@|        lemma_fundamental_div_mod(z as int, W);
//@@|    }
pub fn sub_modulus(a_lo: u64, a_hi: u64) -> (r: (u64, u64))
    ensures val2(r.0, r.1) == val2(a_lo, a_hi) - P || val2(r.0, r.1) == val2(a_lo, a_hi) - P + W2
{
    proof { lemma_consts(); }
    /*@@body*/
}

//@@ extract anchor="fn mul_reduce(z0: u64, z1: u64, z2: u64) -> (u64, u64, u64)"
pub fn mul_reduce(z0: u64, z1: u64, z2: u64) -> (r: (u64, u64, u64))
    ensures
        // z - z2 * P, which is (z mod 2^128) + z2 * C: a value below 2^128 + 2^110, so the top limb is 0 or 1
        val3(r.0, r.1, r.2) == val2(z0, z1) + (z2 as int) * C,
        r.2 <= 1,
{
    proof {
        lemma_consts();
        let zi = z2 as int;
        assert(0 <= zi * C < W * 0x4000_0000_0000int) by (nonlinear_arith) requires 0 <= zi < W, 0 < C < 0x4000_0000_0000int;
        assert(W * 0x4000_0000_0000int < W2) by (compute);
        assert(zi * P == zi * W2 - zi * C) by (nonlinear_arith) requires P == W2 - C;
        assert(W3 == W2 * W) by (compute);
    }
    /*@@body*/
}

/// congruence modulo P
pub open spec fn eqm(x: int, y: int) -> bool { (x - y) % P == 0 }

proof fn lemma_eqm_multiple(x: int, k: int)
    ensures eqm(x + k * P, x), eqm(x, x + k * P)
{
    lemma_mod_multiples_basic(k, P);
    lemma_mod_multiples_basic(-k, P);
    assert((x + k * P) - x == k * P);
    assert(x - (x + k * P) == (-k) * P) by (nonlinear_arith);
}

proof fn lemma_eqm_trans(x: int, y: int, z: int) requires eqm(x, y), eqm(y, z) ensures eqm(x, z)
{
    lemma_add_mod_noop(x - y, y - z, P);
}

/// mul_reduce: the result is congruent to its argument and below 2^128 + 2^110
proof fn lemma_reduce(z0: u64, z1: u64, z2: u64, r0: u64, r1: u64, r2: u64)
    requires val3(r0, r1, r2) == val2(z0, z1) + (z2 as int) * C, r2 <= 1
    ensures eqm(val3(r0, r1, r2), val3(z0, z1, z2)), 0 <= val3(r0, r1, r2) < W2 + W * 0x4000_0000_0000int,
        val2(r0, r1) < W2, 0 <= val2(r0, r1),
        r2 == 1 ==> val2(r0, r1) < W * 0x4000_0000_0000int,
{
    lemma_consts();
    let zi = z2 as int;
    assert(0 <= zi * C < W * 0x4000_0000_0000int) by (nonlinear_arith) requires 0 <= zi < W, 0 < C < 0x4000_0000_0000int;
    assert(val3(z0, z1, z2) == val3(r0, r1, r2) + zi * P) by (nonlinear_arith)
        requires val3(r0, r1, r2) == val2(z0, z1) + zi * C, val3(z0, z1, z2) == val2(z0, z1) + zi * W2, P == W2 - C;
    lemma_eqm_multiple(val3(r0, r1, r2), zi);
    assert(0 <= (r1 as int) * W <= (W - 1) * W) by (nonlinear_arith) requires 0 <= (r1 as int) < W, W > 0;
    assert((z1 as int) * W <= (W - 1) * W) by (nonlinear_arith) requires 0 <= (z1 as int) < W, W > 0;
    assert(W2 == W * W) by (compute);
    assert((r2 as int) * W2 == 0 || (r2 as int) * W2 == W2);
}

/// the conditional subtraction after mul_reduce: v is the low 128 bits, top the carry limb
proof fn lemma_cond_sub(v: int, top: int, t: int)
    requires 0 <= v < W2, top == 0 || top == 1, top == 1 ==> v < W * 0x4000_0000_0000int,
        0 <= t < W2, top == 1 ==> (t == v - P || t == v - P + W2), top == 0 ==> t == v
    ensures eqm(t, v + top * W2), 0 <= t < W2
{
    lemma_consts();
    assert(W * 0x4000_0000_0000int < P) by (compute);
    if top == 1 {
        assert(t == v - P + W2);
        lemma_eqm_multiple(t, 1);
        assert(t + 1 * P == v + top * W2);
    } else {
        lemma_eqm_multiple(v, 0);
        assert(v + 0 * P == v);
    }
}

proof fn lemma_val2_range(z0: u64, z1: u64)
    ensures 0 <= val2(z0, z1) < W2
{
    assert((z1 as int) * W <= (W - 1) * W) by (nonlinear_arith) requires 0 <= (z1 as int) < W, W > 0;
    assert(0 <= (z1 as int) * W) by (nonlinear_arith) requires 0 <= (z1 as int), W > 0;
    assert(W2 == W * W) by (compute);
}

/// the addition y + (x << 64) and the correction when it carries out of 192 bits
proof fn lemma_y_step(ai: int, bl: int, xx2: int, y0: int, v: int, y3: int, t: int)
    requires 0 <= ai < P, 0 <= bl < W, 0 <= xx2 < W2, 0 <= y0 < W, 0 <= v < W2, y3 == 0 || y3 == 1,
        y0 + v * W + y3 * W3 == ai * bl + xx2 * W,
        0 <= t < W2, y3 == 1 ==> (t == v - P || t == v - P + W2), y3 == 0 ==> t == v,
    ensures eqm(y0 + t * W, ai * bl + xx2 * W), 0 <= y0 + t * W < W3
{
    lemma_consts();
    assert(W3 == W2 * W && W2 == W * W) by (compute);
    assert(t * W <= (W2 - 1) * W) by (nonlinear_arith) requires 0 <= t < W2, W > 0;
    assert(0 <= t * W) by (nonlinear_arith) requires 0 <= t, W > 0;
    if y3 == 1 {
        // y0 + v*W + W3 == ai*bl + xx2*W < P*W + W3 - W  ==>  v < P
        assert(ai * bl <= (P - 1) * (W - 1)) by (nonlinear_arith) requires 0 <= ai <= P - 1, 0 <= bl <= W - 1;
        assert(xx2 * W <= (W2 - 1) * W) by (nonlinear_arith) requires 0 <= xx2 <= W2 - 1, W > 0;
        assert(v * W < P * W) by (nonlinear_arith)
            requires y0 + v * W + W3 == ai * bl + xx2 * W, ai * bl <= (P - 1) * (W - 1), xx2 * W <= (W2 - 1) * W, y0 >= 0,
                W3 == W2 * W, P > 0, W > 1;
        assert(v < P) by (nonlinear_arith) requires v * W < P * W, W > 0;
        assert(t == v - P + W2);
        // y0 + t*W == y0 + v*W + W3 - P*W
        assert(y0 + t * W == (ai * bl + xx2 * W) - P * W) by (nonlinear_arith)
            requires t == v - P + W2, y0 + v * W + 1 * W3 == ai * bl + xx2 * W, W3 == W2 * W, y3 == 1;
        lemma_eqm_multiple(y0 + t * W, W);
        assert(y0 + t * W + W * P == ai * bl + xx2 * W) by (nonlinear_arith) requires y0 + t * W == (ai * bl + xx2 * W) - P * W;
    } else {
        lemma_eqm_multiple(y0 + t * W, 0);
        assert(y0 + t * W + 0 * P == ai * bl + xx2 * W);
    }
}

/// a * (bl + bh * W) from the two partial products
proof fn lemma_combine(ai: int, bi: int, bh: int, bl: int, xx2: int, yy2: int, r: int)
    requires bi == W * bh + bl, eqm(xx2, ai * bh), eqm(yy2, ai * bl + xx2 * W), eqm(r, yy2)
    ensures eqm(r, ai * bi)
{
    // xx2 == ai*bh + k*P  ==>  ai*bl + xx2*W == ai*bi + k*W*P
    let d = xx2 - ai * bh;
    assert(d % P == 0);
    lemma_fundamental_div_mod(d, P);
    let k = d / P;
    assert(d == P * k);
    assert(ai * bl + xx2 * W == ai * bi + (k * W) * P) by (nonlinear_arith)
        requires xx2 == ai * bh + P * k, bi == W * bh + bl;
    lemma_eqm_multiple(ai * bi, k * W);
    lemma_eqm_trans(yy2, ai * bl + xx2 * W, ai * bi);
    lemma_eqm_trans(r, yy2, ai * bi);
}

//@@ extract anchor="fn mul(a: u128, b: u128) -> u128"
//@@ rewrite "(b >> 64) as u64" => "#[verifier::truncate] ((b >> 64) as u64)"
//@@ rewrite ", b as u64)" => ", #[verifier::truncate] (b as u64))"
//@@ rewrite "(M >> 64) as u64" => "#[verifier::truncate] ((M >> 64) as u64)"
//@@ rewrite "(M as u64)" => "#[verifier::truncate] (M as u64)"
//@@ before "let (x0, x1, x2) = mul_128x64("
//@@|    let ghost ai = a as int;
//@@|    let ghost bh: int = (b as int) / W;
//@@|    let ghost bl: int = (b as int) % W;
//@@|    proof {
//@@|        lemma_fundamental_div_mod(b as int, W);
//@@|        assert(b >> 64 == b / 0x1_0000_0000_0000_0000u128) by (bit_vector);
//@@|        assert((#[verifier::truncate] (b as u64)) as u128 == b % 0x1_0000_0000_0000_0000u128) by (bit_vector);
//@@|    }
//@@ before "let (mut x0, mut x1, x2) = mul_reduce("
//@@|    let ghost (p0, p1, p2) = (x0, x1, x2);
//@@ before "if x2 == 1 {"
//@@|    let ghost (q0, q1) = (x0, x1);
//@@|    proof { lemma_reduce(p0, p1, p2, x0, x1, x2); }
//@@ before "let (y0, y1, y2) = mul_128x64("
//@@|    let ghost xx2 = val2(x0, x1);
//@@|    proof {
//@@|        lemma_val2_range(x0, x1);
//@@|        lemma_cond_sub(val2(q0, q1), x2 as int, xx2);
//@@|        assert(val2(q0, q1) + (x2 as int) * W2 == val3(q0, q1, x2));
//@@|        lemma_eqm_trans(xx2, val3(q0, q1, x2), ai * bh);
//@@|    }
//@@ before "let (mut y1, carry) = add64_with_carry("
//@@|    let ghost (u1, u2) = (y1, y2);
//@@ before "if y3 == 1 {"
//@@|    let ghost v = val2(y1, y2);
//@@|    proof {
//@@|        lemma_val2_range(y1, y2);
//@@|        assert(W3 == W2 * W && W2 == W * W) by (compute);
//@@|        assert((y0 as int) + v * W + (y3 as int) * W3 == ai * bl + xx2 * W) by (nonlinear_arith)
//@@|            requires v == y1 as int + (y2 as int) * W, xx2 == x0 as int + (x1 as int) * W,
//@@|                y0 as int + (u1 as int) * W + (u2 as int) * W2 == ai * bl,
//@@|                y1 as int + (carry as int) * W == u1 as int + x0 as int,
//@@|                y2 as int + (y3 as int) * W == u2 as int + x1 as int + carry as int,
//@@|                W3 == W2 * W, W2 == W * W;
//@@|    }
//@@ before "let (mut z0, mut z1, z2) = mul_reduce("
//@@|    let ghost t = val2(y1, y2);
//@@|    proof {
//@@|        lemma_val2_range(y1, y2);
//@@|        lemma_y_step(ai, bl, xx2, y0 as int, v, y3 as int, t);
//@@|        assert(val3(y0, y1, y2) == y0 as int + t * W) by (nonlinear_arith)
//@@|            requires t == y1 as int + (y2 as int) * W, val3(y0, y1, y2) == y0 as int + (y1 as int) * W + (y2 as int) * W2, W2 == W * W;
//@@|    }
//@@|    let ghost yy2 = val3(y0, y1, y2);
//@@|    let ghost (s0, s1, s2) = (y0, y1, y2);
//@@ before "if z2 == 1 ||"
//@@|    let ghost (w0, w1) = (z0, z1);
//@@|    proof {
//@@|        lemma_reduce(s0, s1, s2, z0, z1, z2);
//@@|        assert(M == 340282366920938463463374557953744961537u128);
//@@|        assert(#[verifier::truncate] ((340282366920938463463374557953744961537u128 >> 64) as u64) == 0xFFFF_FFFF_FFFF_FFFFu64) by (bit_vector);
//@@|        assert(#[verifier::truncate] (340282366920938463463374557953744961537u128 as u64) == 0xFFFF_D300_0000_0001u64) by (bit_vector);
//@@|        assert(0xFFFF_D300_0000_0001int == P - (W - 1) * W) by (compute);
//@@|    }
//@@ before "((z1 as u128) << 64) + (z0 as u128)"
//@@|    proof {
//@@|        lemma_val2_range(z0, z1);
//@@|        lemma_val2_range(w0, w1);
//@@|        let vw = val2(w0, w1);
//@@|        let res = val2(z0, z1);
//@@|        assert(W * 0x4000_0000_0000int < P) by (compute);
//@@|        // res < P and res == vw + z2 * W2 (mod P)
//@@|        if z2 == 1 {
//@@|            assert(res == vw - P + W2);
//@@|            lemma_eqm_multiple(res, 1);
//@@|            assert(res + 1 * P == vw + W2);
//@@|        } else if vw >= P {
//@@|            assert(res == vw - P);
//@@|            lemma_eqm_multiple(res, 1);
//@@|        } else {
//@@|            lemma_eqm_multiple(res, 0);
//@@|            assert(res + 0 * P == vw);
//@@|        }
//@@|        assert(eqm(res, val3(w0, w1, z2)));
//@@|        lemma_eqm_trans(res, val3(w0, w1, z2), yy2);
//@@|        lemma_combine(ai, b as int, bh, bl, xx2, yy2, res);
//@@|        assert(((z1 as u128) << 64) == (z1 as u128) * 0x1_0000_0000_0000_0000u128) by (bit_vector);
//@@|    }
/// C07 for the 128-bit field: the product of two canonical values is canonical and congruent to the
/// mathematical product modulo P = 2^128 - 45 * 2^40 + 1
pub fn mul(a: u128, b: u128) -> (r: u128)
    requires (a as int) < P, (b as int) < P
    ensures (r as int) < P, eqm(r as int, (a as int) * (b as int))
{
    proof { lemma_consts(); }
    /*@@body*/
}

//@@ extract anchor="fn add(a: u128, b: u128) -> u128"
pub fn add(a: u128, b: u128) -> (r: u128)
    requires (a as int) < P, (b as int) < P
    ensures (r as int) < P, r as int == ((a as int) + (b as int)) % P
{
    proof {
        lemma_consts();
        let s = (a as int) + (b as int);
        if s < P { lemma_small_mod(s as nat, P as nat); } else {
            lemma_small_mod((s - P) as nat, P as nat);
            lemma_mod_multiples_vanish(-1, s, P);
        }
    }
    /*@@body*/
}

//@@ extract anchor="fn sub(a: u128, b: u128) -> u128"
pub fn sub(a: u128, b: u128) -> (r: u128)
    requires (a as int) < P, (b as int) < P
    ensures (r as int) < P, r as int == ((a as int) - (b as int)) % P
{
    proof {
        lemma_consts();
        let s = (a as int) - (b as int);
        if s >= 0 { lemma_small_mod(s as nat, P as nat); } else {
            lemma_small_mod((s + P) as nat, P as nat);
            lemma_mod_multiples_vanish(1, s, P);
        }
    }
    /*@@body*/
}

// ---- inv: binary extended Euclid on 192-bit limb triples (partial correctness) ------------------------
//@@ extract anchor="fn add_192x192(a0: u64, a1: u64, a2: u64, b0: u64, b1: u64, b2: u64) -> (u64, u64, u64)"
//@@ rewrite "(z0 as u64, z1 as u64, z2 as u64)" => "(#[verifier::truncate] (z0 as u64), #[verifier::truncate] (z1 as u64), #[verifier::truncate] (z2 as u64))"
//@@ after "let z0 = (a0 as u128) + (b0 as u128);"
//@@|    proof { assert(z0 >> 64 == z0 / 0x1_0000_0000_0000_0000u128) by (bit_vector); }
//@@ after "let z1 = (a1 as u128) + (b1 as u128) + (z0 >> 64);"
//@@|    proof { assert(z1 >> 64 == z1 / 0x1_0000_0000_0000_0000u128) by (bit_vector); }
//@@ before "(#[verifier::truncate] (z0 as u64)"
//@@|    proof {
//@@|        assert((#[verifier::truncate] (z0 as u64)) as u128 == z0 % 0x1_0000_0000_0000_0000u128) by (bit_vector);
//@@|        assert((#[verifier::truncate] (z1 as u64)) as u128 == z1 % 0x1_0000_0000_0000_0000u128) by (bit_vector);
//@@|        assert((#[verifier::truncate] (z2 as u64)) as u128 == z2 % 0x1_0000_0000_0000_0000u128) by (bit_vector);
//@@|    }
/// the sum modulo 2^192 (the carry out of the top limb is dropped)
pub fn add_192x192(a0: u64, a1: u64, a2: u64, b0: u64, b1: u64, b2: u64) -> (r: (u64, u64, u64))
    ensures val3(r.0, r.1, r.2) == val3(a0, a1, a2) + val3(b0, b1, b2)
        || val3(r.0, r.1, r.2) == val3(a0, a1, a2) + val3(b0, b1, b2) - W3
{
    proof { lemma_consts(); assert(W3 == 0x1_0000_0000_0000_0000_0000_0000_0000_0000_0000_0000_0000_0000int) by (compute); }
    /*@@body*/
}

pub spec const T128: int = 0x1_0000_0000_0000_0000_0000_0000_0000_0000int;
pub spec const T129: int = 0x2_0000_0000_0000_0000_0000_0000_0000_0000int;

/// the ghost state of the Euclid loops: witnesses of the two congruences and the halving budgets
pub struct G {
    pub ka: int,
    pub kd: int,
    pub ku: nat,
    pub kv: nat,
    pub pu: int,
    pub pv: int,
}

/// relations kept by the Euclid loops: aa * x == v and dd * x == -uu (mod P) with explicit witnesses, and
/// the halving budgets pu * uu <= 2^129, pv * v <= 2^128 with pu, pv powers of two
#[verifier::opaque]
pub open spec fn g_inv(x: int, uu: int, v: int, aa: int, dd: int, g: G) -> bool {
    &&& 0 < x < P
    &&& aa * x == v + g.ka * P
    &&& dd * x + uu == g.kd * P
    &&& g.pu == pow2(g.ku) && g.pv == pow2(g.kv)
    &&& g.pu * uu <= T129 && g.pv * v <= T128
    &&& 0 <= uu && 0 <= v
}

proof fn lemma_budget(k: nat, p: int, w: int, bound: nat)
    requires p == pow2(k), w >= 1, p * w <= pow2(bound)
    ensures k <= bound
{
    lemma_pow2_pos(k);
    assert(p <= p * w) by (nonlinear_arith) requires p > 0, w >= 1;
    if k > bound {
        lemma_pow2_strictly_increases(bound, k);
    }
}

proof fn lemma_pow2_consts()
    ensures pow2(128) == T128, pow2(129) == T129, pow2(0) == 1
{
    lemma2_to64();
    lemma_pow2_adds(64, 64);
    lemma_pow2_adds(64, 65);
    lemma_pow2_adds(64, 1);
    assert(pow2(64) == 0x1_0000_0000_0000_0000int);
    assert(pow2(128) == T128) by (nonlinear_arith) requires pow2(128) == pow2(64) * pow2(64), pow2(64) == 0x1_0000_0000_0000_0000int, T128 == 0x1_0000_0000_0000_0000_0000_0000_0000_0000int;
    assert(pow2(65) == 0x2_0000_0000_0000_0000int);
    assert(pow2(129) == T129) by (nonlinear_arith) requires pow2(129) == pow2(64) * pow2(65), pow2(64) == 0x1_0000_0000_0000_0000int, pow2(65) == 0x2_0000_0000_0000_0000int, T129 == 0x2_0000_0000_0000_0000_0000_0000_0000_0000int;
}

/// one more halving of w (2 * w2 <= w) pays for one more unit of budget
proof fn lemma_budget_step(k: nat, p: int, w: int, w2: int, t: int)
    requires p == pow2(k), p * w <= t, 0 <= 2 * w2 <= w
    ensures 2 * p == pow2(k + 1), (2 * p) * w2 <= t
{
    lemma_pow2_pos(k);
    lemma_pow2_adds(k, 1);
    lemma2_to64();
    assert((2 * p) * w2 <= p * w) by (nonlinear_arith) requires p > 0, 0 <= 2 * w2 <= w;
}

/// k * P == 2 * t with P odd  ==>  k even
proof fn lemma_even_factor(k: int, t: int)
    requires k * P == 2 * t
    ensures k % 2 == 0
{
    let q = k / 2;
    let r = k % 2;
    assert(k == 2 * q + r);
    assert(k * P == 2 * (q * P) + r * P) by (nonlinear_arith) requires k == 2 * q + r;
    if r == 1 {
        assert(P % 2 == 1) by (compute);
        assert((2 * (q * P) + P) % 2 == 1);
    }
}

proof fn lemma_halve_d(x: int, h: int, w: int, kd: int)
    requires (2 * h) * x + 2 * w == kd * P
    ensures kd % 2 == 0, h * x + w == (kd / 2) * P
{
    assert((2 * h) * x + 2 * w == 2 * (h * x + w)) by (nonlinear_arith);
    lemma_even_factor(kd, h * x + w);
    let q = kd / 2;
    assert(kd * P == 2 * (q * P)) by (nonlinear_arith) requires kd == 2 * q;
}

proof fn lemma_halve_a(x: int, h: int, w: int, ka: int)
    requires (2 * h) * x == 2 * w + ka * P
    ensures ka % 2 == 0, h * x == w + (ka / 2) * P
{
    assert((2 * h) * x - 2 * w == 2 * (h * x - w)) by (nonlinear_arith);
    lemma_even_factor(ka, h * x - w);
    let q = ka / 2;
    assert(ka * P == 2 * (q * P)) by (nonlinear_arith) requires ka == 2 * q;
}

// ---- the steps of the algorithm on the abstract state -------------------------------------------------

pub open spec fn g_init(x: int) -> G {
    G { ka: -1, kd: if x % 2 == 1 { x } else { x + 1 }, ku: 0, kv: 0, pu: 1, pv: 1 }
}

proof fn lemma_g_init(x: int)
    requires 0 < x < P
    ensures g_inv(x, if x % 2 == 1 { x } else { x + P }, P, 0, P - 1, g_init(x))
{
    reveal(g_inv);
    lemma_pow2_consts();
    assert(0 * x == P + (-1) * P) by (nonlinear_arith);
    assert((P - 1) * x + x == x * P) by (nonlinear_arith);
    assert((P - 1) * x + (x + P) == (x + 1) * P) by (nonlinear_arith);
    assert(P < T128 && 2 * P < T129) by (compute);
}

/// budgets: the number of halvings so far is bounded by the bit lengths
proof fn lemma_g_bounds_u(x: int, uu: int, v: int, aa: int, dd: int, g: G)
    requires g_inv(x, uu, v, aa, dd, g), uu >= 1
    ensures g.ku <= 129
{
    reveal(g_inv);
    lemma_pow2_consts();
    lemma_budget(g.ku, g.pu, uu, 129);
}

proof fn lemma_g_bounds_v(x: int, uu: int, v: int, aa: int, dd: int, g: G)
    requires g_inv(x, uu, v, aa, dd, g), v >= 1
    ensures g.kv <= 128
{
    reveal(g_inv);
    lemma_pow2_consts();
    lemma_budget(g.kv, g.pv, v, 128);
}

/// u -= v; d += a
proof fn lemma_g_sub_u(x: int, uu: int, v: int, aa: int, dd: int, g: G) -> (h: G)
    requires g_inv(x, uu, v, aa, dd, g), uu > v
    ensures g_inv(x, uu - v, v, aa, dd + aa, h), h == (G { kd: g.kd + g.ka, ..g })
{
    reveal(g_inv);
    let h = G { kd: g.kd + g.ka, ..g };
    assert((dd + aa) * x + (uu - v) == (g.kd + g.ka) * P) by (nonlinear_arith)
        requires aa * x == v + g.ka * P, dd * x + uu == g.kd * P;
    lemma_pow2_pos(g.ku);
    assert(g.pu * (uu - v) <= g.pu * uu) by (nonlinear_arith) requires g.pu > 0, v >= 0;
    h
}

/// v -= u; a += d
proof fn lemma_g_sub_v(x: int, uu: int, v: int, aa: int, dd: int, g: G) -> (h: G)
    requires g_inv(x, uu, v, aa, dd, g), uu <= v
    ensures g_inv(x, uu, v - uu, aa + dd, dd, h), h == (G { ka: g.ka + g.kd, ..g })
{
    reveal(g_inv);
    let h = G { ka: g.ka + g.kd, ..g };
    assert((aa + dd) * x == (v - uu) + (g.ka + g.kd) * P) by (nonlinear_arith)
        requires aa * x == v + g.ka * P, dd * x + uu == g.kd * P;
    lemma_pow2_pos(g.kv);
    assert(g.pv * (v - uu) <= g.pv * v) by (nonlinear_arith) requires g.pv > 0, uu >= 0;
    h
}

/// d += m
proof fn lemma_g_add_p_d(x: int, uu: int, v: int, aa: int, dd: int, g: G) -> (h: G)
    requires g_inv(x, uu, v, aa, dd, g)
    ensures g_inv(x, uu, v, aa, dd + P, h), h == (G { kd: g.kd + x, ..g })
{
    reveal(g_inv);
    let h = G { kd: g.kd + x, ..g };
    assert((dd + P) * x + uu == (g.kd + x) * P) by (nonlinear_arith) requires dd * x + uu == g.kd * P;
    h
}

/// a += m
proof fn lemma_g_add_p_a(x: int, uu: int, v: int, aa: int, dd: int, g: G) -> (h: G)
    requires g_inv(x, uu, v, aa, dd, g)
    ensures g_inv(x, uu, v, aa + P, dd, h), h == (G { ka: g.ka + x, ..g })
{
    reveal(g_inv);
    let h = G { ka: g.ka + x, ..g };
    assert((aa + P) * x == v + (g.ka + x) * P) by (nonlinear_arith) requires aa * x == v + g.ka * P;
    h
}

/// u >>= 1; d >>= 1 (both even); `charge`: this is the first halving after u -= v
proof fn lemma_g_halve_u(x: int, uu: int, v: int, aa: int, dd: int, g: G, charge: bool) -> (h: G)
    requires g_inv(x, uu, v, aa, dd, g), uu % 2 == 0, dd % 2 == 0
    ensures g_inv(x, uu / 2, v, aa, dd / 2, h),
        h == (if charge { G { kd: g.kd / 2, ku: g.ku + 1, pu: 2 * g.pu, ..g } } else { G { kd: g.kd / 2, ..g } })
{
    reveal(g_inv);
    let (u2, d2) = (uu / 2, dd / 2);
    assert((2 * d2) * x + 2 * u2 == g.kd * P);
    lemma_halve_d(x, d2, u2, g.kd);
    lemma_pow2_pos(g.ku);
    if charge {
        lemma_budget_step(g.ku, g.pu, uu, u2, T129);
        G { kd: g.kd / 2, ku: g.ku + 1, pu: 2 * g.pu, ..g }
    } else {
        assert(g.pu * u2 <= g.pu * uu) by (nonlinear_arith) requires g.pu > 0, 0 <= u2 <= uu;
        G { kd: g.kd / 2, ..g }
    }
}

/// v >>= 1; a >>= 1 (both even)
proof fn lemma_g_halve_v(x: int, uu: int, v: int, aa: int, dd: int, g: G, charge: bool) -> (h: G)
    requires g_inv(x, uu, v, aa, dd, g), v % 2 == 0, aa % 2 == 0
    ensures g_inv(x, uu, v / 2, aa / 2, dd, h),
        h == (if charge { G { ka: g.ka / 2, kv: g.kv + 1, pv: 2 * g.pv, ..g } } else { G { ka: g.ka / 2, ..g } })
{
    reveal(g_inv);
    let (v2, a2) = (v / 2, aa / 2);
    assert((2 * a2) * x == 2 * v2 + g.ka * P);
    lemma_halve_a(x, a2, v2, g.ka);
    lemma_pow2_pos(g.kv);
    if charge {
        lemma_budget_step(g.kv, g.pv, v, v2, T128);
        G { ka: g.ka / 2, kv: g.kv + 1, pv: 2 * g.pv, ..g }
    } else {
        assert(g.pv * v2 <= g.pv * v) by (nonlinear_arith) requires g.pv > 0, 0 <= v2 <= v;
        G { ka: g.ka / 2, ..g }
    }
}

/// at the end (v == 1): a * x == 1 (mod P); the relation survives a -= m
proof fn lemma_g_final(x: int, uu: int, aa: int, dd: int, g: G)
    requires g_inv(x, uu, 1, aa, dd, g)
    ensures aa * x == 1 + g.ka * P, 0 < x < P
{
    reveal(g_inv);
}

/// a 192-bit value shifted right by one bit, limb by limb
proof fn lemma_shr3(x0: u64, x1: u64, x2: u64, y0: u64, y1: u64, y2: u64)
    requires y0 == (x0 >> 1) | ((x1 & 1) << 63), y1 == (x1 >> 1) | ((x2 & 1) << 63), y2 == x2 >> 1
    ensures val3(y0, y1, y2) == val3(x0, x1, x2) / 2
{
    assert(y0 == x0 / 2 + (x1 % 2) * 0x8000_0000_0000_0000u64) by (bit_vector)
        requires y0 == (x0 >> 1) | ((x1 & 1) << 63);
    assert(y1 == x1 / 2 + (x2 % 2) * 0x8000_0000_0000_0000u64) by (bit_vector)
        requires y1 == (x1 >> 1) | ((x2 & 1) << 63);
    assert(y2 == x2 / 2) by (bit_vector) requires y2 == x2 >> 1;
}

/// facts about machine words used by the loops (closed facts, proved once, carried as invariants)
pub open spec fn word_facts() -> bool {
    &&& forall|t: u64| #[trigger] ((t as u128) << 64) == (t as u128) * 0x1_0000_0000_0000_0000u128
    &&& forall|t: u64| #[trigger] (t & 1) == t % 2
    &&& forall|t: u128| #[trigger] (t & 1) == t % 2
    &&& forall|t: u128| #[trigger] (t >> 1) == t / 2
    &&& forall|t: u128| #[trigger] (t >> 64) == t / 0x1_0000_0000_0000_0000u128
    &&& M == 340282366920938463463374557953744961537u128
    &&& #[verifier::truncate] ((340282366920938463463374557953744961537u128 >> 64) as u64) == 0xFFFF_FFFF_FFFF_FFFFu64
    &&& #[verifier::truncate] (340282366920938463463374557953744961537u128 as u64) == 0xFFFF_D300_0000_0001u64
    &&& val3(0xFFFF_D300_0000_0001u64, 0xFFFF_FFFF_FFFF_FFFFu64, 0) == P
}

proof fn lemma_word_facts()
    ensures word_facts()
{
    assert(forall|t: u64| #[trigger] ((t as u128) << 64) == (t as u128) * 0x1_0000_0000_0000_0000u128) by (bit_vector);
    assert(forall|t: u64| #[trigger] (t & 1) == t % 2) by (bit_vector);
    assert(forall|t: u128| #[trigger] (t & 1) == t % 2) by (bit_vector);
    assert(forall|t: u128| #[trigger] (t >> 1) == t / 2) by (bit_vector);
    assert(forall|t: u128| #[trigger] (t >> 64) == t / 0x1_0000_0000_0000_0000u128) by (bit_vector);
    assert(M == 340282366920938463463374557953744961537u128);
    assert(#[verifier::truncate] ((340282366920938463463374557953744961537u128 >> 64) as u64) == 0xFFFF_FFFF_FFFF_FFFFu64) by (bit_vector);
    assert(#[verifier::truncate] (340282366920938463463374557953744961537u128 as u64) == 0xFFFF_D300_0000_0001u64) by (bit_vector);
    assert(val3(0xFFFF_D300_0000_0001u64, 0xFFFF_FFFF_FFFF_FFFFu64, 0) == P) by (compute);
}

//@@ extract anchor="fn inv(x: u128) -> u128"
//@@ rewrite-re "\b([xMv]) as u64" => "#[verifier::truncate] (\1 as u64)"
//@@ rewrite-re "\(([xMv]) >> 64\) as u64" => "#[verifier::truncate] ((\1 >> 64) as u64)"
//@@ before "let mut v = M;"
//@@|    let ghost xi = x as int;
//@@|    proof {
//@@|        lemma_word_facts();
//@@|        assert((#[verifier::truncate] (x as u64)) as u128 == x % 0x1_0000_0000_0000_0000u128) by (bit_vector);
//@@|    }
//@@ before "while v != 1"
//@@|    let ghost mut g: G = g_init(xi);
//@@|    proof {
//@@|        assert(val3(u0, u1, u2) == (if xi % 2 == 1 { xi } else { xi + P }));
//@@|        lemma_g_init(xi);
//@@|    }
//@@ loop 1
//@@|        invariant
//@@|            word_facts(), 0 < xi < P,
//@@|            g_inv(xi, val3(u0, u1, u2), v as int, val3(a0, a1, a2), val3(d0, d1, d2), g),
//@@|            val3(u0, u1, u2) % 2 == 1, v % 2 == 1,
//@@|            val3(a0, a1, a2) <= (g.ku + g.kv + 1) * 340282366920938463463374557953744961537, val3(d0, d1, d2) <= (g.ku + g.kv + 1) * 340282366920938463463374557953744961537,
//@@ loop 2
//@@|            invariant
//@@|                word_facts(), 0 < xi < P,
//@@|                g_inv(xi, val3(u0, u1, u2), v as int, val3(a0, a1, a2), val3(d0, d1, d2), g),
//@@|                val3(u0, u1, u2) % 2 == 1, v % 2 == 1,
//@@|                val3(a0, a1, a2) <= (g.ku + g.kv + 1) * 340282366920938463463374557953744961537, val3(d0, d1, d2) <= (g.ku + g.kv + 1) * 340282366920938463463374557953744961537,
//@@ before "let (t0, t1, t2) = sub_192x192(u0, u1, u2,"
//@@|            let ghost (uo, ao, dold) = (val3(u0, u1, u2), val3(a0, a1, a2), val3(d0, d1, d2));
//@@|            proof {
//@@|                assert((#[verifier::truncate] (v as u64)) as u128 == v % 0x1_0000_0000_0000_0000u128) by (bit_vector);
//@@|                assert(uo > v && v >= 1);
//@@|                lemma_g_bounds_u(xi, uo, v as int, ao, dold, g);
//@@|                lemma_g_bounds_v(xi, uo, v as int, ao, dold, g);
//@@|            }
//@@ before "while u0 &"
//@@|            proof {
//@@|                assert(val3(u0, u1, u2) == uo - v as int);
//@@|                assert(val3(d0, d1, d2) == dold + ao);
//@@|                g = lemma_g_sub_u(xi, uo, v as int, ao, dold, g);
//@@|            }
//@@|            let ghost mut first: bool = true;
//@@ loop 3
//@@|                invariant
//@@|                    word_facts(), 0 < xi < P,
//@@|                    g_inv(xi, val3(u0, u1, u2), v as int, val3(a0, a1, a2), val3(d0, d1, d2), g),
//@@|                    first ==> val3(u0, u1, u2) % 2 == 0,
//@@|                    1 <= val3(u0, u1, u2), v % 2 == 1,
//@@|                    val3(a0, a1, a2) <= (g.ku + g.kv + 1) * 340282366920938463463374557953744961537,
//@@|                    first ==> val3(d0, d1, d2) <= 2 * (g.ku + g.kv + 1) * 340282366920938463463374557953744961537,
//@@|                    !first ==> val3(d0, d1, d2) <= (g.ku + g.kv + 1) * 340282366920938463463374557953744961537,
//@@ before "if d0 &"
//@@|                let ghost (x0_, x1_, x2_) = (u0, u1, u2);
//@@|                let ghost dprev = val3(d0, d1, d2);
//@@|                proof {
//@@|                    lemma_g_bounds_u(xi, val3(u0, u1, u2), v as int, val3(a0, a1, a2), dprev, g);
//@@|                    lemma_g_bounds_v(xi, val3(u0, u1, u2), v as int, val3(a0, a1, a2), dprev, g);
//@@|                }
//@@ before "u0 = (u0 >> 1)"
//@@|                let ghost (e0, e1, e2) = (d0, d1, d2);
//@@|                proof {
//@@|                    if dprev % 2 == 1 {
//@@|                        assert(val3(d0, d1, d2) == dprev + P);
//@@|                        g = lemma_g_add_p_d(xi, val3(x0_, x1_, x2_), v as int, val3(a0, a1, a2), dprev, g);
//@@|                    }
//@@|                    assert(val3(d0, d1, d2) % 2 == 0);
//@@|                }
//@@ loopend 3
//@@|                proof {
//@@|                    lemma_shr3(x0_, x1_, x2_, u0, u1, u2);
//@@|                    lemma_shr3(e0, e1, e2, d0, d1, d2);
//@@|                    g = lemma_g_halve_u(xi, val3(x0_, x1_, x2_), v as int, val3(a0, a1, a2), val3(e0, e1, e2), g, first);
//@@|                    first = false;
//@@|                }
//@@ before "v -= "
//@@|        let ghost (uo, aold, dd, vo) = (val3(u0, u1, u2), val3(a0, a1, a2), val3(d0, d1, d2), v as int);
//@@|        proof {
//@@|            assert(u2 == 0 && uo <= vo && uo >= 1);
//@@|            lemma_g_bounds_u(xi, uo, vo, aold, dd, g);
//@@|            lemma_g_bounds_v(xi, uo, vo, aold, dd, g);
//@@|        }
//@@ before "while v &"
//@@|        proof {
//@@|            assert(v as int == vo - uo);
//@@|            assert(val3(a0, a1, a2) == aold + dd);
//@@|            g = lemma_g_sub_v(xi, uo, vo, aold, dd, g);
//@@|        }
//@@|        let ghost mut first: bool = true;
//@@ loop 4
//@@|            invariant
//@@|                word_facts(), 0 < xi < P,
//@@|                g_inv(xi, val3(u0, u1, u2), v as int, val3(a0, a1, a2), val3(d0, d1, d2), g),
//@@|                first ==> v % 2 == 0,
//@@|                first ==> g.kv <= 128, g.kv <= 129, g.ku <= 129,
//@@|                val3(u0, u1, u2) % 2 == 1,
//@@|                val3(d0, d1, d2) <= (g.ku + g.kv + 1) * 340282366920938463463374557953744961537,
//@@|                first ==> val3(a0, a1, a2) <= 2 * (g.ku + g.kv + 1) * 340282366920938463463374557953744961537,
//@@|                !first ==> val3(a0, a1, a2) <= (g.ku + g.kv + 1) * 340282366920938463463374557953744961537,
//@@ before "if a0 &"
//@@|            let ghost aprev = val3(a0, a1, a2);
//@@ before "v >>="
//@@|            let ghost (e0, e1, e2) = (a0, a1, a2);
//@@|            let ghost vprev = v;
//@@|            proof {
//@@|                if aprev % 2 == 1 {
//@@|                    assert(val3(a0, a1, a2) == aprev + P);
//@@|                    g = lemma_g_add_p_a(xi, val3(u0, u1, u2), v as int, aprev, val3(d0, d1, d2), g);
//@@|                }
//@@|                assert(val3(a0, a1, a2) % 2 == 0);
//@@|            }
//@@ loopend 4
//@@|            proof {
//@@|                lemma_shr3(e0, e1, e2, a0, a1, a2);
//@@|                g = lemma_g_halve_v(xi, val3(u0, u1, u2), vprev as int, val3(e0, e1, e2), val3(d0, d1, d2), g, first);
//@@|                first = false;
//@@|            }
//@@ loopafter 1
//@@|    let ghost mut ka: int = g.ka;
//@@|    proof {
//@@|        lemma_g_final(xi, val3(u0, u1, u2), val3(a0, a1, a2), val3(d0, d1, d2), g);
//@@|    }
//@@ loop? 5
//@@|        invariant
//@@|            word_facts(), 0 < xi < P, val3(a0, a1, a2) * xi == 1 + ka * P, a as int == val2(a0, a1),
//@@ tail
//@@|    proof {
//@@|        lemma_eqm_multiple(1, ka);
//@@|    }
//@@ before "let (t0, t1, t2) = sub_192x192(a0, a1, a2,"
//@@|        let ghost aold = val3(a0, a1, a2);
//@@ loopend? 5
//@@|        proof {
//@@|            assert(val3(a0, a1, a2) == aold - P);
//@@|            assert((aold - P) * xi == 1 + (ka - xi) * P) by (nonlinear_arith) requires aold * xi == 1 + ka * P;
//@@|            ka = ka - xi;
//@@|        }
/// C07 for the 128-bit field: inv(0) == 0 and otherwise x * inv(x) == 1 (mod P) with a canonical result.
/// Partial correctness: termination of the Euclid loops (it needs gcd(x, P) == 1) is not proved.
#[verifier::exec_allows_no_decreases_clause]
pub fn inv(x: u128) -> (r: u128)
    requires (x as int) < P
    ensures (r as int) < P,
        x == 0 ==> r == 0,
        x != 0 ==> eqm((r as int) * (x as int), 1),
{
    proof { lemma_consts(); }
    /*@@body*/
}

proof fn f128_canary_must_fail()
    ensures C == 5
{
}

} // verus!

fn main() {}
