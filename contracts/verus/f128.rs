// Verus unit f128v: math/src/field/f128/mod.rs - schoolbook 128x128 multiplication with stepwise reduction.
// Bodies marked with the body marker are cut out of /repo on every run.
use vstd::prelude::*;
use vstd::arithmetic::div_mod::*;
use vstd::arithmetic::mul::*;

verus! {

pub const M: u128 = /*@@expr source="math/src/field/f128/mod.rs" anchor="const M: u128 ="*/;

/// the prime 2^128 - 45 * 2^40 + 1 as stated by the property
pub spec const P: int = 340282366920938463463374557953744961537int;
pub spec const W: int = 0x1_0000_0000_0000_0000int;          // 2^64
pub spec const W2: int = 0x1_0000_0000_0000_0000_0000_0000_0000_0000int;   // 2^128
pub spec const W3: int = W2 * W;                                             // 2^192
/// 2^128 - P
pub spec const C: int = 49478023249919int;

pub open spec fn val3(z0: u64, z1: u64, z2: u64) -> int { z0 as int + (z1 as int) * 0x1_0000_0000_0000_0000int + (z2 as int) * 0x1_0000_0000_0000_0000_0000_0000_0000_0000int }
pub open spec fn val2(z0: u64, z1: u64) -> int { z0 as int + (z1 as int) * 0x1_0000_0000_0000_0000int }

proof fn lemma_consts()
    ensures M as int == P, W2 == W * W, P == W2 - C, 0 < C < 0x4000_0000_0000int, W3 == W2 * W
{
    assert(M as int == P) by (compute);
    assert(W2 == W * W) by (compute);
    assert(P == W2 - C) by (compute);
}

//@@ source math/src/field/f128/mod.rs
//@@ extract anchor="const fn add64_with_carry(a: u64, b: u64, carry: u64) -> (u64, u64)"
//@@ rewrite "(ret as u64, (ret >> 64) as u64)" => "(#[verifier::truncate] (ret as u64), #[verifier::truncate] ((ret >> 64) as u64))"
//@@ after "let ret = (a as u128) + (b as u128) + (carry as u128);"
//@@|    proof {
//@@|        assert(ret >> 64 == ret / 0x1_0000_0000_0000_0000u128) by (bit_vector);
//@@|        assert((#[verifier::truncate] (ret as u64)) as u128 == ret % 0x1_0000_0000_0000_0000u128) by (bit_vector);
//@@|    }
pub fn add64_with_carry(a: u64, b: u64, carry: u64) -> (r: (u64, u64))
    requires carry <= 1
    ensures r.0 as int + (r.1 as int) * W == a as int + b as int + carry as int, r.1 <= 1
{
    /*@@body*/
}

//@@ extract anchor="fn mul_128x64(a: u128, b: u64) -> (u64, u64, u64)"
//@@ rewrite "let z_lo = ((a as u64) as u128) * (b as u128);" => "let z_lo = ((#[verifier::truncate] (a as u64)) as u128) * (b as u128);"
//@@ rewrite "(z_lo as u64, z_hi as u64, (z_hi >> 64) as u64)" => "(#[verifier::truncate] (z_lo as u64), #[verifier::truncate] (z_hi as u64), #[verifier::truncate] ((z_hi >> 64) as u64))"
//@@ before "let z_lo ="
//@@|    let ghost alo: int = (a as int) % W;
//@@|    let ghost ahi: int = (a as int) / W;
//@@|    proof {
//@@|        lemma_fundamental_div_mod(a as int, W);
//@@|        assert(a >> 64 == a / 0x1_0000_0000_0000_0000u128) by (bit_vector);
//@@|        assert((#[verifier::truncate] (a as u64)) as u128 == a % 0x1_0000_0000_0000_0000u128) by (bit_vector);
//@@|        assert(alo * (b as int) < W * W) by (nonlinear_arith) requires 0 <= alo < W, 0 <= (b as int) < W;
//@@|        assert(ahi * (b as int) <= (W - 1) * (W - 1)) by (nonlinear_arith) requires 0 <= ahi < W, 0 <= (b as int) < W;
//@@|        assert(0 <= alo * (b as int)) by (nonlinear_arith) requires 0 <= alo, 0 <= (b as int);
//@@|        assert(0 <= ahi * (b as int)) by (nonlinear_arith) requires 0 <= ahi, 0 <= (b as int);
//@@|    }
//@@ before "let z_hi = z_hi + (z_lo >> 64);"
//@@|    proof {
//@@|        assert(z_lo >> 64 == z_lo / 0x1_0000_0000_0000_0000u128) by (bit_vector);
//@@|        assert(z_lo as int == alo * (b as int));
//@@|        assert(z_hi as int == ahi * (b as int));
//@@|        assert((W - 1) * (W - 1) + W < W * W) by (nonlinear_arith) requires W > 2;
//@@|    }
//@@ after "let z_hi = z_hi + (z_lo >> 64);"
//@@|    proof {
//@@|        assert(z_lo >> 64 == z_lo / 0x1_0000_0000_0000_0000u128) by (bit_vector);
//@@|        assert(z_hi >> 64 == z_hi / 0x1_0000_0000_0000_0000u128) by (bit_vector);
//@@|        assert((#[verifier::truncate] (z_lo as u64)) as u128 == z_lo % 0x1_0000_0000_0000_0000u128) by (bit_vector);
//@@|        assert((#[verifier::truncate] (z_hi as u64)) as u128 == z_hi % 0x1_0000_0000_0000_0000u128) by (bit_vector);
//@@|        lemma_fundamental_div_mod(z_lo as int, W);
//@@|        lemma_fundamental_div_mod(z_hi as int, W);
//@@|        assert((a as int) * (b as int) == alo * (b as int) + ahi * (b as int) * W) by (nonlinear_arith)
//@@|            requires (a as int) == W * ahi + alo;
//@@|    }
pub fn mul_128x64(a: u128, b: u64) -> (r: (u64, u64, u64))
    ensures val3(r.0, r.1, r.2) == (a as int) * (b as int)
{
    proof { lemma_consts(); }
    /*@@body*/
}

//@@ extract anchor="fn sub_192x192(a0: u64, a1: u64, a2: u64, b0: u64, b1: u64, b2: u64) -> (u64, u64, u64)"
//@@ rewrite "(z0 as u64, z1 as u64, z2 as u64)" => "(#[verifier::truncate] (z0 as u64), #[verifier::truncate] (z1 as u64), #[verifier::truncate] (z2 as u64))"
//@@ after "let z0 = (a0 as u128).wrapping_sub(b0 as u128);"
//@@|    let ghost bw0: int = if a0 < b0 { 1 } else { 0 };
//@@|    proof {
//@@|        assert(z0 as int == a0 as int - b0 as int + bw0 * W2);
//@@|        assert(z0 >> 127 == (if z0 >= 0x8000_0000_0000_0000_0000_0000_0000_0000u128 { 1u128 } else { 0u128 })) by (bit_vector);
//@@|        assert((z0 >> 127) as int == bw0);
//@@|        assert((#[verifier::truncate] (z0 as u64)) as u128 == z0 % 0x1_0000_0000_0000_0000u128) by (bit_vector);
//@@|    }
//@@ after "let z1 = (a1 as u128).wrapping_sub((b1 as u128) + (z0 >> 127));"
//@@|    let ghost bw1: int = if (a1 as int) < (b1 as int) + bw0 { 1 } else { 0 };
//@@|    proof {
//@@|        assert(z1 as int == a1 as int - b1 as int - bw0 + bw1 * W2);
//@@|        assert(z1 >> 127 == (if z1 >= 0x8000_0000_0000_0000_0000_0000_0000_0000u128 { 1u128 } else { 0u128 })) by (bit_vector);
//@@|        assert((z1 >> 127) as int == bw1);
//@@|        assert((#[verifier::truncate] (z1 as u64)) as u128 == z1 % 0x1_0000_0000_0000_0000u128) by (bit_vector);
//@@|    }
//@@ after "let z2 = (a2 as u128).wrapping_sub((b2 as u128) + (z1 >> 127));"
//@@|    let ghost bw2: int = if (a2 as int) < (b2 as int) + bw1 { 1 } else { 0 };
//@@|    proof {
//@@|        assert(z2 as int == a2 as int - b2 as int - bw1 + bw2 * W2);
//@@|        assert((#[verifier::truncate] (z2 as u64)) as u128 == z2 % 0x1_0000_0000_0000_0000u128) by (bit_vector);
//@@|        // low limbs: (x + bw * 2^128) mod 2^64 == x + bw * 2^64 for x in (-2^64, 2^64)
//@@|        lemma_limb(a0 as int - b0 as int, bw0, z0 as int);
//@@|        lemma_limb(a1 as int - b1 as int - bw0, bw1, z1 as int);
//@@|        lemma_limb(a2 as int - b2 as int - bw1, bw2, z2 as int);
//@@|        assert(W3 == W2 * W && W2 == W * W) by (compute);
//@@|        assert(((z0 as int) % W) + ((z1 as int) % W) * W + ((z2 as int) % W) * W2
//@@|            == val3(a0, a1, a2) - val3(b0, b1, b2) + bw2 * W3) by (nonlinear_arith)
//@@|            requires (z0 as int) % W == a0 as int - b0 as int + bw0 * W,
//@@|                (z1 as int) % W == a1 as int - b1 as int - bw0 + bw1 * W,
//@@|                (z2 as int) % W == a2 as int - b2 as int - bw1 + bw2 * W,
//@@|                val3(a0, a1, a2) == a0 as int + (a1 as int) * W + (a2 as int) * W2,
//@@|                val3(b0, b1, b2) == b0 as int + (b1 as int) * W + (b2 as int) * W2,
//@@|                W3 == W2 * W, W2 == W * W;
//@@|    }
pub fn sub_192x192(a0: u64, a1: u64, a2: u64, b0: u64, b1: u64, b2: u64) -> (r: (u64, u64, u64))
    ensures val3(r.0, r.1, r.2) == val3(a0, a1, a2) - val3(b0, b1, b2)
        || val3(r.0, r.1, r.2) == val3(a0, a1, a2) - val3(b0, b1, b2) + W3
{
    proof { lemma_consts(); }
    /*@@body*/
}

/// z == x + bw * 2^128 with -2^64 < x < 2^64 and bw == (x < 0): the low 64 bits of z are x + bw * 2^64
proof fn lemma_limb(x: int, bw: int, z: int)
    requires -W <= x < W, bw == (if x < 0 { 1int } else { 0int }), z == x + bw * W2
    ensures z % W == x + bw * W
{
    assert(W2 == W * W) by (compute);
    if x < 0 {
        // z = x + W*W = (x + W) + W * (W - 1)
        assert(z == W * (W - 1) + (x + W)) by (nonlinear_arith) requires z == x + 1 * W2, W2 == W * W;
        lemma_mod_multiples_vanish(W - 1, x + W, W);
        lemma_small_mod((x + W) as nat, W as nat);
    } else {
        assert(bw * W2 == 0);
        lemma_small_mod(x as nat, W as nat);
    }
}

//@@ extract anchor="fn mul_by_modulus(a: u64) -> (u64, u64, u64)"
//@@ rewrite "(a_lo as u64, (a_lo >> 64) as u64, a_hi)" => "(#[verifier::truncate] (a_lo as u64), #[verifier::truncate] ((a_lo >> 64) as u64), a_hi)"
//@@ after "let a_lo = (a as u128).wrapping_mul(M);"
//@@|    proof {
//@@|        let ai = a as int;
//@@|        assert(0 <= ai * C < W * 0x4000_0000_0000int) by (nonlinear_arith) requires 0 <= ai < W, 0 < C < 0x4000_0000_0000int;
//@@|        assert(W * 0x4000_0000_0000int < W2) by (compute);
//@@|        assert(ai * P == ai * W2 - ai * C) by (nonlinear_arith) requires P == W2 - C;
//@@|        if a > 0 {
//@@|            assert(ai * P == W2 * (ai - 1) + (W2 - ai * C)) by (nonlinear_arith) requires ai * P == ai * W2 - ai * C;
//@@|            lemma_mod_multiples_vanish(ai - 1, W2 - ai * C, W2);
//@@|            lemma_small_mod((W2 - ai * C) as nat, W2 as nat);
//@@|            assert((ai * P) % W2 == W2 - ai * C);
//@@|        } else {
//@@|            assert(ai * P == 0);
//@@|        }
//@@|        assert(a_lo as int == (ai * P) % W2);
//@@|        assert(a_lo >> 64 == a_lo / 0x1_0000_0000_0000_0000u128) by (bit_vector);
//@@|        assert((#[verifier::truncate] (a_lo as u64)) as u128 == a_lo % 0x1_0000_0000_0000_0000u128) by (bit_vector);
//@@|        lemma_fundamental_div_mod(a_lo as int, W);
//@@|    }
pub fn mul_by_modulus(a: u64) -> (r: (u64, u64, u64))
    ensures val3(r.0, r.1, r.2) == (a as int) * P
{
    proof { lemma_consts(); }
    /*@@body*/
}

//@@ extract anchor="fn sub_modulus(a_lo: u64, a_hi: u64) -> (u64, u64)"
//@@ rewrite "(z as u64, (z >> 64) as u64)" => "(#[verifier::truncate] (z as u64), #[verifier::truncate] ((z >> 64) as u64))"
//@@ before "(#[verifier::truncate] (z as u64)"
//@@|    proof {
//@@|        assert(((a_hi as u128) << 64) == (a_hi as u128) * 0x1_0000_0000_0000_0000u128) by (bit_vector);
//@@|        assert(z >> 64 == z / 0x1_0000_0000_0000_0000u128) by (bit_vector);
//@@|        assert((#[verifier::truncate] (z as u64)) as u128 == z % 0x1_0000_0000_0000_0000u128) by (bit_vector);
//@@|        lemma_fundamental_div_mod(z as int, W);
//@@|    }
pub fn sub_modulus(a_lo: u64, a_hi: u64) -> (r: (u64, u64))
    ensures val2(r.0, r.1) == val2(a_lo, a_hi) - P || val2(r.0, r.1) == val2(a_lo, a_hi) - P + W2
{
    proof { lemma_consts(); }
    /*@@body*/
}

//@@ extract anchor="fn mul_reduce(z0: u64, z1: u64, z2: u64) -> (u64, u64, u64)"
pub fn mul_reduce(z0: u64, z1: u64, z2: u64) -> (r: (u64, u64, u64))
    ensures
        // z - z2 * P, which is (z mod 2^128) + z2 * C: a value below 2^128 + 2^110, so the top limb is 0 or 1
        val3(r.0, r.1, r.2) == val2(z0, z1) + (z2 as int) * C,
        r.2 <= 1,
{
    proof {
        lemma_consts();
        let zi = z2 as int;
        assert(0 <= zi * C < W * 0x4000_0000_0000int) by (nonlinear_arith) requires 0 <= zi < W, 0 < C < 0x4000_0000_0000int;
        assert(W * 0x4000_0000_0000int < W2) by (compute);
        assert(zi * P == zi * W2 - zi * C) by (nonlinear_arith) requires P == W2 - C;
        assert(W3 == W2 * W) by (compute);
    }
    /*@@body*/
}

/// congruence modulo P
pub open spec fn eqm(x: int, y: int) -> bool { (x - y) % P == 0 }

proof fn lemma_eqm_multiple(x: int, k: int)
    ensures eqm(x + k * P, x), eqm(x, x + k * P)
{
    lemma_mod_multiples_basic(k, P);
    lemma_mod_multiples_basic(-k, P);
    assert((x + k * P) - x == k * P);
    assert(x - (x + k * P) == (-k) * P) by (nonlinear_arith);
}

proof fn lemma_eqm_trans(x: int, y: int, z: int) requires eqm(x, y), eqm(y, z) ensures eqm(x, z)
{
    lemma_add_mod_noop(x - y, y - z, P);
}

/// mul_reduce: the result is congruent to its argument and below 2^128 + 2^110
proof fn lemma_reduce(z0: u64, z1: u64, z2: u64, r0: u64, r1: u64, r2: u64)
    requires val3(r0, r1, r2) == val2(z0, z1) + (z2 as int) * C, r2 <= 1
    ensures eqm(val3(r0, r1, r2), val3(z0, z1, z2)), 0 <= val3(r0, r1, r2) < W2 + W * 0x4000_0000_0000int,
        val2(r0, r1) < W2, 0 <= val2(r0, r1),
        r2 == 1 ==> val2(r0, r1) < W * 0x4000_0000_0000int,
{
    lemma_consts();
    let zi = z2 as int;
    assert(0 <= zi * C < W * 0x4000_0000_0000int) by (nonlinear_arith) requires 0 <= zi < W, 0 < C < 0x4000_0000_0000int;
    assert(val3(z0, z1, z2) == val3(r0, r1, r2) + zi * P) by (nonlinear_arith)
        requires val3(r0, r1, r2) == val2(z0, z1) + zi * C, val3(z0, z1, z2) == val2(z0, z1) + zi * W2, P == W2 - C;
    lemma_eqm_multiple(val3(r0, r1, r2), zi);
    assert(0 <= (r1 as int) * W <= (W - 1) * W) by (nonlinear_arith) requires 0 <= (r1 as int) < W, W > 0;
    assert((z1 as int) * W <= (W - 1) * W) by (nonlinear_arith) requires 0 <= (z1 as int) < W, W > 0;
    assert(W2 == W * W) by (compute);
    assert((r2 as int) * W2 == 0 || (r2 as int) * W2 == W2);
}

/// the conditional subtraction after mul_reduce: v is the low 128 bits, top the carry limb
proof fn lemma_cond_sub(v: int, top: int, t: int)
    requires 0 <= v < W2, top == 0 || top == 1, top == 1 ==> v < W * 0x4000_0000_0000int,
        0 <= t < W2, top == 1 ==> (t == v - P || t == v - P + W2), top == 0 ==> t == v
    ensures eqm(t, v + top * W2), 0 <= t < W2
{
    lemma_consts();
    assert(W * 0x4000_0000_0000int < P) by (compute);
    if top == 1 {
        assert(t == v - P + W2);
        lemma_eqm_multiple(t, 1);
        assert(t + 1 * P == v + top * W2);
    } else {
        lemma_eqm_multiple(v, 0);
        assert(v + 0 * P == v);
    }
}

proof fn lemma_val2_range(z0: u64, z1: u64)
    ensures 0 <= val2(z0, z1) < W2
{
    assert((z1 as int) * W <= (W - 1) * W) by (nonlinear_arith) requires 0 <= (z1 as int) < W, W > 0;
    assert(0 <= (z1 as int) * W) by (nonlinear_arith) requires 0 <= (z1 as int), W > 0;
    assert(W2 == W * W) by (compute);
}

/// the addition y + (x << 64) and the correction when it carries out of 192 bits
proof fn lemma_y_step(ai: int, bl: int, xx2: int, y0: int, v: int, y3: int, t: int)
    requires 0 <= ai < P, 0 <= bl < W, 0 <= xx2 < W2, 0 <= y0 < W, 0 <= v < W2, y3 == 0 || y3 == 1,
        y0 + v * W + y3 * W3 == ai * bl + xx2 * W,
        0 <= t < W2, y3 == 1 ==> (t == v - P || t == v - P + W2), y3 == 0 ==> t == v,
    ensures eqm(y0 + t * W, ai * bl + xx2 * W), 0 <= y0 + t * W < W3
{
    lemma_consts();
    assert(W3 == W2 * W && W2 == W * W) by (compute);
    assert(t * W <= (W2 - 1) * W) by (nonlinear_arith) requires 0 <= t < W2, W > 0;
    assert(0 <= t * W) by (nonlinear_arith) requires 0 <= t, W > 0;
    if y3 == 1 {
        // y0 + v*W + W3 == ai*bl + xx2*W < P*W + W3 - W  ==>  v < P
        assert(ai * bl <= (P - 1) * (W - 1)) by (nonlinear_arith) requires 0 <= ai <= P - 1, 0 <= bl <= W - 1;
        assert(xx2 * W <= (W2 - 1) * W) by (nonlinear_arith) requires 0 <= xx2 <= W2 - 1, W > 0;
        assert(v * W < P * W) by (nonlinear_arith)
            requires y0 + v * W + W3 == ai * bl + xx2 * W, ai * bl <= (P - 1) * (W - 1), xx2 * W <= (W2 - 1) * W, y0 >= 0,
                W3 == W2 * W, P > 0, W > 1;
        assert(v < P) by (nonlinear_arith) requires v * W < P * W, W > 0;
        assert(t == v - P + W2);
        // y0 + t*W == y0 + v*W + W3 - P*W
        assert(y0 + t * W == (ai * bl + xx2 * W) - P * W) by (nonlinear_arith)
            requires t == v - P + W2, y0 + v * W + 1 * W3 == ai * bl + xx2 * W, W3 == W2 * W, y3 == 1;
        lemma_eqm_multiple(y0 + t * W, W);
        assert(y0 + t * W + W * P == ai * bl + xx2 * W) by (nonlinear_arith) requires y0 + t * W == (ai * bl + xx2 * W) - P * W;
    } else {
        lemma_eqm_multiple(y0 + t * W, 0);
        assert(y0 + t * W + 0 * P == ai * bl + xx2 * W);
    }
}

/// a * (bl + bh * W) from the two partial products
proof fn lemma_combine(ai: int, bi: int, bh: int, bl: int, xx2: int, yy2: int, r: int)
    requires bi == W * bh + bl, eqm(xx2, ai * bh), eqm(yy2, ai * bl + xx2 * W), eqm(r, yy2)
    ensures eqm(r, ai * bi)
{
    // xx2 == ai*bh + k*P  ==>  ai*bl + xx2*W == ai*bi + k*W*P
    let d = xx2 - ai * bh;
    assert(d % P == 0);
    lemma_fundamental_div_mod(d, P);
    let k = d / P;
    assert(d == P * k);
    assert(ai * bl + xx2 * W == ai * bi + (k * W) * P) by (nonlinear_arith)
        requires xx2 == ai * bh + P * k, bi == W * bh + bl;
    lemma_eqm_multiple(ai * bi, k * W);
    lemma_eqm_trans(yy2, ai * bl + xx2 * W, ai * bi);
    lemma_eqm_trans(r, yy2, ai * bi);
}

//@@ extract anchor="fn mul(a: u128, b: u128) -> u128"
//@@ rewrite "(b >> 64) as u64" => "#[verifier::truncate] ((b >> 64) as u64)"
//@@ rewrite ", b as u64)" => ", #[verifier::truncate] (b as u64))"
//@@ rewrite "(M >> 64) as u64" => "#[verifier::truncate] ((M >> 64) as u64)"
//@@ rewrite "(M as u64)" => "#[verifier::truncate] (M as u64)"
//@@ before "let (x0, x1, x2) = mul_128x64("
//@@|    let ghost ai = a as int;
//@@|    let ghost bh: int = (b as int) / W;
//@@|    let ghost bl: int = (b as int) % W;
//@@|    proof {
//@@|        lemma_fundamental_div_mod(b as int, W);
//@@|        assert(b >> 64 == b / 0x1_0000_0000_0000_0000u128) by (bit_vector);
//@@|        assert((#[verifier::truncate] (b as u64)) as u128 == b % 0x1_0000_0000_0000_0000u128) by (bit_vector);
//@@|    }
//@@ before "let (mut x0, mut x1, x2) = mul_reduce("
//@@|    let ghost (p0, p1, p2) = (x0, x1, x2);
//@@ before "if x2 == 1 {"
//@@|    let ghost (q0, q1) = (x0, x1);
//@@|    proof { lemma_reduce(p0, p1, p2, x0, x1, x2); }
//@@ before "let (y0, y1, y2) = mul_128x64("
//@@|    let ghost xx2 = val2(x0, x1);
//@@|    proof {
//@@|        lemma_val2_range(x0, x1);
//@@|        lemma_cond_sub(val2(q0, q1), x2 as int, xx2);
//@@|        assert(val2(q0, q1) + (x2 as int) * W2 == val3(q0, q1, x2));
//@@|        lemma_eqm_trans(xx2, val3(q0, q1, x2), ai * bh);
//@@|    }
//@@ before "let (mut y1, carry) = add64_with_carry("
//@@|    let ghost (u1, u2) = (y1, y2);
//@@ before "if y3 == 1 {"
//@@|    let ghost v = val2(y1, y2);
//@@|    proof {
//@@|        lemma_val2_range(y1, y2);
//@@|        assert(W3 == W2 * W && W2 == W * W) by (compute);
//@@|        assert((y0 as int) + v * W + (y3 as int) * W3 == ai * bl + xx2 * W) by (nonlinear_arith)
//@@|            requires v == y1 as int + (y2 as int) * W, xx2 == x0 as int + (x1 as int) * W,
//@@|                y0 as int + (u1 as int) * W + (u2 as int) * W2 == ai * bl,
//@@|                y1 as int + (carry as int) * W == u1 as int + x0 as int,
//@@|                y2 as int + (y3 as int) * W == u2 as int + x1 as int + carry as int,
//@@|                W3 == W2 * W, W2 == W * W;
//@@|    }
//@@ before "let (mut z0, mut z1, z2) = mul_reduce("
//@@|    let ghost t = val2(y1, y2);
//@@|    proof {
//@@|        lemma_val2_range(y1, y2);
//@@|        lemma_y_step(ai, bl, xx2, y0 as int, v, y3 as int, t);
//@@|        assert(val3(y0, y1, y2) == y0 as int + t * W) by (nonlinear_arith)
//@@|            requires t == y1 as int + (y2 as int) * W, val3(y0, y1, y2) == y0 as int + (y1 as int) * W + (y2 as int) * W2, W2 == W * W;
//@@|    }
//@@|    let ghost yy2 = val3(y0, y1, y2);
//@@|    let ghost (s0, s1, s2) = (y0, y1, y2);
//@@ before "if z2 == 1 ||"
//@@|    let ghost (w0, w1) = (z0, z1);
//@@|    proof {
//@@|        lemma_reduce(s0, s1, s2, z0, z1, z2);
//@@|        assert(M == 340282366920938463463374557953744961537u128);
//@@|        assert(#[verifier::truncate] ((340282366920938463463374557953744961537u128 >> 64) as u64) == 0xFFFF_FFFF_FFFF_FFFFu64) by (bit_vector);
//@@|        assert(#[verifier::truncate] (340282366920938463463374557953744961537u128 as u64) == 0xFFFF_D300_0000_0001u64) by (bit_vector);
//@@|        assert(0xFFFF_D300_0000_0001int == P - (W - 1) * W) by (compute);
//@@|    }
//@@ before "((z1 as u128) << 64) + (z0 as u128)"
//@@|    proof {
//@@|        lemma_val2_range(z0, z1);
//@@|        lemma_val2_range(w0, w1);
//@@|        let vw = val2(w0, w1);
//@@|        let res = val2(z0, z1);
//@@|        assert(W * 0x4000_0000_0000int < P) by (compute);
//@@|        // res < P and res == vw + z2 * W2 (mod P)
//@@|        if z2 == 1 {
//@@|            assert(res == vw - P + W2);
//@@|            lemma_eqm_multiple(res, 1);
//@@|            assert(res + 1 * P == vw + W2);
//@@|        } else if vw >= P {
//@@|            assert(res == vw - P);
//@@|            lemma_eqm_multiple(res, 1);
//@@|        } else {
//@@|            lemma_eqm_multiple(res, 0);
//@@|            assert(res + 0 * P == vw);
//@@|        }
//@@|        assert(eqm(res, val3(w0, w1, z2)));
//@@|        lemma_eqm_trans(res, val3(w0, w1, z2), yy2);
//@@|        lemma_combine(ai, b as int, bh, bl, xx2, yy2, res);
//@@|        assert(((z1 as u128) << 64) == (z1 as u128) * 0x1_0000_0000_0000_0000u128) by (bit_vector);
//@@|    }
/// C07 for the 128-bit field: the product of two canonical values is canonical and congruent to the
/// mathematical product modulo P = 2^128 - 45 * 2^40 + 1
pub fn mul(a: u128, b: u128) -> (r: u128)
    requires (a as int) < P, (b as int) < P
    ensures (r as int) < P, eqm(r as int, (a as int) * (b as int))
{
    proof { lemma_consts(); }
    /*@@body*/
}

//@@ extract anchor="fn add(a: u128, b: u128) -> u128"
pub fn add(a: u128, b: u128) -> (r: u128)
    requires (a as int) < P, (b as int) < P
    ensures (r as int) < P, r as int == ((a as int) + (b as int)) % P
{
    proof {
        lemma_consts();
        let s = (a as int) + (b as int);
        if s < P { lemma_small_mod(s as nat, P as nat); } else {
            lemma_small_mod((s - P) as nat, P as nat);
            lemma_mod_multiples_vanish(-1, s, P);
        }
    }
    /*@@body*/
}

//@@ extract anchor="fn sub(a: u128, b: u128) -> u128"
pub fn sub(a: u128, b: u128) -> (r: u128)
    requires (a as int) < P, (b as int) < P
    ensures (r as int) < P, r as int == ((a as int) - (b as int)) % P
{
    proof {
        lemma_consts();
        let s = (a as int) - (b as int);
        if s >= 0 { lemma_small_mod(s as nat, P as nat); } else {
            lemma_small_mod((s + P) as nat, P as nat);
            lemma_mod_multiples_vanish(1, s, P);
        }
    }
    /*@@body*/
}

proof fn f128_canary_must_fail()
    ensures C == 5
{
}

} // verus!

fn main() {}
