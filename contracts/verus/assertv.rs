// Verus unit assertv: Assertion::overlaps_with (air/src/air/assertions/mod.rs) for EVERY trace length.
// Decided: for all well-formed assertions a, b (single: first_step < n; periodic / sequence: stride a power of two >= 2,
// first_step < stride <= n - what the constructors and validate_trace_length accept) and every power-of-two trace
// length n: overlaps_with(a, b) is true exactly when the two name a common step of the same column. The body is
// compared with a closed form (`closed`) automatically; `lemma_closed` proves the closed form equivalent to the
// existence of a common step. The Kani harness air_assertion_overlap_contract decides the same for n <= 32 with a
// counterexample; this unit removes the bound. `values` is dropped from the struct (the function never reads it).
use vstd::prelude::*;
use vstd::arithmetic::power2::*;
use vstd::arithmetic::div_mod::*;
use vstd::arithmetic::mul::*;
verus! {

pub const NO_STRIDE: usize = /*@@expr source="air/src/air/assertions/mod.rs" anchor="const NO_STRIDE: usize ="*/;

pub struct Assertion { pub column: usize, pub first_step: usize, pub stride: usize }

pub open spec fn is_p2(x: int) -> bool { exists|k: nat| x == pow2(k) }

// a is a well-formed assertion for a trace of n steps (what the constructors and validate_trace_length accept)
pub open spec fn valid(a: Assertion, n: int) -> bool {
    &&& is_p2(n)
    &&& (a.stride == 0 ==> a.first_step < n)
    &&& (a.stride != 0 ==> is_p2(a.stride as int) && a.stride >= 2 && a.first_step < a.stride && a.stride <= n)
}

// step t is named by a
pub open spec fn names(a: Assertion, t: int) -> bool {
    if a.stride == 0 { t == a.first_step } else { t >= 0 && t % (a.stride as int) == a.first_step }
}

pub open spec fn common(a: Assertion, b: Assertion, n: int) -> bool {
    a.column == b.column && exists|t: int| 0 <= t < n && names(a, t) && names(b, t)
}

// closed form: lo is the assertion that starts first
pub open spec fn lohi(lo: Assertion, hi: Assertion) -> bool {
    lo.stride != 0 && (hi.stride == 0 || lo.stride < hi.stride) && (hi.first_step - lo.first_step) % (lo.stride as int) == 0
}
pub open spec fn closed(a: Assertion, b: Assertion) -> bool {
    a.column == b.column && (a.first_step == b.first_step || (a.stride != b.stride &&
        (if a.first_step < b.first_step { lohi(a, b) } else { lohi(b, a) })))
}

proof fn lemma_p2_divides(s: int, t: int)
    requires is_p2(s), is_p2(t), s < t
    ensures t % s == 0, s > 0
{
    let ks = choose|k: nat| s == pow2(k);
    let kt = choose|k: nat| t == pow2(k);
    lemma_pow2_pos(ks);
    if kt <= ks {
        if kt < ks { lemma_pow2_strictly_increases(kt, ks); }
        assert(false);
    }
    lemma_pow2_adds(ks, (kt - ks) as nat);
    assert(t == s * pow2((kt - ks) as nat));
    lemma_mod_multiples_basic(pow2((kt - ks) as nat) as int, s);
}

// t % s == f, f < s  ==> t == f + k*s
proof fn lemma_names_lo(lo: Assertion, hi: Assertion, n: int)
    requires valid(lo, n), valid(hi, n), lo.first_step < hi.first_step, lo.column == hi.column, lo.stride != hi.stride
    ensures common(lo, hi, n) <==> lohi(lo, hi)
{
    let f1 = lo.first_step as int; let f2 = hi.first_step as int;
    let s1 = lo.stride as int; let s2 = hi.stride as int;
    if lohi(lo, hi) {
        // witness: f2
        lemma_fundamental_div_mod(f2 - f1, s1);
        let q = (f2 - f1) / s1;
        assert(f2 == f1 + s1 * q);
        lemma_mod_multiples_vanish(q, f1, s1);
        lemma_small_mod(f1 as nat, s1 as nat);
        assert(f2 % s1 == f1) by { assert(f2 == s1 * q + f1); }
        if s2 != 0 { lemma_small_mod(f2 as nat, s2 as nat); }
        assert(names(lo, f2) && names(hi, f2));
        assert(0 <= f2 < n);
    }
    if common(lo, hi, n) {
        let t = choose|t: int| 0 <= t < n && names(lo, t) && names(hi, t);
        if s1 == 0 {
            assert(t == f1);
            if s2 != 0 { lemma_small_mod(f1 as nat, s2 as nat); }
            assert(false);
        } else if s2 == 0 {
            assert(t == f2);
            lemma_small_mod(f1 as nat, s1 as nat);
            lemma_sub_mod_noop(f2, f1, s1);
            lemma_mod_self_0(s1);
            assert((f2 - f1) % s1 == 0) by { lemma_sub_mod_noop(f2, f1, s1); assert((f1 - f1) % s1 == 0) by { lemma_small_mod(0, s1 as nat); } }
        } else if s1 < s2 {
            lemma_p2_divides(s1, s2);
            // t = f2 + q*s2 ; s2 = s1*m
            lemma_fundamental_div_mod(t, s2);
            let q = t / s2;
            lemma_fundamental_div_mod(s2, s1);
            let m = s2 / s1;
            assert(s2 == s1 * m);
            assert(t == s2 * q + f2);
            assert(s2 * q == s1 * (m * q)) by { lemma_mul_is_associative(s1, m, q); }
            lemma_mod_multiples_vanish(m * q, f2, s1);
            assert(t % s1 == f2 % s1) by { assert(t == s1 * (m * q) + f2); }
            assert(f2 % s1 == f1);
            lemma_small_mod(f1 as nat, s1 as nat);
            lemma_sub_mod_noop(f2, f1, s1);
            assert((f1 - f1) % s1 == 0) by { lemma_small_mod(0, s1 as nat); }
        } else {
            lemma_p2_divides(s2, s1);
            lemma_fundamental_div_mod(t, s1);
            let q = t / s1;
            lemma_fundamental_div_mod(s1, s2);
            let m = s1 / s2;
            assert(s1 == s2 * m);
            assert(t == s1 * q + f1);
            assert(s1 * q == s2 * (m * q)) by { lemma_mul_is_associative(s2, m, q); }
            lemma_mod_multiples_vanish(m * q, f1, s2);
            assert(t % s2 == f1 % s2) by { assert(t == s2 * (m * q) + f1); }
            lemma_small_mod(f1 as nat, s2 as nat);
            assert(false);
        }
    }
}

proof fn lemma_closed(a: Assertion, b: Assertion, n: int)
    requires valid(a, n), valid(b, n)
    ensures common(a, b, n) <==> closed(a, b)
{
    if a.column == b.column {
        let f1 = a.first_step as int; let f2 = b.first_step as int;
        if f1 == f2 {
            if a.stride != 0 { lemma_small_mod(f1 as nat, a.stride as nat); }
            if b.stride != 0 { lemma_small_mod(f1 as nat, b.stride as nat); }
            assert(names(a, f1) && names(b, f1) && 0 <= f1 < n);
        } else if a.stride == b.stride {
            if common(a, b, n) {
                let t = choose|t: int| 0 <= t < n && names(a, t) && names(b, t);
                assert(false);
            }
        } else if f1 < f2 {
            lemma_names_lo(a, b, n);
        } else {
            lemma_names_lo(b, a, n);
            assert(common(a, b, n) <==> common(b, a, n)) by {
                if common(a, b, n) { let t = choose|t: int| 0 <= t < n && names(a, t) && names(b, t); assert(names(b, t) && names(a, t)); }
                if common(b, a, n) { let t = choose|t: int| 0 <= t < n && names(b, t) && names(a, t); assert(names(a, t) && names(b, t)); }
            }
        }
    }
}

impl Assertion {
    //@@ source air/src/air/assertions/mod.rs
    //@@ extract anchor="pub fn is_single(&self) -> bool"
    pub fn is_single(&self) -> (r: bool) ensures r == (self.stride == 0) {
        /*@@body*/
    }

    //@@ extract anchor="pub fn overlaps_with(&self, other: &Assertion<E>) -> bool"
    pub fn overlaps_with(&self, other: &Assertion) -> (r: bool)
        ensures
            r == closed(*self, *other),
            forall|n: int| valid(*self, n) && valid(*other, n) ==> r == common(*self, *other, n),
    {
        proof { assert forall|n: int| valid(*self, n) && valid(*other, n) implies closed(*self, *other) == #[trigger] common(*self, *other, n) by { lemma_closed(*self, *other, n); } }
        /*@@body*/
    }
}

// the pre-condition is satisfiable (vacuity guard) and the characterisation is not trivially false
proof fn assertv_reachable()
    ensures exists|a: Assertion, b: Assertion| valid(a, 16) && valid(b, 16) && common(a, b, 16)
{
    lemma2_to64();
    let a = Assertion { column: 0, first_step: 1, stride: 4 };
    let b = Assertion { column: 0, first_step: 5, stride: 8 };
    assert(is_p2(4)) by { assert(4 == pow2(2)); }
    assert(is_p2(8)) by { assert(8 == pow2(3)); }
    assert(is_p2(16)) by { assert(16 == pow2(4)); }
    assert(names(a, 5) && names(b, 5));
    assert(valid(a, 16) && valid(b, 16) && common(a, b, 16));
}

proof fn assertv_canary_must_fail(a: Assertion, b: Assertion)
    requires valid(a, 16), valid(b, 16), a.column == b.column
    ensures common(a, b, 16)
{
}

} // verus!

fn main() {}
