// Verus unit f64: residue-level contracts for math/src/field/f64/mod.rs.
// Function bodies marked /*@@body*/ are cut out of the scratch copy of /repo on every run
// (tools/verus_driver.py); everything else in this file is specification, lemmas, and the
// contracts of the leaf functions that Kani proves (unit `f64` in contracts/kani/math_f64.rs).
use vstd::prelude::*;
use vstd::arithmetic::div_mod::*;
use vstd::arithmetic::mul::*;
use vstd::std_specs::ops::*;

verus! {

// ---- constants: taken from the source text ------------------------------------------------------
pub const M: u64 = /*@@expr source="math/src/field/f64/mod.rs" anchor="const M: u64 ="*/;
pub const R2: u64 = /*@@expr source="math/src/field/f64/mod.rs" anchor="const R2: u64 ="*/;

/// the prime 2^64 - 2^32 + 1 as stated by the property (not taken from the source)
pub spec const P: int = 0xFFFFFFFF00000001int;
pub spec const T64: int = 0x1_0000000000000000int;
/// 2^-64 mod P
pub spec const RINV: int = 18446744065119617025int;

pub open spec fn redc(x: int) -> int { (x * RINV) % P }

// type shim: the real struct has a private field; same layout
#[derive(Copy, Clone)]
pub struct BaseElement(pub u64);

/// residue denoted by an element (Montgomery form: raw word = value * 2^64 mod P)
pub open spec fn v(e: BaseElement) -> int { redc(e.0 as int) }
pub open spec fn wf(e: BaseElement) -> bool { e.0 < M }

pub open spec fn powm(b: int, e: nat) -> int
    decreases e
{ if e == 0 { 1 } else { (b * powm(b, (e - 1) as nat)) % P } }

// ---- arithmetic lemmas --------------------------------------------------------------------------

proof fn lemma_consts()
    ensures M as int == P, (T64 * RINV) % P == 1, (R2 as int) == (T64 * T64) % P, 0 < RINV < P
{
    assert(M as int == P) by (compute);
    assert((T64 * RINV) % P == 1) by (compute);
    assert((R2 as int) == (T64 * T64) % P) by (compute);
}

/// r * 2^64 == x (mod P), 0 <= r < P  ==>  r == x * 2^-64 mod P
proof fn lemma_mont(r: int, x: int)
    requires 0 <= r < P, (r * T64) % P == x % P
    ensures r == redc(x)
{
    lemma_consts();
    lemma_mul_mod_noop_general(r * T64, RINV, P);
    lemma_mul_mod_noop_general(x, RINV, P);
    assert(((r * T64) * RINV) % P == (x * RINV) % P);
    assert((r * T64) * RINV == r * (T64 * RINV)) by (nonlinear_arith);
    lemma_mul_mod_noop_general(r, T64 * RINV, P);
    assert((r * (T64 * RINV)) % P == (r * 1) % P);
    lemma_small_mod(r as nat, P as nat);
}

/// witness form of "r * 2^64 == x (mod P)" as proved by Kani (q is computed there as xl * (2^32+1) mod 2^64)
pub open spec fn mont_wit(x: int, r: int, q: int) -> bool {
    x - q * P == r * T64 || x - q * P + P * T64 == r * T64
}

/// the witness form implies the congruence
proof fn lemma_witness(r: int, x: int, q: int)
    requires mont_wit(x, r, q)
    ensures (r * T64) % P == x % P
{
    if x - q * P == r * T64 {
        lemma_mod_multiples_vanish(-q, x, P);
        assert(x + (-q) * P == x - q * P) by (nonlinear_arith);
    } else {
        lemma_mod_multiples_vanish(T64 - q, x, P);
        assert(x + (T64 - q) * P == x - q * P + P * T64) by (nonlinear_arith);
    }
}

/// redc is multiplicative up to one extra redc: redc(redc(a*b)) == redc(a)*redc(b) mod P
proof fn lemma_redc_mul(a: int, b: int)
    ensures redc(redc(a * b)) == (redc(a) * redc(b)) % P
{
    lemma_mul_mod_noop_general(a * b * RINV, RINV, P);
    assert(redc(redc(a * b)) == ((a * b * RINV) * RINV) % P);
    lemma_mul_mod_noop_general(a * RINV, b * RINV, P);
    assert((a * b * RINV) * RINV == (a * RINV) * (b * RINV)) by (nonlinear_arith);
}

proof fn lemma_redc_add(a: int, b: int)
    ensures redc((a + b) % P) == (redc(a) + redc(b)) % P
{
    lemma_mul_mod_noop_general((a + b), RINV, P);
    assert(redc((a + b) % P) == ((a + b) * RINV) % P);
    assert((a + b) * RINV == a * RINV + b * RINV) by (nonlinear_arith);
    lemma_add_mod_noop(a * RINV, b * RINV, P);
}

proof fn lemma_redc_sub(a: int, b: int)
    ensures redc((a - b) % P) == (redc(a) - redc(b)) % P
{
    lemma_mul_mod_noop_general((a - b), RINV, P);
    assert(redc((a - b) % P) == ((a - b) * RINV) % P);
    assert((a - b) * RINV == a * RINV - b * RINV) by (nonlinear_arith);
    lemma_sub_mod_noop(a * RINV, b * RINV, P);
}

/// to-Montgomery then from-Montgomery is the identity on residues
proof fn lemma_new(x: int)
    ensures redc(redc(x * (R2 as int))) == x % P
{
    lemma_consts();
    let r2 = R2 as int;
    lemma_mul_mod_noop_general(x * r2 * RINV, RINV, P);
    assert(redc(redc(x * r2)) == ((x * r2 * RINV) * RINV) % P);
    assert((x * r2 * RINV) * RINV == x * (r2 * (RINV * RINV))) by (nonlinear_arith);
    lemma_mul_mod_noop_general(x, r2 * (RINV * RINV), P);
    assert((r2 * (RINV * RINV)) % P == 1) by (compute);
    assert((x * (r2 * (RINV * RINV))) % P == ((x % P) * 1) % P);
    lemma_mod_twice(x, P);
}

proof fn lemma_powm_range(b: int, e: nat)
    ensures 0 <= powm(b, e) < P
    decreases e
{
    reveal_with_fuel(powm, 1);
    if e > 0 { lemma_powm_range(b, (e - 1) as nat); }
}

/// powm(b, 2e) = powm(b,e)^2, powm(b, 2e+1) = b * powm(b,e)^2 (mod P)
proof fn lemma_powm_add(b: int, e1: nat, e2: nat)
    ensures powm(b, e1 + e2) == (powm(b, e1) * powm(b, e2)) % P
    decreases e1
{
    lemma_powm_range(b, e2);
    if e1 == 0 {
        reveal_with_fuel(powm, 1);
        lemma_small_mod(powm(b, e2) as nat, P as nat);
    } else {
        lemma_powm_add(b, (e1 - 1) as nat, e2);
        reveal_with_fuel(powm, 1);
        let x = powm(b, (e1 - 1) as nat);
        let y = powm(b, e2);
        assert(powm(b, e1 + e2) == (b * powm(b, (e1 + e2 - 1) as nat)) % P);
        assert(powm(b, (e1 + e2 - 1) as nat) == (x * y) % P);
        // (b * ((x*y) % P)) % P == (((b*x) % P) * y) % P
        lemma_mul_mod_noop_right(b, x * y, P);
        lemma_mul_mod_noop_left(b * x, y, P);
        assert(b * (x * y) == (b * x) * y) by (nonlinear_arith);
    }
}

// ---- leaf contracts proved by Kani (assumed here; clause text mirrors contracts/kani/math_f64.rs) ----

#[verifier::external_body]
pub const fn mont_red_cst(x: u128) -> (r: u64)
    requires (x as int) < P * T64,
    ensures r < M,
        exists|q: int| mont_wit(x as int, r as int, q),
{ unimplemented!() }

#[verifier::external_body]
pub const fn mont_to_int(x: u64) -> (r: u64)
    ensures r < M,
        exists|q: int| mont_wit(x as int, r as int, q),
{ unimplemented!() }

/// mont_red_cst in residue form
pub fn mont_red(x: u128) -> (r: u64)
    requires (x as int) < P * T64,
    ensures r < M, r as int == redc(x as int)
{
    let r = mont_red_cst(x);
    proof {
        lemma_consts();
        let q = choose|q: int| mont_wit(x as int, r as int, q);
        lemma_witness(r as int, x as int, q);
        lemma_mont(r as int, x as int);
    }
    r
}

impl AddSpecImpl<BaseElement> for BaseElement {
    open spec fn obeys_add_spec() -> bool { true }
    open spec fn add_req(self, rhs: BaseElement) -> bool { wf(self) && wf(rhs) }
    open spec fn add_spec(self, rhs: BaseElement) -> BaseElement { BaseElement(((self.0 as int + rhs.0 as int) % P) as u64) }
}
impl core::ops::Add for BaseElement {
    type Output = Self;
    #[verifier::external_body]
    fn add(self, rhs: Self) -> Self { unimplemented!() }   // Kani: f64_add_contract
}
impl SubSpecImpl<BaseElement> for BaseElement {
    open spec fn obeys_sub_spec() -> bool { true }
    open spec fn sub_req(self, rhs: BaseElement) -> bool { wf(self) && wf(rhs) }
    open spec fn sub_spec(self, rhs: BaseElement) -> BaseElement { BaseElement(((self.0 as int - rhs.0 as int) % P) as u64) }
}
impl core::ops::Sub for BaseElement {
    type Output = Self;
    #[verifier::external_body]
    fn sub(self, rhs: Self) -> Self { unimplemented!() }   // Kani: f64_sub_contract
}

// ---- Mul: real body --------------------------------------------------------------------------------

impl MulSpecImpl<BaseElement> for BaseElement {
    open spec fn obeys_mul_spec() -> bool { true }
    open spec fn mul_req(self, rhs: BaseElement) -> bool { wf(self) && wf(rhs) }
    open spec fn mul_spec(self, rhs: BaseElement) -> BaseElement { BaseElement(redc(self.0 as int * rhs.0 as int) as u64) }
}

pub proof fn lemma_mul_val(a: BaseElement, b: BaseElement)
    requires wf(a), wf(b)
    ensures wf(MulSpec::mul_spec(a, b)), v(MulSpec::mul_spec(a, b)) == (v(a) * v(b)) % P
{
    lemma_consts();
    lemma_redc_mul(a.0 as int, b.0 as int);
}

impl core::ops::Mul for BaseElement {
    type Output = Self;
    //@@ source math/src/field/f64/mod.rs
    //@@ extract within="impl Mul for BaseElement" anchor="fn mul(self, rhs: Self) -> Self"
    //@@ rewrite "mont_red_cst(" => "mont_red("
    fn mul(self, rhs: Self) -> Self {
        proof {
            lemma_consts();
            assert((self.0 as u128) * (rhs.0 as u128) < 0xFFFFFFFF00000001_0000000000000000u128) by (nonlinear_arith)
                requires self.0 < 0xFFFFFFFF00000001u64, rhs.0 < 0xFFFFFFFF00000001u64;
            assert(P * T64 == 0xFFFFFFFF00000001_0000000000000000int) by (compute);
        }
        /*@@body*/
    }
}

impl BaseElement {
    //@@ source math/src/field/f64/mod.rs
    //@@ extract anchor="pub const fn new(value: u64) -> BaseElement"
    //@@ rewrite "mont_red_cst(" => "mont_red("
    pub fn new(value: u64) -> (res: BaseElement)
        ensures wf(res), v(res) == (value as int) % P
    {
        proof {
            lemma_consts();
            lemma_new(value as int);
            assert((value as u128) * (R2 as u128) < 0xFFFFFFFF00000001_0000000000000000u128) by (nonlinear_arith)
                requires value <= 0xFFFFFFFFFFFFFFFFu64, R2 < 0xFFFFFFFF00000001u64;
            assert(P * T64 == 0xFFFFFFFF00000001_0000000000000000int) by (compute);
        }
        /*@@body*/
    }

    //@@ source math/src/field/traits.rs
    //@@ extract anchor="fn square(self) -> Self"
    pub fn square(self) -> (r: Self)
        requires wf(self)
        ensures wf(r), v(r) == (v(self) * v(self)) % P
    {
        proof { lemma_mul_val(self, self); }
        /*@@body*/
    }
}

proof fn f64_canary_must_fail()
    ensures redc(5) == 5
{
}

} // verus!

fn main() {}
