// Verus unit f64: residue-level contracts for math/src/field/f64/mod.rs.
// Function bodies marked /*@@body*/ are cut out of the scratch copy of /repo on every run
// (tools/verus_driver.py); everything else in this file is specification, lemmas, and the
// contracts of the leaf functions that Kani proves (unit `f64` in contracts/kani/math_f64.rs).
use vstd::prelude::*;
use vstd::arithmetic::div_mod::*;
use vstd::arithmetic::mul::*;
use vstd::std_specs::ops::*;

verus! {

// ---- constants: taken from the source text ------------------------------------------------------
pub const M: u64 = /*@@expr source="math/src/field/f64/mod.rs" anchor="const M: u64 ="*/;
pub const R2: u64 = /*@@expr source="math/src/field/f64/mod.rs" anchor="const R2: u64 ="*/;

/// the prime 2^64 - 2^32 + 1 as stated by the property (not taken from the source)
pub spec const P: int = 0xFFFFFFFF00000001int;
pub spec const T64: int = 0x1_0000000000000000int;
/// 2^-64 mod P
pub spec const RINV: int = 18446744065119617025int;

pub open spec fn redc(x: int) -> int { (x * RINV) % P }

// type shim: the real struct has a private field; same layout
#[derive(Copy, Clone)]
pub struct BaseElement(pub u64);

/// residue denoted by an element (Montgomery form: raw word = value * 2^64 mod P)
pub open spec fn v(e: BaseElement) -> int { redc(e.0 as int) }
pub open spec fn wf(e: BaseElement) -> bool { e.0 < M }

pub open spec fn powm(b: int, e: nat) -> int
    decreases e
{ if e == 0 { 1 } else { (b * powm(b, (e - 1) as nat)) % P } }

// ---- arithmetic lemmas --------------------------------------------------------------------------

proof fn lemma_consts()
    ensures M as int == P, (T64 * RINV) % P == 1, (R2 as int) == (T64 * T64) % P, 0 < RINV < P
{
    assert(M as int == P) by (compute);
    assert((T64 * RINV) % P == 1) by (compute);
    assert((R2 as int) == (T64 * T64) % P) by (compute);
}

/// r * 2^64 == x (mod P), 0 <= r < P  ==>  r == x * 2^-64 mod P
proof fn lemma_mont(r: int, x: int)
    requires 0 <= r < P, (r * T64) % P == x % P
    ensures r == redc(x)
{
    lemma_consts();
    lemma_mul_mod_noop_general(r * T64, RINV, P);
    lemma_mul_mod_noop_general(x, RINV, P);
    assert(((r * T64) * RINV) % P == (x * RINV) % P);
    assert((r * T64) * RINV == r * (T64 * RINV)) by (nonlinear_arith);
    lemma_mul_mod_noop_general(r, T64 * RINV, P);
    assert((r * (T64 * RINV)) % P == (r * 1) % P);
    lemma_small_mod(r as nat, P as nat);
}

/// witness form of "r * 2^64 == x (mod P)" as proved by Kani (q is computed there as xl * (2^32+1) mod 2^64)
pub open spec fn mont_wit(x: int, r: int, q: int) -> bool {
    x - q * P == r * T64 || x - q * P + P * T64 == r * T64
}

/// the witness form implies the congruence
proof fn lemma_witness(r: int, x: int, q: int)
    requires mont_wit(x, r, q)
    ensures (r * T64) % P == x % P
{
    if x - q * P == r * T64 {
        lemma_mod_multiples_vanish(-q, x, P);
        assert(x + (-q) * P == x - q * P) by (nonlinear_arith);
    } else {
        lemma_mod_multiples_vanish(T64 - q, x, P);
        assert(x + (T64 - q) * P == x - q * P + P * T64) by (nonlinear_arith);
    }
}

/// redc is multiplicative up to one extra redc: redc(redc(a*b)) == redc(a)*redc(b) mod P
proof fn lemma_redc_mul(a: int, b: int)
    ensures redc(redc(a * b)) == (redc(a) * redc(b)) % P
{
    lemma_mul_mod_noop_general(a * b * RINV, RINV, P);
    assert(redc(redc(a * b)) == ((a * b * RINV) * RINV) % P);
    lemma_mul_mod_noop_general(a * RINV, b * RINV, P);
    assert((a * b * RINV) * RINV == (a * RINV) * (b * RINV)) by (nonlinear_arith);
}

proof fn lemma_redc_add(a: int, b: int)
    ensures redc((a + b) % P) == (redc(a) + redc(b)) % P
{
    lemma_mul_mod_noop_general((a + b), RINV, P);
    assert(redc((a + b) % P) == ((a + b) * RINV) % P);
    assert((a + b) * RINV == a * RINV + b * RINV) by (nonlinear_arith);
    lemma_add_mod_noop(a * RINV, b * RINV, P);
}

proof fn lemma_redc_sub(a: int, b: int)
    ensures redc((a - b) % P) == (redc(a) - redc(b)) % P
{
    lemma_mul_mod_noop_general((a - b), RINV, P);
    assert(redc((a - b) % P) == ((a - b) * RINV) % P);
    assert((a - b) * RINV == a * RINV - b * RINV) by (nonlinear_arith);
    lemma_sub_mod_noop(a * RINV, b * RINV, P);
}

/// to-Montgomery then from-Montgomery is the identity on residues
proof fn lemma_new(x: int)
    ensures redc(redc(x * (R2 as int))) == x % P
{
    lemma_consts();
    let r2 = R2 as int;
    lemma_mul_mod_noop_general(x * r2 * RINV, RINV, P);
    assert(redc(redc(x * r2)) == ((x * r2 * RINV) * RINV) % P);
    assert((x * r2 * RINV) * RINV == x * (r2 * (RINV * RINV))) by (nonlinear_arith);
    lemma_mul_mod_noop_general(x, r2 * (RINV * RINV), P);
    assert((r2 * (RINV * RINV)) % P == 1) by (compute);
    assert((x * (r2 * (RINV * RINV))) % P == ((x % P) * 1) % P);
    lemma_mod_twice(x, P);
}

proof fn lemma_powm_range(b: int, e: nat)
    ensures 0 <= powm(b, e) < P
    decreases e
{
    reveal_with_fuel(powm, 1);
    if e > 0 { lemma_powm_range(b, (e - 1) as nat); }
}

/// powm(b, 2e) = powm(b,e)^2, powm(b, 2e+1) = b * powm(b,e)^2 (mod P)
proof fn lemma_powm_add(b: int, e1: nat, e2: nat)
    ensures powm(b, e1 + e2) == (powm(b, e1) * powm(b, e2)) % P
    decreases e1
{
    lemma_powm_range(b, e2);
    if e1 == 0 {
        reveal_with_fuel(powm, 1);
        lemma_small_mod(powm(b, e2) as nat, P as nat);
    } else {
        lemma_powm_add(b, (e1 - 1) as nat, e2);
        reveal_with_fuel(powm, 1);
        let x = powm(b, (e1 - 1) as nat);
        let y = powm(b, e2);
        assert(powm(b, e1 + e2) == (b * powm(b, (e1 + e2 - 1) as nat)) % P);
        assert(powm(b, (e1 + e2 - 1) as nat) == (x * y) % P);
        // (b * ((x*y) % P)) % P == (((b*x) % P) * y) % P
        lemma_mul_mod_noop_right(b, x * y, P);
        lemma_mul_mod_noop_left(b * x, y, P);
        assert(b * (x * y) == (b * x) * y) by (nonlinear_arith);
    }
}

// ---- leaf functions: real bodies (also proved by Kani with counterexamples: contracts/kani/math_f64.rs) ----

pub assume_specification [u64::overflowing_add] (a: u64, b: u64) -> (r: (u64, bool))
    ensures r.0 as int == (if a + b > u64::MAX { a + b - 0x1_0000_0000_0000_0000 } else { a + b }), r.1 == (a + b > u64::MAX);
pub assume_specification [u64::overflowing_sub] (a: u64, b: u64) -> (r: (u64, bool))
    ensures r.0 as int == (if a - b < 0 { a - b + 0x1_0000_0000_0000_0000 } else { a - b }), r.1 == (a - b < 0);

// the arithmetic core: a = xl * (2^32 + 1) mod 2^64 is the Montgomery quotient (M * (2^32 + 1) == 1 mod 2^64)
proof fn lemma_mont_core(xh: int, xl: int, sh: int, a: int, e: int, s32: int, b: int, r: int, c: int, fin: int)
    requires
        0 <= xl < T64, 0 <= xh < P, 
        0 <= sh < T64, sh == (xl % 0x1_0000_0000) * 0x1_0000_0000,      // xl << 32
        0 <= a < T64, e == 0 || e == 1, xl + sh == a + e * T64,          // overflowing_add
        s32 == a / 0x1_0000_0000,                                         // a >> 32
        0 <= b < T64, (b - (a - s32 - e)) % T64 == 0,                     // two wrapping_subs
        0 <= r < T64, c == 0 || c == 1, xh - b == r - c * T64,            // overflowing_sub
        0 <= fin < T64, (fin - (r - c * 0xFFFF_FFFF)) % T64 == 0,         // final wrapping_sub
    ensures
        fin < P, mont_wit(xh * T64 + xl, fin, a),
{
    // b is exactly a - s32 - e (no wrap): a >= s32, and e == 1 forces a >= 1 hence a - s32 >= 1
    assert(a - s32 - e >= 0) by (nonlinear_arith)
        requires 0 <= a < T64, s32 == a / 0x1_0000_0000, e == 0 || e == 1, xl + sh == a + e * T64, 0 <= xl < T64,
            sh == (xl % 0x1_0000_0000) * 0x1_0000_0000, T64 == 0x1_0000000000000000int
    { }
    let hh: int = 0x1_0000_0000;
    let xlo = xl % hh;
    let alo = a % hh;
    let bi = a - s32 - e;
    // a and xl agree modulo 2^32
    assert(alo == xlo) by {
        lemma_fundamental_div_mod(xl, hh);
        // xl + xlo*H - e*T == a ; T = H*H
        assert(a == hh * (xl / hh + xlo - e * hh) + xlo) by (nonlinear_arith)
            requires xl == hh * (xl / hh) + xlo, xl + sh == a + e * T64, sh == xlo * hh, T64 == hh * hh;
        lemma_fundamental_div_mod_converse(a, hh, xl / hh + xlo - e * hh, xlo);
    }
    lemma_fundamental_div_mod(a, hh);
    // wrapping subtractions do not wrap
    assert(b == bi) by {
        assert(bi < T64);
        lemma_small_mod(0, T64 as nat);
        // (b - bi) % T == 0 with |b - bi| < T
        lemma_fundamental_div_mod(b - bi, T64);
        let k = (b - bi) / T64;
        assert(k == 0) by (nonlinear_arith) requires b - bi == T64 * k, -T64 < b - bi < T64, T64 > 0;
    }
    // x - a * P == (xh - b) * T
    assert(xh * T64 + xl - a * P == (xh - bi) * T64) by (nonlinear_arith)
        requires a == hh * s32 + alo, alo == xlo, xl + sh == a + e * T64, sh == xlo * hh, T64 == hh * hh, P == T64 - hh + 1, bi == a - s32 - e;
    assert(bi <= P - 1) by (nonlinear_arith)
        requires a == hh * s32 + alo, 0 <= alo < hh, 0 <= a < T64, T64 == hh * hh, P == T64 - hh + 1, bi == a - s32 - e, e >= 0, hh == 0x1_0000_0000;
    let f = r - c * 0xFFFF_FFFF;
    assert(0 <= f < T64);
    assert(fin == f) by {
        lemma_fundamental_div_mod(fin - f, T64);
        let k = (fin - f) / T64;
        assert(k == 0) by (nonlinear_arith) requires fin - f == T64 * k, -T64 < fin - f < T64, T64 > 0;
    }
    if c == 1 {
        assert((xh - bi) * T64 + P * T64 == fin * T64) by (nonlinear_arith) requires fin == xh - bi + P;
    }
}

// bit-level facts used by both reductions
proof fn lemma_red_bits(xl: u64, a: u64)
    ensures
        (xl << 32) as int == ((xl as int) % 0x1_0000_0000) * 0x1_0000_0000,
        (a >> 32) as int == (a as int) / 0x1_0000_0000,
{
    assert((xl << 32) == (xl % 0x1_0000_0000) * 0x1_0000_0000) by (bit_vector);
    assert((a >> 32) == a / 0x1_0000_0000) by (bit_vector);
}

//@@ source math/src/field/f64/mod.rs
//@@ extract anchor="const fn mont_red_cst(x: u128) -> u64"
//@@ rewrite "let xl = x as u64;" => "let xl = #[verifier::truncate] (x as u64);"
//@@ tailbind fin__
//@@|    proof {
//@@|        lemma_consts();
//@@|        assert(x == (x >> 64) * 0x1_0000_0000_0000_0000 + (#[verifier::truncate] (x as u64)) as u128) by (bit_vector);
//@@|        assert((x >> 64) < 0xFFFFFFFF00000001u128) by (bit_vector) requires x < 0xFFFFFFFF00000001_0000000000000000u128;
//@@|        assert(P * T64 == 0xFFFFFFFF00000001_0000000000000000int) by (compute);
//@@|        lemma_red_bits(xl, a);
//@@|        lemma_mont_core(xh as int, xl as int, (xl << 32) as int, a as int, if e { 1int } else { 0int }, (a >> 32) as int, b as int,
//@@|            r as int, if c { 1int } else { 0int }, fin__ as int);
//@@|    }
pub const fn mont_red_cst(x: u128) -> (r: u64)
    requires (x as int) < P * T64,
    ensures r < M,
        exists|q: int| mont_wit(x as int, r as int, q),
{
    /*@@body*/
}

//@@ extract anchor="const fn mont_to_int(x: u64) -> u64"
//@@ tailbind fin__
//@@|    proof {
//@@|        lemma_consts();
//@@|        lemma_red_bits(x, a);
//@@|        lemma_mont_core(0, x as int, (x << 32) as int, a as int, if e { 1int } else { 0int }, (a >> 32) as int, b as int,
//@@|            r as int, if c { 1int } else { 0int }, fin__ as int);
//@@|    }
pub const fn mont_to_int(x: u64) -> (r: u64)
    ensures r < M,
        exists|q: int| mont_wit(x as int, r as int, q),
{
    /*@@body*/
}

/// mont_red_cst in residue form
pub fn mont_red(x: u128) -> (r: u64)
    requires (x as int) < P * T64,
    ensures r < M, r as int == redc(x as int)
{
    let r = mont_red_cst(x);
    proof {
        lemma_consts();
        let q = choose|q: int| mont_wit(x as int, r as int, q);
        lemma_witness(r as int, x as int, q);
        lemma_mont(r as int, x as int);
    }
    r
}

impl AddSpecImpl<BaseElement> for BaseElement {
    open spec fn obeys_add_spec() -> bool { true }
    open spec fn add_req(self, rhs: BaseElement) -> bool { wf(self) && wf(rhs) }
    open spec fn add_spec(self, rhs: BaseElement) -> BaseElement { BaseElement(((self.0 as int + rhs.0 as int) % P) as u64) }
}
impl core::ops::Add for BaseElement {
    type Output = Self;
    //@@ source math/src/field/f64/mod.rs
    //@@ extract within="impl Add for BaseElement" anchor="fn add(self, rhs: Self) -> Self"
    fn add(self, rhs: Self) -> Self {
        proof {
            lemma_consts();
            let t = self.0 as int + rhs.0 as int;
            if t < P { lemma_small_mod(t as nat, P as nat); } else { lemma_small_mod((t - P) as nat, P as nat); lemma_mod_multiples_vanish(-1, t, P); }
        }
        /*@@body*/
    }
}
impl SubSpecImpl<BaseElement> for BaseElement {
    open spec fn obeys_sub_spec() -> bool { true }
    open spec fn sub_req(self, rhs: BaseElement) -> bool { wf(self) && wf(rhs) }
    open spec fn sub_spec(self, rhs: BaseElement) -> BaseElement { BaseElement(((self.0 as int - rhs.0 as int) % P) as u64) }
}
impl core::ops::Sub for BaseElement {
    type Output = Self;
    //@@ extract within="impl Sub for BaseElement" anchor="fn sub(self, rhs: Self) -> Self"
    fn sub(self, rhs: Self) -> Self {
        proof {
            lemma_consts();
            let t = self.0 as int - rhs.0 as int;
            if t >= 0 { lemma_small_mod(t as nat, P as nat); } else { lemma_small_mod((t + P) as nat, P as nat); lemma_mod_multiples_vanish(1, t, P); }
        }
        /*@@body*/
    }
}

// ---- Mul: real body --------------------------------------------------------------------------------

impl MulSpecImpl<BaseElement> for BaseElement {
    open spec fn obeys_mul_spec() -> bool { true }
    open spec fn mul_req(self, rhs: BaseElement) -> bool { wf(self) && wf(rhs) }
    open spec fn mul_spec(self, rhs: BaseElement) -> BaseElement { BaseElement(redc(self.0 as int * rhs.0 as int) as u64) }
}

pub proof fn lemma_mul_val(a: BaseElement, b: BaseElement)
    requires wf(a), wf(b)
    ensures wf(MulSpec::mul_spec(a, b)), v(MulSpec::mul_spec(a, b)) == (v(a) * v(b)) % P
{
    lemma_consts();
    lemma_redc_mul(a.0 as int, b.0 as int);
}

impl core::ops::Mul for BaseElement {
    type Output = Self;
    //@@ source math/src/field/f64/mod.rs
    //@@ extract within="impl Mul for BaseElement" anchor="fn mul(self, rhs: Self) -> Self"
    //@@ rewrite "mont_red_cst(" => "mont_red("
    fn mul(self, rhs: Self) -> Self {
        proof {
            lemma_consts();
            assert((self.0 as u128) * (rhs.0 as u128) < 0xFFFFFFFF00000001_0000000000000000u128) by (nonlinear_arith)
                requires self.0 < 0xFFFFFFFF00000001u64, rhs.0 < 0xFFFFFFFF00000001u64;
            assert(P * T64 == 0xFFFFFFFF00000001_0000000000000000int) by (compute);
        }
        /*@@body*/
    }
}

impl BaseElement {
    //@@ source math/src/field/f64/mod.rs
    //@@ extract anchor="pub const fn new(value: u64) -> BaseElement"
    //@@ rewrite "mont_red_cst(" => "mont_red("
    pub fn new(value: u64) -> (res: BaseElement)
        ensures wf(res), v(res) == (value as int) % P
    {
        proof {
            lemma_consts();
            lemma_new(value as int);
            assert((value as u128) * (R2 as u128) < 0xFFFFFFFF00000001_0000000000000000u128) by (nonlinear_arith)
                requires value <= 0xFFFFFFFFFFFFFFFFu64, R2 < 0xFFFFFFFF00000001u64;
            assert(P * T64 == 0xFFFFFFFF00000001_0000000000000000int) by (compute);
        }
        /*@@body*/
    }

    //@@ source math/src/field/traits.rs
    //@@ extract anchor="fn square(self) -> Self"
    pub open spec fn square_spec(self) -> Self { MulSpec::mul_spec(self, self) }

    pub fn square(self) -> (r: Self)
        requires wf(self)
        ensures wf(r), v(r) == (v(self) * v(self)) % P, r == self.square_spec()
    {
        proof { lemma_mul_val(self, self); }
        /*@@body*/
    }
}

// ---- exponentiation ------------------------------------------------------------------------------------

proof fn lemma_powm_one(b: int)
    requires 0 <= b < P
    ensures powm(b, 1) == b
{
    reveal_with_fuel(powm, 2);
    lemma_small_mod(b as nat, P as nat);
}

pub proof fn lemma_v_range(a: BaseElement)
    ensures 0 <= v(a) < P
{
}

/// the top bits of power: power >> i for i < 64, 0 for i == 64
pub open spec fn high(power: u64, i: u32) -> nat { if i >= 64 { 0 } else { (power >> i) as nat } }

impl BaseElement {
    pub fn one() -> (r: Self) ensures wf(r), v(r) == 1
    {
        proof { lemma_small_mod(1, P as nat); }
        /*@@expr source="math/src/field/f64/mod.rs" anchor="const ONE: Self ="*/
    }

    //@@ source math/src/field/f64/mod.rs
    //@@ extract within="impl FieldElement for BaseElement" anchor="fn exp(self, power: Self::PositiveInteger) -> Self"
    //@@ rewrite "Self::ONE" => "Self::one()"
    //@@ rewrite "for i in (0..64).rev() {" => "let mut i: u32 = 64; while i > 0 { i = i - 1;"
    //@@ rewrite "b *= self;" => "b = b * self;"
    //@@ rewrite "let mask = -(((power >> i) & 1 == 1) as i64) as u64;" => "let mask: u64 = #[verifier::truncate] ((-(if (power >> i) & 1 == 1 { 1i64 } else { 0i64 })) as u64);"
    //@@ rewrite "r.0 ^= mask & (r.0 ^ b.0);" => "r = BaseElement(r.0 ^ (mask & (r.0 ^ b.0)));"
    //@@ before "let mut i: u32 = 64;"
    //@@|        let ghost x = v(self);
    //@@|        proof { reveal_with_fuel(powm, 1); }
    //@@ after "i = i - 1;"
    //@@|            let ghost e_old = high(power, (i + 1) as u32);
    //@@ loop 1
    //@@|            invariant
    //@@|                wf(r), wf(self), i <= 64, x == v(self), 0 <= x < P,
    //@@|                v(r) == powm(x, high(power, i)),
    //@@|            decreases i
    //@@ after "r = r.square();"
    //@@|            proof {
    //@@|                lemma_powm_add(x, e_old, e_old);
    //@@|                assert(v(r) == powm(x, e_old + e_old));
    //@@|            }
    //@@ after "b = b * self;"
    //@@|            proof {
    //@@|                lemma_mul_val(r, self);
    //@@|                lemma_powm_one(x);
    //@@|                lemma_powm_add(x, e_old + e_old, 1);
    //@@|                assert(v(b) == powm(x, e_old + e_old + 1));
    //@@|                let i64_: u64 = i as u64;
    //@@|                assert(i64_ < 63 ==> power >> i64_ == 2 * (power >> ((i64_ + 1) as u64)) + ((power >> i64_) & 1)) by (bit_vector);
    //@@|                assert(i64_ == 63 ==> power >> i64_ == ((power >> i64_) & 1)) by (bit_vector);
    //@@|                assert((power >> i64_) & 1 == 0 || (power >> i64_) & 1 == 1) by (bit_vector);
    //@@|                assert(power >> i == power >> i64_) by (bit_vector) requires i64_ == i as u64, i < 64;
    //@@|                assert(high(power, i) == e_old + e_old + ((power >> i) & 1));
    //@@|            }
    //@@ after "as u64);"
    //@@|            proof {
    //@@|                let (ro, bo) = (r.0, b.0);
    //@@|                assert(mask == 0xFFFF_FFFF_FFFF_FFFFu64 ==> ro ^ (mask & (ro ^ bo)) == bo) by (bit_vector);
    //@@|                assert(mask == 0u64 ==> ro ^ (mask & (ro ^ bo)) == ro) by (bit_vector);
    //@@|                let m1: i64 = -1i64;
    //@@|                assert((#[verifier::truncate] (m1 as u64)) == 0xFFFF_FFFF_FFFF_FFFFu64) by (bit_vector) requires m1 == -1i64;
    //@@|                assert((power >> i) & 1 == 1 ==> mask == 0xFFFF_FFFF_FFFF_FFFFu64);
    //@@|                assert((power >> i) & 1 != 1 ==> mask == 0u64);
    //@@|            }
    //@@ after "r = BaseElement(r.0 ^ (mask & (r.0 ^ b.0))); }"
    //@@|        proof { assert(power >> 0u32 == power) by (bit_vector); }
    pub fn exp(self, power: u64) -> (res: Self)
        requires wf(self)
        ensures wf(res), v(res) == powm(v(self), power as nat)
    {
        hide(redc);
        proof { lemma_consts(); lemma_v_range(self); }
        /*@@body*/
    }
}

// ---- inversion by the addition chain x^(P-2) -------------------------------------------------------------

pub open spec fn p2(n: nat) -> nat
    decreases n
{ if n == 0 { 1 } else { 2 * p2((n - 1) as nat) } }

/// (x^a)^b == x^(a*b)
proof fn lemma_powm_pow(x: int, a: nat, b: nat)
    requires 0 <= x < P
    ensures powm(powm(x, a), b) == powm(x, a * b)
    decreases b
{
    lemma_powm_range(x, a);
    if b == 0 {
        reveal_with_fuel(powm, 1);
        assert(a * 0 == 0);
    } else {
        lemma_powm_pow(x, a, (b - 1) as nat);
        let y = powm(x, a);
        // powm(y, b) == (y * powm(y, b-1)) % P == (powm(x,a) * powm(x, a*(b-1))) % P == powm(x, a + a*(b-1))
        reveal_with_fuel(powm, 1);
        lemma_powm_add(x, a, a * ((b - 1) as nat));
        assert(a + a * ((b - 1) as nat) == a * b) by (nonlinear_arith) requires b >= 1;
    }
}

/// squaring n times raises to the power 2^n
proof fn lemma_powm_sq_step(x: int, e: nat)
    requires 0 <= x < P
    ensures (powm(x, e) * powm(x, e)) % P == powm(x, 2 * e)
{
    lemma_powm_add(x, e, e);
}

//@@ source math/src/field/f64/mod.rs
//@@ extract anchor="fn exp_acc<const N: usize>(base: BaseElement, tail: BaseElement) -> BaseElement"
//@@ rewrite "for _ in 0..N {" => "let mut k: usize = 0; while k < N {"
//@@ rewrite "result = result.square();" => "result = result.square(); k = k + 1;"
//@@ before "let mut k: usize = 0;"
//@@|    let ghost xb = v(base);
//@@|    proof { lemma_v_range(base); lemma_powm_one(xb); }
//@@ loop 1
//@@|        invariant wf(result), wf(tail), k <= N, xb == v(base), 0 <= xb < P, v(result) == powm(xb, p2(k as nat)),
//@@|        decreases N - k
//@@ after "result = result.square(); k = k + 1;"
//@@|        proof {
//@@|            lemma_powm_sq_step(xb, p2((k - 1) as nat));
//@@|            reveal_with_fuel(p2, 2);
//@@|        }
//@@ before "result * tail"
//@@|    proof { lemma_mul_val(result, tail); }
pub fn exp_acc<const N: usize>(base: BaseElement, tail: BaseElement) -> (r: BaseElement)
    requires wf(base), wf(tail)
    ensures wf(r), v(r) == (powm(v(base), p2(N as nat)) * v(tail)) % P
{
    hide(redc);
    proof { lemma_consts(); reveal_with_fuel(p2, 1); }
    /*@@body*/
}

pub proof fn lemma_sq_val(a: BaseElement)
    requires wf(a)
    ensures wf(a.square_spec()), v(a.square_spec()) == (v(a) * v(a)) % P
{
    lemma_mul_val(a, a);
}

/// exponent bookkeeping of the chain: with e(t) the exponent of x held by t,
/// exp_acc<n>(t, u) holds e(t) * 2^n + e(u)
proof fn lemma_acc(x: int, et: nat, eu: nat, n: nat, vt: int, vu: int, vr: int)
    requires 0 <= x < P, vt == powm(x, et), vu == powm(x, eu), vr == (powm(vt, p2(n)) * vu) % P
    ensures vr == powm(x, et * p2(n) + eu)
{
    lemma_powm_pow(x, et, p2(n));
    lemma_powm_add(x, et * p2(n), eu);
}

proof fn lemma_sq_mul(x: int, et: nat, vt: int, vs: int, vr: int)
    requires 0 <= x < P, vt == powm(x, et), vs == (vt * vt) % P, vr == (vs * x) % P
    ensures vr == powm(x, 2 * et + 1), vs == powm(x, 2 * et)
{
    lemma_powm_add(x, et, et);
    lemma_powm_one(x);
    lemma_powm_add(x, 2 * et, 1);
}

impl BaseElement {
    //@@ extract within="impl FieldElement for BaseElement" anchor="fn inv(self) -> Self"
    //@@ before "let t2 = self.square() * self;"
    //@@|        let ghost x = v(self);
    //@@|        proof {
    //@@|            lemma_v_range(self); lemma_powm_one(x);
    //@@|            lemma_sq_val(self);
    //@@|            lemma_mul_val(self.square_spec(), self);
    //@@|        }
    //@@ after "let t2 = self.square() * self;"
    //@@|        proof { lemma_sq_mul(x, 1, x, v(self.square_spec()), v(t2)); lemma_sq_val(t2); lemma_mul_val(t2.square_spec(), self); }
    //@@ after "let t3 = t2.square() * self;"
    //@@|        proof { lemma_sq_mul(x, 3, v(t2), v(t2.square_spec()), v(t3)); }
    //@@ after "let t6 = exp_acc::<3>(t3, t3);"
    //@@|        proof { assert(p2(3) == 8) by (compute); lemma_acc(x, 7, 7, 3, v(t3), v(t3), v(t6)); }
    //@@ after "let t12 = exp_acc::<6>(t6, t6);"
    //@@|        proof { assert(p2(6) == 64) by (compute); lemma_acc(x, 63, 63, 6, v(t6), v(t6), v(t12)); }
    //@@ after "let t24 = exp_acc::<12>(t12, t12);"
    //@@|        proof { assert(p2(12) == 4096) by (compute); lemma_acc(x, 4095, 4095, 12, v(t12), v(t12), v(t24)); }
    //@@ after "let t30 = exp_acc::<6>(t24, t6);"
    //@@|        proof { lemma_acc(x, 16777215, 63, 6, v(t24), v(t6), v(t30)); lemma_sq_val(t30); lemma_mul_val(t30.square_spec(), self); }
    //@@ after "let t31 = t30.square() * self;"
    //@@|        proof { lemma_sq_mul(x, 1073741823, v(t30), v(t30.square_spec()), v(t31)); }
    //@@ after "let t63 = exp_acc::<32>(t31, t31);"
    //@@|        proof {
    //@@|            assert(p2(32) == 4294967296) by (compute);
    //@@|            lemma_acc(x, 2147483647, 2147483647, 32, v(t31), v(t31), v(t63));
    //@@|            lemma_sq_val(t63);
    //@@|            lemma_mul_val(t63.square_spec(), self);
    //@@|            lemma_sq_mul(x, 9223372034707292159, v(t63), v(t63.square_spec()), (v(t63.square_spec()) * x) % P);
    //@@|        }
    pub fn inv(self) -> (r: Self)
        requires wf(self)
        ensures wf(r), v(r) == powm(v(self), (P - 2) as nat)
    {
        hide(redc);
        proof { lemma_consts(); }
        /*@@body*/
    }

    //@@ extract anchor="pub fn exp7(self) -> Self"
    pub fn exp7(self) -> (r: Self)
        requires wf(self)
        ensures wf(r), v(r) == powm(v(self), 7)
    {
        hide(redc);
        proof {
            lemma_consts();
            let x = v(self);
            lemma_v_range(self); lemma_powm_one(x);
            let x2 = self.square_spec();
            lemma_sq_val(self);
            let x4 = x2.square_spec();
            lemma_sq_val(x2);
            lemma_mul_val(x2, self);
            let x3 = MulSpec::mul_spec(x2, self);
            lemma_mul_val(x3, x4);
            lemma_powm_add(x, 1, 1); lemma_powm_add(x, 2, 2); lemma_powm_add(x, 2, 1); lemma_powm_add(x, 3, 4);
        }
        /*@@body*/
    }
}

// ---- division, canonical integer, additive lifting ---------------------------------------------------

pub proof fn lemma_add_val(a: BaseElement, b: BaseElement)
    requires wf(a), wf(b)
    ensures wf(AddSpec::add_spec(a, b)), v(AddSpec::add_spec(a, b)) == (v(a) + v(b)) % P
{
    lemma_consts();
    lemma_redc_add(a.0 as int, b.0 as int);
}

pub proof fn lemma_sub_val(a: BaseElement, b: BaseElement)
    requires wf(a), wf(b)
    ensures wf(SubSpec::sub_spec(a, b)), v(SubSpec::sub_spec(a, b)) == (v(a) - v(b)) % P
{
    lemma_consts();
    lemma_redc_sub(a.0 as int, b.0 as int);
}

/// mont_to_int in residue form
pub fn mont_to_int_r(x: u64) -> (r: u64)
    ensures r < M, r as int == redc(x as int)
{
    let r = mont_to_int(x);
    proof {
        lemma_consts();
        let q = choose|q: int| mont_wit(x as int, r as int, q);
        lemma_witness(r as int, x as int, q);
        lemma_mont(r as int, x as int);
    }
    r
}

impl BaseElement {
    pub fn zero() -> (r: Self) ensures wf(r), v(r) == 0
    {
        proof { lemma_small_mod(0, P as nat); }
        /*@@expr source="math/src/field/f64/mod.rs" anchor="const ZERO: Self ="*/
    }

    /// Div::div
    //@@ source math/src/field/f64/mod.rs
    //@@ extract within="impl Div for BaseElement" anchor="fn div(self, rhs: Self) -> Self"
    pub fn div(self, rhs: Self) -> (r: Self)
        requires wf(self), wf(rhs)
        ensures wf(r), v(r) == (v(self) * powm(v(rhs), (P - 2) as nat)) % P
    {
        hide(redc);
        proof {
            assert forall|t: BaseElement| wf(t) implies wf(#[trigger] MulSpec::mul_spec(self, t)) && v(MulSpec::mul_spec(self, t)) == (v(self) * v(t)) % P by {
                lemma_mul_val(self, t);
            }
        }
        /*@@body*/
    }

    /// Neg::neg
    //@@ extract within="impl Neg for BaseElement" anchor="fn neg(self) -> Self"
    //@@ rewrite "Self::ZERO" => "Self::zero()"
    pub fn neg(self) -> (r: Self)
        requires wf(self)
        ensures wf(r), v(r) == (0 - v(self)) % P
    {
        hide(redc);
        proof {
            assert forall|t: BaseElement| wf(t) implies wf(#[trigger] SubSpec::sub_spec(t, self)) && v(SubSpec::sub_spec(t, self)) == (v(t) - v(self)) % P by {
                lemma_sub_val(t, self);
            }
        }
        /*@@body*/
    }

    /// StarkField::as_int: the canonical integer of the residue
    //@@ extract within="impl StarkField for BaseElement" anchor="fn as_int(&self) -> Self::PositiveInteger"
    //@@ rewrite "mont_to_int(" => "mont_to_int_r("
    pub fn as_int(&self) -> (r: u64)
        ensures (r as int) == v(*self), (r as int) < P
    {
        proof { lemma_consts(); }
        /*@@body*/
    }

    //@@ extract within="impl From<u32> for BaseElement" anchor="fn from(value: u32) -> Self"
    //@@ rewrite "value.into()" => "value as u64"
    pub fn from_u32(value: u32) -> (r: Self)
        ensures wf(r), v(r) == value as int
    {
        proof { lemma_small_mod(value as nat, P as nat); }
        /*@@body*/
    }
}

// ---- roots of unity ------------------------------------------------------------------------------------
pub const ROOT: u64 = /*@@expr source="math/src/field/f64/mod.rs" anchor="const TWO_ADIC_ROOT_OF_UNITY: Self = Self::new(" end=")"*/;

pub open spec fn pow_sq(b: int, e: nat) -> int
    decreases e
{
    if e == 0 { 1 } else {
        let h = pow_sq(b, e / 2);
        if e % 2 == 0 { (h * h) % P } else { (((h * h) % P) * b) % P }
    }
}

/// square-and-multiply equals the linear power (so that constants can be evaluated by `compute`)
proof fn lemma_pow_sq(b: int, e: nat)
    requires 0 <= b < P
    ensures pow_sq(b, e) == powm(b, e)
    decreases e
{
    if e == 0 {
        reveal_with_fuel(powm, 1);
    } else {
        let h = e / 2;
        lemma_pow_sq(b, h);
        lemma_powm_add(b, h, h);
        lemma_powm_range(b, h + h);
        if e % 2 == 1 {
            lemma_powm_add(b, h + h, 1);
            lemma_powm_one(b);
        }
    }
}

proof fn lemma_shl_pow2(k: u32)
    requires k < 64
    ensures (1u64 << k) == vstd::arithmetic::power2::pow2(k as nat)
    decreases k
{
    if k == 0 {
        assert(1u64 << 0u32 == 1) by (bit_vector);
        vstd::arithmetic::power2::lemma2_to64();
    } else {
        let j = (k - 1) as u32;
        lemma_shl_pow2(j);
        assert((1u64 << ((j + 1) as u32)) == 2 * (1u64 << j)) by (bit_vector) requires j < 63;
        vstd::arithmetic::power2::lemma_pow2_unfold(k as nat);
    }
}

impl BaseElement {
    pub const TWO_ADICITY: u32 = /*@@expr source="math/src/field/f64/mod.rs" anchor="const TWO_ADICITY: u32 ="*/;

    /// StarkField::get_root_of_unity (default method, 64-bit instantiation): for every admissible n the result has
    /// multiplicative order exactly 2^n
    //@@ source math/src/field/traits.rs
    //@@ extract anchor="fn get_root_of_unity(n: u32) -> Self"
    //@@ rewrite "Self::PositiveInteger::from(1u32)" => "1u64"
    //@@ rewrite "Self::TWO_ADIC_ROOT_OF_UNITY" => "Self::new(ROOT)"
    //@@ rewrite-re "assert!\(([^,]+),[^;]*\);" => "assert(\1);"
    pub fn get_root_of_unity(n: u32) -> (r: Self)
        requires n != 0, n <= BaseElement::TWO_ADICITY
        ensures
            wf(r),
            powm(v(r), (1u64 << n) as nat) == 1,
            powm(v(r), (1u64 << ((n - 1) as u32)) as nat) == P - 1,
    {
        let ghost a: nat = (1u64 << ((BaseElement::TWO_ADICITY - n) as u32)) as nat;
        proof {
            lemma_consts();
            assert(BaseElement::TWO_ADICITY == 32 && ROOT as int == 7277203076849721926int) by (compute);
            assert(0 <= ROOT as int && (ROOT as int) < P) by (compute);
            lemma_small_mod(ROOT as nat, P as nat);
            let g = ROOT as int;
            assert(pow_sq(ROOT as int, 0x100000000nat) == 1) by (compute);
            assert(pow_sq(ROOT as int, 0x80000000nat) == P - 1) by (compute);
            lemma_pow_sq(g, 0x100000000nat);
            lemma_pow_sq(g, 0x80000000nat);
            lemma_shl_pow2((32 - n) as u32); lemma_shl_pow2(n); lemma_shl_pow2((n - 1) as u32);
            vstd::arithmetic::power2::lemma_pow2_adds((32 - n) as nat, n as nat);
            vstd::arithmetic::power2::lemma_pow2_adds((32 - n) as nat, (n - 1) as nat);
            vstd::arithmetic::power2::lemma2_to64(); vstd::arithmetic::power2::lemma2_to64_rest();
            assert(vstd::arithmetic::power2::pow2(32) == 0x100000000 && vstd::arithmetic::power2::pow2(31) == 0x80000000);
            lemma_powm_pow(g, a, (1u64 << n) as nat);
            lemma_powm_pow(g, a, (1u64 << ((n - 1) as u32)) as nat);
        }
        /*@@body*/
    }
}

proof fn f64_canary_must_fail()
    ensures redc(5) == 5
{
}

} // verus!

fn main() {}
