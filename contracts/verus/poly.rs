// Verus unit poly: the index-loop functions of math/src/polynom/mod.rs and math/src/utils/mod.rs against an
// ABSTRACT coefficient structure E (uninterpreted +, -, *; nothing is assumed about them - no ring axiom is
// used, so the result holds for base and extension fields alike, and for every representation).
// Decided, for every input length and every coefficient value:
//   add / sub      result has max(len a, len b) coefficients, coefficient i is coef(a,i) (+|-) coef(b,i), a missing
//                  coefficient counting as ZERO
//   mul            result has len a + len b - 1 coefficients, coefficient k is the schoolbook sum of a[i] * b[k-i]
//                  over the admissible i in increasing order of i (the documented definition, written as a
//                  recursive specification)
//   mul_by_scalar  coefficient i is p[i] * k
//   degree_of      the index of the last non-ZERO coefficient, 0 when there is none
//   fill_power_series   result[i] == start * base^i (left-nested products)
// Not decided here: that E's operations are those of a field (C07 / C08 decide that for the real types); the
// functions written with iterator adapters (eval, interpolate, syn_div*, batch inversion): bounded stand-in only.
use vstd::prelude::*;
use vstd::std_specs::ops::*;

verus! {

#[derive(Copy, Clone, PartialEq, Eq, Structural)]
pub struct E(pub u64);

pub uninterp spec fn add_of(a: E, b: E) -> E;
pub uninterp spec fn sub_of(a: E, b: E) -> E;
pub uninterp spec fn mul_of(a: E, b: E) -> E;

impl AddSpecImpl<E> for E {
    open spec fn obeys_add_spec() -> bool { true }
    open spec fn add_req(self, rhs: E) -> bool { true }
    open spec fn add_spec(self, rhs: E) -> E { add_of(self, rhs) }
}
impl core::ops::Add for E { type Output = Self; #[verifier::external_body] fn add(self, rhs: Self) -> Self { unimplemented!() } }
impl SubSpecImpl<E> for E {
    open spec fn obeys_sub_spec() -> bool { true }
    open spec fn sub_req(self, rhs: E) -> bool { true }
    open spec fn sub_spec(self, rhs: E) -> E { sub_of(self, rhs) }
}
impl core::ops::Sub for E { type Output = Self; #[verifier::external_body] fn sub(self, rhs: Self) -> Self { unimplemented!() } }
impl MulSpecImpl<E> for E {
    open spec fn obeys_mul_spec() -> bool { true }
    open spec fn mul_req(self, rhs: E) -> bool { true }
    open spec fn mul_spec(self, rhs: E) -> E { mul_of(self, rhs) }
}
impl core::ops::Mul for E { type Output = Self; #[verifier::external_body] fn mul(self, rhs: Self) -> Self { unimplemented!() } }
// `x += y` is `x = x + y` (the three base fields and both extension wrappers implement AddAssign that way)
impl AddAssignSpecImpl<E> for E {
    open spec fn obeys_add_assign_spec() -> bool { true }
    open spec fn add_assign_req(&self, rhs: E) -> bool { true }
    open spec fn add_assign_spec(&self, rhs: E) -> &E { &add_of(*self, rhs) }
}
impl core::ops::AddAssign for E { #[verifier::external_body] fn add_assign(&mut self, rhs: Self) { unimplemented!() } }

impl E {
    pub const ZERO: E = E(0);
}

pub fn max_usize(a: usize, b: usize) -> (r: usize)
    ensures r == (if a > b { a } else { b })
{
    if a > b { a } else { b }
}

pub open spec fn coef(p: Seq<E>, i: int) -> E {
    if 0 <= i < p.len() { p[i] } else { E::ZERO }
}

// schoolbook coefficient k of a * b restricted to the first n coefficients of a, summed in increasing i
pub open spec fn conv(a: Seq<E>, b: Seq<E>, k: int, n: int) -> E
    decreases n
{
    if n <= 0 {
        E::ZERO
    } else if 0 <= k - (n - 1) < b.len() {
        add_of(conv(a, b, k, n - 1), mul_of(a[n - 1], b[k - (n - 1)]))
    } else {
        conv(a, b, k, n - 1)
    }
}

pub open spec fn pw(start: E, base: E, i: int) -> E
    decreases i
{
    if i <= 0 { start } else { mul_of(pw(start, base, i - 1), base) }
}

//@@ source math/src/polynom/mod.rs
//@@ extract anchor="pub fn add<E>(a: &[E], b: &[E]) -> Vec<E>"
//@@ rewrite "core::cmp::max(" => "max_usize("
//@@ loop 1
//@@|        invariant
//@@|            result.len() == i,
//@@|            result_len == (if a.len() > b.len() { a.len() } else { b.len() }),
//@@|            forall|t: int| 0 <= t < i ==> result@[t] == add_of(coef(a@, t), coef(b@, t)),
pub fn add(a: &[E], b: &[E]) -> (r: Vec<E>)
    ensures
        r.len() == (if a.len() > b.len() { a.len() } else { b.len() }),
        forall|t: int| 0 <= t < r.len() ==> r@[t] == add_of(coef(a@, t), coef(b@, t)),
{
    /*@@body*/
}

//@@ extract anchor="pub fn sub<E>(a: &[E], b: &[E]) -> Vec<E>"
//@@ rewrite "core::cmp::max(" => "max_usize("
//@@ loop 1
//@@|        invariant
//@@|            result.len() == i,
//@@|            result_len == (if a.len() > b.len() { a.len() } else { b.len() }),
//@@|            forall|t: int| 0 <= t < i ==> result@[t] == sub_of(coef(a@, t), coef(b@, t)),
pub fn sub(a: &[E], b: &[E]) -> (r: Vec<E>)
    ensures
        r.len() == (if a.len() > b.len() { a.len() } else { b.len() }),
        forall|t: int| 0 <= t < r.len() ==> r@[t] == sub_of(coef(a@, t), coef(b@, t)),
{
    /*@@body*/
}

//@@ extract anchor="pub fn mul<E>(a: &[E], b: &[E]) -> Vec<E>"
//@@ loop 1
//@@|        invariant
//@@|            result.len() == result_len, result_len == a.len() + b.len() - 1, a.len() >= 1, b.len() >= 1,
//@@|            forall|k: int| 0 <= k < result_len ==> result@[k] == conv(a@, b@, k, i as int),
//@@ loop 2
//@@|            invariant
//@@|                result.len() == result_len, result_len == a.len() + b.len() - 1, i < a.len(), b.len() >= 1,
//@@|                forall|k: int| 0 <= k < result_len ==> result@[k] ==
//@@|                    (if 0 <= k - i < j { conv(a@, b@, k, i as int + 1) } else { conv(a@, b@, k, i as int) }),
pub fn mul(a: &[E], b: &[E]) -> (r: Vec<E>)
    requires
        a.len() >= 1, b.len() >= 1, a.len() + b.len() <= usize::MAX,
    ensures
        r.len() == a.len() + b.len() - 1,
        forall|k: int| 0 <= k < r.len() ==> r@[k] == conv(a@, b@, k, a.len() as int),
{
    /*@@body*/
}

//@@ extract anchor="pub fn mul_by_scalar<E>(p: &[E], k: E) -> Vec<E>"
//@@ itername 1 it
//@@ loop 1
//@@|        invariant
//@@|            result.len() == it.index@,
//@@|            forall|t: int| 0 <= t < it.index@ ==> result@[t] == mul_of(p@[t], k),
pub fn mul_by_scalar(p: &[E], k: E) -> (r: Vec<E>)
    ensures
        r.len() == p.len(),
        forall|t: int| 0 <= t < r.len() ==> r@[t] == mul_of(p@[t], k),
{
    /*@@body*/
}

//@@ extract anchor="pub fn degree_of<E>(poly: &[E]) -> usize"
//@@ itername 1 it
//@@ loop 1
//@@|        invariant
//@@|            forall|t: int| poly.len() - it.index@ <= t < poly.len() ==> poly@[t] == E::ZERO,
pub fn degree_of(poly: &[E]) -> (d: usize)
    ensures
        (forall|t: int| 0 <= t < poly.len() ==> poly@[t] == E::ZERO) ==> d == 0,
        (exists|t: int| 0 <= t < poly.len() && poly@[t] != E::ZERO) ==> (d < poly.len() && poly@[d as int] != E::ZERO
            && forall|t: int| d < t < poly.len() ==> poly@[t] == E::ZERO),
{
    /*@@body*/
}

//@@ source math/src/utils/mod.rs
//@@ extract anchor="fn fill_power_series<E: FieldElement>(result: &mut [E], base: E, start: E)"
//@@ itername 1 it
//@@ loop 1
//@@|        invariant
//@@|            result.len() == old(result).len(), 1 <= i, it.iter.end == old(result).len(),
//@@|            forall|t: int| #![trigger result@[t]] 0 <= t < i && t < result.len() ==> result@[t] == pw(start, base, t),
pub fn fill_power_series(result: &mut [E], base: E, start: E)
    ensures
        final(result).len() == old(result).len(),
        forall|t: int| 0 <= t < old(result).len() ==> final(result)@[t] == pw(start, base, t),
{
    /*@@body*/
}

proof fn poly_canary_must_fail()
    ensures forall|a: E, b: E| add_of(a, b) == add_of(b, a)
{
}

} // verus!

fn main() {}
