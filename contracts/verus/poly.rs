// Verus unit poly: the index-loop functions of math/src/polynom/mod.rs and math/src/utils/mod.rs against an
// ABSTRACT coefficient structure E (uninterpreted +, -, *, /; for every function except `div` nothing is assumed about
// them - no ring axiom is used, so the result holds for base and extension fields alike, and for every representation).
// Decided, for every input length and every coefficient value:
//   add / sub      result has max(len a, len b) coefficients, coefficient i is coef(a,i) (+|-) coef(b,i), a missing
//                  coefficient counting as ZERO
//   mul            result has len a + len b - 1 coefficients, coefficient k is the schoolbook sum of a[i] * b[k-i]
//                  over the admissible i in increasing order of i (the documented definition, written as a
//                  recursive specification)
//   mul_by_scalar  coefficient i is p[i] * k
//   degree_of      the index of the last non-ZERO coefficient, 0 when there is none
//   fill_power_series   result[i] == start * base^i (left-nested products)
//   remove_leading_zeros   the coefficients up to and including the last non-ZERO one; empty for the zero polynomial
//   poly_from_roots / fill_zero_roots   the product of the (x - root) factors, coefficient by coefficient (rp below)
//   div            see the comment above `div` (uses five algebraic laws as assumptions; all the other functions use none)
// Not decided here: that E's operations are those of a field (C07 / C08 decide that for the real types); the
// functions written with iterator adapters (eval, interpolate, syn_div*, batch inversion): bounded stand-in only.
use vstd::prelude::*;
use vstd::std_specs::ops::*;

verus! {

#[derive(Copy, Clone, PartialEq, Eq, Structural)]
pub struct E(pub u64);

pub uninterp spec fn add_of(a: E, b: E) -> E;
pub uninterp spec fn sub_of(a: E, b: E) -> E;
pub uninterp spec fn mul_of(a: E, b: E) -> E;

impl AddSpecImpl<E> for E {
    open spec fn obeys_add_spec() -> bool { true }
    open spec fn add_req(self, rhs: E) -> bool { true }
    open spec fn add_spec(self, rhs: E) -> E { add_of(self, rhs) }
}
impl core::ops::Add for E { type Output = Self; #[verifier::external_body] fn add(self, rhs: Self) -> Self { unimplemented!() } }
impl SubSpecImpl<E> for E {
    open spec fn obeys_sub_spec() -> bool { true }
    open spec fn sub_req(self, rhs: E) -> bool { true }
    open spec fn sub_spec(self, rhs: E) -> E { sub_of(self, rhs) }
}
impl core::ops::Sub for E { type Output = Self; #[verifier::external_body] fn sub(self, rhs: Self) -> Self { unimplemented!() } }
impl MulSpecImpl<E> for E {
    open spec fn obeys_mul_spec() -> bool { true }
    open spec fn mul_req(self, rhs: E) -> bool { true }
    open spec fn mul_spec(self, rhs: E) -> E { mul_of(self, rhs) }
}
impl core::ops::Mul for E { type Output = Self; #[verifier::external_body] fn mul(self, rhs: Self) -> Self { unimplemented!() } }
// `x += y` is `x = x + y` (the three base fields and both extension wrappers implement AddAssign that way)
impl AddAssignSpecImpl<E> for E {
    open spec fn obeys_add_assign_spec() -> bool { true }
    open spec fn add_assign_req(&self, rhs: E) -> bool { true }
    open spec fn add_assign_spec(&self, rhs: E) -> &E { &add_of(*self, rhs) }
}
impl core::ops::AddAssign for E { #[verifier::external_body] fn add_assign(&mut self, rhs: Self) { unimplemented!() } }

impl E {
    pub const ZERO: E = E(0);
    pub const ONE: E = E(1);
}

pub fn max_usize(a: usize, b: usize) -> (r: usize)
    ensures r == (if a > b { a } else { b })
{
    if a > b { a } else { b }
}

pub open spec fn coef(p: Seq<E>, i: int) -> E {
    if 0 <= i < p.len() { p[i] } else { E::ZERO }
}

// schoolbook coefficient k of a * b restricted to the first n coefficients of a, summed in increasing i
pub open spec fn conv(a: Seq<E>, b: Seq<E>, k: int, n: int) -> E
    decreases n
{
    if n <= 0 {
        E::ZERO
    } else if 0 <= k - (n - 1) < b.len() {
        add_of(conv(a, b, k, n - 1), mul_of(a[n - 1], b[k - (n - 1)]))
    } else {
        conv(a, b, k, n - 1)
    }
}

pub open spec fn pw(start: E, base: E, i: int) -> E
    decreases i
{
    if i <= 0 { start } else { mul_of(pw(start, base, i - 1), base) }
}

//@@ source math/src/polynom/mod.rs
//@@ extract anchor="pub fn add<E>(a: &[E], b: &[E]) -> Vec<E>"
//@@ rewrite "core::cmp::max(" => "max_usize("
//@@ loop 1
//@@|        invariant
//@@|            result.len() == i,
//@@|            result_len == (if a.len() > b.len() { a.len() } else { b.len() }),
//@@|            forall|t: int| 0 <= t < i ==> result@[t] == add_of(coef(a@, t), coef(b@, t)),
pub fn add(a: &[E], b: &[E]) -> (r: Vec<E>)
    ensures
        r.len() == (if a.len() > b.len() { a.len() } else { b.len() }),
        forall|t: int| 0 <= t < r.len() ==> r@[t] == add_of(coef(a@, t), coef(b@, t)),
{
    /*@@body*/
}

//@@ extract anchor="pub fn sub<E>(a: &[E], b: &[E]) -> Vec<E>"
//@@ rewrite "core::cmp::max(" => "max_usize("
//@@ loop 1
//@@|        invariant
//@@|            result.len() == i,
//@@|            result_len == (if a.len() > b.len() { a.len() } else { b.len() }),
//@@|            forall|t: int| 0 <= t < i ==> result@[t] == sub_of(coef(a@, t), coef(b@, t)),
pub fn sub(a: &[E], b: &[E]) -> (r: Vec<E>)
    ensures
        r.len() == (if a.len() > b.len() { a.len() } else { b.len() }),
        forall|t: int| 0 <= t < r.len() ==> r@[t] == sub_of(coef(a@, t), coef(b@, t)),
{
    /*@@body*/
}

//@@ extract anchor="pub fn mul<E>(a: &[E], b: &[E]) -> Vec<E>"
//@@ loop 1
//@@|        invariant
//@@|            result.len() == result_len, result_len == a.len() + b.len() - 1, a.len() >= 1, b.len() >= 1,
//@@|            forall|k: int| 0 <= k < result_len ==> result@[k] == conv(a@, b@, k, i as int),
//@@ loop 2
//@@|            invariant
//@@|                result.len() == result_len, result_len == a.len() + b.len() - 1, i < a.len(), b.len() >= 1,
//@@|                forall|k: int| 0 <= k < result_len ==> result@[k] ==
//@@|                    (if 0 <= k - i < j { conv(a@, b@, k, i as int + 1) } else { conv(a@, b@, k, i as int) }),
pub fn mul(a: &[E], b: &[E]) -> (r: Vec<E>)
    requires
        a.len() >= 1, b.len() >= 1, a.len() + b.len() <= usize::MAX,
    ensures
        r.len() == a.len() + b.len() - 1,
        forall|k: int| 0 <= k < r.len() ==> r@[k] == conv(a@, b@, k, a.len() as int),
{
    /*@@body*/
}

//@@ extract anchor="pub fn mul_by_scalar<E>(p: &[E], k: E) -> Vec<E>"
//@@ itername 1 it
//@@ loop 1
//@@|        invariant
//@@|            result.len() == it.index@,
//@@|            forall|t: int| 0 <= t < it.index@ ==> result@[t] == mul_of(p@[t], k),
pub fn mul_by_scalar(p: &[E], k: E) -> (r: Vec<E>)
    ensures
        r.len() == p.len(),
        forall|t: int| 0 <= t < r.len() ==> r@[t] == mul_of(p@[t], k),
{
    /*@@body*/
}

//@@ extract anchor="pub fn degree_of<E>(poly: &[E]) -> usize"
//@@ itername 1 it
//@@ loop 1
//@@|        invariant
//@@|            forall|t: int| poly.len() - it.index@ <= t < poly.len() ==> poly@[t] == E::ZERO,
pub fn degree_of(poly: &[E]) -> (d: usize)
    ensures
        (forall|t: int| 0 <= t < poly.len() ==> poly@[t] == E::ZERO) ==> d == 0,
        (exists|t: int| 0 <= t < poly.len() && poly@[t] != E::ZERO) ==> (d < poly.len() && poly@[d as int] != E::ZERO
            && forall|t: int| d < t < poly.len() ==> poly@[t] == E::ZERO),
{
    /*@@body*/
}

//@@ source math/src/utils/mod.rs
//@@ extract anchor="fn fill_power_series<E: FieldElement>(result: &mut [E], base: E, start: E)"
//@@ itername 1 it
//@@ loop 1
//@@|        invariant
//@@|            result.len() == old(result).len(), 1 <= i, it.iter.end == old(result).len(),
//@@|            forall|t: int| #![trigger result@[t]] 0 <= t < i && t < result.len() ==> result@[t] == pw(start, base, t),
pub fn fill_power_series(result: &mut [E], base: E, start: E)
    ensures
        final(result).len() == old(result).len(),
        forall|t: int| 0 <= t < old(result).len() ==> final(result)@[t] == pw(start, base, t),
{
    /*@@body*/
}


// ------------------------------------------------------------------------------------------------------------------
// polynom::poly_from_roots / fill_zero_roots: the monic polynomial with the given roots, built by multiplying by (x - root) one
// root at a time. rp(xs, i) is that product for the first i roots, coefficient by coefficient (lowest first), defined by the
// textbook rule for (x - r) * p:  q[j] = p[j-1] - p[j] * r,  with the two boundary coefficients written as the code computes
// them (q[0] = ZERO - p[0] * r, q[top] = p[top]); no algebraic law is used. For EVERY list of roots.
pub open spec fn rp(xs: Seq<E>, i: nat) -> Seq<E>
    decreases i
{
    if i == 0 { seq![E::ONE] } else {
        let p = rp(xs, (i - 1) as nat);
        let r = xs[i - 1];
        Seq::new(i + 1, |j: int|
            if j == 0 { sub_of(E::ZERO, mul_of(p[0], r)) }
            else if j < i { sub_of(p[j - 1], mul_of(p[j], r)) }
            else { p[i - 1] })
    }
}
proof fn lemma_rp_len(xs: Seq<E>, i: nat)
    ensures rp(xs, i).len() == i + 1
    decreases i
{
    if i > 0 { lemma_rp_len(xs, (i - 1) as nat); }
}

//@@ source math/src/polynom/mod.rs
//@@ extract anchor="fn fill_zero_roots<E: FieldElement>(xs: &[E], result: &mut [E])"
//@@ rewrite "#[allow(clippy::assign_op_pattern)]" => ""
//@@ itername 1 it
//@@ itername 2 jt
//@@ loop 1
//@@|        invariant
//@@|            result.len() == xs.len() + 1, it.iter.end == xs.len(), n == xs.len() - i,
//@@|            forall|t: int| n <= t <= n + i ==> #[trigger] result@[t] == rp(xs@, i as nat)[t - n],
//@@ loopstart 1
//@@|        proof { lemma_rp_len(xs@, i as nat); lemma_rp_len(xs@, (i + 1) as nat); }
//@@|        let ghost n0 = n as int;
//@@ loop 2
//@@|            invariant
//@@|                result.len() == xs.len() + 1, n0 == xs.len() - i, n == n0 - 1, 0 <= i < xs.len(), n <= j, jt.iter.end == xs.len(),
//@@|                rp(xs@, i as nat).len() == i + 1, rp(xs@, (i + 1) as nat).len() == i + 2,
//@@|                forall|t: int| n <= t < j ==> #[trigger] result@[t] == rp(xs@, (i + 1) as nat)[t - n],
//@@|                j == n ==> result@[n as int] == E::ZERO,
//@@|                forall|t: int| n0 <= t <= n0 + i && t >= j ==> #[trigger] result@[t] == rp(xs@, i as nat)[t - n0],
//@@ loopend 2
//@@|            proof {
//@@|                let p = rp(xs@, i as nat);
//@@|                let k = j as int - n as int;
//@@|                assert(rp(xs@, (i + 1) as nat)[k] == (if k == 0 { sub_of(E::ZERO, mul_of(p[0], xs@[i as int])) } else { sub_of(p[k - 1], mul_of(p[k], xs@[i as int])) }));
//@@|            }
//@@ loopend 1
//@@|        proof {
//@@|            // the top coefficient was not touched
//@@|            assert(result@[n0 + i] == rp(xs@, i as nat)[i as int]);
//@@|            assert(rp(xs@, (i + 1) as nat)[i + 1] == rp(xs@, i as nat)[i as int]);
//@@|        }
pub fn fill_zero_roots(xs: &[E], result: &mut [E])
    requires old(result).len() == xs.len() + 1
    ensures
        final(result).len() == xs.len() + 1,
        forall|t: int| 0 <= t <= xs.len() ==> #[trigger] final(result)@[t] == rp(xs@, xs.len() as nat)[t],
{
    proof { lemma_rp_len(xs@, 0); }
    /*@@body*/
}

#[verifier::external_body]
pub fn uninit_vector(n: usize) -> (r: Vec<E>) ensures r.len() == n { unimplemented!() }

//@@ extract anchor="pub fn poly_from_roots<E: FieldElement>(xs: &[E]) -> Vec<E>"
//@@ rewrite "unsafe { utils::uninit_vector(xs.len() + 1) }" => "uninit_vector(xs.len() + 1)"
pub fn poly_from_roots(xs: &[E]) -> (r: Vec<E>)
    requires xs.len() < usize::MAX
    ensures r@ =~= rp(xs@, xs.len() as nat)
{
    proof { lemma_rp_len(xs@, xs.len() as nat); }
    /*@@body*/
}

// ------------------------------------------------------------------------------------------------------------------
// polynom::div - the ONLY function of this unit that uses algebraic laws of E. The laws are the five axioms below
// (additive monoid laws, x - y + y == x, y * (x / y) == x for y != 0): assumptions of this proof, listed in trusted_base;
// that the real field types satisfy them is what C07 / C08 decide. No commutativity is needed.
// Decided, for every dividend a (at least one coefficient), every non-zero divisor b with deg b <= deg a, every coefficient
// value: the result q has deg a - deg b + 1 coefficients and there is a remainder rem, with coefficients only below
// deg b, such that  a[k] == rem[k] + sum_t b[k - t] * q[t]  for every k <= deg a  (quotient * divisor + remainder ==
// dividend, coefficient by coefficient; the sum is qsum, right-nested in increasing t).
#[verifier::external_body]
pub proof fn ax_add_zero_l(x: E) ensures add_of(E::ZERO, x) == x {}
#[verifier::external_body]
pub proof fn ax_add_zero_r(x: E) ensures add_of(x, E::ZERO) == x {}
#[verifier::external_body]
pub proof fn ax_add_assoc(x: E, y: E, z: E) ensures add_of(add_of(x, y), z) == add_of(x, add_of(y, z)) {}
#[verifier::external_body]
pub proof fn ax_sub_add(x: E, y: E) ensures add_of(sub_of(x, y), y) == x {}
#[verifier::external_body]
pub proof fn ax_div_mul(x: E, y: E) requires y != E::ZERO ensures mul_of(y, div_of(x, y)) == x {}

pub uninterp spec fn div_of(a: E, b: E) -> E;
impl DivSpecImpl<E> for E {
    open spec fn obeys_div_spec() -> bool { true }
    open spec fn div_req(self, rhs: E) -> bool { true }
    open spec fn div_spec(self, rhs: E) -> E { div_of(self, rhs) }
}
impl core::ops::Div for E { type Output = Self; #[verifier::external_body] fn div(self, rhs: Self) -> Self { unimplemented!() } }
// `x -= y` is `x = x - y`
impl SubAssignSpecImpl<E> for E {
    open spec fn obeys_sub_assign_spec() -> bool { true }
    open spec fn sub_assign_req(&self, rhs: E) -> bool { true }
    open spec fn sub_assign_spec(&self, rhs: E) -> &E { &sub_of(*self, rhs) }
}
impl core::ops::SubAssign for E { #[verifier::external_body] fn sub_assign(&mut self, rhs: Self) { unimplemented!() } }
pub assume_specification<T: Clone> [<[T]>::to_vec] (s: &[T]) -> (r: Vec<T>)
    ensures r@ == s@;

// d is the degree degree_of reports for p
pub open spec fn is_deg(p: Seq<E>, d: int) -> bool {
    &&& 0 <= d
    &&& (forall|t: int| 0 <= t < p.len() ==> p[t] == E::ZERO) ==> d == 0
    &&& (exists|t: int| 0 <= t < p.len() && p[t] != E::ZERO) ==> (d < p.len() && p[d] != E::ZERO
            && forall|t: int| d < t < p.len() ==> p[t] == E::ZERO)
}

pub open spec fn term(q: Seq<E>, b: Seq<E>, db: int, k: int, t: int) -> E {
    if 0 <= k - t <= db { mul_of(b[k - t], q[t]) } else { E::ZERO }
}
// coefficient k of q * b restricted to q[lo ..= m], right-nested in increasing t
pub open spec fn qsum(q: Seq<E>, b: Seq<E>, db: int, k: int, lo: int, m: int) -> E
    decreases m - lo + 1
{
    if lo > m { E::ZERO } else { add_of(term(q, b, db, k, lo), qsum(q, b, db, k, lo + 1, m)) }
}
pub open spec fn div_post(a: Seq<E>, b: Seq<E>, q: Seq<E>, da: int, db: int, rem: Seq<E>) -> bool {
    &&& is_deg(a, da) && is_deg(b, db) && q.len() == da - db + 1 && rem.len() == a.len()
    &&& forall|k: int| 0 <= k <= da ==> #[trigger] a[k] == add_of(if k < db { rem[k] } else { E::ZERO }, qsum(q, b, db, k, 0, q.len() - 1))
}

proof fn lemma_qsum_frame(q1: Seq<E>, q2: Seq<E>, b: Seq<E>, db: int, k: int, lo: int, m: int)
    requires forall|t: int| lo <= t <= m ==> q1[t] == q2[t]
    ensures qsum(q1, b, db, k, lo, m) == qsum(q2, b, db, k, lo, m)
    decreases m - lo + 1
{
    if lo <= m { lemma_qsum_frame(q1, q2, b, db, k, lo + 1, m); }
}

// one step of the long division, for coefficient k: the invariant moves from nx = i + 1 to nx = i
proof fn lemma_div_step(a0k: E, a1k: E, ank: E, quot: E, a1top: E, r1: Seq<E>, r2: Seq<E>, b: Seq<E>, db: int, k: int, i: int, m: int)
    requires
        0 <= i <= m, 0 <= db < b.len(), 0 <= k, r1.len() == m + 1, r2 == r1.update(i, quot),
        b[db] != E::ZERO, quot == div_of(a1top, b[db]),
        a0k == add_of(if k < i + 1 + db { a1k } else { E::ZERO }, qsum(r1, b, db, k, i + 1, m)),
        k == i + db ==> a1k == a1top,
        ank == (if i <= k < i + db { sub_of(a1k, mul_of(b[k - i], quot)) } else { a1k }),
    ensures
        a0k == add_of(if k < i + db { ank } else { E::ZERO }, qsum(r2, b, db, k, i, m)),
{
    let s_old = qsum(r1, b, db, k, i + 1, m);
    lemma_qsum_frame(r1, r2, b, db, k, i + 1, m);
    let tm = term(r2, b, db, k, i);
    assert(qsum(r2, b, db, k, i, m) == add_of(tm, s_old));
    if k < i {
        ax_add_zero_l(s_old);
    } else if k < i + db {
        ax_sub_add(a1k, tm);
        ax_add_assoc(ank, tm, s_old);
    } else if k == i + db {
        ax_div_mul(a1top, b[db]);
        ax_add_zero_l(add_of(tm, s_old));
    } else {
        ax_add_zero_l(s_old);
        ax_add_zero_l(add_of(tm, s_old));
    }
}

//@@ source math/src/polynom/mod.rs
//@@ extract anchor="pub fn div<E>(a: &[E], b: &[E]) -> Vec<E>"
//@@ rewrite "!b.is_empty()" => "b.len() != 0"
//@@ rewrite "for i in (0..result.len()).rev() {" => "let result_len = result.len(); for i in (0..result_len).rev() {"
//@@ before "assert!(apos >= bpos"
//@@|    proof { assert(is_deg(a0, apos as int)); assert(is_deg(b@, bpos as int)); }
//@@ itername 1 it
//@@ itername 2 jt
//@@ before "let mut result"
//@@|    let ghost apos0 = apos as int;
//@@|    let ghost m = apos0 - bpos as int;
//@@|    proof { assert forall|k: int| 0 <= k <= apos0 implies #[trigger] a0[k] == add_of(a0[k], E::ZERO) by { ax_add_zero_r(a0[k]); } }
//@@ loop 1
//@@|        invariant
//@@|            a@.len() == a0.len(), result.len() == m + 1, 0 <= m, m + bpos == apos0, apos0 < a0.len(), bpos < b.len(), b@[bpos as int] != E::ZERO,
//@@|            it.index@ <= m + 1, result_len == m + 1,
//@@|            it.index@ <= m ==> apos == m - it.index@ + bpos,
//@@|            forall|k: int| 0 <= k <= apos0 ==> #[trigger] a0[k] == add_of(if k < m + 1 - it.index@ + bpos { a@[k] } else { E::ZERO },
//@@|                qsum(result@, b@, bpos as int, k, m + 1 - it.index@, m)),
//@@ loopstart 1
//@@|        let ghost a1 = a@;
//@@|        let ghost r1 = result@;
//@@ loop 2
//@@|            invariant
//@@|                a@.len() == a0.len(), i + bpos == apos, apos < a0.len(), bpos < b.len(), jt.index@ <= bpos, a1.len() == a0.len(),
//@@|                forall|k: int| 0 <= k < a0.len() ==> #[trigger] a@[k] ==
//@@|                    (if i + bpos - jt.index@ <= k < i + bpos { sub_of(a1[k], mul_of(b@[k - i], quot)) } else { a1[k] }),
//@@ loopend 1
//@@|        proof {
//@@|            assert forall|k: int| 0 <= k <= apos0 implies #[trigger] a0[k] == add_of(if k < i + bpos { a@[k] } else { E::ZERO },
//@@|                qsum(result@, b@, bpos as int, k, i as int, m)) by {
//@@|                lemma_div_step(a0[k], a1[k], a@[k], quot, a1[i + bpos], r1, result@, b@, bpos as int, k, i as int, m);
//@@|            }
//@@|        }
//@@ tail
//@@|    proof { assert(div_post(a0, b@, result@, apos0, bpos as int, a@)); }
pub fn div(a: &[E], b: &[E]) -> (r: Vec<E>)
    requires
        a.len() >= 1,
        exists|t: int| 0 <= t < b.len() && b@[t] != E::ZERO,
        forall|da: int, db: int| is_deg(a@, da) && is_deg(b@, db) ==> da >= db,
    ensures
        exists|da: int, db: int, rem: Seq<E>| #[trigger] div_post(a@, b@, r@, da, db, rem),
{
    let ghost a0 = a@;
    /*@@body*/
}


// stands for `values[..n].to_vec()` (range indexing of a slice is outside the installed Verus)
#[verifier::external_body]
pub fn prefix_vec(values: &[E], n: usize) -> (r: Vec<E>)
    requires n <= values.len()
    ensures r@ == values@.subrange(0, n as int)
{ values[..n].to_vec() }

//@@ source math/src/polynom/mod.rs
//@@ extract anchor="pub fn remove_leading_zeros<E>(values: &[E]) -> Vec<E>"
//@@ rewrite "values[..(i + 1)].to_vec()" => "prefix_vec(values, i + 1)"
//@@ rewrite "vec![]" => "Vec::new()"
//@@ itername 1 it
//@@ loop 1
//@@|        invariant
//@@|            forall|t: int| values.len() - it.index@ <= t < values.len() ==> values@[t] == E::ZERO,
pub fn remove_leading_zeros(values: &[E]) -> (r: Vec<E>)
    ensures
        (forall|t: int| 0 <= t < values.len() ==> values@[t] == E::ZERO) ==> r.len() == 0,
        (exists|t: int| 0 <= t < values.len() && values@[t] != E::ZERO) ==> (1 <= r.len() <= values.len()
            && r@ == values@.subrange(0, r.len() as int) && r@[r.len() - 1] != E::ZERO
            && forall|t: int| r.len() <= t < values.len() ==> values@[t] == E::ZERO),
{
    /*@@body*/
}

proof fn poly_canary_must_fail()
    ensures forall|a: E, b: E| add_of(a, b) == add_of(b, a)
{
}

} // verus!

fn main() {}
