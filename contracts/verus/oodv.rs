// Verus unit oodv: OodFrame::parse (air/src/proof/ood_frame.rs) - body cut out of /repo - for EVERY trace width, every number of
// constraint evaluations, every Lagrange frame size and EVERY content of the three byte vectors, against an abstract element
// type (decoder dec_t, as in unit serdev) and an abstract slice reader.
// Decided (C03 canonical decoding, C06 totality, C12):
//   parse returns Ok exactly when
//     * the Lagrange section is one size byte k followed by exactly k element encodings and NOTHING else, and k > 0 only if
//       the trace has an auxiliary segment,
//     * the trace-state section is the byte 2 followed by exactly 2 * (main + aux') element encodings and nothing else
//       (aux' = the auxiliary width without the Lagrange column),
//     * the evaluation section is exactly num_evaluations element encodings and nothing else;
//   and then current_row[i] / next_row[i] are elements 2i / 2i + 1 of the decoded trace-state list (rows exactly main + aux'
//   wide - never wider), the evaluations are the decoded list, the Lagrange frame holds the k decoded values.
//   No arithmetic overflow / underflow, no out-of-range index on any input; the two assertions are the documented
//   pre-condition (non-zero main width and evaluation count).
// Literal rewrites (listed): `for col in trace.chunks_exact(2) {` becomes `for ci in 0..trace.len() / 2 { let col = [trace[2 * ci], trace[2 * ci + 1]];`
// (the same pairs; chunks_exact is outside the installed Verus); `(x.is_some() as usize)` becomes a named function; string
// literals / format! in error values become a fixed token; `SliceReader::new(&self.f)` becomes `SliceReader::new(&self.f)` on
// the abstract reader. Assumed: the contracts of SliceReader::{read_u8, read_many, has_more_bytes} (read_many is proved from its body in
// unit serdev; read_u8 / has_more_bytes by Kani).
use vstd::prelude::*;
verus! {
global size_of usize == 8;

#[derive(Copy, Clone, PartialEq, Eq, Structural)]
pub struct T(pub u64);
pub uninterp spec fn dec_t(s: Seq<u8>) -> Option<(T, Seq<u8>)>;
pub open spec fn dec_many(s: Seq<u8>, n: nat) -> Option<(Seq<T>, Seq<u8>)>
    decreases n
{
    if n == 0 { Some((Seq::<T>::empty(), s)) } else {
        match dec_t(s) {
            None => None,
            Some((x, r1)) => match dec_many(r1, (n - 1) as nat) {
                None => None,
                Some((xs, r2)) => Some((seq![x] + xs, r2)),
            },
        }
    }
}

pub struct Msg;
pub enum DeserializationError { InvalidValue(Msg), UnexpectedEOF, UnconsumedBytes }
#[verifier::external_body]
pub fn err_text() -> Msg { unimplemented!() }
pub fn bool_as_usize(b: bool) -> (r: usize) ensures r == (if b { 1usize } else { 0usize }) { if b { 1 } else { 0 } }
#[verifier::external_body]
pub fn must_not_panic() requires false { unimplemented!() }

pub struct SliceReader { pub rem: Ghost<Seq<u8>> }
impl SliceReader {
    #[verifier::external_body]
    pub fn new(source: &Vec<u8>) -> (r: SliceReader) ensures r.rem@ == source@ { unimplemented!() }
    #[verifier::external_body]
    pub fn read_u8(&mut self) -> (r: Result<u8, DeserializationError>)
        ensures
            r is Ok <==> old(self).rem@.len() >= 1,
            r is Ok ==> r->Ok_0 == old(self).rem@[0] && final(self).rem@ == old(self).rem@.skip(1),
    { unimplemented!() }
    #[verifier::external_body]
    pub fn read_many(&mut self, num_elements: usize) -> (r: Result<Vec<T>, DeserializationError>)
        ensures
            r is Ok <==> dec_many(old(self).rem@, num_elements as nat) is Some,
            r is Ok ==> r->Ok_0.len() == num_elements
                && dec_many(old(self).rem@, num_elements as nat) == Some((r->Ok_0@, final(self).rem@)),
    { unimplemented!() }
    #[verifier::external_body]
    pub fn has_more_bytes(&self) -> (r: bool) ensures r == (self.rem@.len() > 0) { unimplemented!() }
}

pub struct LagrangeKernelEvaluationFrame { pub frame: Vec<T> }
impl LagrangeKernelEvaluationFrame {
    pub fn new(frame: Vec<T>) -> (r: Self) ensures r.frame == frame { LagrangeKernelEvaluationFrame { frame } }
}
pub struct TraceOodFrame {
    pub current_row: Vec<T>,
    pub next_row: Vec<T>,
    pub main_trace_width: usize,
    pub lagrange_kernel_frame: Option<LagrangeKernelEvaluationFrame>,
}
impl TraceOodFrame {
    //@@ source air/src/proof/ood_frame.rs
    //@@ extract anchor="pub fn new(" within="impl<E: FieldElement> TraceOodFrame<E>"
    //@@ rewrite "assert_eq!(current_row.len(), next_row.len());" => "if !(current_row.len() == next_row.len()) { must_not_panic(); }"
    pub fn new(
        current_row: Vec<T>,
        next_row: Vec<T>,
        main_trace_width: usize,
        lagrange_kernel_frame: Option<LagrangeKernelEvaluationFrame>,
    ) -> (r: Self)
        requires current_row.len() == next_row.len()
        ensures r.current_row == current_row, r.next_row == next_row, r.main_trace_width == main_trace_width, r.lagrange_kernel_frame == lagrange_kernel_frame
    {
        /*@@body*/
    }
}

pub struct OodFrame { pub trace_states: Vec<u8>, pub lagrange_kernel_trace_states: Vec<u8>, pub evaluations: Vec<u8> }

// the canonical shape of the three sections
pub open spec fn lagrange_ok(b: Seq<u8>, aux_width: int) -> bool {
    &&& b.len() >= 1
    &&& dec_many(b.skip(1), b[0] as nat) is Some
    &&& dec_many(b.skip(1), b[0] as nat)->Some_0.1.len() == 0
    &&& (b[0] > 0 ==> aux_width >= 1)
}
pub open spec fn aux_eff(b: Seq<u8>, aux_width: int) -> int { if b[0] > 0 { aux_width - 1 } else { aux_width } }
pub open spec fn trace_ok(b: Seq<u8>, cols: int) -> bool {
    &&& b.len() >= 1 && b[0] == 2
    &&& dec_many(b.skip(1), (cols * 2) as nat) is Some
    &&& dec_many(b.skip(1), (cols * 2) as nat)->Some_0.1.len() == 0
}
pub open spec fn evals_ok(b: Seq<u8>, n: int) -> bool {
    dec_many(b, n as nat) is Some && dec_many(b, n as nat)->Some_0.1.len() == 0
}

// current_row[i] / next_row[i] are elements 2i / 2i + 1 of the decoded trace-state list
pub open spec fn rows_ok(f: TraceOodFrame, tr: Seq<T>, cols: int) -> bool {
    forall|i: int| #![trigger f.current_row@[i]] #![trigger f.next_row@[i]] 0 <= i < cols ==> f.current_row@[i] == tr[2 * i] && f.next_row@[i] == tr[2 * i + 1]
}
pub open spec fn cols_of(o: OodFrame, main: int, aux: int) -> int { main + aux_eff(o.lagrange_kernel_trace_states@, aux) }
pub open spec fn trace_of(o: OodFrame, main: int, aux: int) -> Seq<T> { dec_many(o.trace_states@.skip(1), (cols_of(o, main, aux) * 2) as nat)->Some_0.0 }
pub open spec fn shape_ok(o: OodFrame, main: int, aux: int, nev: int) -> bool {
    lagrange_ok(o.lagrange_kernel_trace_states@, aux) && trace_ok(o.trace_states@, cols_of(o, main, aux)) && evals_ok(o.evaluations@, nev)
}

impl OodFrame {
    //@@ extract anchor="pub fn parse<E: FieldElement>("
    //@@ rewrite-re "assert!\(([^,]+),[^;]*\);" => "if !(\1) { must_not_panic(); }"
    //@@ rewrite "(lagrange_kernel_frame.is_some() as usize)" => "bool_as_usize(lagrange_kernel_frame.is_some())"
    //@@ rewrite-re "DeserializationError::InvalidValue\(\s*\"[^\"]*\"\s*\.to_string\(\),?\s*\)" => "DeserializationError::InvalidValue(err_text())"
    //@@ rewrite-re "format!\(\s*\"[^\"]*\"\s*\)" => "err_text()"
    //@@ rewrite "let aux_trace_width = aux_trace_width - " => "let aux_trace_width_eff = aux_trace_width - "
    //@@ rewrite "(main_trace_width + aux_trace_width) * frame_size" => "(main_trace_width + aux_trace_width_eff) * frame_size"
    //@@ rewrite "for col in trace.chunks_exact(2) {" => "for ci in 0..trace.len() / 2 { let col = [trace[2 * ci], trace[2 * ci + 1]];"
    //@@ rewrite "let mut current_row = Vec::with_capacity(main_trace_width);" => "let mut current_row: Vec<T> = Vec::with_capacity(main_trace_width);"
    //@@ rewrite "let mut next_row = Vec::with_capacity(main_trace_width);" => "let mut next_row: Vec<T> = Vec::with_capacity(main_trace_width);"
    //@@ itername 1 it
    //@@ loop 1
    //@@|                invariant
    //@@|                    it.iter.end == trace.len() / 2, current_row.len() == ci, next_row.len() == ci, tr0 == trace@, trace.len() == cols * 2,
    //@@|                    forall|i: int| #![trigger current_row@[i]] #![trigger next_row@[i]] 0 <= i < ci ==> current_row@[i] == trace@[2 * i] && next_row@[i] == trace@[2 * i + 1],
    //@@ before "let mut current_row"
    //@@|            proof {
    //@@|                assert((main_trace_width + aux_trace_width_eff) * frame_size == cols * 2) by (nonlinear_arith)
    //@@|                    requires frame_size == 2, main_trace_width + aux_trace_width_eff == cols;
    //@@|                assert(trace@ == dec_many(tb.skip(1), (cols * 2) as nat)->Some_0.0);
    //@@|                assert(trace.len() == cols * 2);
    //@@|            }
    //@@|            let ghost tr0 = trace@;
    //@@ tailbind res
    //@@|        proof {
    //@@|            assert(lagrange_ok(lb, aux_trace_width0 as int));
    //@@|            assert(aux_trace_width_eff == aux_eff(lb, aux_trace_width0 as int));
    //@@|            assert(trace_ok(tb, cols));
    //@@|            assert(evals_ok(eb, num_evaluations as int));
    //@@|            assert(current_row.len() == cols);
    //@@|            assert(evaluations@ == dec_many(eb, num_evaluations as nat)->Some_0.0);
    //@@|            assert(lagrange_kernel_frame is Some <==> lb[0] > 0);
    //@@|            assert(lagrange_kernel_frame is Some ==> lagrange_kernel_frame->Some_0.frame@ == dec_many(lb.skip(1), lb[0] as nat)->Some_0.0);
    //@@|            let tr = dec_many(tb.skip(1), (cols * 2) as nat)->Some_0.0;
    //@@|            let fr = res->Ok_0.0;
    //@@|            assert(res is Ok);
    //@@|            assert(fr.current_row.len() == cols && fr.next_row.len() == cols && fr.main_trace_width == main_trace_width);
    //@@|            assert(cols == cols_of(self, main_trace_width as int, aux_trace_width0 as int));
    //@@|            assert(tr == trace_of(self, main_trace_width as int, aux_trace_width0 as int));
    //@@|            assert(rows_ok(res->Ok_0.0, trace_of(self, main_trace_width as int, aux_trace_width0 as int), cols_of(self, main_trace_width as int, aux_trace_width0 as int)));
    //@@|            assert(res->Ok_0.1@ == dec_many(eb, num_evaluations as nat)->Some_0.0);
    //@@|            assert(fr.lagrange_kernel_frame is Some <==> lb[0] > 0);
    //@@|            assert(fr.lagrange_kernel_frame is Some ==> fr.lagrange_kernel_frame->Some_0.frame@ == dec_many(lb.skip(1), lb[0] as nat)->Some_0.0);
    //@@|            assert(lagrange_ok(lb, aux_trace_width0 as int) && trace_ok(tb, main_trace_width + aux_eff(lb, aux_trace_width0 as int)) && evals_ok(eb, num_evaluations as int));
    //@@|        }
    //@@ loopafter 1
    //@@|            proof {
    //@@|                assert(current_row.len() == cols && next_row.len() == cols);
    //@@|                assert(forall|i: int| #![trigger current_row@[i]] #![trigger next_row@[i]] 0 <= i < cols ==> current_row@[i] == tr0[2 * i] && next_row@[i] == tr0[2 * i + 1]);
    //@@|            }
    pub fn parse(
        self,
        main_trace_width: usize,
        aux_trace_width: usize,
        num_evaluations: usize,
    ) -> (r: Result<(TraceOodFrame, Vec<T>), DeserializationError>)
        requires
            main_trace_width > 0, num_evaluations > 0,
            // the widths come from a TraceInfo (at most 255 columns each): the element count cannot overflow
            main_trace_width <= 255, aux_trace_width <= 255,
        ensures
            r is Ok <==> shape_ok(self, main_trace_width as int, aux_trace_width as int, num_evaluations as int),
            r is Ok ==> r->Ok_0.0.current_row.len() == cols_of(self, main_trace_width as int, aux_trace_width as int)
                && r->Ok_0.0.next_row.len() == cols_of(self, main_trace_width as int, aux_trace_width as int)
                && r->Ok_0.0.main_trace_width == main_trace_width,
            r is Ok ==> rows_ok(r->Ok_0.0, trace_of(self, main_trace_width as int, aux_trace_width as int), cols_of(self, main_trace_width as int, aux_trace_width as int)),
            r is Ok ==> r->Ok_0.1@ == dec_many(self.evaluations@, num_evaluations as nat)->Some_0.0,
            r is Ok ==> (r->Ok_0.0.lagrange_kernel_frame is Some <==> self.lagrange_kernel_trace_states@[0] > 0),
            r is Ok ==> (r->Ok_0.0.lagrange_kernel_frame is Some ==> r->Ok_0.0.lagrange_kernel_frame->Some_0.frame@
                == dec_many(self.lagrange_kernel_trace_states@.skip(1), self.lagrange_kernel_trace_states@[0] as nat)->Some_0.0),
    {
        let ghost aux_trace_width0 = aux_trace_width;
        let ghost lb = self.lagrange_kernel_trace_states@;
        let ghost tb = self.trace_states@;
        let ghost eb = self.evaluations@;
        let ghost cols = main_trace_width + aux_eff(lb, aux_trace_width0 as int);
        /*@@body*/
    }
}

// ---------------------------------------------------------------------------------------------------------------------
// Commitments::parse (air/src/proof/commitments.rs): the byte vector is exactly num_trace_segments + 1 + (num_fri_layers + 1)
// digest encodings - trace commitments, constraint commitment, FRI commitments, in that order - and nothing else.
// (T stands for the digest type here; its decoder is the same uninterpreted dec_t.)
pub struct Commitments(pub Vec<u8>);
impl SliceReader {
    // contract of ByteReader::read::<D>() = D::read_from(self)
    #[verifier::external_body]
    pub fn read(&mut self) -> (r: Result<T, DeserializationError>)
        ensures
            r is Ok <==> dec_t(old(self).rem@) is Some,
            r is Ok ==> r->Ok_0 == dec_t(old(self).rem@)->Some_0.0 && final(self).rem@ == dec_t(old(self).rem@)->Some_0.1,
    { unimplemented!() }
}
pub open spec fn commitments_ok(b: Seq<u8>, ns: nat, nf: nat) -> bool {
    &&& dec_many(b, ns) is Some
    &&& dec_t(dec_many(b, ns)->Some_0.1) is Some
    &&& dec_many(dec_t(dec_many(b, ns)->Some_0.1)->Some_0.1, nf + 1) is Some
    &&& dec_many(dec_t(dec_many(b, ns)->Some_0.1)->Some_0.1, nf + 1)->Some_0.1.len() == 0
}
impl Commitments {
    //@@ source air/src/proof/commitments.rs
    //@@ extract anchor="pub fn parse<H: Hasher>("
    pub fn parse(
        self,
        num_trace_segments: usize,
        num_fri_layers: usize,
    ) -> (r: Result<(Vec<T>, T, Vec<T>), DeserializationError>)
        requires num_fri_layers < usize::MAX
        ensures
            r is Ok <==> commitments_ok(self.0@, num_trace_segments as nat, num_fri_layers as nat),
            r is Ok ==> {
                let a = dec_many(self.0@, num_trace_segments as nat)->Some_0;
                let c = dec_t(a.1)->Some_0;
                let f = dec_many(c.1, (num_fri_layers + 1) as nat)->Some_0;
                r->Ok_0.0@ == a.0 && r->Ok_0.1 == c.0 && r->Ok_0.2@ == f.0
            },
    {
        /*@@body*/
    }
}

// ---------------------------------------------------------------------------------------------------------------------
// Table::from_bytes (air/src/proof/table.rs): the first num_rows * num_cols element encodings of the byte slice, row-major;
// Err exactly when they cannot be decoded. (It does not look at what follows: its caller Queries::parse compares the byte
// length with num_rows * num_cols * ELEMENT_BYTES first.) The four assertions are the documented pre-condition.
pub const MAX_ROWS: usize = /*@@expr source="air/src/proof/table.rs" anchor="const MAX_ROWS: usize ="*/;
pub const MAX_COLS: usize = /*@@expr source="air/src/proof/table.rs" anchor="const MAX_COLS: usize ="*/;
pub struct Table { pub data: Vec<T>, pub row_width: usize }
impl SliceReader {
    #[verifier::external_body]
    pub fn new_from_slice(source: &[u8]) -> (r: SliceReader) ensures r.rem@ == source@ { unimplemented!() }
}
impl Table {
    //@@ source air/src/proof/table.rs
    //@@ extract anchor="pub fn from_bytes("
    //@@ rewrite-re "assert!\(([^,]+),[^;]*\);" => "if !(\1) { must_not_panic(); }"
    //@@ rewrite "SliceReader::new(bytes)" => "SliceReader::new_from_slice(bytes)"
    pub fn from_bytes(
        bytes: &[u8],
        num_rows: usize,
        num_cols: usize,
    ) -> (r: Result<Self, DeserializationError>)
        requires 0 < num_rows <= MAX_ROWS, 0 < num_cols <= MAX_COLS
        ensures
            r is Ok <==> dec_many(bytes@, (num_rows * num_cols) as nat) is Some,
            r is Ok ==> r->Ok_0.row_width == num_cols && r->Ok_0.data@ == dec_many(bytes@, (num_rows * num_cols) as nat)->Some_0.0
                && r->Ok_0.data.len() == num_rows * num_cols,
    {
        proof {
            assert(MAX_ROWS <= 255 && MAX_COLS <= 255) by (compute);
            assert(num_rows * num_cols <= 255 * 255) by (nonlinear_arith) requires num_rows <= 255, num_cols <= 255;
        }
        /*@@body*/
    }
}

// ---------------------------------------------------------------------------------------------------------------------
// TraceOodFrame::to_trace_states / hash (C04): what the coin absorbs for the out-of-domain trace frame is the hash of ALL its
// evaluations - current / next interleaved per column, followed by the Lagrange kernel frame's values when there is one.
pub struct Dg(pub u64);
pub uninterp spec fn hash_elements_of(v: Seq<T>) -> Dg;
pub struct HH;
impl HH {
    #[verifier::external_body]
    pub fn hash_elements(v: &Vec<T>) -> (r: Dg) ensures r == hash_elements_of(v@) { unimplemented!() }
}
impl LagrangeKernelEvaluationFrame {
    #[verifier::external_body]
    pub fn inner(&self) -> (r: &[T]) ensures r@ == self.frame@ { unimplemented!() }
}
#[verifier::external_body]
pub fn slice_to_vec_t(s: &[T]) -> (r: Vec<T>) ensures r@ == s@ { s.to_vec() }
pub open spec fn interleave(a: Seq<T>, b: Seq<T>) -> Seq<T> { Seq::new((2 * a.len()) as nat, |i: int| if i % 2 == 0 { a[i / 2] } else { b[i / 2] }) }
pub open spec fn lag_values(f: TraceOodFrame) -> Seq<T> { match f.lagrange_kernel_frame { Some(l) => l.frame@, None => Seq::<T>::empty() } }
impl TraceOodFrame {
    //@@ source air/src/proof/ood_frame.rs
    //@@ extract anchor="fn to_trace_states(&self) -> (Vec<E>, Vec<E>)"
    //@@ rewrite "let mut main_and_aux_frame_states = Vec::new();" => "let mut main_and_aux_frame_states: Vec<T> = Vec::new();"
    //@@ rewrite "lagrange_kernel_frame.inner().to_vec()" => "slice_to_vec_t(lagrange_kernel_frame.inner())"
    //@@ itername 1 it
    //@@ loop 1
    //@@|            invariant
    //@@|                it.iter.end == self.current_row.len(), self.current_row.len() == self.next_row.len(),
    //@@|                main_and_aux_frame_states.len() == 2 * col,
    //@@|                forall|i: int| #![trigger main_and_aux_frame_states@[i]] 0 <= i < 2 * col ==> main_and_aux_frame_states@[i] == (if i % 2 == 0 { self.current_row@[i / 2] } else { self.next_row@[i / 2] }),
    fn to_trace_states(&self) -> (r: (Vec<T>, Vec<T>))
        requires self.current_row.len() == self.next_row.len(), self.current_row.len() <= usize::MAX / 2
        ensures r.0@ =~= interleave(self.current_row@, self.next_row@), r.1@ == lag_values(*self)
    {
        /*@@body*/
    }

    //@@ extract anchor="pub fn hash<H: ElementHasher<BaseField = E::BaseField>>(&self) -> H::Digest"
    //@@ rewrite "H::hash_elements(" => "HH::hash_elements("
    pub fn hash(&self) -> (r: Dg)
        requires self.current_row.len() == self.next_row.len(), self.current_row.len() <= usize::MAX / 2
        ensures r == hash_elements_of(interleave(self.current_row@, self.next_row@) + lag_values(*self))
    {
        /*@@body*/
    }
}

// Commitments::new - the writer Commitments::parse reads back: trace roots, constraint root, FRI roots, in that order.
pub uninterp spec fn enc_t(x: T) -> Seq<u8>;
pub open spec fn enc_many(v: Seq<T>) -> Seq<u8>
    decreases v.len()
{
    if v.len() == 0 { Seq::<u8>::empty() } else { enc_many(v.drop_last()) + enc_t(v.last()) }
}
// `Vec<u8>` used as a ByteWriter (write_many is proved from its body in unit serdev)
pub struct VecWriter { pub v: Vec<u8> }
impl VecWriter {
    pub fn new() -> (r: VecWriter) ensures r.v@.len() == 0 { VecWriter { v: Vec::new() } }
    #[verifier::external_body]
    pub fn write_many(&mut self, e: &Vec<T>) ensures final(self).v@ == old(self).v@ + enc_many(e@) { unimplemented!() }
    #[verifier::external_body]
    pub fn write(&mut self, e: T) ensures final(self).v@ == old(self).v@ + enc_t(e) { unimplemented!() }
    pub fn into_vec(self) -> (r: Vec<u8>) ensures r@ == self.v@ { self.v }
}
impl Commitments {
    //@@ source air/src/proof/commitments.rs
    //@@ extract anchor="pub fn new<H: Hasher>("
    //@@ rewrite "let mut bytes = Vec::new();" => "let mut bytes = VecWriter::new();"
    //@@ rewrite "Commitments(bytes)" => "Commitments(bytes.into_vec())"
    pub fn new(trace_roots: Vec<T>, constraint_root: T, fri_roots: Vec<T>) -> (r: Self)
        ensures r.0@ =~= enc_many(trace_roots@) + enc_t(constraint_root) + enc_many(fri_roots@)
    {
        /*@@body*/
    }
}
proof fn lemma_enc_front(v: Seq<T>)
    requires v.len() >= 1
    ensures enc_many(v) == enc_t(v[0]) + enc_many(v.subrange(1, v.len() as int))
    decreases v.len()
{
    let tail = v.subrange(1, v.len() as int);
    if v.len() == 1 {
        assert(v.drop_last() =~= Seq::<T>::empty());
        assert(tail =~= Seq::<T>::empty());
        assert(enc_many(v) == enc_many(v.drop_last()) + enc_t(v.last()));
        assert(Seq::<u8>::empty() + enc_t(v[0]) =~= enc_t(v[0]) + Seq::<u8>::empty());
    } else {
        lemma_enc_front(v.drop_last());
        assert(v.drop_last().subrange(1, v.len() - 1) =~= tail.drop_last());
        assert(tail.last() == v.last());
        assert(enc_many(tail) == enc_many(tail.drop_last()) + enc_t(tail.last()));
        assert((enc_t(v[0]) + enc_many(tail.drop_last())) + enc_t(v.last()) =~= enc_t(v[0]) + (enc_many(tail.drop_last()) + enc_t(v.last())));
    }
}
proof fn lemma_many_rt(v: Seq<T>, rest: Seq<u8>)
    requires forall|x: T, r: Seq<u8>| dec_t(#[trigger] (enc_t(x) + r)) == Some((x, r))
    ensures dec_many(enc_many(v) + rest, v.len()) == Some((v, rest))
    decreases v.len()
{
    if v.len() == 0 {
        assert(enc_many(v) + rest =~= rest);
        assert(v =~= Seq::<T>::empty());
    } else {
        let tail = v.subrange(1, v.len() as int);
        lemma_enc_front(v);
        assert((enc_t(v[0]) + enc_many(tail)) + rest =~= enc_t(v[0]) + (enc_many(tail) + rest));
        assert(dec_t(enc_t(v[0]) + (enc_many(tail) + rest)) == Some((v[0], enc_many(tail) + rest)));
        lemma_many_rt(tail, rest);
        assert(seq![v[0]] + tail =~= v);
    }
}
// what Commitments::new writes is accepted by Commitments::parse for the matching counts and decodes to the same digests
proof fn theorem_commitments_roundtrip(t: Seq<T>, c: T, f: Seq<T>)
    requires f.len() >= 1, forall|x: T, r: Seq<u8>| dec_t(#[trigger] (enc_t(x) + r)) == Some((x, r))
    ensures
        commitments_ok(enc_many(t) + enc_t(c) + enc_many(f), t.len(), (f.len() - 1) as nat),
        dec_many(enc_many(t) + enc_t(c) + enc_many(f), t.len()) == Some((t, enc_t(c) + enc_many(f))),
        dec_t(enc_t(c) + enc_many(f)) == Some((c, enc_many(f))),
        dec_many(enc_many(f), f.len()) == Some((f, Seq::<u8>::empty())),
{
    let b = enc_many(t) + enc_t(c) + enc_many(f);
    assert(b =~= enc_many(t) + (enc_t(c) + enc_many(f)));
    lemma_many_rt(t, enc_t(c) + enc_many(f));
    assert(enc_many(f) =~= enc_many(f) + Seq::<u8>::empty());
    lemma_many_rt(f, Seq::<u8>::empty());
}

// ---------------------------------------------------------------------------------------------------------------------
// Queries::parse (air/src/proof/queries.rs, C03 / C06): the canonical decoder of a query section. For every byte content of the
// two vectors, every number of queries and values per query within the table limits: Ok exactly when (1) the value bytes are
// EXACTLY num_queries * values_per_query * ELEMENT_BYTES long, (2) they decode to that many elements, (3) the path bytes decode
// to a batch Merkle proof for the leaves hash_elements(row 0), hash_elements(row 1), .. of the decoded table and the depth
// log2(domain_size), and (4) nothing follows the proof; then the results are that proof and that table. No overflow; the three
// assertions are the documented pre-condition.
// Named contracts (assumed, listed): BatchMerkleProof::deserialize (proved against its own body in unit containerv), the row
// iterator `rows().map(|row| H::hash_elements(row)).collect()` (shim hash_rows: one digest per row, in order), `usize::ilog2`,
// `usize::is_power_of_two`, E::ELEMENT_BYTES (a named positive constant of at most 64).
pub struct Queries { pub paths: Vec<u8>, pub values: Vec<u8> }
pub uninterp spec fn elem_bytes() -> usize;
pub struct E;
impl E {
    #[verifier::external_body]
    pub fn element_bytes() -> (r: usize) ensures r == elem_bytes(), 1 <= r <= 64 { unimplemented!() }
}
pub open spec fn row_hashes(data: Seq<T>, rows: nat, w: nat) -> Seq<Dg> {
    Seq::new(rows, |i: int| hash_elements_of(data.subrange(i * w, (i + 1) * w)))
}
#[verifier::external_body]
pub fn hash_rows(t: &Table) -> (r: Vec<Dg>)
    requires t.row_width > 0
    ensures r@ == row_hashes(t.data@, (t.data@.len() / (t.row_width as nat)) as nat, t.row_width as nat)
{ unimplemented!() }
pub struct BatchMerkleProof { pub id: Ghost<int> }
pub uninterp spec fn bmp_dec(bytes: Seq<u8>, leaves: Seq<Dg>, depth: u8) -> Option<(BatchMerkleProof, Seq<u8>)>;
impl BatchMerkleProof {
    #[verifier::external_body]
    pub fn deserialize(reader: &mut SliceReader, leaves: Vec<Dg>, depth: u8) -> (r: Result<BatchMerkleProof, DeserializationError>)
        ensures
            r is Ok <==> bmp_dec(old(reader).rem@, leaves@, depth) is Some,
            r is Ok ==> bmp_dec(old(reader).rem@, leaves@, depth) == Some((r->Ok_0, final(reader).rem@)),
    { unimplemented!() }
}
pub uninterp spec fn is_pow2_spec(x: usize) -> bool;
pub uninterp spec fn ilog2_spec(x: usize) -> u32;
#[verifier::external_body]
pub fn is_power_of_two(x: usize) -> (r: bool) ensures r == is_pow2_spec(x) { x.is_power_of_two() }
#[verifier::external_body]
pub fn ilog2(x: usize) -> (r: u32) requires x >= 1 ensures r == ilog2_spec(x), r < 64 { x.ilog2() }

pub open spec fn queries_ok(q: Queries, domain_size: usize, nq: usize, vpq: usize) -> bool {
    &&& q.values@.len() == nq * (elem_bytes() * vpq)
    &&& dec_many(q.values@, (nq * vpq) as nat) is Some
    &&& bmp_dec(q.paths@, row_hashes(dec_many(q.values@, (nq * vpq) as nat)->Some_0.0, nq as nat, vpq as nat), ilog2_spec(domain_size) as u8) is Some
    &&& bmp_dec(q.paths@, row_hashes(dec_many(q.values@, (nq * vpq) as nat)->Some_0.0, nq as nat, vpq as nat), ilog2_spec(domain_size) as u8)->Some_0.1.len() == 0
}

impl Queries {
    //@@ source air/src/proof/queries.rs
    //@@ extract anchor="pub fn parse<H, E>("
    //@@ rewrite-re "assert!\(([^,]+),[^;]*\);" => "if !(\1) { must_not_panic(); }"
    //@@ rewrite-re "(?s)DeserializationError::InvalidValue\(format!\(.*?\)\)\)" => "DeserializationError::InvalidValue(err_text()))"
    //@@ rewrite "domain_size.is_power_of_two()" => "is_power_of_two(domain_size)"
    //@@ rewrite "domain_size.ilog2()" => "ilog2(domain_size)"
    //@@ rewrite "E::ELEMENT_BYTES" => "E::element_bytes()"
    //@@ rewrite "Table::<E>::from_bytes(" => "Table::from_bytes("
    //@@ rewrite "query_values.rows().map(|row| H::hash_elements(row)).collect()" => "hash_rows(&query_values)"
    //@@ before "let hashed_queries"
    //@@|        proof {
    //@@|            assert((num_queries as int * values_per_query as int) / (values_per_query as int) == num_queries as int) by (nonlinear_arith) requires values_per_query >= 1, num_queries >= 0;
    //@@|            assert(query_values.data@.len() / (query_values.row_width as nat) == num_queries);
    //@@|        }
    pub fn parse(self, domain_size: usize, num_queries: usize, values_per_query: usize) -> (r: Result<(BatchMerkleProof, Table), DeserializationError>)
        requires
            is_pow2_spec(domain_size), domain_size >= 1,
            0 < num_queries <= MAX_ROWS, 0 < values_per_query <= MAX_COLS,
            1 <= elem_bytes() <= 64,
        ensures
            r is Ok <==> queries_ok(self, domain_size, num_queries, values_per_query),
            r is Ok ==> r->Ok_0.1.row_width == values_per_query
                && r->Ok_0.1.data@ == dec_many(self.values@, (num_queries * values_per_query) as nat)->Some_0.0
                && r->Ok_0.0 == bmp_dec(self.paths@, row_hashes(r->Ok_0.1.data@, num_queries as nat, values_per_query as nat), ilog2_spec(domain_size) as u8)->Some_0.0,
    {
        proof {
            assert(MAX_ROWS <= 255 && MAX_COLS <= 255) by (compute);
            assert(num_queries * values_per_query <= 255 * 255) by (nonlinear_arith) requires num_queries <= 255, values_per_query <= 255;
            assert(elem_bytes() * values_per_query <= 64 * 255) by (nonlinear_arith) requires elem_bytes() <= 64, values_per_query <= 255;
            assert(num_queries * (elem_bytes() * values_per_query) <= 255 * (64 * 255)) by (nonlinear_arith) requires num_queries <= 255, elem_bytes() * values_per_query <= 64 * 255;
        }
        /*@@body*/
    }
}

// ---------------------------------------------------------------------------------------------------------------------
// FriProof::parse_remainder / num_remainder_elements (fri/src/proof.rs, C03 / C05): the remainder polynomial the verifier
// checks against its commitment is a canonical decoding of the remainder bytes - Ok exactly when the implied number of
// elements (byte length / ELEMENT_BYTES) is a power of two, the bytes decode to that many elements and nothing follows.
// Literal rewrite (listed): `.map_err(|err| InvalidValue(format!(..)))` becomes the shim `as_invalid(..)` (Ok unchanged, any Err
// becomes InvalidValue); `x.is_power_of_two()` / `E::ELEMENT_BYTES` as above.
pub struct FriProof { pub remainder: Vec<u8> }
#[verifier::external_body]
pub fn as_invalid(r: Result<Vec<T>, DeserializationError>) -> (o: Result<Vec<T>, DeserializationError>)
    ensures o is Ok <==> r is Ok, o is Ok ==> o->Ok_0 == r->Ok_0, o is Err ==> o->Err_0 is InvalidValue
{ unimplemented!() }
impl FriProof {
    //@@ source fri/src/proof.rs
    //@@ extract anchor="pub fn num_remainder_elements<E: FieldElement>(&self) -> usize"
    //@@ rewrite "E::ELEMENT_BYTES" => "E::element_bytes()"
    pub fn num_remainder_elements(&self) -> (r: usize)
        ensures r == self.remainder@.len() / (elem_bytes() as nat)
    {
        /*@@body*/
    }

    //@@ extract anchor="pub fn parse_remainder<E: FieldElement>(&self) -> Result<Vec<E>, DeserializationError>"
    //@@ rewrite "self.num_remainder_elements::<E>()" => "self.num_remainder_elements()"
    //@@ rewrite "!num_elements.is_power_of_two()" => "!is_power_of_two(num_elements)"
    //@@ rewrite-re "(?s)DeserializationError::InvalidValue\(format!\(.*?\)\)\)" => "DeserializationError::InvalidValue(err_text()))"
    //@@ rewrite-re "(?s)reader\.read_many\(num_elements\)\.map_err\(\|err\| \{.*?\}\)\?" => "as_invalid(reader.read_many(num_elements))?"
    pub fn parse_remainder(&self) -> (r: Result<Vec<T>, DeserializationError>)
        ensures
            r is Ok <==> {
                let k = (self.remainder@.len() / (elem_bytes() as nat)) as usize;
                &&& is_pow2_spec(k)
                &&& dec_many(self.remainder@, k as nat) is Some
                &&& dec_many(self.remainder@, k as nat)->Some_0.1.len() == 0
            },
            r is Ok ==> r->Ok_0@ == dec_many(self.remainder@, (self.remainder@.len() / (elem_bytes() as nat)) as nat)->Some_0.0,
            // a decoded remainder that is refused because bytes follow it is reported as such
            r is Err && is_pow2_spec((self.remainder@.len() / (elem_bytes() as nat)) as usize)
                && dec_many(self.remainder@, self.remainder@.len() / (elem_bytes() as nat)) is Some ==> r->Err_0 is UnconsumedBytes,
    {
        /*@@body*/
    }
}

// ---------------------------------------------------------------------------------------------------------------------
// FriProofLayer::parse (fri/src/proof.rs, C03 / C05 / C06): the canonical decoder of one FRI layer. For every byte content of
// the two vectors and every folding factor: Ok exactly when the value bytes are a positive whole number nq of queries
// (length a multiple of ELEMENT_BYTES * folding_factor), decode to nq * folding_factor elements with nothing left over, and the
// path bytes decode - with nothing left over - to a batch Merkle proof for the leaves hash_elements(query 0), hash_elements(query 1),
// .. at depth log2(domain_size); the results are those elements (query-major) and that proof. No overflow, no out-of-range index.
// Literal rewrites (listed): the loop `for query_hash in hashed_queries.iter_mut() { .. *query_hash = h; .. }` is written with an
// index (`for qi in 0..hashed_queries.len()`, `hashed_queries.set(qi, h)`: the installed Verus has no iter_mut);
// `vec![H::Digest::default(); n]` becomes the shim default_digests(n) (n digests); error texts are dropped.
pub struct FriProofLayer { pub values: Vec<u8>, pub paths: Vec<u8> }
#[verifier::external_body]
pub fn default_digests(n: usize) -> (r: Vec<Dg>) ensures r@.len() == n { unimplemented!() }

proof fn lemma_dec_split(s: Seq<u8>, a: nat, b: nat)
    ensures
        dec_many(s, a + b) == (match dec_many(s, a) {
            None => None::<(Seq<T>, Seq<u8>)>,
            Some((xs, r)) => match dec_many(r, b) {
                None => None,
                Some((ys, r2)) => Some((xs + ys, r2)),
            },
        }),
    decreases a
{
    if a == 0 {
        match dec_many(s, b) { None => {}, Some((ys, r2)) => { assert(Seq::<T>::empty() + ys =~= ys); } }
    } else {
        assert((a + b - 1) as nat == (a - 1) as nat + b);
        match dec_t(s) {
            None => {},
            Some((x, r1)) => {
                lemma_dec_split(r1, (a - 1) as nat, b);
                match dec_many(r1, (a - 1) as nat) {
                    None => {},
                    Some((xs, r)) => match dec_many(r, b) {
                        None => {},
                        Some((ys, r2)) => { assert(seq![x] + (xs + ys) =~= (seq![x] + xs) + ys); },
                    },
                }
            },
        }
    }
}
proof fn lemma_dec_len(s: Seq<u8>, n: nat)
    requires dec_many(s, n) is Some
    ensures dec_many(s, n)->Some_0.0.len() == n
    decreases n
{
    if n > 0 {
        let r1 = dec_t(s)->Some_0.1;
        lemma_dec_len(r1, (n - 1) as nat);
    }
}

pub open spec fn layer_ok(l: FriProofLayer, domain_size: usize, ff: usize) -> bool {
    let q = elem_bytes() as int * ff as int;
    let nq = l.values@.len() as int / q;
    &&& l.values@.len() as int % q == 0
    &&& nq >= 1
    &&& dec_many(l.values@, (nq * ff) as nat) is Some
    &&& dec_many(l.values@, (nq * ff) as nat)->Some_0.1.len() == 0
    &&& bmp_dec(l.paths@, row_hashes(dec_many(l.values@, (nq * ff) as nat)->Some_0.0, nq as nat, ff as nat), ilog2_spec(domain_size) as u8) is Some
    &&& bmp_dec(l.paths@, row_hashes(dec_many(l.values@, (nq * ff) as nat)->Some_0.0, nq as nat, ff as nat), ilog2_spec(domain_size) as u8)->Some_0.1.len() == 0
}

impl FriProofLayer {
    //@@ source fri/src/proof.rs
    //@@ extract anchor="pub fn parse<H, E>(" within="impl FriProofLayer"
    //@@ rewrite-re "(?s)DeserializationError::InvalidValue\(format!\(.*?\)\)\)" => "DeserializationError::InvalidValue(err_text()))"
    //@@ rewrite-re "(?s)DeserializationError::InvalidValue\(\s*\"[^\"]*\"\.to_string\(\),\s*\)" => "DeserializationError::InvalidValue(err_text())"
    //@@ rewrite "E::ELEMENT_BYTES" => "E::element_bytes()"
    //@@ rewrite "vec![H::Digest::default(); num_queries]" => "default_digests(num_queries)"
    //@@ rewrite "for query_hash in hashed_queries.iter_mut() {" => "for qi in 0..hashed_queries.len() {"
    //@@ rewrite "*query_hash = H::hash_elements(&qe);" => "hashed_queries.set(qi, HH::hash_elements(&qe));"
    //@@ rewrite "domain_size.ilog2()" => "ilog2(domain_size)"
    //@@ before "let mut hashed_queries"
    //@@|        proof {
    //@@|            let q = elem_bytes() as int * folding_factor as int;
    //@@|            assert(num_queries as int * q <= self.values@.len()) by (nonlinear_arith) requires num_queries as int == self.values@.len() as int / q, q >= 1;
    //@@|            assert(num_queries as int * folding_factor as int <= num_queries as int * q) by (nonlinear_arith) requires q == elem_bytes() as int * folding_factor as int, elem_bytes() >= 1, num_queries >= 0, folding_factor >= 1;
    //@@|        }
    //@@ before "let mut reader = SliceReader::new(&self.paths)"
    //@@|        proof {
    //@@|            assert(hashed_queries@ =~= row_hashes(query_values@, num_queries as nat, folding_factor as nat));
    //@@|        }
    //@@ itername 1 it
    //@@ loop 1
    //@@|            invariant
    //@@|                folding_factor >= 1, num_queries >= 1, hashed_queries@.len() == num_queries,
    //@@|                it.iter.end == num_queries, 0 <= qi <= num_queries,
    //@@|                num_queries as int == self.values@.len() as int / (elem_bytes() as int * folding_factor as int),
    //@@|                self.values@.len() as int % (elem_bytes() as int * folding_factor as int) == 0,
    //@@|                query_values@.len() == qi * folding_factor,
    //@@|                dec_many(self.values@, (qi * folding_factor) as nat) == Some((query_values@, reader.rem@)),
    //@@|                forall|j: int| 0 <= j < qi ==> #[trigger] hashed_queries@[j] == hash_elements_of(query_values@.subrange(j * folding_factor, (j + 1) * folding_factor)),
    //@@ loopstart 1
    //@@|            let ghost qv0 = query_values@;
    //@@|            let ghost rem0 = reader.rem@;
    //@@|            proof {
    //@@|                lemma_dec_split(self.values@, (qi * folding_factor) as nat, folding_factor as nat);
    //@@|                assert((qi + 1) * folding_factor == qi * folding_factor + folding_factor) by (nonlinear_arith);
    //@@|                // a failure here is a failure of the whole decoding: nq * ff = (qi + 1) * ff + the rest
    //@@|                lemma_dec_split(self.values@, ((qi + 1) * folding_factor) as nat, ((num_queries - qi - 1) * folding_factor) as nat);
    //@@|                assert((qi + 1) * folding_factor + (num_queries - qi - 1) * folding_factor == num_queries * folding_factor) by (nonlinear_arith);
    //@@|                assert((num_queries - qi - 1) * folding_factor >= 0) by (nonlinear_arith) requires num_queries - qi - 1 >= 0, folding_factor >= 1;
    //@@|            }
    //@@ loopend 1
    //@@|            proof {
    //@@|                assert(query_values@ =~= qv0 + dec_many(rem0, folding_factor as nat)->Some_0.0);
    //@@|                lemma_dec_len(rem0, folding_factor as nat);
    //@@|                assert forall|j: int| 0 <= j < qi + 1 implies #[trigger] hashed_queries@[j] == hash_elements_of(query_values@.subrange(j * folding_factor, (j + 1) * folding_factor)) by {
    //@@|                    assert(j * folding_factor + folding_factor == (j + 1) * folding_factor) by (nonlinear_arith);
    //@@|                    if j < qi {
    //@@|                        assert((j + 1) * folding_factor <= qi * folding_factor) by (nonlinear_arith) requires j + 1 <= qi, folding_factor >= 1;
    //@@|                        assert(j * folding_factor >= 0) by (nonlinear_arith) requires j >= 0, folding_factor >= 1;
    //@@|                        assert(query_values@.subrange(j * folding_factor, (j + 1) * folding_factor) =~= qv0.subrange(j * folding_factor, (j + 1) * folding_factor));
    //@@|                    } else {
    //@@|                        assert(query_values@.subrange(j * folding_factor, (j + 1) * folding_factor) =~= dec_many(rem0, folding_factor as nat)->Some_0.0);
    //@@|                    }
    //@@|                }
    //@@|            }
    pub fn parse(self, domain_size: usize, folding_factor: usize) -> (r: Result<(Vec<T>, BatchMerkleProof), DeserializationError>)
        requires
            domain_size >= 1, 1 <= folding_factor <= 0x1_0000_0000, 1 <= elem_bytes() <= 64,
        ensures
            r is Ok <==> layer_ok(self, domain_size, folding_factor),
            r is Ok ==> {
                let nq = self.values@.len() as int / (elem_bytes() as int * folding_factor as int);
                &&& r->Ok_0.0@ == dec_many(self.values@, (nq * folding_factor) as nat)->Some_0.0
                &&& r->Ok_0.1 == bmp_dec(self.paths@, row_hashes(r->Ok_0.0@, nq as nat, folding_factor as nat), ilog2_spec(domain_size) as u8)->Some_0.0
            },
    {
        proof {
            assert(elem_bytes() as int * folding_factor as int <= 64 * 0x1_0000_0000) by (nonlinear_arith) requires elem_bytes() <= 64, folding_factor <= 0x1_0000_0000;
            assert(elem_bytes() as int * folding_factor as int >= 1) by (nonlinear_arith) requires elem_bytes() >= 1, folding_factor >= 1;
        }
        /*@@body*/
    }
}

// ---------------------------------------------------------------------------------------------------------------------
// FriProof::parse_layers (fri/src/proof.rs, C03 / C05 / C06): layer i is decoded for the domain of size D / ff^(i+1). For every
// number of layers and every content: Ok exactly when every layer's domain can still be folded (D / ff^i >= ff) and the layer is
// a canonical encoding for its folded domain (layer_ok above); the results are the layers' values and batch proofs, in order.
// Literal rewrites (listed): the loop header `for (i, layer) in self.layers.into_iter().enumerate()` loses the index (it is used
// in error texts only, which are dropped); `.map_err(|err| InvalidValue(format!(..)))` becomes the shim as_invalid_layer; the
// parameter `mut domain_size` is `domain_size0` re-bound as a mutable local (the installed Verus has no `mut` parameters).
pub struct FriProofL { pub layers: Vec<FriProofLayer> }
#[verifier::external_body]
pub fn as_invalid_layer(r: Result<(Vec<T>, BatchMerkleProof), DeserializationError>) -> (o: Result<(Vec<T>, BatchMerkleProof), DeserializationError>)
    ensures o is Ok <==> r is Ok, o is Ok ==> o->Ok_0 == r->Ok_0, o is Err ==> o->Err_0 is InvalidValue
{ unimplemented!() }
pub open spec fn dom(d: int, ff: int, i: nat) -> int
    decreases i
{
    if i == 0 { d } else { dom(d, ff, (i - 1) as nat) / ff }
}
pub open spec fn layer_vals(l: FriProofLayer, ff: usize) -> Seq<T> {
    let nq = l.values@.len() as int / (elem_bytes() as int * ff as int);
    dec_many(l.values@, (nq * ff) as nat)->Some_0.0
}
pub open spec fn layer_proof(l: FriProofLayer, d: usize, ff: usize) -> BatchMerkleProof {
    let nq = l.values@.len() as int / (elem_bytes() as int * ff as int);
    bmp_dec(l.paths@, row_hashes(layer_vals(l, ff), nq as nat, ff as nat), ilog2_spec(d) as u8)->Some_0.0
}
// every one of the first n layers can still be folded and is a canonical encoding for its folded domain
pub open spec fn layers_ok(ls: Seq<FriProofLayer>, d: int, ff: usize, n: int) -> bool
    decreases n
{
    if n <= 0 { true } else {
        &&& layers_ok(ls, d, ff, n - 1)
        &&& dom(d, ff as int, (n - 1) as nat) >= ff
        &&& layer_ok(ls[n - 1], dom(d, ff as int, n as nat) as usize, ff)
    }
}
proof fn l_layers_ok_at(ls: Seq<FriProofLayer>, d: int, ff: usize, n: int, i: int)
    requires layers_ok(ls, d, ff, n), 0 <= i < n
    ensures dom(d, ff as int, i as nat) >= ff, layer_ok(ls[i], dom(d, ff as int, (i + 1) as nat) as usize, ff)
    decreases n
{
    if i < n - 1 { l_layers_ok_at(ls, d, ff, n - 1, i); }
}
proof fn l_layers_ok_step(ls: Seq<FriProofLayer>, d: int, ff: usize, k: int)
    requires
        layers_ok(ls, d, ff, k), 0 <= k,
        dom(d, ff as int, k as nat) >= ff, layer_ok(ls[k], dom(d, ff as int, (k + 1) as nat) as usize, ff),
    ensures layers_ok(ls, d, ff, k + 1)
{
}
proof fn l_layers_ok_refute(ls: Seq<FriProofLayer>, d: int, ff: usize, n: int, k: int)
    requires 0 <= k < n, !(dom(d, ff as int, k as nat) >= ff && layer_ok(ls[k], dom(d, ff as int, (k + 1) as nat) as usize, ff))
    ensures !layers_ok(ls, d, ff, n)
{
    if layers_ok(ls, d, ff, n) { l_layers_ok_at(ls, d, ff, n, k); }
}
proof fn lemma_dom_bounds(d: int, ff: int, i: nat)
    requires 0 <= d, ff >= 1
    ensures 0 <= dom(d, ff, i) <= d
    decreases i
{
    if i > 0 {
        lemma_dom_bounds(d, ff, (i - 1) as nat);
        let x = dom(d, ff, (i - 1) as nat);
        assert(0 <= x / ff <= x) by (nonlinear_arith) requires x >= 0, ff >= 1;
    }
}

impl FriProofL {
    //@@ source fri/src/proof.rs
    //@@ extract anchor="pub fn parse_layers<H, E>("
    //@@ rewrite-re "assert!\(([^,]+),[^;]*\);" => "if !(\1) { must_not_panic(); }"
    //@@ rewrite "domain_size.is_power_of_two()" => "is_power_of_two(domain_size)"
    //@@ rewrite "folding_factor.is_power_of_two()" => "is_power_of_two(folding_factor)"
    //@@ rewrite "for (i, layer) in self.layers.into_iter().enumerate() {" => "for layer in self.layers.into_iter() {"
    //@@ rewrite "let mut layer_proofs = Vec::new();" => "let mut layer_proofs: Vec<BatchMerkleProof> = Vec::new();"
    //@@ rewrite "let mut layer_queries = Vec::new();" => "let mut layer_queries: Vec<Vec<T>> = Vec::new();"
    //@@ rewrite-re "(?s)DeserializationError::InvalidValue\(format!\(.*?\)\)\)" => "DeserializationError::InvalidValue(err_text()))"
    //@@ rewrite-re "(?s)layer\.parse\(domain_size, folding_factor\)\.map_err\(\|err\| \{.*?\}\)\?" => "as_invalid_layer(layer.parse(domain_size, folding_factor))?"
    //@@ itername 1 it
    //@@ loop 1
    //@@|            invariant
    //@@|                folding_factor >= 2, folding_factor <= 0x1_0000_0000, 1 <= elem_bytes() <= 64, d0 >= 1,
    //@@|                ls == self.layers@, d0 == domain_size0,
    //@@|                0 <= it.index@ <= ls.len(),
    //@@|                domain_size == dom(d0 as int, folding_factor as int, it.index@ as nat),
    //@@|                layers_ok(ls, d0 as int, folding_factor, it.index@),
    //@@|                layer_proofs@.len() == it.index@, layer_queries@.len() == it.index@,
    //@@|                forall|j: int| 0 <= j < it.index@ ==> #[trigger] layer_queries@[j]@ == layer_vals(ls[j], folding_factor),
    //@@|                forall|j: int| 0 <= j < it.index@ ==> #[trigger] layer_proofs@[j] == layer_proof(ls[j], dom(d0 as int, folding_factor as int, (j + 1) as nat) as usize, folding_factor),
    //@@ loopstart 1
    //@@|            let ghost dprev = domain_size;
    //@@|            let ghost k = it.index@;
    //@@|            let ghost ok_before = layers_ok(ls, d0 as int, folding_factor, k);
    //@@|            proof {
    //@@|                assert(k < ls.len());
    //@@|                assert(layer == ls[k]);
    //@@|                lemma_dom_bounds(d0 as int, folding_factor as int, (k + 1) as nat);
    //@@|                assert(dom(d0 as int, folding_factor as int, (k + 1) as nat) == dprev as int / folding_factor as int);
    //@@|                // a layer that cannot be folded, or that is not a canonical encoding, refutes layers_ok for the whole list
    //@@|                if dprev < folding_factor || !layer_ok(ls[k], (dprev / folding_factor) as usize, folding_factor) {
    //@@|                    assert(!(dom(d0 as int, folding_factor as int, k as nat) >= folding_factor && layer_ok(ls[k], dom(d0 as int, folding_factor as int, (k + 1) as nat) as usize, folding_factor)));
    //@@|                    l_layers_ok_refute(ls, d0 as int, folding_factor, ls.len() as int, k);
    //@@|                }
    //@@|                if dprev >= folding_factor {
    //@@|                    assert(dprev as int / folding_factor as int >= 1) by (nonlinear_arith) requires dprev >= folding_factor, folding_factor >= 1;
    //@@|                }
    //@@|            }
    //@@ loopend 1
    //@@|            proof {
    //@@|                assert(dom(d0 as int, folding_factor as int, (k + 1) as nat) as usize == domain_size);
    //@@|                l_layers_ok_step(ls, d0 as int, folding_factor, k);
    //@@|            }
    pub fn parse_layers(self, domain_size0: usize, folding_factor: usize) -> (r: Result<(Vec<Vec<T>>, Vec<BatchMerkleProof>), DeserializationError>)
        requires
            is_pow2_spec(domain_size0), is_pow2_spec(folding_factor), domain_size0 >= 1,
            2 <= folding_factor <= 0x1_0000_0000, 1 <= elem_bytes() <= 64,
        ensures
            r is Ok <==> layers_ok(self.layers@, domain_size0 as int, folding_factor, self.layers@.len() as int),
            r is Ok ==> r->Ok_0.0@.len() == self.layers@.len() && r->Ok_0.1@.len() == self.layers@.len()
                && (forall|j: int| 0 <= j < self.layers@.len() ==> #[trigger] r->Ok_0.0@[j]@ == layer_vals(self.layers@[j], folding_factor))
                && (forall|j: int| 0 <= j < self.layers@.len() ==> #[trigger] r->Ok_0.1@[j]
                        == layer_proof(self.layers@[j], dom(domain_size0 as int, folding_factor as int, (j + 1) as nat) as usize, folding_factor)),
    {
        let ghost d0 = domain_size0;
        let ghost ls = self.layers@;
        let mut domain_size = domain_size0;
        /*@@body*/
    }
}

// ---------------------------------------------------------------------------------------------------------------------
// OodFrame::set_trace_states / set_constraint_evaluations (air/src/proof/ood_frame.rs, C04 / C12): what the prover stores in the
// proof and what it hands to the coin are the same values. For every frame: the trace-state section becomes the byte 2 followed by
// the encodings of the current / next evaluations interleaved per column, the Lagrange section becomes the number of Lagrange
// kernel values followed by their encodings, and the RETURNED digest - the one the prover channel reseeds the coin with - is
// hash_elements of exactly those values in that order, i.e. TraceOodFrame::hash (what the verifier recomputes from the parsed
// frame). set_constraint_evaluations stores exactly the encodings of the evaluations. The sections other than the written ones
// are untouched; the "already set" assertions are the documented pre-conditions.
// Literal rewrites (listed): the three `Vec<u8>` sections are `VecWriter`s (Vec<u8> as a ByteWriter; write_many is proved in unit
// serdev); `a.into_iter().chain(b).collect()` becomes the shim concat_vec (a followed by b); `u8::MAX.into()` is `u8::MAX as usize`.
pub struct OodFrameW { pub trace_states: VecWriter, pub lagrange_kernel_trace_states: VecWriter, pub evaluations: VecWriter }
impl VecWriter {
    #[verifier::external_body]
    pub fn write_u8(&mut self, b: u8) ensures final(self).v@ == old(self).v@ + seq![b] { unimplemented!() }
    pub fn is_empty(&self) -> (r: bool) ensures r == (self.v@.len() == 0) { self.v.len() == 0 }
    #[verifier::external_body]
    pub fn write_many_slice(&mut self, e: &[T]) ensures final(self).v@ == old(self).v@ + enc_many(e@) { unimplemented!() }
}
#[verifier::external_body]
pub fn concat_vec(a: Vec<T>, b: Vec<T>) -> (r: Vec<T>) ensures r@ == a@ + b@ { unimplemented!() }

impl OodFrameW {
    //@@ source air/src/proof/ood_frame.rs
    //@@ extract anchor="pub fn set_trace_states<E, H>(&mut self, trace_ood_frame: &TraceOodFrame<E>) -> H::Digest"
    //@@ rewrite-re "assert!\(([^,]+),[^;]*\);" => "if !(\1) { must_not_panic(); }"
    //@@ rewrite-re "debug_assert!\(([^;]*)\);" => "assert(\1);"
    //@@ rewrite "u8::MAX.into()" => "(u8::MAX as usize)"
    //@@ rewrite "let elements_to_hash: Vec<E> =" => "let elements_to_hash: Vec<T> ="
    //@@ rewrite-re "main_and_aux_trace_states\.into_iter\(\)\.chain\(lagrange_trace_states\)\.collect\(\)" => "concat_vec(main_and_aux_trace_states, lagrange_trace_states)"
    //@@ rewrite "H::hash_elements(" => "HH::hash_elements("
    pub fn set_trace_states(&mut self, trace_ood_frame: &TraceOodFrame) -> (r: Dg)
        requires
            old(self).trace_states.v@.len() == 0, old(self).lagrange_kernel_trace_states.v@.len() == 0,
            trace_ood_frame.current_row.len() == trace_ood_frame.next_row.len(), trace_ood_frame.current_row.len() <= usize::MAX / 2,
            lag_values(*trace_ood_frame).len() < 255,
        ensures
            final(self).trace_states.v@ =~= seq![2u8] + enc_many(interleave(trace_ood_frame.current_row@, trace_ood_frame.next_row@)),
            final(self).lagrange_kernel_trace_states.v@ =~= seq![lag_values(*trace_ood_frame).len() as u8] + enc_many(lag_values(*trace_ood_frame)),
            final(self).evaluations == old(self).evaluations,
            // the digest handed to the coin is the hash of exactly the stored values: what TraceOodFrame::hash computes
            r == hash_elements_of(interleave(trace_ood_frame.current_row@, trace_ood_frame.next_row@) + lag_values(*trace_ood_frame)),
    {
        /*@@body*/
    }

    //@@ extract anchor="pub fn set_constraint_evaluations<E: FieldElement>(&mut self, evaluations: &[E])"
    //@@ rewrite-re "assert!\(([^,]+),[^;]*\);" => "if !(\1) { must_not_panic(); }"
    //@@ rewrite "self.evaluations.write_many(evaluations);" => "self.evaluations.write_many_slice(evaluations);"
    pub fn set_constraint_evaluations(&mut self, evaluations: &[T])
        requires old(self).evaluations.v@.len() == 0, evaluations@.len() > 0
        ensures
            final(self).evaluations.v@ =~= enc_many(evaluations@),
            final(self).trace_states == old(self).trace_states,
            final(self).lagrange_kernel_trace_states == old(self).lagrange_kernel_trace_states,
    {
        /*@@body*/
    }
}

// ---------------------------------------------------------------------------------------------------------------------
// Queries::new (air/src/proof/queries.rs, C12): the writer Queries::parse reads back. For every non-empty list of equally long
// rows: the value bytes are the encodings of row 0, row 1, .. in order (row-major, nothing else), the path bytes are
// serialize_nodes of the batch proof. The three assertions are the documented pre-conditions.
pub uninterp spec fn ser_nodes_spec(p: BatchMerkleProof) -> Seq<u8>;
impl BatchMerkleProof {
    #[verifier::external_body]
    pub fn serialize_nodes(&self) -> (r: Vec<u8>) ensures r@ == ser_nodes_spec(*self) { unimplemented!() }
}
pub open spec fn enc_rows(rows: Seq<Vec<T>>, n: nat) -> Seq<u8>
    decreases n
{
    if n == 0 { Seq::<u8>::empty() } else { enc_rows(rows, (n - 1) as nat) + enc_many(rows[n - 1]@) }
}
#[verifier::external_body]
pub fn writer_with_capacity(n: usize) -> (r: VecWriter) ensures r.v@.len() == 0 { unimplemented!() }
pub struct QueriesW { pub paths: Vec<u8>, pub values: VecWriter }
impl QueriesW {
    //@@ source air/src/proof/queries.rs
    //@@ extract anchor="pub fn new<H: Hasher, E: FieldElement>("
    //@@ rewrite-re "assert!\(([^,]+),[^;]*\);" => "if !(\1) { must_not_panic(); }"
    //@@ rewrite-re "assert_ne!\(([^,]+),\s*([^,]+),[^;]*\);" => "if !(\1 != \2) { must_not_panic(); }"
    //@@ rewrite-re "(?s)assert_eq!\(\s*([^,]+),\s*([^,]+),[^;]*\);" => "if !(\1 == \2) { must_not_panic(); }"
    //@@ rewrite "E::ELEMENT_BYTES" => "E::element_bytes()"
    //@@ rewrite "Vec::with_capacity(" => "writer_with_capacity("
    //@@ rewrite "Queries { paths, values }" => "QueriesW { paths, values }"
    //@@ itername 1 it
    //@@ loop 1
    //@@|            invariant
    //@@|                0 <= it.index@ <= query_values@.len(),
    //@@|                forall|j: int| 0 <= j < query_values@.len() ==> (#[trigger] query_values@[j])@.len() == elements_per_query,
    //@@|                values.v@ == enc_rows(query_values@, it.index@ as nat),
    //@@ loopstart 1
    //@@|            proof { assert(*elements == query_values@[it.index@]); }
    pub fn new(merkle_proof: BatchMerkleProof, query_values: Vec<Vec<T>>) -> (r: Self)
        requires
            1 <= query_values@.len() <= 255, 1 <= query_values@[0]@.len() <= 255, 1 <= elem_bytes() <= 64,
            forall|j: int| 0 <= j < query_values@.len() ==> (#[trigger] query_values@[j])@.len() == query_values@[0]@.len(),
        ensures
            r.values.v@ == enc_rows(query_values@, query_values@.len()),
            r.paths@ == ser_nodes_spec(merkle_proof),
    {
        proof {
            let a = query_values@.len() as int; let b = query_values@[0]@.len() as int; let c = elem_bytes() as int;
            assert(a * b <= 255 * 255) by (nonlinear_arith) requires a <= 255, b <= 255, a >= 0, b >= 0;
            assert(a * b * c <= 255 * 255 * 64) by (nonlinear_arith) requires a * b <= 255 * 255, c <= 64, a * b >= 0, c >= 0;
        }
        /*@@body*/
    }
}

// ---------------------------------------------------------------------------------------------------------------------
// ProverChannel::{commit_trace, commit_constraints, send_ood_trace_states, send_ood_constraint_evaluations}
// (prover/src/channel.rs, C04): every message the prover sends is (1) stored in the proof and (2) absorbed by the public coin, once,
// as exactly the stored value - a commitment root as itself, the out-of-domain frames as hash_elements of the stored values.
// The coin is a ghost log of the digests it was reseeded with (its state transition is proved in unit coinv, C19); the commitment
// section is a byte writer (Commitments::add appends the digest's encoding: named contract).
pub uninterp spec fn enc_dg(d: Dg) -> Seq<u8>;
pub struct CoinLog { pub ops: Ghost<Seq<Dg>> }
impl CoinLog {
    #[verifier::external_body]
    pub fn reseed(&mut self, d: Dg) ensures final(self).ops@ == old(self).ops@.push(d) { unimplemented!() }
}
pub struct CommitmentsW { pub bytes: Ghost<Seq<u8>> }
impl CommitmentsW {
    #[verifier::external_body]
    pub fn add(&mut self, d: &Dg) ensures final(self).bytes@ == old(self).bytes@ + enc_dg(*d) { unimplemented!() }
}
impl HH {
    #[verifier::external_body]
    pub fn hash_elements_slice(v: &[T]) -> (r: Dg) ensures r == hash_elements_of(v@) { unimplemented!() }
}
pub struct ProverChannel { pub commitments: CommitmentsW, pub ood_frame: OodFrameW, pub public_coin: CoinLog }
impl ProverChannel {
    //@@ source prover/src/channel.rs
    //@@ extract anchor="pub fn commit_trace(&mut self, trace_root: H::Digest)"
    //@@ rewrite "self.commitments.add::<H>(" => "self.commitments.add("
    pub fn commit_trace(&mut self, trace_root: Dg)
        ensures
            final(self).commitments.bytes@ == old(self).commitments.bytes@ + enc_dg(trace_root),
            final(self).public_coin.ops@ == old(self).public_coin.ops@.push(trace_root),
            final(self).ood_frame == old(self).ood_frame,
    {
        /*@@body*/
    }

    //@@ extract anchor="pub fn commit_constraints(&mut self, constraint_root: H::Digest)"
    //@@ rewrite "self.commitments.add::<H>(" => "self.commitments.add("
    pub fn commit_constraints(&mut self, constraint_root: Dg)
        ensures
            final(self).commitments.bytes@ == old(self).commitments.bytes@ + enc_dg(constraint_root),
            final(self).public_coin.ops@ == old(self).public_coin.ops@.push(constraint_root),
            final(self).ood_frame == old(self).ood_frame,
    {
        /*@@body*/
    }

    //@@ extract anchor="pub fn send_ood_trace_states(&mut self, trace_ood_frame: &TraceOodFrame<E>)"
    //@@ rewrite "self.ood_frame.set_trace_states::<E, H>(" => "self.ood_frame.set_trace_states("
    pub fn send_ood_trace_states(&mut self, trace_ood_frame: &TraceOodFrame)
        requires
            old(self).ood_frame.trace_states.v@.len() == 0, old(self).ood_frame.lagrange_kernel_trace_states.v@.len() == 0,
            trace_ood_frame.current_row.len() == trace_ood_frame.next_row.len(), trace_ood_frame.current_row.len() <= usize::MAX / 2,
            lag_values(*trace_ood_frame).len() < 255,
        ensures
            final(self).ood_frame.trace_states.v@ =~= seq![2u8] + enc_many(interleave(trace_ood_frame.current_row@, trace_ood_frame.next_row@)),
            final(self).ood_frame.lagrange_kernel_trace_states.v@ =~= seq![lag_values(*trace_ood_frame).len() as u8] + enc_many(lag_values(*trace_ood_frame)),
            final(self).ood_frame.evaluations == old(self).ood_frame.evaluations,
            final(self).commitments == old(self).commitments,
            // the coin absorbs, once, the hash of exactly the stored values
            final(self).public_coin.ops@ == old(self).public_coin.ops@.push(
                hash_elements_of(interleave(trace_ood_frame.current_row@, trace_ood_frame.next_row@) + lag_values(*trace_ood_frame))),
    {
        /*@@body*/
    }

    //@@ extract anchor="pub fn send_ood_constraint_evaluations(&mut self, evaluations: &[E])"
    //@@ rewrite "H::hash_elements(evaluations)" => "HH::hash_elements_slice(evaluations)"
    pub fn send_ood_constraint_evaluations(&mut self, evaluations: &[T])
        requires old(self).ood_frame.evaluations.v@.len() == 0, evaluations@.len() > 0
        ensures
            final(self).ood_frame.evaluations.v@ =~= enc_many(evaluations@),
            final(self).ood_frame.trace_states == old(self).ood_frame.trace_states,
            final(self).ood_frame.lagrange_kernel_trace_states == old(self).ood_frame.lagrange_kernel_trace_states,
            final(self).commitments == old(self).commitments,
            final(self).public_coin.ops@ == old(self).public_coin.ops@.push(hash_elements_of(evaluations@)),
    {
        /*@@body*/
    }
}

// ---------------------------------------------------------------------------------------------------------------------
// FriProof::new (fri/src/proof.rs, C12 / C15): the writer parse_remainder reads back - the remainder section holds the encodings of
// ALL remainder coefficients in order (none dropped), the layers are stored unchanged, the partition count as its binary
// logarithm. The four assertions are the documented pre-conditions.
pub uninterp spec fn trailing_zeros_spec(x: usize) -> u32;
#[verifier::external_body]
pub fn trailing_zeros(x: usize) -> (r: u32) ensures r == trailing_zeros_spec(x), r <= 64 { x.trailing_zeros() }
pub struct FriProofN { pub layers: Vec<FriProofLayer>, pub remainder: VecWriter, pub num_partitions: u8 }
impl FriProofN {
    //@@ source fri/src/proof.rs
    //@@ extract anchor="pub(crate) fn new<E: FieldElement>("
    //@@ rewrite-re "(?s)assert!\(\s*([^,]+),.*?\);" => "if !(\1) { must_not_panic(); }"
    //@@ rewrite "remainder.len().is_power_of_two()" => "is_power_of_two(remainder.len())"
    //@@ rewrite "num_partitions.is_power_of_two()" => "is_power_of_two(num_partitions)"
    //@@ rewrite "E::ELEMENT_BYTES" => "E::element_bytes()"
    //@@ rewrite "Vec::with_capacity(" => "writer_with_capacity("
    //@@ rewrite "num_partitions.trailing_zeros()" => "trailing_zeros(num_partitions)"
    //@@ rewrite "FriProof {" => "FriProofN {"
    pub fn new(layers: Vec<FriProofLayer>, remainder: Vec<T>, num_partitions: usize) -> (r: Self)
        requires
            1 <= remainder@.len() <= 0x1_0000_0000, is_pow2_spec(remainder.len()),
            num_partitions > 0, is_pow2_spec(num_partitions), 1 <= elem_bytes() <= 64,
        ensures
            r.remainder.v@ == enc_many(remainder@),
            r.layers == layers,
            r.num_partitions == trailing_zeros_spec(num_partitions) as u8,
    {
        proof {
            assert(elem_bytes() as int * remainder@.len() as int <= 64 * 0x1_0000_0000) by (nonlinear_arith) requires elem_bytes() <= 64, remainder@.len() <= 0x1_0000_0000;
        }
        /*@@body*/
    }
}

proof fn oodv_canary_must_fail(b: Seq<u8>)
    requires trace_ok(b, 1)
    ensures b.len() == 1
{
}

} // verus!

fn main() {}
