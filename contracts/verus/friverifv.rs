// Verus unit friverifv: FriVerifier::new (fri/src/verifier/mod.rs) - body cut out of /repo - for EVERY number of layer
// commitments, every folding factor and every degree bound, against an abstract channel, coin, hasher and field.
// Decided (C04 / C05):
//   * a commitment list whose length is not num_fri_layers(domain) + 1 is refused before the coin is touched;
//   * otherwise the coin sees exactly  reseed(c_0), draw, reseed(c_1), draw, ...  - every commitment absorbed, in order, one
//     challenge drawn right after each - and nothing else; the challenge stored for layer i is the value drawn after c_i;
//   * DegreeTruncation(depth) is returned exactly at the first non-final depth at which the running degree bound plus one
//     (d + 1 divided by the folding factor once per earlier layer) is not a multiple of the folding factor; Ok only if there
//     is no such depth;
//   * the verifier keeps the commitments it read, the degree bound, the domain size next_power_of_two(d) * blowup.
// Literal rewrites (listed in coverage.extraction): the iterator-adapter loop header
// `for (depth, commitment) in layer_commitments.iter().enumerate() {` becomes `for depth in 0..layer_commitments.len() { let commitment = &layer_commitments[depth];`
// (same pairs); `.map_err(VerifierError::RandomCoinError)` becomes a named function with that meaning; the associated-type path
// `E::BaseField::` becomes `B::`.
// Assumed: contracts of the coin / channel / options methods (named, uninterpreted), usize::next_power_of_two / ilog2 named.
use vstd::prelude::*;
verus! {
global size_of usize == 8;

#[derive(Copy, Clone, PartialEq, Eq, Structural)]
pub struct Digest(pub u64);
#[derive(Copy, Clone, PartialEq, Eq, Structural)]
pub struct E(pub u64);
#[derive(Copy, Clone, PartialEq, Eq, Structural)]
pub struct B(pub u64);
pub struct PhantomData;

pub enum Op { Reseed(Digest), Draw }
pub struct RandomCoinError;
pub enum VerifierError {
    RandomCoinError(RandomCoinError),
    NumLayerCommitmentsMismatch(usize, usize),
    DegreeTruncation(usize, usize, usize),
}
pub uninterp spec fn draw_value(log: Seq<Op>) -> Option<E>;

pub struct Coin { pub log: Ghost<Seq<Op>> }
impl Coin {
    #[verifier::external_body]
    pub fn reseed(&mut self, d: Digest) ensures final(self).log@ == old(self).log@.push(Op::Reseed(d)) { unimplemented!() }
    #[verifier::external_body]
    pub fn draw(&mut self) -> (r: Result<E, RandomCoinError>)
        ensures
            final(self).log@ == old(self).log@.push(Op::Draw),
            r is Ok <==> draw_value(final(self).log@) is Some,
            r is Ok ==> r->Ok_0 == draw_value(final(self).log@)->Some_0,
    { unimplemented!() }
}
// `.map_err(VerifierError::RandomCoinError)`
pub fn map_coin_err(r: Result<E, RandomCoinError>) -> (w: Result<E, VerifierError>)
    ensures r is Ok <==> w is Ok, r is Ok ==> w->Ok_0 == r->Ok_0, w is Err ==> w->Err_0 is RandomCoinError
{
    match r { Ok(v) => Ok(v), Err(e) => Err(VerifierError::RandomCoinError(e)) }
}

pub struct Channel { pub commitments: Vec<Digest>, pub partitions: usize }
impl Channel {
    #[verifier::external_body]
    pub fn read_fri_num_partitions(&self) -> (r: usize) ensures r == self.partitions { unimplemented!() }
    #[verifier::external_body]
    pub fn read_fri_layer_commitments(&mut self) -> (r: Vec<Digest>) ensures r@ == old(self).commitments@ { unimplemented!() }
}

// the number of folding steps of a schedule: fold (floor-divide by the folding factor) while the domain is larger than
// (remainder_max_degree + 1) * blowup
pub open spec fn nfl(folding: int, blowup: int, rmd: int, domain: int) -> int
    decreases domain
{
    // (the last conjunct always holds for folding >= 2 and domain >= 1 - lemma_div_decreases -; it makes termination evident)
    if folding >= 2 && domain > (rmd + 1) * blowup && domain > 0 && domain / folding < domain { 1 + nfl(folding, blowup, rmd, domain / folding) } else { 0 }
}
#[derive(Clone)]
pub struct FriOptions { pub folding_factor: usize, pub blowup_factor: usize, pub remainder_max_degree: usize }
impl FriOptions {
    pub fn folding_factor(&self) -> (r: usize) ensures r == self.folding_factor { self.folding_factor }
    pub fn blowup_factor(&self) -> (r: usize) ensures r == self.blowup_factor { self.blowup_factor }
    //@@ source fri/src/options.rs
    //@@ extract anchor="pub fn num_fri_layers(&self, mut domain_size: usize) -> usize"
    //@@ rewrite "let mut result = 0;" => "let mut result: usize = 0;"
    //@@ loop 1
    //@@|            invariant
    //@@|                self.folding_factor >= 2, max_remainder_size == (self.remainder_max_degree + 1) * self.blowup_factor, result <= 64,
    //@@|                result + nfl(self.folding_factor as int, self.blowup_factor as int, self.remainder_max_degree as int, domain_size as int) == total,
    //@@|                (domain_size as int) * pow2i(result as int) <= d0, d0 <= usize::MAX,
    //@@|            decreases domain_size
    //@@ loopstart 1
    //@@|            proof {
    //@@|                // at most 64 halvings fit below 2^64: result < 64 here because domain_size >= 1 after result halvings of at least 2
    //@@|                vstd::arithmetic::div_mod::lemma_div_decreases(domain_size as int, self.folding_factor as int);
    //@@|                assert((self.remainder_max_degree + 1) * self.blowup_factor >= 0) by (nonlinear_arith) requires self.remainder_max_degree >= 0, self.blowup_factor >= 0;
    //@@|                lemma_pow2i_bound(domain_size as int, result as int, d0);
    //@@|                assert((domain_size / self.folding_factor) as int * pow2i(result as int + 1) <= d0) by {
    //@@|                    lemma_div_step(domain_size as int, self.folding_factor as int, result as int, d0);
    //@@|                }
    //@@|            }
    pub fn num_fri_layers(&self, domain_size: usize) -> (r: usize)
        requires self.folding_factor >= 2, self.remainder_max_degree < usize::MAX, (self.remainder_max_degree + 1) * self.blowup_factor <= usize::MAX
        ensures r == nfl(self.folding_factor as int, self.blowup_factor as int, self.remainder_max_degree as int, domain_size as int), r <= 64
    {
        let ghost d0 = domain_size as int;
        let ghost total = nfl(self.folding_factor as int, self.blowup_factor as int, self.remainder_max_degree as int, domain_size as int);
        proof { assert(pow2i(0) == 1); }
        let mut domain_size = domain_size;   // the source declares the parameter `mut`
        /*@@body*/
    }
}
pub open spec fn pow2i(k: int) -> int
    decreases k
{
    if k <= 0 { 1 } else { 2 * pow2i(k - 1) }
}
proof fn lemma_pow2i_mono(k: int)
    requires k >= 0
    ensures pow2i(k) >= 1, pow2i(k + 1) == 2 * pow2i(k)
    decreases k
{
    if k > 0 { lemma_pow2i_mono(k - 1); }
}
// d * 2^k <= d0 <= usize::MAX with d >= 1  ==>  k < 64
proof fn lemma_pow2i_bound(d: int, k: int, d0: int)
    requires d >= 1, k >= 0, d * pow2i(k) <= d0, d0 <= usize::MAX
    ensures k < 64
{
    if k >= 64 {
        lemma_pow2i_ge(k);
        assert(d * pow2i(k) >= pow2i(k)) by (nonlinear_arith) requires d >= 1, pow2i(k) >= 1;
    }
}
proof fn lemma_pow2i_ge(k: int)
    requires k >= 64
    ensures pow2i(k) >= 0x1_0000_0000_0000_0000
    decreases k
{
    if k == 64 {
        assert(pow2i(64) == 0x1_0000_0000_0000_0000) by (compute);
    } else {
        lemma_pow2i_ge(k - 1);
    }
}
proof fn lemma_div_step(d: int, n: int, k: int, d0: int)
    requires d >= 1, n >= 2, k >= 0, d * pow2i(k) <= d0
    ensures (d / n) * pow2i(k + 1) <= d0
{
    lemma_pow2i_mono(k);
    vstd::arithmetic::div_mod::lemma_fundamental_div_mod(d, n);
    let q = d / n;
    assert(q * 2 <= d) by (nonlinear_arith) requires d == n * q + d % n, d % n >= 0, n >= 2, q >= 0;
    assert(q >= 0) by { vstd::arithmetic::div_mod::lemma_div_pos_is_pos(d, n); }
    assert(q * (2 * pow2i(k)) <= d * pow2i(k)) by (nonlinear_arith) requires q * 2 <= d, pow2i(k) >= 1;
}
pub uninterp spec fn npt(x: int) -> int;
pub uninterp spec fn log2f(x: int) -> int;
pub uninterp spec fn root_spec(k: int) -> B;
pub assume_specification [usize::next_power_of_two] (x: usize) -> (r: usize)
    requires npt(x as int) <= usize::MAX
    ensures r == npt(x as int), r >= 1;
pub assume_specification [usize::ilog2] (x: usize) -> (r: u32)
    requires x > 0
    ensures r == log2f(x as int);
impl B {
    #[verifier::external_body]
    pub fn get_root_of_unity(k: u32) -> (r: B) ensures r == root_spec(k as int) { unimplemented!() }
}

pub struct FriVerifier {
    pub max_poly_degree: usize,
    pub domain_size: usize,
    pub domain_generator: B,
    pub layer_commitments: Vec<Digest>,
    pub layer_alphas: Vec<E>,
    pub options: FriOptions,
    pub num_partitions: usize,
    pub _channel: PhantomData,
    pub _public_coin: PhantomData,
}

// the coin operations after the first k commitments have been processed
pub open spec fn ops(c: Seq<Digest>, k: nat) -> Seq<Op>
    decreases k
{
    if k == 0 { Seq::<Op>::empty() } else { ops(c, (k - 1) as nat).push(Op::Reseed(c[k - 1])).push(Op::Draw) }
}
// the running degree bound plus one at depth k: (d + 1) divided by the folding factor once per earlier layer
pub open spec fn dp(d1: int, n: int, k: nat) -> int
    decreases k
{
    if k == 0 { d1 } else { dp(d1, n, (k - 1) as nat) / n }
}
// the first non-final depth at which the bound cannot be divided evenly (None if there is none)
pub open spec fn trunc_at(d1: int, n: int, len: int, depth: int) -> bool {
    &&& 0 <= depth < len - 1
    &&& dp(d1, n, depth as nat) % n != 0
    &&& forall|k: int| 0 <= k < depth ==> #[trigger] dp(d1, n, k as nat) % n == 0
}

impl FriVerifier {
    //@@ source fri/src/verifier/mod.rs
    //@@ extract anchor="pub fn new(" within="impl<E, C, H, R> FriVerifier<E, C, H, R>"
    //@@ rewrite "E::BaseField::get_root_of_unity" => "B::get_root_of_unity"
    //@@ rewrite "for (depth, commitment) in layer_commitments.iter().enumerate() {" => "for depth in 0..layer_commitments.len() { let commitment = &layer_commitments[depth];"
    //@@ rewrite "public_coin.draw().map_err(VerifierError::RandomCoinError)?" => "map_coin_err(public_coin.draw())?"
    //@@ rewrite "let mut layer_alphas = Vec::with_capacity" => "let mut layer_alphas: Vec<E> = Vec::with_capacity"
    //@@ before "let domain_generator"
    //@@|        proof { assert(domain_size >= 1) by (nonlinear_arith) requires domain_size == npt(max_poly_degree as int) * options.blowup_factor, npt(max_poly_degree as int) >= 1, options.blowup_factor >= 1; }
    //@@ itername 1 it
    //@@ loop 1
    //@@|            invariant
    //@@|                cs.len() == want, cs == old(channel).commitments@,
    //@@|                want == nfl(nn as int, options.blowup_factor as int, options.remainder_max_degree as int, npt(max_poly_degree as int) * options.blowup_factor) + 1,
    //@@|                it.iter.end == layer_commitments.len(), layer_commitments@ == cs, log0 == old(public_coin).log@,
    //@@|                options.folding_factor == nn, nn >= 1, d1 == max_poly_degree + 1,
    //@@|                public_coin.log@ == log0 + ops(cs, depth as nat),
    //@@|                layer_alphas.len() == depth,
    //@@|                forall|i: int| 0 <= i < depth ==> draw_value(log0 + ops(cs, (i + 1) as nat)) == Some(#[trigger] layer_alphas@[i]),
    //@@|                max_degree_plus_1 == dp(d1, nn as int, depth as nat),
    //@@|                forall|k: int| 0 <= k < depth && k < cs.len() - 1 ==> #[trigger] dp(d1, nn as int, k as nat) % (nn as int) == 0,
    //@@ loopstart 1
    //@@|            proof {
    //@@|                vstd::arithmetic::div_mod::lemma_small_mod(0, nn as nat);
    //@@|                assert(log0 + ops(cs, depth as nat).push(Op::Reseed(cs[depth as int])).push(Op::Draw) =~= (log0 + ops(cs, depth as nat)).push(Op::Reseed(cs[depth as int])).push(Op::Draw));
    //@@|                assert(ops(cs, (depth + 1) as nat) == ops(cs, depth as nat).push(Op::Reseed(cs[depth as int])).push(Op::Draw));
    //@@|            }
    pub fn new(
        channel: &mut Channel,
        public_coin: &mut Coin,
        options: FriOptions,
        max_poly_degree: usize,
    ) -> (r: Result<Self, VerifierError>)
        requires
            max_poly_degree < usize::MAX, options.folding_factor >= 2, options.blowup_factor >= 1,
            options.remainder_max_degree < usize::MAX, (options.remainder_max_degree + 1) * options.blowup_factor <= usize::MAX,
            npt(max_poly_degree as int) <= usize::MAX, npt(max_poly_degree as int) * options.blowup_factor <= usize::MAX,
        ensures
            ({
                let cs = old(channel).commitments@;
                let n = options.folding_factor as int;
                let d1 = max_poly_degree + 1;
                let dom = npt(max_poly_degree as int) * options.blowup_factor;
                let want = nfl(n, options.blowup_factor as int, options.remainder_max_degree as int, dom) + 1;
                &&& (cs.len() != want <==> r is Err && r->Err_0 is NumLayerCommitmentsMismatch)
                &&& cs.len() != want ==> final(public_coin).log@ == old(public_coin).log@
                &&& r is Ok ==> {
                    let v = r->Ok_0;
                    &&& final(public_coin).log@ == old(public_coin).log@ + ops(cs, cs.len())
                    &&& v.layer_commitments@ == cs && v.layer_alphas.len() == cs.len()
                    &&& forall|i: int| 0 <= i < cs.len() ==> draw_value(old(public_coin).log@ + ops(cs, (i + 1) as nat)) == Some(#[trigger] v.layer_alphas@[i])
                    &&& forall|k: int| 0 <= k < cs.len() - 1 ==> #[trigger] dp(d1, n, k as nat) % n == 0
                    &&& v.max_poly_degree == max_poly_degree && v.domain_size == dom && v.num_partitions == old(channel).partitions
                }
                &&& (r is Err && r->Err_0 is DegreeTruncation) ==> {
                    &&& r->Err_0->DegreeTruncation_1 == n
                    &&& trunc_at(d1, n, cs.len() as int, r->Err_0->DegreeTruncation_2 as int)
                }
                // refusal for a failed draw happens only when the coin fails
                &&& (r is Err && r->Err_0 is RandomCoinError) ==> cs.len() == want
            }),
    {
        let ghost cs = channel.commitments@;
        let ghost log0 = public_coin.log@;
        let ghost nn = options.folding_factor;
        let ghost d1 = max_poly_degree + 1;
        let ghost want = nfl(nn as int, options.blowup_factor as int, options.remainder_max_degree as int, npt(max_poly_degree as int) * options.blowup_factor) + 1;
        proof { assert(log0 + ops(cs, 0) =~= log0); }
        /*@@body*/
    }
}

proof fn friverifv_canary_must_fail(c: Seq<Digest>)
    requires c.len() >= 1
    ensures ops(c, 1) == seq![Op::Draw, Op::Reseed(c[0])]
{
}

} // verus!

fn main() {}
