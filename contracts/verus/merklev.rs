// Verus unit merklev: single openings of crypto/src/merkle/mod.rs for EVERY tree size and leaf index.
// Decided, against an abstract hash (uninterpreted merge; nothing assumed about it):
//   prove   on a well-formed tree (heap-ordered nodes, T[i] = merge(T[2i], T[2i+1]), n = 2^d leaves, 1 <= d < 63) returns
//           Err exactly for index >= n and otherwise the authentication path: the leaf, then the sibling at every level
//   verify  refuses paths shorter than 2 or longer than 64 entries and otherwise accepts exactly when the value folded
//           from the path along the bits of the index equals the given root (specification `fold`)
//   lemma_prove_verify   the path returned by prove folds to the root: verify(root(), i, prove(i)) accepts (completeness)
//   build_merkle_nodes / MerkleTree::new   (session 5) return, for every power-of-two leaf count >= 2, exactly such a
//           well-formed tree over the given leaves; new is Ok iff the count is >= 2 and a power of two. The raw-pointer
//           reinterpretation of digest slices as pairs is modelled by two specified external functions (see below).
// Not decided here: batch openings (BTreeMap code: bounded stand-in); the concurrent construction; collision resistance is
// not a property of the code.
// verify refuses claimed indices >= 2^(len-1) (positions that do not exist in a tree of that depth) - repaired in session 5.
use vstd::prelude::*;
use vstd::arithmetic::power2::*;
use vstd::arithmetic::div_mod::*;
verus! {
global size_of usize == 8;

#[derive(Copy, Clone, PartialEq, Eq, Structural)]
pub struct D(pub u64);
pub uninterp spec fn merge_of(a: D, b: D) -> D;
pub struct H;
impl H {
    #[verifier::external_body]
    pub fn merge(v: &[D; 2]) -> (r: D) ensures r == merge_of(v[0], v[1]) { unimplemented!() }
}
pub enum MerkleTreeError { LeafIndexOutOfBounds(usize, usize), InvalidProof }

pub struct MerkleTree { pub nodes: Vec<D>, pub leaves: Vec<D> }

// the complete binary tree in heap order: T[1] root, T[i] = merge(T[2i], T[2i+1]), leaves at T[n .. 2n)
pub open spec fn t_at(t: MerkleTree, i: int) -> D {
    if i < t.nodes.len() { t.nodes@[i] } else { t.leaves@[i - t.nodes.len()] }
}
pub open spec fn dep_ok(t: MerkleTree, d: nat) -> bool { 1 <= d < 63 && t.leaves.len() == pow2(d) }
pub open spec fn dep(t: MerkleTree) -> nat { choose|d: nat| dep_ok(t, d) }
pub open spec fn wf(t: MerkleTree) -> bool {
    &&& t.nodes.len() == t.leaves.len()
    &&& exists|d: nat| dep_ok(t, d)
    &&& forall|i: int| 1 <= i < t.nodes.len() ==> #[trigger] t_at(t, i) == merge_of(t_at(t, 2 * i), t_at(t, 2 * i + 1))
}
pub open spec fn sib(c: int) -> int { if c % 2 == 0 { c + 1 } else { c - 1 } }

// p is the authentication path of leaf `index`: the leaf, then the sibling at every level below the root
pub open spec fn is_path(t: MerkleTree, d: nat, index: int, p: Seq<D>) -> bool {
    let fi = index + t.leaves.len();
    &&& p.len() == d + 1
    &&& p[0] == t_at(t, fi)
    &&& forall|k: int| 1 <= k <= d ==> #[trigger] p[k] == t_at(t, sib(fi / (pow2((k - 1) as nat) as int)))
}

proof fn lemma_bits(x: usize)
    requires x < 0x8000_0000_0000_0000
    ensures (x ^ 1) as int == sib(x as int), (x >> 1) as int == x as int / 2, (x & 1) as int == x as int % 2
{
    assert((x ^ 1) == (if x % 2 == 0 { (x + 1) as usize } else { (x - 1) as usize })) by (bit_vector) requires x < 0x8000_0000_0000_0000;
    assert((x >> 1) == x / 2) by (bit_vector);
    assert((x & 1) == x % 2) by (bit_vector);
}

proof fn lemma_bits2(x: usize)
    ensures (x >> 1) as int == x as int / 2, (x & 1) as int == x as int % 2, (x & 1) < 2
{
    assert((x >> 1) == x / 2) by (bit_vector);
    assert((x & 1) == x % 2) by (bit_vector);
}

proof fn lemma_div_step(fi: int, k: nat)
    requires fi >= 0
    ensures fi / (pow2(k + 1) as int) == (fi / (pow2(k) as int)) / 2
{
    lemma_pow2_pos(k);
    lemma_pow2_unfold(k + 1);
    lemma_div_denominator(fi, pow2(k) as int, 2);
    assert(pow2(k + 1) == pow2(k) * 2);
}

// facts about the size: n = 2^d, 1 <= d < 63
proof fn lemma_size(t: MerkleTree)
    requires wf(t)
    ensures dep_ok(t, dep(t)), t.leaves.len() % 2 == 0, 2 <= t.leaves.len() <= 0x4000_0000_0000_0000,
{
    let d = dep(t);
    lemma2_to64(); lemma2_to64_rest();
    if d < 62 { lemma_pow2_strictly_increases(d, 62); }
    lemma_pow2_unfold(d);
    lemma_pow2_pos((d - 1) as nat);
}

// fi in [n, 2n), n = 2^d: fi / 2^k lies in [2^(d-k), 2^(d-k+1)) for k <= d
proof fn lemma_level(fi: int, d: nat, k: nat)
    requires pow2(d) <= fi < 2 * pow2(d), k <= d
    ensures pow2((d - k) as nat) <= fi / (pow2(k) as int) < 2 * pow2((d - k) as nat)
{
    lemma_pow2_pos(k);
    lemma_pow2_adds(k, (d - k) as nat);
    let a = pow2(k) as int; let b = pow2((d - k) as nat) as int;
    assert(pow2(d) == a * b);
    assert(b <= fi / a) by (nonlinear_arith) requires a * b <= fi, a > 0;
    assert(fi / a < 2 * b) by (nonlinear_arith) requires 0 <= fi < 2 * (a * b), a > 0;
}

// the value recomputed by `verify` after it has consumed p[0..=k] (k >= 1), for the claimed leaf index `index`
// and a path of len entries: the node index walked is fv = index + 2^(len-1), at level j it is fv / 2^j
pub open spec fn fold(index: int, p: Seq<D>, k: int) -> D
    decreases k
{
    let fv = index + pow2((p.len() - 1) as nat);
    if k <= 1 {
        if index % 2 == 0 { merge_of(p[0], p[1]) } else { merge_of(p[1], p[0]) }
    } else {
        let below = fold(index, p, k - 1);
        if (fv / (pow2((k - 1) as nat) as int)) % 2 == 0 { merge_of(below, p[k]) } else { merge_of(p[k], below) }
    }
}

pub assume_specification [usize::pow] (b: usize, e: u32) -> (r: usize)
    requires b == 2, e < 64
    ensures r == pow2(e as nat);

// completeness: the path returned by `prove` folds to the root
proof fn lemma_path_folds(t: MerkleTree, index: int, p: Seq<D>, k: int)
    requires wf(t), 0 <= index < t.leaves.len(), is_path(t, dep(t), index, p), 1 <= k <= dep(t)
    ensures fold(index, p, k) == t_at(t, (index + t.leaves.len()) / (pow2(k as nat) as int))
    decreases k
{
    let d = dep(t);
    let n = t.leaves.len() as int;
    let fi = index + n;
    lemma_size(t);
    lemma2_to64();
    assert(pow2(0) == 1 && pow2(1) == 2);
    assert(p.len() - 1 == d);
    if k == 1 {
        // p[0] = T[fi], p[1] = T[sib(fi)], T[fi / 2] = merge(T[2 (fi/2)], T[2 (fi/2) + 1])
        assert(p[1] == t_at(t, sib(fi / (pow2(0) as int))));
        assert(fi % 2 == index % 2);
        let c = fi / 2;
        assert(1 <= c < n);
        assert(t_at(t, c) == merge_of(t_at(t, 2 * c), t_at(t, 2 * c + 1)));
    } else {
        lemma_path_folds(t, index, p, k - 1);
        let cprev = fi / (pow2((k - 1) as nat) as int);
        lemma_div_step(fi, (k - 1) as nat);
        lemma_level(fi, d, (k - 1) as nat);
        lemma_level(fi, d, k as nat);
        let c = cprev / 2;
        assert(c == fi / (pow2(k as nat) as int));
        assert(p[k] == t_at(t, sib(cprev)));
        lemma_pow2_pos((d - k) as nat);
        let e2 = (d - k + 1) as nat;
        lemma_pow2_unfold(e2);
        if e2 < d { lemma_pow2_strictly_increases(e2, d); }
        assert(1 <= c < n);
        assert(t_at(t, c) == merge_of(t_at(t, 2 * c), t_at(t, 2 * c + 1)));
    }
}

impl MerkleTree {
    //@@ source crypto/src/merkle/mod.rs
    //@@ extract anchor="pub fn verify(" within="impl<H: Hasher> MerkleTree<H>"
    //@@ rewrite "for &p in proof.iter().skip(2) {" => "for k in 2..proof.len() { let p = proof[k];"
    //@@ itername 1 it
    //@@ loop 1
    //@@|            invariant
    //@@|                2 <= proof.len() <= 64, e == proof.len() - 1, fv == i0 + pow2(e), 0 <= i0 < pow2(e), it.iter.end == proof.len(),
    //@@|                index as int == fv / (pow2((k - 1) as nat) as int),
    //@@|                v == fold(i0, proof@, k - 1),
    //@@ loopstart 1
    //@@|            proof {
    //@@|                lemma_bits2(index);
    //@@|                lemma_div_step(fv, (k - 1) as nat);
    //@@|                lemma_level(fv, e, (k - 1) as nat);
    //@@|                lemma_pow2_strictly_increases((e - (k - 1)) as nat, 63);
    //@@|            }
    pub fn verify(root: D, index: usize, proof: &[D]) -> (r: Result<(), MerkleTreeError>)
        ensures
            (proof.len() < 2 || proof.len() > 64) ==> r is Err,
            // a position beyond the last leaf of a tree of this depth is refused
            (2 <= proof.len() <= 64 && index >= pow2((proof.len() - 1) as nat)) ==> r is Err,
            (2 <= proof.len() <= 64 && index < pow2((proof.len() - 1) as nat)) ==> (r is Ok <==> fold(index as int, proof@, proof.len() - 1) == root),
    {
        let ghost i0 = index as int;
        let ghost e = (proof.len() - 1) as nat;
        let ghost fv = i0 + pow2(e);
        proof {
            lemma2_to64(); lemma2_to64_rest();
            assert(pow2(0) == 1 && pow2(1) == 2);
            if 2 <= proof.len() <= 64 {
                if e < 63 { lemma_pow2_strictly_increases(e, 63); }
                lemma_bits2(index);
                lemma_pow2_unfold(e);
                lemma_pow2_pos((e - 1) as nat);
                lemma_bits2((index + pow2(e)) as usize);
                assert(fv % 2 == i0 % 2);
            }
        }
        /*@@body*/
    }

    //@@ extract anchor="pub fn prove(&self, index: usize)" within="impl<H: Hasher> MerkleTree<H>"
    //@@ loop 1
    //@@|            invariant
    //@@|                wf(*self), d == dep(*self), dep_ok(*self, d), 1 <= k <= d, index as int == fi / (pow2(k) as int), proof.len() == k + 1,
    //@@|                fi == i0 + self.leaves.len(), 0 <= i0 < self.leaves.len(),
    //@@|                proof@[0] == t_at(*self, fi),
    //@@|                forall|j: int| 1 <= j <= k ==> #[trigger] proof@[j] == t_at(*self, sib(fi / (pow2((j - 1) as nat) as int))),
    //@@|                index >= 1,
    //@@|            decreases index
    //@@ loopstart 1
    //@@|            proof {
    //@@|                lemma_size(*self); lemma_level(fi, d, k); lemma_div_step(fi, k);
    //@@|                if k == d { lemma2_to64(); assert(pow2(0) == 1); assert(false); }
    //@@|                let e = (d - k + 1) as nat;
    //@@|                lemma_pow2_unfold(e);
    //@@|                if e < d { lemma_pow2_strictly_increases(e, d); }
    //@@|                assert(index < self.leaves.len());
    //@@|                lemma_bits(index);
    //@@|                assert(sib(index as int) < self.nodes.len());
    //@@|            }
    //@@ loopend 1
    //@@|            proof { k = k + 1; }
    //@@ loopafter 1
    //@@|        proof { lemma_level(fi, d, k); if k < d { lemma_pow2_strictly_increases(0, (d - k) as nat); lemma2_to64(); } }
    pub fn prove(&self, index: usize) -> (r: Result<Vec<D>, MerkleTreeError>)
        requires wf(*self)
        ensures
            index >= self.leaves.len() ==> r is Err,
            index < self.leaves.len() ==> r is Ok && is_path(*self, dep(*self), index as int, r->Ok_0@),
    {
        let ghost d = dep(*self);
        let ghost i0 = index as int;
        let ghost fi = index as int + self.leaves.len() as int;
        let ghost mut k: nat = 1;
        proof {
            lemma_size(*self); lemma2_to64(); assert(pow2(0) == 1);
            if index < self.leaves.len() {
                lemma_bits(index);
                lemma_bits((index + self.nodes.len()) as usize); lemma_level(fi, d, 1); lemma_level(fi, d, 0); lemma_pow2_pos((d - 1) as nat);
            }
        }
        /*@@body*/
    }

    //@@ extract anchor="pub fn root(&self) -> &H::Digest" within="impl<H: Hasher> MerkleTree<H>"
    pub fn root(&self) -> (r: &D)
        requires wf(*self)
        ensures *r == t_at(*self, 1)
    {
        proof { lemma_size(*self); }
        /*@@body*/
    }
}

// completeness of single openings: what prove returns is accepted by verify against root()
proof fn lemma_prove_verify(t: MerkleTree, index: int, p: Seq<D>)
    requires wf(t), 0 <= index < t.leaves.len(), is_path(t, dep(t), index, p)
    ensures 2 <= p.len() <= 64, index < pow2((p.len() - 1) as nat), fold(index, p, p.len() - 1) == t_at(t, 1)
{
    let d = dep(t);
    lemma_size(t);
    lemma_path_folds(t, index, p, d as int);
    lemma_level(index + t.leaves.len(), d, d);
    lemma2_to64();
    assert(pow2(0) == 1);
}

// ---------------------------------------------------------------------------------------------------------------------
// construction: build_merkle_nodes / MerkleTree::new establish the heap-ordered tree invariant `wf` for every size.
// The source reinterprets `leaves` (and, while it is being filled, `nodes`) as slices of digest PAIRS through raw pointers
// (`slice::from_raw_parts(.. as *const [H::Digest; 2], n)`). That reinterpretation is the one thing modelled here, stated
// as the specification of two external functions: pairs_of(s, n)[i] == [s[2i], s[2i+1]], and pair_at(nodes, i) - the
// source's `two_nodes[i]`, a view that aliases `nodes` and is read after earlier iterations have written to it - reads the
// CURRENT contents [nodes[2i], nodes[2i+1]]. (Kani executes the real pointer code, bounded: 8 leaves.)
impl D {
    #[verifier::external_body]
    pub fn default() -> (r: D) { unimplemented!() }
}
#[verifier::external_body]
pub fn uninit_vector(n: usize) -> (r: Vec<D>) ensures r.len() == n { unimplemented!() }
#[verifier::external_body]
pub fn pairs_of(s: &[D], n: usize) -> (r: Vec<[D; 2]>)
    requires 2 * n <= s.len()
    ensures r.len() == n, forall|i: int| 0 <= i < n ==> (#[trigger] r@[i])[0] == s@[2 * i] && r@[i][1] == s@[2 * i + 1]
{ unimplemented!() }
#[verifier::external_body]
pub fn pair_at(s: &Vec<D>, i: usize) -> (r: [D; 2])
    requires 2 * i + 1 < s.len()
    ensures r[0] == s@[2 * i as int], r[1] == s@[2 * i + 1]
{ unimplemented!() }

pub open spec fn is_pow2(x: int) -> bool { exists|d: nat| d < 64 && x == #[trigger] pow2(d) }
pub assume_specification [usize::is_power_of_two] (x: usize) -> (r: bool)
    ensures r == is_pow2(x as int);

//@@ source crypto/src/merkle/mod.rs
//@@ extract anchor="pub fn build_merkle_nodes<H: Hasher>(leaves: &[H::Digest]) -> Vec<H::Digest>"
//@@ rewrite "unsafe { utils::uninit_vector::<H::Digest>(2 * n) }" => "uninit_vector(2 * n)"
//@@ rewrite "H::Digest::default()" => "D::default()"
//@@ rewrite "unsafe { slice::from_raw_parts(leaves.as_ptr() as *const [H::Digest; 2], n) }" => "pairs_of(leaves, n)"
//@@ rewrite "let two_nodes = unsafe { slice::from_raw_parts(nodes.as_ptr() as *const [H::Digest; 2], n) };" => ""
//@@ rewrite "&two_nodes[i]" => "&pair_at(&nodes, i)"
//@@ rewrite "for (i, j) in (0..n).zip(n..nodes.len()) {" => "for i in 0..n { let j = n + i;"
//@@ itername 2 it
//@@ loop 1
//@@|        invariant
//@@|            n == leaves.len() / 2, nodes.len() == 2 * n, two_leaves.len() == n,
//@@|            forall|t: int| 0 <= t < n ==> (#[trigger] two_leaves@[t])[0] == leaves@[2 * t] && two_leaves@[t][1] == leaves@[2 * t + 1],
//@@|            forall|t: int| 0 <= t < i ==> #[trigger] nodes@[n + t] == merge_of(leaves@[2 * t], leaves@[2 * t + 1]),
//@@ loop 2
//@@|        invariant
//@@|            n == leaves.len() / 2, nodes.len() == 2 * n, it.index@ <= n - 1 || n == 0,
//@@|            forall|t: int| 0 <= t < n ==> #[trigger] nodes@[n + t] == merge_of(leaves@[2 * t], leaves@[2 * t + 1]),
//@@|            forall|t: int| n - it.index@ <= t < n && 1 <= t ==> #[trigger] nodes@[t] == merge_of(nodes@[2 * t], nodes@[2 * t + 1]),
pub fn build_merkle_nodes(leaves: &[D]) -> (r: Vec<D>)
    requires leaves.len() >= 2, leaves.len() <= 0x4000_0000_0000_0000
    ensures
        r.len() == 2 * (leaves.len() / 2),
        forall|t: int| 0 <= t < leaves.len() / 2 ==> #[trigger] r@[leaves.len() / 2 + t] == merge_of(leaves@[2 * t], leaves@[2 * t + 1]),
        forall|t: int| 1 <= t < leaves.len() / 2 ==> #[trigger] r@[t] == merge_of(r@[2 * t], r@[2 * t + 1]),
{
    /*@@body*/
}

pub enum MerkleTreeError2 { TooFewLeaves(usize, usize), NumberOfLeavesNotPowerOfTwo(usize) }

proof fn lemma_new_wf(t: MerkleTree, d: nat)
    requires
        d < 64, t.leaves.len() == pow2(d), t.leaves.len() >= 2, t.leaves.len() <= 0x4000_0000_0000_0000,
        t.nodes.len() == 2 * (t.leaves.len() / 2),
        forall|k: int| 0 <= k < t.leaves.len() / 2 ==> #[trigger] t.nodes@[t.leaves.len() / 2 + k] == merge_of(t.leaves@[2 * k], t.leaves@[2 * k + 1]),
        forall|k: int| 1 <= k < t.leaves.len() / 2 ==> #[trigger] t.nodes@[k] == merge_of(t.nodes@[2 * k], t.nodes@[2 * k + 1]),
    ensures wf(t)
{
    lemma2_to64(); lemma2_to64_rest();
    assert(pow2(0) == 1);
    assert(d >= 1);
    if d >= 63 { if d > 63 { lemma_pow2_strictly_increases(63, d); } assert(false); }
    lemma_pow2_unfold(d);
    let big = t.leaves.len() as int;
    let n = big / 2;
    assert(big == 2 * n);
    assert(dep_ok(t, d));
    assert forall|i: int| 1 <= i < t.nodes.len() implies #[trigger] t_at(t, i) == merge_of(t_at(t, 2 * i), t_at(t, 2 * i + 1)) by {
        if i < n {
            assert(t.nodes@[i] == merge_of(t.nodes@[2 * i], t.nodes@[2 * i + 1]));
        } else {
            let k = i - n;
            assert(t.nodes@[n + k] == merge_of(t.leaves@[2 * k], t.leaves@[2 * k + 1]));
        }
    }
}

impl MerkleTree {
    //@@ source crypto/src/merkle/mod.rs
    //@@ extract anchor="pub fn new(leaves: Vec<H::Digest>) -> Result<Self, MerkleTreeError>" within="impl<H: Hasher> MerkleTree<H>"
    //@@ rewrite "build_merkle_nodes::<H>(" => "build_merkle_nodes("
    //@@ rewrite "MerkleTreeError::" => "MerkleTreeError2::"
    //@@ tailbind res
    //@@|        proof { let d = choose|d: nat| d < 64 && leaves.len() == #[trigger] pow2(d); lemma_new_wf(MerkleTree { nodes, leaves }, d); }
    pub fn new(leaves: Vec<D>) -> (r: Result<MerkleTree, MerkleTreeError2>)
        requires leaves.len() <= 0x4000_0000_0000_0000
        ensures
            r is Ok <==> (leaves.len() >= 2 && is_pow2(leaves.len() as int)),
            r is Ok ==> wf(r->Ok_0) && r->Ok_0.leaves@ == leaves@,
    {
        /*@@body*/
    }
}

proof fn merklev_canary_must_fail(t: MerkleTree, index: int, p: Seq<D>)
    requires wf(t), 0 <= index < t.leaves.len(), is_path(t, dep(t), index, p)
    ensures fold(index, p, p.len() - 1) == t_at(t, 2)
{
}

} // verus!

fn main() {}
