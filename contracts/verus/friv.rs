// Verus unit friv: fri/src/folding/mod.rs fold_positions for EVERY list of positions and every domain; utils::map_positions_to_indexes; verifier::get_query_values (second half of the file).
// Decided (fold_inv): the result lists the images `position mod (source_domain_size / folding_factor)` of all given
// positions - every image occurs (covers), every listed value is the image of a given position (sound), no value is
// listed twice (nodup), every value is below the folded domain size. The Kani harness fri_fold_positions_bounded
// decides the same for lists of at most 4 positions with a counterexample; this unit removes the bound.
// Assumed: <[T]>::contains returns whether the element occurs (assume_specification, listed).
use vstd::prelude::*;
verus! {
pub assume_specification<T: core::cmp::PartialEq> [<[T]>::contains] (s: &[T], x: &T) -> (r: bool)
    ensures r == s@.contains(*x);

pub open spec fn img(s: Seq<usize>, k: int, t: int) -> int { (s[k] as int) % t }

// r lists the images (position mod t) of the first n positions, each once
pub open spec fn nodup(r: Seq<usize>) -> bool { forall|i: int, j: int| 0 <= i < j < r.len() ==> r[i] != r[j] }
pub open spec fn in_seq(r: Seq<usize>, v: int) -> bool { exists|j: int| 0 <= j < r.len() && #[trigger] r[j] == v }
pub open spec fn has_src(ps: Seq<usize>, n: int, t: int, v: int) -> bool { exists|k: int| 0 <= k < n && #[trigger] img(ps, k, t) == v }
#[verifier::opaque]
pub open spec fn covers(r: Seq<usize>, ps: Seq<usize>, n: int, t: int) -> bool {
    forall|i: int| 0 <= i < n ==> in_seq(r, #[trigger] img(ps, i, t))
}
#[verifier::opaque]
pub open spec fn sound(r: Seq<usize>, ps: Seq<usize>, n: int, t: int) -> bool {
    forall|j: int| 0 <= j < r.len() ==> has_src(ps, n, t, #[trigger] r[j] as int)
}
pub open spec fn fold_inv(r: Seq<usize>, ps: Seq<usize>, n: int, t: int) -> bool {
    nodup(r) && covers(r, ps, n, t) && sound(r, ps, n, t) && (forall|j: int| 0 <= j < r.len() ==> #[trigger] r[j] < t)
}

proof fn lemma_covers_step(r: Seq<usize>, r2: Seq<usize>, ps: Seq<usize>, n: int, t: int, x: usize)
    requires covers(r, ps, n, t), 0 <= n < ps.len(), img(ps, n, t) == x, in_seq(r2, x as int),
        r2.len() >= r.len(), forall|j: int| 0 <= j < r.len() ==> r2[j] == r[j],
    ensures covers(r2, ps, n + 1, t)
{
    reveal(covers);
    assert forall|i: int| 0 <= i < n + 1 implies in_seq(r2, #[trigger] img(ps, i, t)) by {
        if i < n {
            assert(in_seq(r, img(ps, i, t)));
            let j0 = choose|j: int| 0 <= j < r.len() && #[trigger] r[j] == img(ps, i, t);
            assert(r2[j0] == img(ps, i, t));
        }
    }
}

proof fn lemma_sound_keep(r: Seq<usize>, ps: Seq<usize>, n: int, t: int)
    requires sound(r, ps, n, t)
    ensures sound(r, ps, n + 1, t)
{
    reveal(sound);
    assert forall|j: int| 0 <= j < r.len() implies has_src(ps, n + 1, t, #[trigger] r[j] as int) by {
        assert(has_src(ps, n, t, r[j] as int));
        let k0 = choose|k: int| 0 <= k < n && #[trigger] img(ps, k, t) == r[j];
        assert(0 <= k0 < n + 1 && img(ps, k0, t) == r[j]);
    }
}

proof fn lemma_sound_push(r: Seq<usize>, ps: Seq<usize>, n: int, t: int, x: usize)
    requires sound(r, ps, n, t), 0 <= n < ps.len(), img(ps, n, t) == x
    ensures sound(r.push(x), ps, n + 1, t)
{
    lemma_sound_keep(r, ps, n, t);
    reveal(sound);
    let r2 = r.push(x);
    assert forall|j: int| 0 <= j < r2.len() implies has_src(ps, n + 1, t, #[trigger] r2[j] as int) by {
        if j < r.len() {
            assert(r2[j] == r[j]);
            assert(has_src(ps, n + 1, t, r[j] as int));
        } else {
            assert(0 <= n < n + 1 && img(ps, n, t) == r2[j]);
        }
    }
}

proof fn lemma_keep(r: Seq<usize>, ps: Seq<usize>, n: int, t: int, x: usize)
    requires fold_inv(r, ps, n, t), 0 <= n < ps.len(), img(ps, n, t) == x, r.contains(x)
    ensures fold_inv(r, ps, n + 1, t)
{
    let j1 = choose|j: int| 0 <= j < r.len() && r[j] == x;
    assert(r[j1] == x as int);
    lemma_covers_step(r, r, ps, n, t, x);
    lemma_sound_keep(r, ps, n, t);
}

proof fn lemma_push(r: Seq<usize>, ps: Seq<usize>, n: int, t: int, x: usize)
    requires fold_inv(r, ps, n, t), 0 <= n < ps.len(), img(ps, n, t) == x, !r.contains(x), x < t
    ensures fold_inv(r.push(x), ps, n + 1, t)
{
    let r2 = r.push(x);
    assert forall|i: int, j: int| 0 <= i < j < r2.len() implies r2[i] != r2[j] by {
        if j == r.len() { assert(r[i] != x) by { if r[i] == x { assert(r.contains(x)); } } }
    }
    assert(r2[r.len() as int] == x as int);
    lemma_covers_step(r, r2, ps, n, t, x);
    lemma_sound_push(r, ps, n, t, x);
    assert forall|j: int| 0 <= j < r2.len() implies #[trigger] r2[j] < t by { if j < r.len() { assert(r2[j] == r[j]); } }
}

proof fn lemma_init(ps: Seq<usize>, t: int)
    ensures fold_inv(Seq::<usize>::empty(), ps, 0, t)
{
    reveal(covers); reveal(sound);
}

//@@ source fri/src/folding/mod.rs
//@@ extract anchor="pub fn fold_positions("
//@@ rewrite "let mut result = Vec::new();" => "let mut result: Vec<usize> = Vec::new(); proof { lemma_init(positions@, target_domain_size as int); }"
//@@ itername 1 it
//@@ loop 1
//@@|        invariant
//@@|            target_domain_size == source_domain_size / folding_factor, target_domain_size > 0,
//@@|            fold_inv(result@, positions@, it.index@, target_domain_size as int),
//@@ after "let position = position % target_domain_size;"
//@@|        let ghost old_r = result@;
//@@ loopend 1
//@@|        proof {
//@@|            if old_r.contains(position) { lemma_keep(old_r, positions@, it.index@, target_domain_size as int, position); }
//@@|            else { lemma_push(old_r, positions@, it.index@, target_domain_size as int, position); }
//@@|        }
pub fn fold_positions(
    positions: &[usize],
    source_domain_size: usize,
    folding_factor: usize,
) -> (r: Vec<usize>)
    requires folding_factor > 0, source_domain_size / folding_factor > 0
    ensures
        fold_inv(r@, positions@, positions.len() as int, (source_domain_size / folding_factor) as int),
{
    /*@@body*/
}

// what fold_inv means, spelled out (so that the opaque predicates cannot hide a weak claim)
proof fn friv_meaning(r: Seq<usize>, ps: Seq<usize>, t: int)
    requires fold_inv(r, ps, ps.len() as int, t)
    ensures
        forall|i: int, j: int| 0 <= i < j < r.len() ==> r[i] != r[j],
        forall|j: int| 0 <= j < r.len() ==> #[trigger] r[j] < t,
        forall|i: int| 0 <= i < ps.len() ==> in_seq(r, #[trigger] img(ps, i, t)),
        forall|j: int| 0 <= j < r.len() ==> has_src(ps, ps.len() as int, t, #[trigger] r[j] as int),
{
    reveal(covers); reveal(sound);
}

// ---------------------------------------------------------------------------------------------------------------------
// fri/src/utils.rs map_positions_to_indexes: where a folded position sits in the layer's commitment tree when the layer was
// committed in `num_partitions` interleaved partitions. For EVERY list of positions: element i of the result is
// (p mod P) * (T / P) + (p div P) for p = positions[i], T = source_domain_size / folding_factor (the identity for P == 1), and for
// P dividing T the map is injective on [0, T) and stays below T (lemma_index_injective) - distinct leaves for distinct positions.
pub open spec fn leaf_index(p: int, np: int, psize: int) -> int { (p % np) * psize + (p - p % np) / np }

#[verifier::external_body]
pub fn slice_to_vec(s: &[usize]) -> (r: Vec<usize>) ensures r@ == s@ { s.to_vec() }

//@@ source fri/src/utils.rs
//@@ extract anchor="pub fn map_positions_to_indexes("
//@@ rewrite "positions.to_vec()" => "slice_to_vec(positions)"
//@@ rewrite "let mut result = Vec::new();" => "let mut result: Vec<usize> = Vec::new();"
//@@ itername 1 it
//@@ loop 1
//@@|        invariant
//@@|            num_partitions >= 2, folding_factor >= 2, partition_size == (source_domain_size / folding_factor) / num_partitions,
//@@|            partition_size * num_partitions <= source_domain_size / folding_factor,
//@@|            forall|i: int| 0 <= i < positions.len() ==> #[trigger] positions@[i] < source_domain_size / folding_factor,
//@@|            result.len() == it.index@,
//@@|            forall|i: int| 0 <= i < it.index@ ==> #[trigger] result@[i] == leaf_index(positions@[i] as int, num_partitions as int, partition_size as int),
//@@ loopstart 1
//@@|        proof {
//@@|            lemma_leaf_range(*position as int, num_partitions as int, partition_size as int);
//@@|            assert((*position % num_partitions) * partition_size <= partition_size * num_partitions) by (nonlinear_arith)
//@@|                requires 0 <= (*position % num_partitions) < num_partitions, partition_size >= 0;
//@@|            assert(source_domain_size / folding_factor <= usize::MAX / 2) by (nonlinear_arith)
//@@|                requires folding_factor >= 2, source_domain_size <= usize::MAX;
//@@|        }
pub fn map_positions_to_indexes(
    positions: &[usize],
    source_domain_size: usize,
    folding_factor: usize,
    num_partitions: usize,
) -> (r: Vec<usize>)
    requires
        folding_factor >= 2, num_partitions >= 1,
        forall|i: int| 0 <= i < positions.len() ==> #[trigger] positions@[i] < source_domain_size / folding_factor,
    ensures
        r.len() == positions.len(),
        num_partitions == 1 ==> r@ == positions@,
        num_partitions >= 2 ==> forall|i: int| 0 <= i < positions.len() ==>
            #[trigger] r@[i] == leaf_index(positions@[i] as int, num_partitions as int, ((source_domain_size / folding_factor) / num_partitions) as int),
{
    proof {
        if num_partitions >= 2 {
            let t = (source_domain_size / folding_factor) as int;
            vstd::arithmetic::div_mod::lemma_fundamental_div_mod(t, num_partitions as int);
            assert((t / num_partitions as int) * num_partitions as int <= t) by (nonlinear_arith)
                requires t == num_partitions as int * (t / num_partitions as int) + t % (num_partitions as int), t % (num_partitions as int) >= 0;
        }
    }
    /*@@body*/
}

// the leaf index of a position below np * psize stays below np * psize (no overflow in the computation either)
proof fn lemma_leaf_range(p: int, np: int, psize: int)
    requires np >= 1, psize >= 0, 0 <= p
    ensures
        0 <= p % np < np, (p - p % np) >= 0, (p - p % np) / np == p / np,
        p < np * psize ==> 0 <= leaf_index(p, np, psize) < np * psize,
        (p % np) * psize >= 0,
{
    vstd::arithmetic::div_mod::lemma_fundamental_div_mod(p, np);
    let q = p / np; let r = p % np;
    assert(p - r == np * q);
    vstd::arithmetic::div_mod::lemma_div_multiples_vanish(q, np);
    assert((np * q) / np == q) by { vstd::arithmetic::mul::lemma_mul_is_commutative(np, q); }
    assert(r * psize >= 0) by (nonlinear_arith) requires r >= 0, psize >= 0;
    if p < np * psize {
        assert(q < psize) by (nonlinear_arith) requires np * q <= p, p < np * psize, np >= 1;
        assert(r * psize + q < np * psize) by (nonlinear_arith) requires 0 <= r < np, 0 <= q < psize;
    }
}

// distinct positions below T = np * psize are stored in distinct leaves
proof fn lemma_index_injective(p1: int, p2: int, np: int, psize: int)
    requires np >= 1, psize >= 1, 0 <= p1 < np * psize, 0 <= p2 < np * psize, leaf_index(p1, np, psize) == leaf_index(p2, np, psize)
    ensures p1 == p2
{
    lemma_leaf_range(p1, np, psize);
    lemma_leaf_range(p2, np, psize);
    let (q1, r1, q2, r2) = (p1 / np, p1 % np, p2 / np, p2 % np);
    vstd::arithmetic::div_mod::lemma_fundamental_div_mod(p1, np);
    vstd::arithmetic::div_mod::lemma_fundamental_div_mod(p2, np);
    assert(q1 < psize) by (nonlinear_arith) requires np * q1 <= p1, p1 < np * psize, np >= 1;
    assert(q2 < psize) by (nonlinear_arith) requires np * q2 <= p2, p2 < np * psize, np >= 1;
    // r1 * psize + q1 == r2 * psize + q2 with 0 <= q1, q2 < psize  ==>  r1 == r2 and q1 == q2
    assert(r1 == r2 && q1 == q2) by (nonlinear_arith)
        requires r1 * psize + q1 == r2 * psize + q2, 0 <= q1 < psize, 0 <= q2 < psize, r1 >= 0, r2 >= 0;
}

// ---------------------------------------------------------------------------------------------------------------------
// fri/src/verifier/mod.rs get_query_values (C05 / C15): which cell of the opened rows each claimed evaluation is compared with.
// For every list of positions, every list of folded positions that contains the image of each position (fold_positions'
// contract), every domain size that the row width N divides: result[k] is cell (position_k / row_length) of the row opened
// for the FIRST occurrence of position_k mod row_length among the folded positions; one value per position, in order; the
// `unwrap` never fails and no index is out of range.
// Literal rewrite (listed): `folded_positions.iter().position(|&v| v == X).unwrap()` becomes `first_index_of(folded_positions, X)
// .unwrap()`, a shim with the contract of Iterator::position for that closure (index of the first equal element, None if absent).
#[derive(Copy, Clone)]
pub struct E(pub u64);
pub open spec fn first_idx(s: Seq<usize>, x: usize) -> int
    decreases s.len()
{
    if s.len() == 0 { -1 } else if s[0] == x { 0 } else {
        let r = first_idx(s.subrange(1, s.len() as int), x);
        if r < 0 { -1 } else { r + 1 }
    }
}
proof fn l_first_idx(s: Seq<usize>, x: usize)
    ensures
        -1 <= first_idx(s, x) < s.len(),
        first_idx(s, x) >= 0 ==> s[first_idx(s, x)] == x && forall|j: int| 0 <= j < first_idx(s, x) ==> s[j] != x,
        first_idx(s, x) < 0 ==> forall|j: int| 0 <= j < s.len() ==> s[j] != x,
    decreases s.len()
{
    if s.len() > 0 && s[0] != x {
        let t = s.subrange(1, s.len() as int);
        l_first_idx(t, x);
        assert forall|j: int| 1 <= j < s.len() implies s[j] == t[j - 1] by {}
        if first_idx(t, x) >= 0 {
            assert forall|j: int| 0 <= j < first_idx(t, x) + 1 implies s[j] != x by { if j >= 1 { assert(s[j] == t[j - 1]); } }
        } else {
            assert forall|j: int| 0 <= j < s.len() implies s[j] != x by { if j >= 1 { assert(s[j] == t[j - 1]); } }
        }
    }
}
#[verifier::external_body]
pub fn first_index_of(s: &[usize], x: usize) -> (r: Option<usize>)
    ensures
        first_idx(s@, x) >= 0 ==> r == Some(first_idx(s@, x) as usize),
        first_idx(s@, x) < 0 ==> r is None,
{ s.iter().position(|&v| v == x) }

//@@ source fri/src/verifier/mod.rs
//@@ extract anchor="fn get_query_values<E: FieldElement, const N: usize>("
//@@ rewrite "folded_positions.iter().position(|&v| v == position % row_length)" => "first_index_of(folded_positions, position % row_length)"
//@@ itername 1 it
//@@ loop 1
//@@|        invariant
//@@|            N >= 1, row_length >= 1, row_length == domain_size / N, domain_size == N * row_length,
//@@|            values@.len() >= folded_positions@.len(),
//@@|            forall|k: int| 0 <= k < positions@.len() ==> #[trigger] positions@[k] < domain_size && first_idx(folded_positions@, (positions@[k] % row_length) as usize) >= 0,
//@@|            0 <= it.index@ <= positions@.len(),
//@@|            result@.len() == it.index@,
//@@|            forall|k: int| 0 <= k < it.index@ ==> #[trigger] result@[k] ==
//@@|                values@[first_idx(folded_positions@, (positions@[k] % row_length) as usize)]@[(positions@[k] / row_length) as int],
//@@ loopstart 1
//@@|        proof {
//@@|            assert(*position == positions@[it.index@]);
//@@|            l_first_idx(folded_positions@, (*position % row_length) as usize);
//@@|            // position < N * row_length, so position / row_length < N
//@@|            let q = *position as int / row_length as int;
//@@|            assert(q * row_length <= *position) by (nonlinear_arith) requires q == *position as int / row_length as int, row_length >= 1, *position >= 0;
//@@|            assert(q < N) by (nonlinear_arith) requires q * row_length <= *position, *position < N * row_length, row_length >= 1;
//@@|        }
pub fn get_query_values<const N: usize>(values: &[[E; N]], positions: &[usize], folded_positions: &[usize], domain_size: usize) -> (result: Vec<E>)
    requires
        N >= 1, domain_size >= N, domain_size % N == 0,
        values@.len() >= folded_positions@.len(),
        // every position is in the domain and its image is among the folded positions (what fold_positions returns)
        forall|k: int| 0 <= k < positions@.len() ==> #[trigger] positions@[k] < domain_size
            && first_idx(folded_positions@, (positions@[k] % (domain_size / N)) as usize) >= 0,
    ensures
        result@.len() == positions@.len(),
        forall|k: int| 0 <= k < positions@.len() ==> #[trigger] result@[k] ==
            values@[first_idx(folded_positions@, (positions@[k] % (domain_size / N)) as usize)]@[(positions@[k] / (domain_size / N)) as int],
{
    proof {
        let rl = domain_size as int / N as int;
        assert(domain_size as int == N * rl && rl >= 1) by (nonlinear_arith) requires rl == domain_size as int / N as int, domain_size as int % (N as int) == 0, N >= 1, domain_size >= N;
    }
    /*@@body*/
}

proof fn friv_canary_must_fail(r: Seq<usize>, ps: Seq<usize>, t: int)
    requires fold_inv(r, ps, ps.len() as int, t)
    ensures r.len() == ps.len()
{
}

} // verus!

fn main() {}
