// Verus unit f62v: math/src/field/f62/mod.rs — Montgomery multiplication with lazy reduction and what is
// built on it. Bodies marked with the body marker are cut out of /repo on every run.
use vstd::prelude::*;
use vstd::arithmetic::div_mod::*;
use vstd::arithmetic::mul::*;
use vstd::std_specs::ops::*;

verus! {

pub const M: u64 = /*@@expr source="math/src/field/f62/mod.rs" anchor="const M: u64 ="*/;
pub const R2: u64 = /*@@expr source="math/src/field/f62/mod.rs" anchor="const R2: u64 ="*/;
pub const R3: u64 = /*@@expr source="math/src/field/f62/mod.rs" anchor="const R3: u64 ="*/;
pub const U: u128 = /*@@expr source="math/src/field/f62/mod.rs" anchor="const U: u128 ="*/;

/// the prime 2^62 - 111 * 2^39 + 1 as stated by the property
pub spec const P: int = 4611624995532046337int;
pub spec const T64: int = 0x1_0000000000000000int;
/// 2^-64 mod P
pub spec const RINV: int = 1152890993361043456int;

pub open spec fn redc(x: int) -> int { (x * RINV) % P }

#[derive(Copy, Clone)]
pub struct BaseElement(pub u64);

/// residue denoted by an element: raw word (any representative in [0, 2P)) times 2^-64
pub open spec fn v(e: BaseElement) -> int { redc(e.0 as int) }
pub open spec fn wf(e: BaseElement) -> bool { e.0 < 2 * M }

proof fn lemma_consts()
    ensures M as int == P, (T64 * RINV) % P == 1, (R2 as int) == (T64 * T64) % P,
        (R3 as int) == (T64 * T64 * T64) % P, 0 < RINV < P, 4 * P < T64,
{
    assert(M as int == P) by (compute);
    assert((T64 * RINV) % P == 1) by (compute);
    assert((R2 as int) == (T64 * T64) % P) by (compute);
    assert((R3 as int) == (T64 * T64 * T64) % P) by (compute);
    assert(4 * P < T64) by (compute);
}

/// r * 2^64 == x (mod P)  ==>  r == x * 2^-64 (mod P)
proof fn lemma_mont(r: int, x: int)
    requires (r * T64) % P == x % P
    ensures r % P == redc(x)
{
    lemma_consts();
    lemma_mul_mod_noop_general(r * T64, RINV, P);
    lemma_mul_mod_noop_general(x, RINV, P);
    assert(((r * T64) * RINV) % P == (x * RINV) % P);
    assert((r * T64) * RINV == r * (T64 * RINV)) by (nonlinear_arith);
    lemma_mul_mod_noop_general(r, T64 * RINV, P);
    assert((r * (T64 * RINV)) % P == ((r % P) * 1) % P);
    lemma_mod_twice(r, P);
}

/// the raw word computed by the Montgomery multiplication, as a closed-form function of the operands
pub open spec fn mul_q(a: int, b: int) -> int { (((a * b) % T64) * (U as int)) % T64 }
pub open spec fn mul_raw(a: int, b: int) -> int { (a * b + mul_q(a, b) * P) / T64 }

/// range and congruence of mul_raw (the mathematical content of Montgomery reduction)
pub proof fn lemma_mul_raw(a: int, b: int)
    requires 0 <= a < T64, 0 <= b < T64, a * b < P * T64,
    ensures 0 <= mul_raw(a, b) < 2 * P, mul_raw(a, b) % P == redc(a * b),
        mul_raw(a, b) * T64 == a * b + mul_q(a, b) * P,
{
    lemma_consts();
    let z0 = a * b;
    assert(0 <= z0) by (nonlinear_arith) requires 0 <= a, 0 <= b, z0 == a * b;
    let zl = z0 % T64;
    let q = mul_q(a, b);
    assert(0 <= zl < T64 && 0 <= q < T64);
    let zl64: u64 = zl as u64;
    let q64: u64 = q as u64;
    let t: u128 = ((q64 as u128) * (M as u128) + (zl64 as u128)) as u128;
    assert(t as int == q * P + zl) by (nonlinear_arith)
        requires t == ((q64 as u128) * (M as u128) + (zl64 as u128)) as u128, M as int == P, q64 as int == q, zl64 as int == zl,
            0 <= q < T64, P < T64, 0 <= zl < T64, T64 == 0x1_0000000000000000int;
    assert(q64 == ((((zl64 as u128) * 4611624995532046335u128) as u128) as u64)) by {
        let w: u128 = ((zl64 as u128) * 4611624995532046335u128) as u128;
        assert(w as int == zl * (U as int)) by (nonlinear_arith)
            requires w == ((zl64 as u128) * 4611624995532046335u128) as u128, zl64 as int == zl, 0 <= zl < T64, T64 == 0x1_0000000000000000int, U as int == 4611624995532046335int;
        assert((w as u64) as int == (w as int) % T64) by {
            assert((w as u64) as u128 == w % 0x1_0000_0000_0000_0000u128) by (bit_vector);
        }
    }
    assert(t & 0xFFFF_FFFF_FFFF_FFFFu128 == 0u128) by (bit_vector)
        requires t == ((((q64 as u128) * (M as u128)) as u128) + (zl64 as u128)) as u128,
            q64 == ((((zl64 as u128) * 4611624995532046335u128) as u128) as u64), M == 4611624995532046337u64;
    assert(t & 0xFFFF_FFFF_FFFF_FFFFu128 == t % 0x1_0000_0000_0000_0000u128) by (bit_vector);
    assert((q * P + zl) % T64 == 0);
    assert(q * P < T64 * P) by (nonlinear_arith) requires 0 <= q < T64, P > 0;
    let zh = z0 / T64;
    lemma_fundamental_div_mod(z0, T64);
    assert(z0 == T64 * zh + zl);
    let tt = q * P + zl;
    lemma_fundamental_div_mod(tt, T64);
    let k = tt / T64;
    assert(z0 + q * P == T64 * zh + T64 * k);
    assert(T64 * zh + T64 * k == T64 * (zh + k)) by (nonlinear_arith);
    lemma_div_multiples_vanish(zh + k, T64);
    let r = zh + k;
    assert(mul_raw(a, b) == r);
    assert(r * T64 == z0 + q * P) by (nonlinear_arith) requires z0 + q * P == T64 * r;
    assert((r * T64) % P == z0 % P) by {
        assert(r * T64 == P * q + z0) by (nonlinear_arith) requires r * T64 == z0 + q * P;
        lemma_mod_multiples_vanish(q, z0, P);
    }
    lemma_mont(r, z0);
    assert(r < 2 * P) by (nonlinear_arith) requires r * T64 == z0 + q * P, z0 < P * T64, q * P < T64 * P, T64 > 0;
    assert(r >= 0) by (nonlinear_arith) requires r * T64 == z0 + q * P, z0 >= 0, q * P >= 0, T64 > 0;
}

//@@ source math/src/field/f62/mod.rs
//@@ extract anchor="const fn mul(a: u64, b: u64) -> u64"
//@@ rewrite "let q = (((z as u64) as u128) * U) as u64;" => "let q = #[verifier::truncate] ((((#[verifier::truncate] (z as u64)) as u128) * U) as u64);"
//@@ rewrite "(z >> 64) as u64" => "#[verifier::truncate] ((z >> 64) as u64)"
//@@ after "let z = (a as u128) * (b as u128);"
//@@|    let ghost z0 = z;
//@@ after "* U) as u64);"
//@@|    proof {
//@@|        assert(z0 as int == (a as int) * (b as int));
//@@|        let zl: u64 = #[verifier::truncate] (z as u64);
//@@|        assert(zl as u128 == z % 0x1_0000_0000_0000_0000u128) by (bit_vector) requires zl == (z as u64);
//@@|        let w: u128 = ((zl as u128) * U) as u128;
//@@|        assert(w as int == (zl as int) * (U as int)) by (nonlinear_arith)
//@@|            requires w == ((zl as u128) * U) as u128, (zl as int) < T64, T64 == 0x1_0000000000000000int, U as int == 4611624995532046335int;
//@@|        assert(q as u128 == w % 0x1_0000_0000_0000_0000u128) by (bit_vector) requires q == (w as u64);
//@@|        assert(q as int == mul_q(a as int, b as int));
//@@|        assert((q as int) * P < T64 * P) by (nonlinear_arith) requires 0 <= (q as int) < T64, P > 0;
//@@|    }
//@@ after "let z = z + (q as u128) * (M as u128);"
//@@|    proof {
//@@|        assert(z as int == (z0 as int) + (q as int) * P);
//@@|        assert(z >> 64 == z / 0x1_0000_0000_0000_0000u128) by (bit_vector);
//@@|    }
pub fn mul(a: u64, b: u64) -> (r: u64)
    requires (a as int) * (b as int) < P * T64,
    ensures (r as int) == mul_raw(a as int, b as int),
{
    proof { lemma_consts(); lemma_mul_raw(a as int, b as int); }
    /*@@body*/
}

// ---- add / sub / normalize: real bodies --------------------------------------------------------

pub open spec fn add_raw(a: int, b: int) -> int { (a + b) - ((a + b) / 0x4000000000000000int) * P }
pub open spec fn sub_raw(a: int, b: int) -> int { if a < b { 2 * P - b + a } else { a - b } }

pub proof fn lemma_add_raw(a: int, b: int)
    requires 0 <= a < 2 * P, 0 <= b < 2 * P,
    ensures 0 <= add_raw(a, b) < 2 * P, add_raw(a, b) % P == (a + b) % P,
{
    let z = a + b;
    let k = z / 0x4000000000000000int;
    assert(0 <= k <= 3);
    assert(z - k * P >= 0 && z - k * P < 2 * P) by {
        if k == 0 { assert(k * P == 0); }
        else if k == 1 { assert(k * P == P); }
        else if k == 2 { assert(k * P == 2 * P); }
        else { assert(k * P == 3 * P); }
    }
    lemma_mod_multiples_vanish(-k, z, P);
    assert(z + (-k) * P == z - k * P) by (nonlinear_arith);
}

pub proof fn lemma_sub_raw(a: int, b: int)
    requires 0 <= a < 2 * P, 0 <= b < 2 * P,
    ensures 0 <= sub_raw(a, b) < 2 * P, sub_raw(a, b) % P == (a - b) % P,
{
    if a < b {
        lemma_mod_multiples_vanish(2, a - b, P);
        assert(2 * P + (a - b) == 2 * P - b + a);
    }
}

//@@ source math/src/field/f62/mod.rs
//@@ extract anchor="fn add(a: u64, b: u64) -> u64"
//@@ after "let z = a + b;"
//@@|    proof { assert(z >> 62 == z / 0x4000000000000000u64) by (bit_vector); }
//@@|    proof { let k = (z >> 62) as int; assert(k <= 3); assert(k * P <= 3 * P) by (nonlinear_arith) requires 0 <= k <= 3, P > 0; }
pub fn add(a: u64, b: u64) -> (r: u64)
    requires (a as int) < 2 * P, (b as int) < 2 * P,
    ensures (r as int) == add_raw(a as int, b as int),
{
    proof { lemma_consts(); lemma_add_raw(a as int, b as int); }
    /*@@body*/
}

//@@ extract anchor="fn sub(a: u64, b: u64) -> u64"
pub fn sub(a: u64, b: u64) -> (r: u64)
    requires (a as int) < 2 * P, (b as int) < 2 * P,
    ensures (r as int) == sub_raw(a as int, b as int),
{
    proof { lemma_consts(); }
    /*@@body*/
}

//@@ extract anchor="fn normalize(value: u64) -> u64"
pub fn normalize(value: u64) -> (r: u64)
    requires (value as int) < 2 * P,
    ensures (r as int) == (value as int) % P,
{
    proof {
        lemma_consts();
        if value >= M { lemma_mod_multiples_vanish(-1, value as int, P); lemma_small_mod((value - M) as nat, P as nat); }
        else { lemma_small_mod(value as nat, P as nat); }
    }
    /*@@body*/
}

// ---- residue-level view ------------------------------------------------------------------------------

/// v(e) depends only on the residue class of the raw word
pub proof fn lemma_v_mod(x: int)
    ensures redc(x % P) == redc(x)
{
    lemma_mul_mod_noop_general(x, RINV, P);
}

pub proof fn lemma_redc_mul(a: int, b: int)
    ensures redc(redc(a * b)) == (redc(a) * redc(b)) % P
{
    lemma_mul_mod_noop_general(a * b * RINV, RINV, P);
    assert(redc(redc(a * b)) == ((a * b * RINV) * RINV) % P);
    lemma_mul_mod_noop_general(a * RINV, b * RINV, P);
    assert((a * b * RINV) * RINV == (a * RINV) * (b * RINV)) by (nonlinear_arith);
}

pub proof fn lemma_redc_add(a: int, b: int)
    ensures redc(a + b) == (redc(a) + redc(b)) % P
{
    assert((a + b) * RINV == a * RINV + b * RINV) by (nonlinear_arith);
    lemma_add_mod_noop(a * RINV, b * RINV, P);
}

pub proof fn lemma_redc_sub(a: int, b: int)
    ensures redc(a - b) == (redc(a) - redc(b)) % P
{
    assert((a - b) * RINV == a * RINV - b * RINV) by (nonlinear_arith);
    lemma_sub_mod_noop(a * RINV, b * RINV, P);
}

impl AddSpecImpl<BaseElement> for BaseElement {
    open spec fn obeys_add_spec() -> bool { true }
    open spec fn add_req(self, rhs: BaseElement) -> bool { wf(self) && wf(rhs) }
    open spec fn add_spec(self, rhs: BaseElement) -> BaseElement { BaseElement(add_raw(self.0 as int, rhs.0 as int) as u64) }
}
impl core::ops::Add for BaseElement {
    type Output = Self;
    //@@ extract within="impl Add for BaseElement" anchor="fn add(self, rhs: Self) -> Self"
    fn add(self, rhs: Self) -> Self {
        proof { lemma_consts(); lemma_add_raw(self.0 as int, rhs.0 as int); }
        /*@@body*/
    }
}
pub proof fn lemma_add_val(a: BaseElement, b: BaseElement)
    requires wf(a), wf(b)
    ensures wf(AddSpec::add_spec(a, b)), v(AddSpec::add_spec(a, b)) == (v(a) + v(b)) % P
{
    lemma_consts();
    lemma_add_raw(a.0 as int, b.0 as int);
    lemma_v_mod(add_raw(a.0 as int, b.0 as int));
    lemma_v_mod(a.0 as int + b.0 as int);
    lemma_redc_add(a.0 as int, b.0 as int);
}

impl SubSpecImpl<BaseElement> for BaseElement {
    open spec fn obeys_sub_spec() -> bool { true }
    open spec fn sub_req(self, rhs: BaseElement) -> bool { wf(self) && wf(rhs) }
    open spec fn sub_spec(self, rhs: BaseElement) -> BaseElement { BaseElement(sub_raw(self.0 as int, rhs.0 as int) as u64) }
}
impl core::ops::Sub for BaseElement {
    type Output = Self;
    //@@ extract within="impl Sub for BaseElement" anchor="fn sub(self, rhs: Self) -> Self"
    fn sub(self, rhs: Self) -> Self {
        proof { lemma_consts(); lemma_sub_raw(self.0 as int, rhs.0 as int); }
        /*@@body*/
    }
}
pub proof fn lemma_sub_val(a: BaseElement, b: BaseElement)
    requires wf(a), wf(b)
    ensures wf(SubSpec::sub_spec(a, b)), v(SubSpec::sub_spec(a, b)) == (v(a) - v(b)) % P
{
    lemma_consts();
    lemma_sub_raw(a.0 as int, b.0 as int);
    lemma_v_mod(sub_raw(a.0 as int, b.0 as int));
    lemma_v_mod(a.0 as int - b.0 as int);
    lemma_redc_sub(a.0 as int, b.0 as int);
}

impl NegSpecImpl for BaseElement {
    open spec fn obeys_neg_spec() -> bool { true }
    open spec fn neg_req(self) -> bool { wf(self) }
    open spec fn neg_spec(self) -> BaseElement { BaseElement(sub_raw(0, self.0 as int) as u64) }
}
impl core::ops::Neg for BaseElement {
    type Output = Self;
    //@@ extract within="impl Neg for BaseElement" anchor="fn neg(self) -> Self"
    fn neg(self) -> Self {
        proof { lemma_consts(); lemma_sub_raw(0, self.0 as int); }
        /*@@body*/
    }
}
pub proof fn lemma_neg_val(a: BaseElement)
    requires wf(a)
    ensures wf(NegSpec::neg_spec(a)), v(NegSpec::neg_spec(a)) == (-v(a)) % P
{
    lemma_consts();
    lemma_sub_raw(0, a.0 as int);
    lemma_v_mod(sub_raw(0, a.0 as int));
    lemma_v_mod(0 - a.0 as int);
    lemma_redc_sub(0, a.0 as int);
    assert(redc(0) == 0);
}

impl MulSpecImpl<BaseElement> for BaseElement {
    open spec fn obeys_mul_spec() -> bool { true }
    open spec fn mul_req(self, rhs: BaseElement) -> bool { wf(self) && wf(rhs) }
    open spec fn mul_spec(self, rhs: BaseElement) -> BaseElement { BaseElement(mul_raw(self.0 as int, rhs.0 as int) as u64) }
}
pub proof fn lemma_wf_product(a: int, b: int)
    requires 0 <= a < 2 * P, 0 <= b < 2 * P
    ensures a * b < P * T64, 0 <= a * b
{
    lemma_consts();
    assert(a * b <= (2 * P) * (2 * P)) by (nonlinear_arith) requires 0 <= a < 2 * P, 0 <= b < 2 * P;
    assert((2 * P) * (2 * P) == P * (4 * P)) by (nonlinear_arith);
    assert(P * (4 * P) < P * T64) by (nonlinear_arith) requires 4 * P < T64, P > 0;
    assert(0 <= a * b) by (nonlinear_arith) requires 0 <= a, 0 <= b;
}
impl core::ops::Mul for BaseElement {
    type Output = Self;
    //@@ extract within="impl Mul for BaseElement" anchor="fn mul(self, rhs: Self) -> Self"
    fn mul(self, rhs: Self) -> Self {
        proof { lemma_consts(); lemma_wf_product(self.0 as int, rhs.0 as int); lemma_mul_raw(self.0 as int, rhs.0 as int); }
        /*@@body*/
    }
}
pub proof fn lemma_mul_val(a: BaseElement, b: BaseElement)
    requires wf(a), wf(b)
    ensures wf(MulSpec::mul_spec(a, b)), v(MulSpec::mul_spec(a, b)) == (v(a) * v(b)) % P
{
    lemma_consts();
    lemma_wf_product(a.0 as int, b.0 as int);
    lemma_mul_raw(a.0 as int, b.0 as int);
    lemma_v_mod(mul_raw(a.0 as int, b.0 as int));
    lemma_redc_mul(a.0 as int, b.0 as int);
}

/// to-Montgomery then from-Montgomery is the identity on residues
proof fn lemma_new(x: int)
    ensures redc(redc(x * (R2 as int))) == x % P
{
    lemma_consts();
    let r2 = R2 as int;
    lemma_mul_mod_noop_general(x * r2 * RINV, RINV, P);
    assert(redc(redc(x * r2)) == ((x * r2 * RINV) * RINV) % P);
    assert((x * r2 * RINV) * RINV == x * (r2 * (RINV * RINV))) by (nonlinear_arith);
    lemma_mul_mod_noop_general(x, r2 * (RINV * RINV), P);
    assert((r2 * (RINV * RINV)) % P == 1) by (compute);
    assert((x * (r2 * (RINV * RINV))) % P == ((x % P) * 1) % P);
    lemma_mod_twice(x, P);
}

impl BaseElement {
    //@@ extract anchor="pub const fn new(value: u64) -> BaseElement"
    pub fn new(value: u64) -> (res: BaseElement)
        ensures wf(res), v(res) == (value as int) % P
    {
        proof {
            lemma_consts();
            assert((value as int) * (R2 as int) < P * T64) by (nonlinear_arith)
                requires (value as int) < T64, (R2 as int) < P, 0 <= (value as int), T64 > 0;
            lemma_mul_raw(value as int, R2 as int);
            lemma_v_mod(mul_raw(value as int, R2 as int));
            lemma_new(value as int);
        }
        /*@@body*/
    }

    /// StarkField::as_int: the canonical integer in [0, P) of the residue denoted by self
    //@@ extract within="impl StarkField for BaseElement" anchor="fn as_int(&self) -> Self::PositiveInteger"
    pub fn as_int(&self) -> (r: u64)
        requires wf(*self)
        ensures (r as int) == v(*self), (r as int) < P
    {
        proof {
            lemma_consts();
            assert((self.0 as int) * 1 < P * T64) by (nonlinear_arith) requires (self.0 as int) < 2 * P, 2 * P < T64, P > 0;
            lemma_mul_raw(self.0 as int, 1);
            assert((self.0 as int) * 1 == self.0 as int);
        }
        /*@@body*/
    }

    //@@ extract within="impl FieldElement for BaseElement" anchor="fn double(self) -> Self"
    //@@ after "let z = self.0 << 1;"
    //@@|        proof {
    //@@|            let x = self.0;
    //@@|            assert(x << 1 == x * 2) by (bit_vector) requires x < 0x8000000000000000u64;
    //@@|            assert(z >> 62 == z / 0x4000000000000000u64) by (bit_vector);
    //@@|            let k = (z >> 62) as int; assert(k <= 3); assert(k * P <= 3 * P) by (nonlinear_arith) requires 0 <= k <= 3, P > 0;
    //@@|        }
    pub fn double(self) -> (r: Self)
        requires wf(self)
        ensures wf(r), v(r) == (2 * v(self)) % P
    {
        proof {
            lemma_consts();
            lemma_add_raw(self.0 as int, self.0 as int);
            lemma_add_val(self, self);
        }
        /*@@body*/
    }

    //@@ source math/src/field/traits.rs
    //@@ extract anchor="fn square(self) -> Self"
    pub fn square(self) -> (r: Self)
        requires wf(self)
        ensures wf(r), v(r) == (v(self) * v(self)) % P
    {
        proof { lemma_mul_val(self, self); }
        /*@@body*/
    }
}

// ---- exponentiation ------------------------------------------------------------------------------------

pub open spec fn powm(b: int, e: nat) -> int
    decreases e
{ if e == 0 { 1 } else { (b * powm(b, (e - 1) as nat)) % P } }

proof fn lemma_powm_range(b: int, e: nat)
    ensures 0 <= powm(b, e) < P
    decreases e
{
    reveal_with_fuel(powm, 1);
    if e > 0 { lemma_powm_range(b, (e - 1) as nat); }
}

proof fn lemma_powm_add(b: int, e1: nat, e2: nat)
    ensures powm(b, e1 + e2) == (powm(b, e1) * powm(b, e2)) % P
    decreases e1
{
    lemma_powm_range(b, e2);
    if e1 == 0 {
        reveal_with_fuel(powm, 1);
        lemma_small_mod(powm(b, e2) as nat, P as nat);
    } else {
        lemma_powm_add(b, (e1 - 1) as nat, e2);
        reveal_with_fuel(powm, 1);
        let x = powm(b, (e1 - 1) as nat);
        let y = powm(b, e2);
        assert(powm(b, e1 + e2) == (b * powm(b, (e1 + e2 - 1) as nat)) % P);
        assert(powm(b, (e1 + e2 - 1) as nat) == (x * y) % P);
        lemma_mul_mod_noop_right(b, x * y, P);
        lemma_mul_mod_noop_left(b * x, y, P);
        assert(b * (x * y) == (b * x) * y) by (nonlinear_arith);
    }
}

proof fn lemma_powm_one(b: int)
    requires 0 <= b < P
    ensures powm(b, 1) == b
{
    reveal_with_fuel(powm, 2);
    lemma_small_mod(b as nat, P as nat);
}

proof fn lemma_powm_zero_base(e: nat)
    requires e > 0
    ensures powm(0, e) == 0
{
    reveal_with_fuel(powm, 1);
}

/// the low i bits of power (i <= 64)
pub open spec fn low(power: u64, i: u32) -> nat { ((power as u128) & (((1u128 << (i as u128)) - 1) as u128)) as nat }
pub open spec fn p2(i: u32) -> nat { (1u128 << (i as u128)) as nat }

/// what this unit needs from vstd's specification of u64::leading_zeros
proof fn lemma_leading_zeros(x: u64)
    ensures 0 <= vstd::std_specs::bits::u64_leading_zeros(x) <= 64,
        (x as u128) < (1u128 << ((64 - vstd::std_specs::bits::u64_leading_zeros(x)) as u128)),
{
    vstd::std_specs::bits::axiom_u64_leading_zeros(x);
    let lz = vstd::std_specs::bits::u64_leading_zeros(x);
    let k: u64 = (64 - lz) as u64;
    if k < 64 {
        assert(x >> k == 0);
        assert(x >> k == 0 && k < 64 ==> (x as u128) < (1u128 << (k as u128))) by (bit_vector);
    } else {
        assert((x as u128) < (1u128 << 64u128)) by (bit_vector);
    }
}

impl BaseElement {
    pub fn one() -> (r: Self) ensures wf(r), v(r) == 1
    {
        proof { lemma_small_mod(1, P as nat); }
        /*@@expr source="math/src/field/f62/mod.rs" anchor="const ONE: Self ="*/
    }
    pub fn zero() -> (r: Self) ensures wf(r), v(r) == 0
    {
        proof { lemma_small_mod(0, P as nat); }
        /*@@expr source="math/src/field/f62/mod.rs" anchor="const ZERO: Self ="*/
    }

    //@@ source math/src/field/f62/mod.rs
    //@@ extract within="impl PartialEq for BaseElement" anchor="fn eq(&self, other: &Self) -> bool"
    pub fn eq(&self, other: &Self) -> (r: bool)
        requires wf(*self), wf(*other)
        ensures r == (v(*self) == v(*other))
    {
        proof { lemma_consts(); lemma_eq_iff(self.0 as int, other.0 as int); }
        /*@@body*/
    }

    //@@ extract within="impl FieldElement for BaseElement" anchor="fn exp(self, power: Self::PositiveInteger) -> Self"
    //@@ rewrite "Self::ONE" => "Self::one()"
    //@@ rewrite "Self::ZERO" => "Self::zero()"
    //@@ rewrite "b == Self::zero()" => "b.eq(&Self::zero())"
    //@@ rewrite "r *= b;" => "r = r * b;"
    //@@ before "let mut r = if power & 1 == 1"
    //@@|        proof {
    //@@|            assert(power & 1 == 1 ==> (power as u128) & (((1u128 << 1u128) - 1) as u128) == 1) by (bit_vector);
    //@@|            assert(power & 1 != 1 ==> (power as u128) & (((1u128 << 1u128) - 1) as u128) == 0) by (bit_vector);
    //@@|            assert((1u128 << 0u128) == 1) by (bit_vector);
    //@@|            lemma_powm_one(v(self));
    //@@|            reveal_with_fuel(powm, 1);
    //@@|        }
    //@@|        let ghost x = v(self);
    //@@|        proof { lemma_leading_zeros(power); }
    //@@|        let ghost n: u32 = (64 - vstd::std_specs::bits::u64_leading_zeros(power)) as u32;
    //@@ loop 1
    //@@|            invariant
    //@@|                wf(b), wf(r), 1 <= i <= n, n <= 64, n == 64 - vstd::std_specs::bits::u64_leading_zeros(power), (power as u128) < (1u128 << (n as u128)),
    //@@|                x == v(self), 0 <= x < P,
    //@@|                v(b) == powm(x, p2((i - 1) as u32)),
    //@@|                v(r) == powm(x, low(power, i as u32)),
    //@@ after "r = r * b; } }"
    //@@|        proof {
    //@@|            let pw: u128 = power as u128;
    //@@|            let nn: u128 = n as u128;
    //@@|            assert(nn <= 64 && pw < (1u128 << nn) ==> pw & (((1u128 << nn) - 1) as u128) == pw) by (bit_vector);
    //@@|        }
    //@@ after "b = b.square();"
    //@@|            proof {
    //@@|                let j: u128 = i as u128;
    //@@|                assert(j >= 1 && j <= 63 ==> (1u128 << ((j - 1) as u128)) + (1u128 << ((j - 1) as u128)) == (1u128 << j)) by (bit_vector);
    //@@|                lemma_powm_add(x, p2((i - 1) as u32), p2((i - 1) as u32));
    //@@|                let pw: u128 = power as u128;
    //@@|                assert(j <= 63 && (pw >> j) & 1 == 1 ==> pw & (((1u128 << ((j + 1) as u128)) - 1) as u128) == (pw & (((1u128 << j) - 1) as u128)) + (1u128 << j)) by (bit_vector);
    //@@|                assert(j <= 63 && (pw >> j) & 1 != 1 ==> pw & (((1u128 << ((j + 1) as u128)) - 1) as u128) == (pw & (((1u128 << j) - 1) as u128))) by (bit_vector);
    //@@|                let i64_: u64 = i as u64;
    //@@|                assert(i64_ <= 63 ==> (((power >> i64_) & 1 == 1) <==> ((pw >> j) & 1 == 1))) by (bit_vector) requires pw == power as u128, j == i64_ as u128;
    //@@|                lemma_powm_add(x, low(power, i as u32), p2(i as u32));
    //@@|                lemma_mul_val(r, b);
    //@@|            }
    pub fn exp(self, power: u64) -> (res: Self)
        requires wf(self)
        ensures wf(res), v(res) == powm(v(self), power as nat)
    {
        hide(redc);
        proof { lemma_consts(); reveal_with_fuel(powm, 1); if power > 0 { lemma_powm_zero_base(power as nat); } lemma_v_range(self); }
        /*@@body*/
    }
}

pub proof fn lemma_v_range(a: BaseElement)
    ensures 0 <= v(a) < P
{
}

pub proof fn lemma_eq_iff(a: int, b: int)
    requires 0 <= a, 0 <= b
    ensures (a % P == b % P) <==> (redc(a) == redc(b))
{
    lemma_v_mod(a);
    lemma_v_mod(b);
    if redc(a) == redc(b) {
        lemma_redc_injective(a % P, b % P);
    }
}

/// (x^a)^b == x^(a*b)
proof fn lemma_powm_pow(x: int, a: nat, b: nat)
    requires 0 <= x < P
    ensures powm(powm(x, a), b) == powm(x, a * b)
    decreases b
{
    lemma_powm_range(x, a);
    if b == 0 {
        reveal_with_fuel(powm, 1);
        assert(a * 0 == 0);
    } else {
        lemma_powm_pow(x, a, (b - 1) as nat);
        reveal_with_fuel(powm, 1);
        lemma_powm_add(x, a, a * ((b - 1) as nat));
        assert(a + a * ((b - 1) as nat) == a * b) by (nonlinear_arith) requires b >= 1;
    }
}

/// one step of right-to-left square-and-multiply: with p = 2 p' + bit,
/// r * b^p == (r * b^bit) * (b^2)^p'
proof fn lemma_vartime_step(r: int, b: int, p: nat, bit: nat)
    requires 0 <= r < P, 0 <= b < P, bit <= 1, p % 2 == bit
    ensures (r * powm(b, p)) % P == (((r * powm(b, bit)) % P) * powm((b * b) % P, p / 2)) % P
{
    let h = p / 2;
    assert(p == 2 * h + bit);
    lemma_powm_one(b);
    reveal_with_fuel(powm, 3);
    lemma_small_mod(b as nat, P as nat);
    // (b*b % P) == powm(b, 2)
    assert(powm(b, 2) == (b * ((b * 1) % P)) % P);
    lemma_mul_mod_noop_right(b, b, P);
    lemma_powm_pow(b, 2, h);
    lemma_powm_add(b, bit, 2 * h);
    // r * (b^bit * b^(2h) % P) % P == ((r * b^bit) % P * b^(2h)) % P
    let x1 = powm(b, bit);
    let x2 = powm(b, 2 * h);
    assert(bit + 2 * h == p);
    lemma_mul_mod_noop_right(r, x1 * x2, P);
    lemma_mul_mod_noop_left(r * x1, x2, P);
    assert(r * (x1 * x2) == (r * x1) * x2) by (nonlinear_arith);
}

impl BaseElement {
    /// FieldElement::exp_vartime (generic default method, instantiated for the 62-bit field: PositiveInteger = u64)
    //@@ source math/src/field/traits.rs
    //@@ extract anchor="fn exp_vartime(self, power: Self::PositiveInteger) -> Self"
    //@@ rewrite "Self::PositiveInteger::from(0u32)" => "0u64"
    //@@ rewrite "Self::PositiveInteger::from(1u32)" => "1u64"
    //@@ rewrite "Self::ONE" => "Self::one()"
    //@@ rewrite "Self::ZERO" => "Self::zero()"
    //@@ rewrite "b == Self::zero()" => "b.eq(&Self::zero())"
    //@@ rewrite "r *= b;" => "r = r * b;"
    //@@ rewrite "p >>= int_one;" => "p = p >> int_one;"
    //@@ before "while p > int_zero"
    //@@|        let ghost x = v(self);
    //@@|        proof { lemma_v_range(self); reveal_with_fuel(powm, 1); lemma_powm_range(x, power as nat); lemma_small_mod(powm(x, power as nat) as nat, P as nat); }
    //@@ loop 1
    //@@|            invariant wf(r), wf(b), x == v(self), 0 <= x < P, int_one == 1, int_zero == 0,
    //@@|                (v(r) * powm(v(b), p as nat)) % P == powm(x, power as nat),
    //@@|            decreases p
    //@@ before "if p & int_one == int_one"
    //@@|            let ghost (r0, b0, p0) = (r, b, p);
    //@@|            proof {
    //@@|                lemma_v_range(r); lemma_v_range(b);
    //@@|                assert(p & 1 == p % 2) by (bit_vector);
    //@@|                assert(p >> 1 == p / 2) by (bit_vector);
    //@@|                lemma_vartime_step(v(r), v(b), p as nat, (p % 2) as nat);
    //@@|                lemma_mul_val(r, b);
    //@@|                lemma_powm_one(v(b));
    //@@|                reveal_with_fuel(powm, 1);
    //@@|                lemma_small_mod(v(r) as nat, P as nat);
    //@@|            }
    //@@ after "b = b.square(); }"
    //@@|        proof { lemma_v_range(r); reveal_with_fuel(powm, 1); lemma_small_mod(v(r) as nat, P as nat); }
    pub fn exp_vartime(self, power: u64) -> (res: Self)
        requires wf(self)
        ensures wf(res), v(res) == powm(v(self), power as nat)
    {
        hide(redc);
        proof { lemma_consts(); if power > 0 { lemma_powm_zero_base(power as nat); } lemma_v_range(self); reveal_with_fuel(powm, 1); }
        /*@@body*/
    }
}

/// redc is injective on [0, P)
pub proof fn lemma_redc_injective(a: int, b: int)
    requires 0 <= a < P, 0 <= b < P, redc(a) == redc(b)
    ensures a == b
{
    lemma_consts();
    // multiply both by T64: (a * RINV * T64) % P == a
    lemma_mul_mod_noop_general(a * RINV, T64, P);
    lemma_mul_mod_noop_general(b * RINV, T64, P);
    assert((a * RINV) * T64 == a * (RINV * T64)) by (nonlinear_arith);
    assert((b * RINV) * T64 == b * (RINV * T64)) by (nonlinear_arith);
    lemma_mul_mod_noop_general(a, RINV * T64, P);
    lemma_mul_mod_noop_general(b, RINV * T64, P);
    assert(RINV * T64 == T64 * RINV) by (nonlinear_arith);
    lemma_small_mod(a as nat, P as nat);
    lemma_small_mod(b as nat, P as nat);
}

// ---- inv: binary extended Euclid on the Montgomery word (partial correctness) -------------------------
/// ghost state of the Euclid loops: witnesses of the two congruences and the iteration budget
pub struct G {
    pub ka: int,
    pub kd: int,
    pub k: int,
}

/// a * xn == v and d * xn == -u (mod P) with explicit witnesses; every subtraction shrinks u + v
#[verifier::opaque]
pub open spec fn g_inv(xn: int, u: int, v: int, a: int, d: int, g: G) -> bool {
    &&& 0 < xn < P
    &&& a * xn == v + g.ka * P
    &&& d * xn + u == g.kd * P
    &&& 0 <= g.k && 0 <= u && 0 <= v && g.k + u + v <= 0x1_0000_0000_0000_0000int
}

/// k * P == 2 * t with P odd  ==>  k even
proof fn lemma_even_factor(k: int, t: int)
    requires k * P == 2 * t
    ensures k % 2 == 0
{
    lemma_consts();
    let q = k / 2;
    let r = k % 2;
    assert(k == 2 * q + r);
    assert(k * P == 2 * (q * P) + r * P) by (nonlinear_arith) requires k == 2 * q + r;
    if r == 1 {
        assert(P % 2 == 1) by (compute);
        assert((2 * (q * P) + P) % 2 == 1);
    }
}

proof fn lemma_halve_d(xn: int, h: int, w: int, kd: int)
    requires (2 * h) * xn + 2 * w == kd * P
    ensures kd % 2 == 0, h * xn + w == (kd / 2) * P
{
    assert((2 * h) * xn + 2 * w == 2 * (h * xn + w)) by (nonlinear_arith);
    lemma_even_factor(kd, h * xn + w);
    let q = kd / 2;
    assert(kd * P == 2 * (q * P)) by (nonlinear_arith) requires kd == 2 * q;
}

proof fn lemma_halve_a(xn: int, h: int, w: int, ka: int)
    requires (2 * h) * xn == 2 * w + ka * P
    ensures ka % 2 == 0, h * xn == w + (ka / 2) * P
{
    assert((2 * h) * xn - 2 * w == 2 * (h * xn - w)) by (nonlinear_arith);
    lemma_even_factor(ka, h * xn - w);
    let q = ka / 2;
    assert(ka * P == 2 * (q * P)) by (nonlinear_arith) requires ka == 2 * q;
}

proof fn lemma_g_init(xn: int)
    requires 0 < xn < P
    ensures g_inv(xn, if xn % 2 == 1 { xn } else { xn + P }, P, 0, P - 1, G { ka: -1, kd: if xn % 2 == 1 { xn } else { xn + 1 }, k: 0 })
{
    reveal(g_inv);
    lemma_consts();
    assert(0 * xn == P + (-1) * P) by (nonlinear_arith);
    assert((P - 1) * xn + xn == xn * P) by (nonlinear_arith);
    assert((P - 1) * xn + (xn + P) == (xn + 1) * P) by (nonlinear_arith);
}

proof fn lemma_g_k(xn: int, u: int, v: int, a: int, d: int, g: G)
    requires g_inv(xn, u, v, a, d, g)
    ensures 0 <= g.k <= 0x1_0000_0000_0000_0000int, 0 <= u <= 0x1_0000_0000_0000_0000int, 0 <= v <= 0x1_0000_0000_0000_0000int
{
    reveal(g_inv);
}

/// u -= v; d += a
proof fn lemma_g_sub_u(xn: int, u: int, v: int, a: int, d: int, g: G) -> (h: G)
    requires g_inv(xn, u, v, a, d, g), u > v, v >= 1
    ensures g_inv(xn, u - v, v, a, d + a, h), h == (G { kd: g.kd + g.ka, k: g.k + 1, ..g })
{
    reveal(g_inv);
    assert((d + a) * xn + (u - v) == (g.kd + g.ka) * P) by (nonlinear_arith)
        requires a * xn == v + g.ka * P, d * xn + u == g.kd * P;
    G { kd: g.kd + g.ka, k: g.k + 1, ..g }
}

/// v -= u; a += d
proof fn lemma_g_sub_v(xn: int, u: int, v: int, a: int, d: int, g: G) -> (h: G)
    requires g_inv(xn, u, v, a, d, g), u <= v, u >= 1
    ensures g_inv(xn, u, v - u, a + d, d, h), h == (G { ka: g.ka + g.kd, k: g.k + 1, ..g })
{
    reveal(g_inv);
    assert((a + d) * xn == (v - u) + (g.ka + g.kd) * P) by (nonlinear_arith)
        requires a * xn == v + g.ka * P, d * xn + u == g.kd * P;
    G { ka: g.ka + g.kd, k: g.k + 1, ..g }
}

/// d += m / a += m
proof fn lemma_g_add_p_d(xn: int, u: int, v: int, a: int, d: int, g: G) -> (h: G)
    requires g_inv(xn, u, v, a, d, g)
    ensures g_inv(xn, u, v, a, d + P, h), h == (G { kd: g.kd + xn, ..g })
{
    reveal(g_inv);
    assert((d + P) * xn + u == (g.kd + xn) * P) by (nonlinear_arith) requires d * xn + u == g.kd * P;
    G { kd: g.kd + xn, ..g }
}

proof fn lemma_g_add_p_a(xn: int, u: int, v: int, a: int, d: int, g: G) -> (h: G)
    requires g_inv(xn, u, v, a, d, g)
    ensures g_inv(xn, u, v, a + P, d, h), h == (G { ka: g.ka + xn, ..g })
{
    reveal(g_inv);
    assert((a + P) * xn == v + (g.ka + xn) * P) by (nonlinear_arith) requires a * xn == v + g.ka * P;
    G { ka: g.ka + xn, ..g }
}

/// u >>= 1; d >>= 1 (both even)
proof fn lemma_g_halve_u(xn: int, u: int, v: int, a: int, d: int, g: G) -> (h: G)
    requires g_inv(xn, u, v, a, d, g), u % 2 == 0, d % 2 == 0
    ensures g_inv(xn, u / 2, v, a, d / 2, h), h == (G { kd: g.kd / 2, ..g })
{
    reveal(g_inv);
    assert((2 * (d / 2)) * xn + 2 * (u / 2) == g.kd * P);
    lemma_halve_d(xn, d / 2, u / 2, g.kd);
    G { kd: g.kd / 2, ..g }
}

/// v >>= 1; a >>= 1 (both even)
proof fn lemma_g_halve_v(xn: int, u: int, v: int, a: int, d: int, g: G) -> (h: G)
    requires g_inv(xn, u, v, a, d, g), v % 2 == 0, a % 2 == 0
    ensures g_inv(xn, u, v / 2, a / 2, d, h), h == (G { ka: g.ka / 2, ..g })
{
    reveal(g_inv);
    assert((2 * (a / 2)) * xn == 2 * (v / 2) + g.ka * P);
    lemma_halve_a(xn, a / 2, v / 2, g.ka);
    G { ka: g.ka / 2, ..g }
}

proof fn lemma_g_final(xn: int, u: int, a: int, d: int, g: G)
    requires g_inv(xn, u, 1, a, d, g)
    ensures a * xn == 1 + g.ka * P, 0 < xn < P
{
    reveal(g_inv);
}

/// facts about machine words used by the loops (closed facts, proved once, carried as invariants)
pub open spec fn word_facts() -> bool {
    &&& forall|t: u128| #[trigger] (t & 1) == t % 2
    &&& forall|t: u128| #[trigger] (t >> 1) == t / 2
    &&& M == 4611624995532046337u64
}

proof fn lemma_word_facts()
    ensures word_facts()
{
    assert(forall|t: u128| #[trigger] (t & 1) == t % 2) by (bit_vector);
    assert(forall|t: u128| #[trigger] (t >> 1) == t / 2) by (bit_vector);
    assert(M == 4611624995532046337u64);
}

proof fn lemma_cong_mul(a: int, b: int, c: int, d: int)
    requires a % P == b % P, c % P == d % P
    ensures (a * c) % P == (b * d) % P
{
    lemma_mul_mod_noop_general(a, c, P);
    lemma_mul_mod_noop_general(b, d, P);
}

/// (a c R^-1 R^-1)(xn R^-1) regrouped as (a xn)(c R^-3)
proof fn lemma_regroup(a: int, c: int, xn: int, i: int)
    ensures (((a * c) * i) * i) * (xn * i) == (a * xn) * (((c * i) * i) * i)
{
    let ac = a * c;
    let i2 = i * i;
    let i3 = i2 * i;
    assert((ac * i) * i == ac * i2) by (nonlinear_arith) requires i2 == i * i;
    assert((ac * i2) * (xn * i) == (ac * xn) * i3) by (nonlinear_arith) requires i3 == i2 * i;
    assert(ac * xn == (a * xn) * c) by (nonlinear_arith) requires ac == a * c;
    assert(((a * xn) * c) * i3 == (a * xn) * (c * i3)) by (nonlinear_arith);
    assert((c * i) * i == c * i2) by (nonlinear_arith) requires i2 == i * i;
    assert((c * i2) * i == c * i3) by (nonlinear_arith) requires i3 == i2 * i;
}

proof fn lemma_r3_rinv3()
    ensures ((((R3 as int) * RINV) * RINV) * RINV) % P == 1
{
    lemma_consts();
    assert((((((T64 * T64 * T64) % P) * RINV) * RINV) * RINV) % P == 1) by (compute);
}

/// from a * xn == 1 (mod P) and the Montgomery product r of a and R3 to the statement about residues
proof fn lemma_inv_final(a: int, xn: int, x: int, r: int, ka: int)
    requires a * xn == 1 + ka * P, xn == x % P, r % P == redc(a * (R3 as int)), 0 <= a, 0 <= x
    ensures (redc(r) * redc(x)) % P == 1
{
    let c = R3 as int;
    let bb = (a * c) * RINV;
    let j = ((c * RINV) * RINV) * RINV;
    let ax = a * xn;
    assert(redc(r) == (bb * RINV) % P) by {
        lemma_mod_twice(bb, P);
        lemma_cong_mul(r, bb, RINV, RINV);
    }
    assert(redc(x) == (xn * RINV) % P) by {
        lemma_mod_twice(x, P);
        lemma_cong_mul(x, xn, RINV, RINV);
    }
    assert((redc(r) * redc(x)) % P == ((bb * RINV) * (xn * RINV)) % P) by {
        lemma_mul_mod_noop_general(bb * RINV, xn * RINV, P);
    }
    assert((bb * RINV) * (xn * RINV) == ax * j) by { lemma_regroup(a, c, xn, RINV); }
    assert(ax % P == 1) by {
        lemma_consts();
        lemma_mod_multiples_vanish(ka, 1, P);
        assert(ka * P + 1 == ax);
        lemma_small_mod(1, P as nat);
    }
    assert(j % P == 1) by { lemma_r3_rinv3(); }
    assert((ax * j) % P == 1) by {
        lemma_consts();
        lemma_small_mod(1, P as nat);
        lemma_cong_mul(ax, 1, j, 1);
    }
}

//@@ source math/src/field/f62/mod.rs
//@@ extract anchor="fn inv(x: u64) -> u64"
//@@ before "let x = normalize(x);"
//@@|    let ghost x0 = x as int;
//@@ before "let mut a: u128 = 0;"
//@@|    let ghost xn = x as int;
//@@|    proof {
//@@|        lemma_word_facts();
//@@|        assert(x & 1 == 1 <==> (x as u128) % 2 == 1) by (bit_vector);
//@@|    }
//@@ before "while v != 1"
//@@|    let ghost mut g: G = G { ka: -1, kd: if xn % 2 == 1 { xn } else { xn + 1 }, k: 0 };
//@@|    proof { lemma_g_init(xn); }
//@@ loop 1
//@@|        invariant
//@@|            word_facts(), 0 < xn < P,
//@@|            g_inv(xn, u as int, v as int, a as int, d as int, g),
//@@|            u % 2 == 1, v % 2 == 1,
//@@|            a <= (g.k + 1) * 4611624995532046337, d <= (g.k + 1) * 4611624995532046337,
//@@ loop 2
//@@|            invariant
//@@|                word_facts(), 0 < xn < P,
//@@|                g_inv(xn, u as int, v as int, a as int, d as int, g),
//@@|                u % 2 == 1, v % 2 == 1,
//@@|                a <= (g.k + 1) * 4611624995532046337, d <= (g.k + 1) * 4611624995532046337,
//@@ before "u -= v;"
//@@|            let ghost (uo, ao, dold) = (u as int, a as int, d as int);
//@@|            proof { lemma_g_k(xn, uo, v as int, ao, dold, g); }
//@@ before "while u &"
//@@|            proof {
//@@|                assert(u as int == uo - v as int && d as int == dold + ao);
//@@|                g = lemma_g_sub_u(xn, uo, v as int, ao, dold, g);
//@@|            }
//@@|            let ghost mut first: bool = true;
//@@ loop 3
//@@|                invariant
//@@|                    word_facts(), 0 < xn < P,
//@@|                    g_inv(xn, u as int, v as int, a as int, d as int, g),
//@@|                    first ==> u % 2 == 0,
//@@|                    1 <= u, v % 2 == 1, 1 <= g.k,
//@@|                    a <= g.k * 4611624995532046337,
//@@|                    first ==> d <= 2 * g.k * 4611624995532046337,
//@@|                    !first ==> d <= (g.k + 1) * 4611624995532046337,
//@@ before "if d &"
//@@|                let ghost (uprev, dprev) = (u as int, d as int);
//@@|                proof { lemma_g_k(xn, uprev, v as int, a as int, dprev, g); }
//@@ before "u >>="
//@@|                let ghost dmid = d as int;
//@@|                proof {
//@@|                    if dprev % 2 == 1 {
//@@|                        assert(dmid == dprev + P);
//@@|                        g = lemma_g_add_p_d(xn, uprev, v as int, a as int, dprev, g);
//@@|                    }
//@@|                    assert(dmid % 2 == 0);
//@@|                }
//@@ loopend 3
//@@|                proof {
//@@|                    g = lemma_g_halve_u(xn, uprev, v as int, a as int, dmid, g);
//@@|                    first = false;
//@@|                }
//@@ before "v -= "
//@@|        let ghost (uo, aold, dd, vo) = (u as int, a as int, d as int, v as int);
//@@|        proof { lemma_g_k(xn, uo, vo, aold, dd, g); }
//@@ before "while v &"
//@@|        proof {
//@@|            assert(v as int == vo - uo && a as int == aold + dd);
//@@|            g = lemma_g_sub_v(xn, uo, vo, aold, dd, g);
//@@|        }
//@@|        let ghost mut first: bool = true;
//@@ loop 4
//@@|            invariant
//@@|                word_facts(), 0 < xn < P,
//@@|                g_inv(xn, u as int, v as int, a as int, d as int, g),
//@@|                first ==> v % 2 == 0,
//@@|                u % 2 == 1, 1 <= g.k,
//@@|                d <= g.k * 4611624995532046337,
//@@|                first ==> a <= 2 * g.k * 4611624995532046337,
//@@|                !first ==> a <= (g.k + 1) * 4611624995532046337,
//@@ before "if a &"
//@@|            let ghost (vprev, aprev) = (v as int, a as int);
//@@|            proof { lemma_g_k(xn, u as int, vprev, aprev, d as int, g); }
//@@ before "v >>="
//@@|            let ghost amid = a as int;
//@@|            proof {
//@@|                if aprev % 2 == 1 {
//@@|                    assert(amid == aprev + P);
//@@|                    g = lemma_g_add_p_a(xn, u as int, vprev, aprev, d as int, g);
//@@|                }
//@@|                assert(amid % 2 == 0);
//@@|            }
//@@ loopend 4
//@@|            proof {
//@@|                g = lemma_g_halve_v(xn, u as int, vprev, amid, d as int, g);
//@@|                first = false;
//@@|            }
//@@ loopafter 1
//@@|    let ghost mut ka: int = g.ka;
//@@|    proof { lemma_g_final(xn, u as int, a as int, d as int, g); }
//@@ loop? 5
//@@|        invariant word_facts(), 0 < xn < P, (a as int) * xn == 1 + ka * P,
//@@ before "a -= M"
//@@|        let ghost aold = a as int;
//@@ loopend? 5
//@@|        proof {
//@@|            assert(a as int == aold - P);
//@@|            assert((aold - P) * xn == 1 + (ka - xn) * P) by (nonlinear_arith) requires aold * xn == 1 + ka * P;
//@@|            ka = ka - xn;
//@@|        }
//@@ tail
//@@|    proof {
//@@|        let ai = a as int;
//@@|        assert forall|kk: int| 0 <= kk < T64 implies #[trigger] (ai * kk) < P * T64 by {
//@@|            assert(ai * kk < P * T64) by (nonlinear_arith) requires 0 <= ai <= P, 0 <= kk < T64, P > 0;
//@@|        }
//@@|        assert(ai * (R3 as int) < P * T64);
//@@|        lemma_mul_raw(ai, R3 as int);
//@@|        lemma_inv_final(ai, xn, x0, mul_raw(ai, R3 as int), ka);
//@@|    }
/// C07 for the 62-bit field: inv(0) == 0 (both representatives of zero) and otherwise x * inv(x) == 1 as
/// residues. Partial correctness: termination of the Euclid loops (it needs gcd(x, P) == 1) is not proved.
#[verifier::exec_allows_no_decreases_clause]
pub fn inv(x: u64) -> (r: u64)
    requires (x as int) < 2 * P
    ensures (r as int) < 2 * P,
        (x as int) % P == 0 ==> r == 0,
        (x as int) % P != 0 ==> (redc(r as int) * redc(x as int)) % P == 1,
{
    hide(mul_raw);
    hide(mul_q);
    hide(redc);
    proof { lemma_consts(); }
    /*@@body*/
}

// ---- roots of unity ------------------------------------------------------------------------------------
pub const ROOT: u64 = /*@@expr source="math/src/field/f62/mod.rs" anchor="const G: u64 ="*/;

pub open spec fn pow_sq(b: int, e: nat) -> int
    decreases e
{
    if e == 0 { 1 } else {
        let h = pow_sq(b, e / 2);
        if e % 2 == 0 { (h * h) % P } else { (((h * h) % P) * b) % P }
    }
}

/// square-and-multiply equals the linear power (so that constants can be evaluated by `compute`)
proof fn lemma_pow_sq(b: int, e: nat)
    requires 0 <= b < P
    ensures pow_sq(b, e) == powm(b, e)
    decreases e
{
    if e == 0 {
        reveal_with_fuel(powm, 1);
    } else {
        let h = e / 2;
        lemma_pow_sq(b, h);
        lemma_powm_add(b, h, h);
        lemma_powm_range(b, h + h);
        if e % 2 == 1 {
            lemma_powm_add(b, h + h, 1);
            lemma_powm_one(b);
        }
    }
}

proof fn lemma_shl_pow2(k: u32)
    requires k < 64
    ensures (1u64 << k) == vstd::arithmetic::power2::pow2(k as nat)
    decreases k
{
    if k == 0 {
        assert(1u64 << 0u32 == 1) by (bit_vector);
        vstd::arithmetic::power2::lemma2_to64();
    } else {
        let j = (k - 1) as u32;
        lemma_shl_pow2(j);
        assert((1u64 << ((j + 1) as u32)) == 2 * (1u64 << j)) by (bit_vector) requires j < 63;
        vstd::arithmetic::power2::lemma_pow2_unfold(k as nat);
    }
}

impl BaseElement {
    pub const TWO_ADICITY: u32 = /*@@expr source="math/src/field/f62/mod.rs" anchor="const TWO_ADICITY: u32 ="*/;

    /// StarkField::get_root_of_unity (default method, 62-bit instantiation): for every admissible n the result has
    /// multiplicative order exactly 2^n
    //@@ source math/src/field/traits.rs
    //@@ extract anchor="fn get_root_of_unity(n: u32) -> Self"
    //@@ rewrite "Self::PositiveInteger::from(1u32)" => "1u64"
    //@@ rewrite "Self::TWO_ADIC_ROOT_OF_UNITY" => "Self::new(ROOT)"
    //@@ rewrite-re "assert!\(([^,]+),[^;]*\);" => "assert(\1);"
    pub fn get_root_of_unity(n: u32) -> (r: Self)
        requires n != 0, n <= BaseElement::TWO_ADICITY
        ensures
            wf(r),
            powm(v(r), (1u64 << n) as nat) == 1,
            powm(v(r), (1u64 << ((n - 1) as u32)) as nat) == P - 1,
    {
        let ghost a: nat = (1u64 << ((BaseElement::TWO_ADICITY - n) as u32)) as nat;
        proof {
            lemma_consts();
            assert(BaseElement::TWO_ADICITY == 39 && ROOT as int == 4421547261963328785int) by (compute);
            assert(0 <= ROOT as int && (ROOT as int) < P) by (compute);
            lemma_small_mod(ROOT as nat, P as nat);
            let g = ROOT as int;
            assert(pow_sq(ROOT as int, 0x8000000000nat) == 1) by (compute);
            assert(pow_sq(ROOT as int, 0x4000000000nat) == P - 1) by (compute);
            lemma_pow_sq(g, 0x8000000000nat);
            lemma_pow_sq(g, 0x4000000000nat);
            lemma_shl_pow2((39 - n) as u32); lemma_shl_pow2(n); lemma_shl_pow2((n - 1) as u32);
            vstd::arithmetic::power2::lemma_pow2_adds((39 - n) as nat, n as nat);
            vstd::arithmetic::power2::lemma_pow2_adds((39 - n) as nat, (n - 1) as nat);
            vstd::arithmetic::power2::lemma2_to64(); vstd::arithmetic::power2::lemma2_to64_rest();
            assert(vstd::arithmetic::power2::pow2(39) == 0x8000000000 && vstd::arithmetic::power2::pow2(38) == 0x4000000000);
            lemma_powm_pow(g, a, (1u64 << n) as nat);
            lemma_powm_pow(g, a, (1u64 << ((n - 1) as u32)) as nat);
        }
        /*@@body*/
    }
}

// ---------------------------------------------------------------------------------------------------------------------
// (de)serialization of the 62-bit field (C12): the encoder writes the CANONICAL integer of the residue (8 bytes, little endian,
// below the modulus - whatever the internal representative in [0, 2M) is), the decoder accepts exactly the encodings of
// integers below the modulus, and decoding an encoding returns the same residue. Writer / reader are abstract byte sequences.
pub uninterp spec fn le8(x: u64) -> Seq<u8>;
pub uninterp spec fn de8(s: Seq<u8>) -> u64;
// little-endian encoding of a u64 is 8 bytes long and decodes back (ASSUMED: a fact about to_le_bytes / from_le_bytes)
#[verifier::external_body]
pub proof fn ax_le8(x: u64) ensures le8(x).len() == 8, de8(le8(x)) == x {}
// stands for u64::to_le_bytes (its return type `[u8; size_of::<u64>()]` cannot be named in an assume_specification)
#[verifier::external_body]
pub fn u64_to_le_bytes(x: u64) -> (r: [u8; 8]) ensures r@ == le8(x) { x.to_le_bytes() }
pub struct SerWriter { pub out: Ghost<Seq<u8>> }
impl SerWriter {
    // contracts of ByteWriter::write_bytes / write_u64
    #[verifier::external_body]
    pub fn write_bytes(&mut self, b: &[u8]) ensures final(self).out@ == old(self).out@ + b@ { unimplemented!() }
    #[verifier::external_body]
    pub fn write_u64(&mut self, x: u64) ensures final(self).out@ == old(self).out@ + le8(x) { unimplemented!() }
}
pub struct Msg;
pub enum DeserializationError { InvalidValue(Msg), UnexpectedEOF }
#[verifier::external_body]
pub fn err_text() -> Msg { unimplemented!() }
pub struct SerReader { pub rem: Ghost<Seq<u8>> }
impl SerReader {
    // contract of ByteReader::read_u64: the next 8 bytes as a little-endian integer, Err when fewer remain
    #[verifier::external_body]
    pub fn read_u64(&mut self) -> (r: Result<u64, DeserializationError>)
        ensures
            r is Ok <==> old(self).rem@.len() >= 8,
            r is Ok ==> r->Ok_0 == de8(old(self).rem@.take(8)) && le8(r->Ok_0) == old(self).rem@.take(8) && final(self).rem@ == old(self).rem@.skip(8),
    { unimplemented!() }
}

impl BaseElement {
    //@@ source math/src/field/f62/mod.rs
    //@@ extract within="impl Serializable for BaseElement" anchor="fn write_into<W: ByteWriter>(&self, target: &mut W)"
    //@@ rewrite-re "([A-Za-z_.()0-9]+)\.to_le_bytes\(\)" => "u64_to_le_bytes(\1)"
    pub fn write_into(&self, target: &mut SerWriter)
        requires wf(*self)
        ensures final(target).out@ == old(target).out@ + le8(v(*self) as u64)
    {
        /*@@body*/
    }

    //@@ extract within="impl Deserializable for BaseElement" anchor="fn read_from<R: ByteReader>(source: &mut R) -> Result<Self, DeserializationError>"
    //@@ rewrite-re "format!\(\s*\"[^\"]*\"\s*\)" => "err_text()"
    pub fn read_from(source: &mut SerReader) -> (r: Result<BaseElement, DeserializationError>)
        ensures
            old(source).rem@.len() < 8 ==> r is Err,
            r is Ok ==> wf(r->Ok_0) && v(r->Ok_0) < P && le8(v(r->Ok_0) as u64) == old(source).rem@.take(8)
                && final(source).rem@ == old(source).rem@.skip(8),
            r is Ok ==> v(r->Ok_0) == de8(old(source).rem@.take(8)),
            // refused exactly when the 8 bytes encode an integer that is not below the modulus
            (r is Err && old(source).rem@.len() >= 8) ==> de8(old(source).rem@.take(8)) >= P,
    {
        proof { lemma_consts(); }
        /*@@body*/
    }
}

// round trip: what write_into appended for an element e is decoded by read_from to the same residue, 8 bytes consumed
proof fn lemma_f62_serde_roundtrip(e: BaseElement, rest: Seq<u8>)
    requires wf(e)
    ensures
        (le8(v(e) as u64) + rest).len() >= 8,
        (le8(v(e) as u64) + rest).take(8) == le8(v(e) as u64),
        (le8(v(e) as u64) + rest).skip(8) == rest,
        de8((le8(v(e) as u64) + rest).take(8)) == v(e),      // so read_from cannot refuse it (v(e) < P) and returns this residue
{
    let x = v(e) as u64;
    ax_le8(x);
    assert((le8(x) + rest).take(8) =~= le8(x));
    assert((le8(x) + rest).skip(8) =~= rest);
}

proof fn f62_canary_must_fail()
    ensures redc(5) == 5
{
}

} // verus!

fn main() {}
