// Verus unit fconsts: the published constants of the three base fields satisfy their defining equations.
// The numbers are taken from the source text on every run; the equations are evaluated by Verus' compute
// mode on mathematical integers (square-and-multiply specs, at most 128 steps).
use vstd::prelude::*;

verus! {

pub open spec fn pow_sq(b: int, e: nat, p: int) -> int
    decreases e
{
    if e == 0 { 1 } else {
        let h = pow_sq(b, e / 2, p);
        if e % 2 == 0 { (h * h) % p } else { (((h * h) % p) * b) % p }
    }
}

// ---- 64-bit field: p = 2^64 - 2^32 + 1 -----------------------------------------------------------------
pub spec const P64: int = 0xFFFFFFFF00000001int;
pub const M64: u64 = /*@@expr source="math/src/field/f64/mod.rs" anchor="const M: u64 ="*/;
pub const ROOT64: u64 = /*@@expr source="math/src/field/f64/mod.rs" anchor="const TWO_ADIC_ROOT_OF_UNITY: Self = Self::new(" end=")"*/;
pub const GEN64: u64 = /*@@expr source="math/src/field/f64/mod.rs" anchor="const GENERATOR: Self = Self::new(" end=")"*/;
pub const ADICITY64: u32 = /*@@expr source="math/src/field/f64/mod.rs" anchor="const TWO_ADICITY: u32 ="*/;

proof fn f64_constants()
    ensures
        M64 as int == P64,
        ADICITY64 == 32,
        // p - 1 = 2^32 * (2^32 - 1), the cofactor being odd
        P64 - 1 == 0x1_0000_0000int * 0xFFFF_FFFFint,
        // the root has order exactly 2^32
        pow_sq(ROOT64 as int, 0x1_0000_0000nat, P64) == 1,
        pow_sq(ROOT64 as int, 0x8000_0000nat, P64) == P64 - 1,
        // (documented: chosen so that the generator of the 64-element subgroup is 8)
        pow_sq(ROOT64 as int, 0x400_0000nat, P64) == 8,
        // the generator is primitive: g^((p-1)/q) != 1 for the prime factors q of p - 1 = 2^32 * 3 * 5 * 17 * 257 * 65537
        pow_sq(GEN64 as int, ((P64 - 1) / 2) as nat, P64) != 1,
        pow_sq(GEN64 as int, ((P64 - 1) / 3) as nat, P64) != 1,
        pow_sq(GEN64 as int, ((P64 - 1) / 5) as nat, P64) != 1,
        pow_sq(GEN64 as int, ((P64 - 1) / 17) as nat, P64) != 1,
        pow_sq(GEN64 as int, ((P64 - 1) / 257) as nat, P64) != 1,
        pow_sq(GEN64 as int, ((P64 - 1) / 65537) as nat, P64) != 1,
        3 * 5 * 17 * 257 * 65537 == 0xFFFF_FFFFint,
{
    assert(M64 as int == P64) by (compute);
    assert(ADICITY64 == 32) by (compute);
    assert(P64 - 1 == 0x1_0000_0000int * 0xFFFF_FFFFint) by (compute);
    assert(pow_sq(ROOT64 as int, 0x1_0000_0000nat, P64) == 1) by (compute);
    assert(pow_sq(ROOT64 as int, 0x8000_0000nat, P64) == P64 - 1) by (compute);
    assert(pow_sq(ROOT64 as int, 0x400_0000nat, P64) == 8) by (compute);
    assert(pow_sq(GEN64 as int, ((P64 - 1) / 2) as nat, P64) != 1) by (compute);
    assert(pow_sq(GEN64 as int, ((P64 - 1) / 3) as nat, P64) != 1) by (compute);
    assert(pow_sq(GEN64 as int, ((P64 - 1) / 5) as nat, P64) != 1) by (compute);
    assert(pow_sq(GEN64 as int, ((P64 - 1) / 17) as nat, P64) != 1) by (compute);
    assert(pow_sq(GEN64 as int, ((P64 - 1) / 257) as nat, P64) != 1) by (compute);
    assert(pow_sq(GEN64 as int, ((P64 - 1) / 65537) as nat, P64) != 1) by (compute);
    assert(3 * 5 * 17 * 257 * 65537 == 0xFFFF_FFFFint) by (compute);
}

// ---- 62-bit field: p = 2^62 - 111 * 2^39 + 1 ------------------------------------------------------------
pub spec const P62: int = 4611624995532046337int;
pub const M62: u64 = /*@@expr source="math/src/field/f62/mod.rs" anchor="const M: u64 ="*/;
pub const G62: u64 = /*@@expr source="math/src/field/f62/mod.rs" anchor="const G: u64 ="*/;
pub const GEN62: u64 = /*@@expr source="math/src/field/f62/mod.rs" anchor="const GENERATOR: Self = BaseElement::new(" end=")"*/;
pub const ADICITY62: u32 = /*@@expr source="math/src/field/f62/mod.rs" anchor="const TWO_ADICITY: u32 ="*/;

proof fn f62_constants()
    ensures
        M62 as int == P62,
        P62 == 0x4000_0000_0000_0000int - 111 * 0x80_0000_0000int + 1,
        ADICITY62 == 39,
        (P62 - 1) % 0x80_0000_0000int == 0, ((P62 - 1) / 0x80_0000_0000int) % 2 == 1,
        pow_sq(G62 as int, 0x80_0000_0000nat, P62) == 1,
        pow_sq(G62 as int, 0x40_0000_0000nat, P62) == P62 - 1,
        pow_sq(GEN62 as int, ((P62 - 1) / 0x80_0000_0000int) as nat, P62) == G62 as int,
{
    assert(M62 as int == P62) by (compute);
    assert(P62 == 0x4000_0000_0000_0000int - 111 * 0x80_0000_0000int + 1) by (compute);
    assert(ADICITY62 == 39) by (compute);
    assert((P62 - 1) % 0x80_0000_0000int == 0) by (compute);
    assert(((P62 - 1) / 0x80_0000_0000int) % 2 == 1) by (compute);
    assert(pow_sq(G62 as int, 0x80_0000_0000nat, P62) == 1) by (compute);
    assert(pow_sq(G62 as int, 0x40_0000_0000nat, P62) == P62 - 1) by (compute);
    assert(pow_sq(GEN62 as int, ((P62 - 1) / 0x80_0000_0000int) as nat, P62) == G62 as int) by (compute);
}

// ---- 128-bit field: p = 2^128 - 45 * 2^40 + 1 -----------------------------------------------------------
pub spec const P128: int = 340282366920938463463374557953744961537int;
pub const M128: u128 = /*@@expr source="math/src/field/f128/mod.rs" anchor="const M: u128 ="*/;
pub const G128: u128 = /*@@expr source="math/src/field/f128/mod.rs" anchor="const G: u128 ="*/;
pub const GEN128: u128 = /*@@expr source="math/src/field/f128/mod.rs" anchor="const GENERATOR: Self = BaseElement(" end=")"*/;
pub const ADICITY128: u32 = /*@@expr source="math/src/field/f128/mod.rs" anchor="const TWO_ADICITY: u32 ="*/;

proof fn f128_constants()
    ensures
        M128 as int == P128,
        P128 == 0x1_0000_0000_0000_0000_0000_0000_0000_0000int - 45 * 0x100_0000_0000int + 1,
        ADICITY128 == 40,
        (P128 - 1) % 0x100_0000_0000int == 0, ((P128 - 1) / 0x100_0000_0000int) % 2 == 1,
        pow_sq(G128 as int, 0x100_0000_0000nat, P128) == 1,
        pow_sq(G128 as int, 0x80_0000_0000nat, P128) == P128 - 1,
        pow_sq(GEN128 as int, ((P128 - 1) / 0x100_0000_0000int) as nat, P128) == G128 as int,
{
    assert(M128 as int == P128) by (compute);
    assert(P128 == 0x1_0000_0000_0000_0000_0000_0000_0000_0000int - 45 * 0x100_0000_0000int + 1) by (compute);
    assert(ADICITY128 == 40) by (compute);
    assert((P128 - 1) % 0x100_0000_0000int == 0) by (compute);
    assert(((P128 - 1) / 0x100_0000_0000int) % 2 == 1) by (compute);
    assert(pow_sq(G128 as int, 0x100_0000_0000nat, P128) == 1) by (compute);
    assert(pow_sq(G128 as int, 0x80_0000_0000nat, P128) == P128 - 1) by (compute);
    assert(pow_sq(GEN128 as int, ((P128 - 1) / 0x100_0000_0000int) as nat, P128) == G128 as int) by (compute);
}

proof fn fconsts_canary_must_fail()
    ensures pow_sq(7, 2nat, P64) == 50
{
}

} // verus!

fn main() {}
