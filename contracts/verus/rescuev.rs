// Verus unit rescuev: the round structure of the three Rescue Prime permutations (C11) - apply_permutation and apply_round of
// Rp64_256, RpJive64_256 (crypto/src/hash/rescue/rp64_256*/mod.rs) and Rp62_248 (crypto/src/hash/rescue/rp62_248/mod.rs), and
// apply_sbox of Rp64_256, bodies cut out of /repo.
// Decided, for every state:
//   apply_round(state, r)   is  add(mds(inv_sbox(add(mds(sbox(state)), ARK1[r]))), ARK2[r])  - S-box, MDS, first round constants,
//                           inverse S-box, MDS, second round constants, in that order, with the constants of round r;
//   apply_permutation       is rounds 0, 1, .., NUM_ROUNDS - 1 applied in that order (NUM_ROUNDS read from /repo);
//   apply_sbox (Rp64_256)   raises each of the 12 lanes to the 7th power (exp7, proved == x^7 in unit f64v, C07).
// The step functions (S-boxes, MDS product, constant addition) are NAMED, not interpreted, here: the MDS product is proved in
// units mds8 / mds12, exp7 / the field operations in C07, and the bounded stand-in rescue_native executes all of them against an
// independent reference. Literal rewrite (listed): `&ARK1[round]` / `&ARK2[round]` become calls of `ark1(round)` / `ark2(round)`
// (a constant table cannot be imported into the single-file unit; the index is checked to be in range).
use vstd::prelude::*;
verus! {
global size_of usize == 8;

#[derive(Copy, Clone, PartialEq, Eq, Structural)]
pub struct BaseElement(pub u64);
pub const STATE_WIDTH: usize = 12;
pub const NUM_ROUNDS: usize = /*@@expr source="crypto/src/hash/rescue/rp64_256/mod.rs" anchor="const NUM_ROUNDS: usize ="*/;
pub const NUM_ROUNDS_JIVE: usize = /*@@expr source="crypto/src/hash/rescue/rp64_256_jive/mod.rs" anchor="const NUM_ROUNDS: usize ="*/;
pub const NUM_ROUNDS_62: usize = /*@@expr source="crypto/src/hash/rescue/rp62_248/mod.rs" anchor="const NUM_ROUNDS: usize ="*/;

pub type St = [BaseElement; 12];
pub uninterp spec fn sbox_spec(h: int, s: Seq<BaseElement>) -> Seq<BaseElement>;
pub uninterp spec fn inv_sbox_spec(h: int, s: Seq<BaseElement>) -> Seq<BaseElement>;
pub uninterp spec fn mds_spec(h: int, s: Seq<BaseElement>) -> Seq<BaseElement>;
pub uninterp spec fn addk_spec(s: Seq<BaseElement>, k: Seq<BaseElement>) -> Seq<BaseElement>;
pub uninterp spec fn ark1_spec(h: int, r: int) -> Seq<BaseElement>;
pub uninterp spec fn ark2_spec(h: int, r: int) -> Seq<BaseElement>;
pub uninterp spec fn exp7_spec(x: BaseElement) -> BaseElement;

pub open spec fn round_spec(h: int, s: Seq<BaseElement>, r: int) -> Seq<BaseElement> {
    addk_spec(mds_spec(h, inv_sbox_spec(h, addk_spec(mds_spec(h, sbox_spec(h, s)), ark1_spec(h, r)))), ark2_spec(h, r))
}
pub open spec fn perm_spec(h: int, s: Seq<BaseElement>, n: nat) -> Seq<BaseElement>
    decreases n
{
    if n == 0 { s } else { round_spec(h, perm_spec(h, s, (n - 1) as nat), n - 1) }
}

impl BaseElement {
    #[verifier::external_body]
    pub fn exp7(self) -> (r: BaseElement) ensures r == exp7_spec(self) { unimplemented!() }
}

// ---- Rp64_256 (h = 0) ------------------------------------------------------------------------------------------------
pub struct Rp64_256;
#[verifier::external_body]
pub fn ark1(round: usize) -> (r: [BaseElement; 12]) requires round < NUM_ROUNDS ensures r@ == ark1_spec(0, round as int) { unimplemented!() }
#[verifier::external_body]
pub fn ark2(round: usize) -> (r: [BaseElement; 12]) requires round < NUM_ROUNDS ensures r@ == ark2_spec(0, round as int) { unimplemented!() }
impl Rp64_256 {
    #[verifier::external_body]
    fn apply_inv_sbox(state: &mut [BaseElement; 12]) ensures final(state)@ == inv_sbox_spec(0, old(state)@) { unimplemented!() }
    #[verifier::external_body]
    fn apply_mds(state: &mut [BaseElement; 12]) ensures final(state)@ == mds_spec(0, old(state)@) { unimplemented!() }
    #[verifier::external_body]
    fn add_constants(state: &mut [BaseElement; 12], ark: &[BaseElement; 12]) ensures final(state)@ == addk_spec(old(state)@, ark@) { unimplemented!() }

    //@@ source crypto/src/hash/rescue/rp64_256/mod.rs
    //@@ extract anchor="fn apply_sbox(state: &mut [BaseElement; STATE_WIDTH])"
    fn apply_sbox(state: &mut [BaseElement; 12])
        ensures
            final(state)@.len() == 12,
            forall|i: int| 0 <= i < 12 ==> #[trigger] final(state)@[i] == exp7_spec(old(state)@[i]),
    {
        /*@@body*/
    }

    //@@ extract anchor="pub fn apply_round(state: &mut [BaseElement; STATE_WIDTH], round: usize)"
    //@@ rewrite "Self::apply_sbox(state);" => "Self::apply_sbox_named(state);"
    //@@ rewrite "&ARK1[round]" => "&ark1(round)"
    //@@ rewrite "&ARK2[round]" => "&ark2(round)"
    pub fn apply_round(state: &mut [BaseElement; 12], round: usize)
        requires round < NUM_ROUNDS
        ensures final(state)@ == round_spec(0, old(state)@, round as int)
    {
        /*@@body*/
    }

    // apply_sbox under its NAME (what apply_round composes); its lane-wise meaning is the contract of apply_sbox above
    #[verifier::external_body]
    fn apply_sbox_named(state: &mut [BaseElement; 12]) ensures final(state)@ == sbox_spec(0, old(state)@) { unimplemented!() }

    //@@ extract anchor="pub fn apply_permutation(state: &mut [BaseElement; STATE_WIDTH])"
    //@@ loop 1
    //@@|            invariant
    //@@|                0 <= i <= NUM_ROUNDS,
    //@@|                state@ == perm_spec(0, s0, i as nat),
    pub fn apply_permutation(state: &mut [BaseElement; 12])
        ensures final(state)@ == perm_spec(0, old(state)@, NUM_ROUNDS as nat)
    {
        let ghost s0 = state@;
        /*@@body*/
    }
}

// ---- RpJive64_256 (h = 1) ---------------------------------------------------------------------------------------------
pub struct RpJive64_256;
#[verifier::external_body]
pub fn ark1_jive(round: usize) -> (r: [BaseElement; 12]) requires round < NUM_ROUNDS_JIVE ensures r@ == ark1_spec(1, round as int) { unimplemented!() }
#[verifier::external_body]
pub fn ark2_jive(round: usize) -> (r: [BaseElement; 12]) requires round < NUM_ROUNDS_JIVE ensures r@ == ark2_spec(1, round as int) { unimplemented!() }
impl RpJive64_256 {
    #[verifier::external_body]
    fn apply_sbox(state: &mut [BaseElement; 12]) ensures final(state)@ == sbox_spec(1, old(state)@) { unimplemented!() }
    #[verifier::external_body]
    fn apply_inv_sbox(state: &mut [BaseElement; 12]) ensures final(state)@ == inv_sbox_spec(1, old(state)@) { unimplemented!() }
    #[verifier::external_body]
    fn apply_mds(state: &mut [BaseElement; 12]) ensures final(state)@ == mds_spec(1, old(state)@) { unimplemented!() }
    #[verifier::external_body]
    fn add_constants(state: &mut [BaseElement; 12], ark: &[BaseElement; 12]) ensures final(state)@ == addk_spec(old(state)@, ark@) { unimplemented!() }

    //@@ source crypto/src/hash/rescue/rp64_256_jive/mod.rs
    //@@ extract anchor="pub fn apply_round(state: &mut [BaseElement; STATE_WIDTH], round: usize)"
    //@@ rewrite "&ARK1[round]" => "&ark1_jive(round)"
    //@@ rewrite "&ARK2[round]" => "&ark2_jive(round)"
    pub fn apply_round(state: &mut [BaseElement; 12], round: usize)
        requires round < NUM_ROUNDS_JIVE
        ensures final(state)@ == round_spec(1, old(state)@, round as int)
    {
        /*@@body*/
    }

    //@@ extract anchor="pub fn apply_permutation(state: &mut [BaseElement; STATE_WIDTH])"
    //@@ rewrite "NUM_ROUNDS" => "NUM_ROUNDS_JIVE"
    //@@ loop 1
    //@@|            invariant
    //@@|                0 <= i <= NUM_ROUNDS_JIVE,
    //@@|                state@ == perm_spec(1, s0, i as nat),
    pub fn apply_permutation(state: &mut [BaseElement; 12])
        ensures final(state)@ == perm_spec(1, old(state)@, NUM_ROUNDS_JIVE as nat)
    {
        let ghost s0 = state@;
        /*@@body*/
    }
}

// ---- Rp62_248 (h = 2; free functions) -------------------------------------------------------------------------------
pub mod rp62 {
    use super::*;
    #[verifier::external_body]
    pub fn ark1_62(round: usize) -> (r: [BaseElement; 12]) requires round < NUM_ROUNDS_62 ensures r@ == ark1_spec(2, round as int) { unimplemented!() }
    #[verifier::external_body]
    pub fn ark2_62(round: usize) -> (r: [BaseElement; 12]) requires round < NUM_ROUNDS_62 ensures r@ == ark2_spec(2, round as int) { unimplemented!() }
    #[verifier::external_body]
    pub fn apply_sbox(state: &mut [BaseElement; 12]) ensures final(state)@ == sbox_spec(2, old(state)@) { unimplemented!() }
    #[verifier::external_body]
    pub fn apply_inv_sbox(state: &mut [BaseElement; 12]) ensures final(state)@ == inv_sbox_spec(2, old(state)@) { unimplemented!() }
    #[verifier::external_body]
    pub fn apply_mds(state: &mut [BaseElement; 12]) ensures final(state)@ == mds_spec(2, old(state)@) { unimplemented!() }
    #[verifier::external_body]
    pub fn add_constants(state: &mut [BaseElement; 12], ark: &[BaseElement; 12]) ensures final(state)@ == addk_spec(old(state)@, ark@) { unimplemented!() }

    //@@ source crypto/src/hash/rescue/rp62_248/mod.rs
    //@@ extract anchor="fn apply_round(state: &mut [BaseElement; STATE_WIDTH], round: usize)"
    //@@ rewrite "&ARK1[round]" => "&ark1_62(round)"
    //@@ rewrite "&ARK2[round]" => "&ark2_62(round)"
    pub fn apply_round(state: &mut [BaseElement; 12], round: usize)
        requires round < NUM_ROUNDS_62
        ensures final(state)@ == round_spec(2, old(state)@, round as int)
    {
        /*@@body*/
    }

    //@@ extract anchor="fn apply_permutation(state: &mut [BaseElement; STATE_WIDTH])"
    //@@ rewrite "NUM_ROUNDS" => "NUM_ROUNDS_62"
    //@@ loop 1
    //@@|            invariant
    //@@|                0 <= i <= NUM_ROUNDS_62,
    //@@|                state@ == perm_spec(2, s0, i as nat),
    pub fn apply_permutation(state: &mut [BaseElement; 12])
        ensures final(state)@ == perm_spec(2, old(state)@, NUM_ROUNDS_62 as nat)
    {
        let ghost s0 = state@;
        /*@@body*/
    }
}

proof fn rescuev_canary_must_fail(s: Seq<BaseElement>)
    ensures perm_spec(0, s, 2) == perm_spec(0, s, 1)
{
}

} // verus!
fn main() {}
