// Verus unit rescuev: the round structure of the three Rescue permutations (crypto/src/hash/rescue/{rp64_256, rp62_248,
// rp64_256_jive}/mod.rs), bodies of apply_round / apply_permutation (and the straight-line S-box of the 64-bit hashers) cut
// out of /repo. The five layer functions are abstract (uninterpreted): what is decided is the COMPOSITION the reference
// definition prescribes -
//   round r        = add ARK2[r] . MDS . inverse S-box . add ARK1[r] . MDS . S-box
//   permutation    = round 6 . round 5 . ... . round 0      (NUM_ROUNDS is read from the source and must be 7)
//   S-box (64-bit) = lane-wise x -> x^7 through exp7 (whose contract x^7 mod p is proved in unit f64v)
// - for every state. A reordered layer, a swapped or shifted round-constant table, a changed number of rounds or a lane
// left out of the S-box fails an obligation. Not decided here: the layers themselves (MDS product: units mds8 / mds12;
// inverse S-box and constant addition are closure-based bodies outside Verus: unit tests of the repository only); the
// round constants have no independent definition in the repository.
use vstd::prelude::*;
verus! {
global size_of usize == 8;

#[derive(Copy, Clone, PartialEq, Eq, Structural)]
pub struct E(pub u64);
pub uninterp spec fn exp7_of(x: E) -> E;
impl E {
    #[verifier::external_body]
    pub fn exp7(self) -> (r: E) ensures r == exp7_of(self) { unimplemented!() }
}

pub mod rp64 {
    use super::*;
    pub const STATE_WIDTH: usize = 12;
    pub const NUM_ROUNDS: usize = /*@@expr source="crypto/src/hash/rescue/rp64_256/mod.rs" anchor="const NUM_ROUNDS: usize ="*/;
    pub const ARK1: [[E; 12]; 7] = [[E(1), E(1), E(1), E(1), E(1), E(1), E(1), E(1), E(1), E(1), E(1), E(1)], [E(11), E(11), E(11), E(11), E(11), E(11), E(11), E(11), E(11), E(11), E(11), E(11)], [E(21), E(21), E(21), E(21), E(21), E(21), E(21), E(21), E(21), E(21), E(21), E(21)], [E(31), E(31), E(31), E(31), E(31), E(31), E(31), E(31), E(31), E(31), E(31), E(31)], [E(41), E(41), E(41), E(41), E(41), E(41), E(41), E(41), E(41), E(41), E(41), E(41)], [E(51), E(51), E(51), E(51), E(51), E(51), E(51), E(51), E(51), E(51), E(51), E(51)], [E(61), E(61), E(61), E(61), E(61), E(61), E(61), E(61), E(61), E(61), E(61), E(61)]];
    pub const ARK2: [[E; 12]; 7] = [[E(2), E(2), E(2), E(2), E(2), E(2), E(2), E(2), E(2), E(2), E(2), E(2)], [E(12), E(12), E(12), E(12), E(12), E(12), E(12), E(12), E(12), E(12), E(12), E(12)], [E(22), E(22), E(22), E(22), E(22), E(22), E(22), E(22), E(22), E(22), E(22), E(22)], [E(32), E(32), E(32), E(32), E(32), E(32), E(32), E(32), E(32), E(32), E(32), E(32)], [E(42), E(42), E(42), E(42), E(42), E(42), E(42), E(42), E(42), E(42), E(42), E(42)], [E(52), E(52), E(52), E(52), E(52), E(52), E(52), E(52), E(52), E(52), E(52), E(52)], [E(62), E(62), E(62), E(62), E(62), E(62), E(62), E(62), E(62), E(62), E(62), E(62)]];
    pub open spec fn sbox_of(s: Seq<E>) -> Seq<E> { Seq::new(12, |i: int| exp7_of(s[i])) }
    pub uninterp spec fn inv_sbox_of(s: Seq<E>) -> Seq<E>;
    pub uninterp spec fn mds_of(s: Seq<E>) -> Seq<E>;
    pub uninterp spec fn addc_of(s: Seq<E>, k: Seq<E>) -> Seq<E>;

    pub open spec fn round_of(s: Seq<E>, r: int) -> Seq<E> {
        addc_of(mds_of(inv_sbox_of(addc_of(mds_of(sbox_of(s)), ARK1[r]@))), ARK2[r]@)
    }
    pub open spec fn rounds_of(s: Seq<E>, n: int) -> Seq<E>
        decreases n
    {
        if n <= 0 { s } else { round_of(rounds_of(s, n - 1), n - 1) }
    }

    pub struct Hasher;
    impl Hasher {
        #[verifier::external_body]
        pub fn apply_mds(state: &mut [E; 12]) ensures final(state)@ == mds_of(old(state)@) { unimplemented!() }
        #[verifier::external_body]
        pub fn add_constants(state: &mut [E; 12], ark: &[E; 12]) ensures final(state)@ == addc_of(old(state)@, ark@) { unimplemented!() }
        #[verifier::external_body]
        pub fn apply_inv_sbox(state: &mut [E; 12]) ensures final(state)@ == inv_sbox_of(old(state)@) { unimplemented!() }
        //@@ source crypto/src/hash/rescue/rp64_256/mod.rs
        //@@ extract anchor="fn apply_sbox(state: &mut [BaseElement; STATE_WIDTH])"
        pub fn apply_sbox(state: &mut [E; 12])
            ensures
                final(state)@.len() == 12,
                forall|i: int| 0 <= i < 12 ==> #[trigger] final(state)@[i] == exp7_of(old(state)@[i]),
        {
            /*@@body*/
        }

        //@@ source crypto/src/hash/rescue/rp64_256/mod.rs
        //@@ extract anchor="fn apply_round(state: &mut [BaseElement; STATE_WIDTH], round: usize)"
        //
        //@@ after "Self::apply_sbox(state);"
        //@@|            proof { assert(state@ =~= sbox_of(old(state)@)); }
        pub fn apply_round(state: &mut [E; 12], round: usize)
            requires round < 7
            ensures final(state)@ == round_of(old(state)@, round as int)
        {
            /*@@body*/
        }

        //@@ extract anchor="fn apply_permutation(state: &mut [BaseElement; STATE_WIDTH])"
        //
        //@@ loop 1
        //@@|                invariant state@ == rounds_of(old(state)@, i as int), NUM_ROUNDS == 7,
        pub fn apply_permutation(state: &mut [E; 12])
            ensures final(state)@ == rounds_of(old(state)@, 7)
        {
            /*@@body*/
        }
    }
}

pub mod jive {
    use super::*;
    pub const STATE_WIDTH: usize = 8;
    pub const NUM_ROUNDS: usize = /*@@expr source="crypto/src/hash/rescue/rp64_256_jive/mod.rs" anchor="const NUM_ROUNDS: usize ="*/;
    pub const ARK1: [[E; 8]; 7] = [[E(1), E(1), E(1), E(1), E(1), E(1), E(1), E(1)], [E(11), E(11), E(11), E(11), E(11), E(11), E(11), E(11)], [E(21), E(21), E(21), E(21), E(21), E(21), E(21), E(21)], [E(31), E(31), E(31), E(31), E(31), E(31), E(31), E(31)], [E(41), E(41), E(41), E(41), E(41), E(41), E(41), E(41)], [E(51), E(51), E(51), E(51), E(51), E(51), E(51), E(51)], [E(61), E(61), E(61), E(61), E(61), E(61), E(61), E(61)]];
    pub const ARK2: [[E; 8]; 7] = [[E(2), E(2), E(2), E(2), E(2), E(2), E(2), E(2)], [E(12), E(12), E(12), E(12), E(12), E(12), E(12), E(12)], [E(22), E(22), E(22), E(22), E(22), E(22), E(22), E(22)], [E(32), E(32), E(32), E(32), E(32), E(32), E(32), E(32)], [E(42), E(42), E(42), E(42), E(42), E(42), E(42), E(42)], [E(52), E(52), E(52), E(52), E(52), E(52), E(52), E(52)], [E(62), E(62), E(62), E(62), E(62), E(62), E(62), E(62)]];
    pub open spec fn sbox_of(s: Seq<E>) -> Seq<E> { Seq::new(8, |i: int| exp7_of(s[i])) }
    pub uninterp spec fn inv_sbox_of(s: Seq<E>) -> Seq<E>;
    pub uninterp spec fn mds_of(s: Seq<E>) -> Seq<E>;
    pub uninterp spec fn addc_of(s: Seq<E>, k: Seq<E>) -> Seq<E>;

    pub open spec fn round_of(s: Seq<E>, r: int) -> Seq<E> {
        addc_of(mds_of(inv_sbox_of(addc_of(mds_of(sbox_of(s)), ARK1[r]@))), ARK2[r]@)
    }
    pub open spec fn rounds_of(s: Seq<E>, n: int) -> Seq<E>
        decreases n
    {
        if n <= 0 { s } else { round_of(rounds_of(s, n - 1), n - 1) }
    }

    pub struct Hasher;
    impl Hasher {
        #[verifier::external_body]
        pub fn apply_mds(state: &mut [E; 8]) ensures final(state)@ == mds_of(old(state)@) { unimplemented!() }
        #[verifier::external_body]
        pub fn add_constants(state: &mut [E; 8], ark: &[E; 8]) ensures final(state)@ == addc_of(old(state)@, ark@) { unimplemented!() }
        #[verifier::external_body]
        pub fn apply_inv_sbox(state: &mut [E; 8]) ensures final(state)@ == inv_sbox_of(old(state)@) { unimplemented!() }
        //@@ source crypto/src/hash/rescue/rp64_256_jive/mod.rs
        //@@ extract anchor="fn apply_sbox(state: &mut [BaseElement; STATE_WIDTH])"
        pub fn apply_sbox(state: &mut [E; 8])
            ensures
                final(state)@.len() == 8,
                forall|i: int| 0 <= i < 8 ==> #[trigger] final(state)@[i] == exp7_of(old(state)@[i]),
        {
            /*@@body*/
        }

        //@@ source crypto/src/hash/rescue/rp64_256_jive/mod.rs
        //@@ extract anchor="fn apply_round(state: &mut [BaseElement; STATE_WIDTH], round: usize)"
        //
        //@@ after "Self::apply_sbox(state);"
        //@@|            proof { assert(state@ =~= sbox_of(old(state)@)); }
        pub fn apply_round(state: &mut [E; 8], round: usize)
            requires round < 7
            ensures final(state)@ == round_of(old(state)@, round as int)
        {
            /*@@body*/
        }

        //@@ extract anchor="fn apply_permutation(state: &mut [BaseElement; STATE_WIDTH])"
        //
        //@@ loop 1
        //@@|                invariant state@ == rounds_of(old(state)@, i as int), NUM_ROUNDS == 7,
        pub fn apply_permutation(state: &mut [E; 8])
            ensures final(state)@ == rounds_of(old(state)@, 7)
        {
            /*@@body*/
        }
    }
}

pub mod rp62 {
    use super::*;
    pub const STATE_WIDTH: usize = 12;
    pub const NUM_ROUNDS: usize = /*@@expr source="crypto/src/hash/rescue/rp62_248/mod.rs" anchor="const NUM_ROUNDS: usize ="*/;
    pub const ARK1: [[E; 12]; 7] = [[E(1), E(1), E(1), E(1), E(1), E(1), E(1), E(1), E(1), E(1), E(1), E(1)], [E(11), E(11), E(11), E(11), E(11), E(11), E(11), E(11), E(11), E(11), E(11), E(11)], [E(21), E(21), E(21), E(21), E(21), E(21), E(21), E(21), E(21), E(21), E(21), E(21)], [E(31), E(31), E(31), E(31), E(31), E(31), E(31), E(31), E(31), E(31), E(31), E(31)], [E(41), E(41), E(41), E(41), E(41), E(41), E(41), E(41), E(41), E(41), E(41), E(41)], [E(51), E(51), E(51), E(51), E(51), E(51), E(51), E(51), E(51), E(51), E(51), E(51)], [E(61), E(61), E(61), E(61), E(61), E(61), E(61), E(61), E(61), E(61), E(61), E(61)]];
    pub const ARK2: [[E; 12]; 7] = [[E(2), E(2), E(2), E(2), E(2), E(2), E(2), E(2), E(2), E(2), E(2), E(2)], [E(12), E(12), E(12), E(12), E(12), E(12), E(12), E(12), E(12), E(12), E(12), E(12)], [E(22), E(22), E(22), E(22), E(22), E(22), E(22), E(22), E(22), E(22), E(22), E(22)], [E(32), E(32), E(32), E(32), E(32), E(32), E(32), E(32), E(32), E(32), E(32), E(32)], [E(42), E(42), E(42), E(42), E(42), E(42), E(42), E(42), E(42), E(42), E(42), E(42)], [E(52), E(52), E(52), E(52), E(52), E(52), E(52), E(52), E(52), E(52), E(52), E(52)], [E(62), E(62), E(62), E(62), E(62), E(62), E(62), E(62), E(62), E(62), E(62), E(62)]];
    pub uninterp spec fn sbox_of(s: Seq<E>) -> Seq<E>;
    pub uninterp spec fn inv_sbox_of(s: Seq<E>) -> Seq<E>;
    pub uninterp spec fn mds_of(s: Seq<E>) -> Seq<E>;
    pub uninterp spec fn addc_of(s: Seq<E>, k: Seq<E>) -> Seq<E>;

    pub open spec fn round_of(s: Seq<E>, r: int) -> Seq<E> {
        addc_of(mds_of(inv_sbox_of(addc_of(mds_of(sbox_of(s)), ARK1[r]@))), ARK2[r]@)
    }
    pub open spec fn rounds_of(s: Seq<E>, n: int) -> Seq<E>
        decreases n
    {
        if n <= 0 { s } else { round_of(rounds_of(s, n - 1), n - 1) }
    }

    pub struct Hasher;
    impl Hasher {
        #[verifier::external_body]
        pub fn apply_mds(state: &mut [E; 12]) ensures final(state)@ == mds_of(old(state)@) { unimplemented!() }
        #[verifier::external_body]
        pub fn add_constants(state: &mut [E; 12], ark: &[E; 12]) ensures final(state)@ == addc_of(old(state)@, ark@) { unimplemented!() }
        #[verifier::external_body]
        pub fn apply_inv_sbox(state: &mut [E; 12]) ensures final(state)@ == inv_sbox_of(old(state)@) { unimplemented!() }
        #[verifier::external_body]
        pub fn apply_sbox(state: &mut [E; 12]) ensures final(state)@ == sbox_of(old(state)@) { unimplemented!() }

        //@@ source crypto/src/hash/rescue/rp62_248/mod.rs
        //@@ extract anchor="fn apply_round(state: &mut [BaseElement; STATE_WIDTH], round: usize)"
        //@@ rewrite "apply_sbox(" => "Self::apply_sbox("
        //@@ rewrite "apply_mds(" => "Self::apply_mds("
        //@@ rewrite "add_constants(" => "Self::add_constants("
        //@@ rewrite "apply_inv_sbox(" => "Self::apply_inv_sbox("
        //@@ rewrite "apply_round(" => "Self::apply_round("
        //
        pub fn apply_round(state: &mut [E; 12], round: usize)
            requires round < 7
            ensures final(state)@ == round_of(old(state)@, round as int)
        {
            /*@@body*/
        }

        //@@ extract anchor="fn apply_permutation(state: &mut [BaseElement; STATE_WIDTH])"
        //@@ rewrite "apply_sbox(" => "Self::apply_sbox("
        //@@ rewrite "apply_mds(" => "Self::apply_mds("
        //@@ rewrite "add_constants(" => "Self::add_constants("
        //@@ rewrite "apply_inv_sbox(" => "Self::apply_inv_sbox("
        //@@ rewrite "apply_round(" => "Self::apply_round("
        //@@ loop 1
        //@@|                invariant state@ == rounds_of(old(state)@, i as int), NUM_ROUNDS == 7,
        pub fn apply_permutation(state: &mut [E; 12])
            ensures final(state)@ == rounds_of(old(state)@, 7)
        {
            /*@@body*/
        }
    }
}

proof fn rescuev_canary_must_fail(s: Seq<E>)
    ensures rp64::rounds_of(s, 7) == rp64::rounds_of(s, 6)
{
}

} // verus!

fn main() {}
