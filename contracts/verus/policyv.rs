// Verus unit policyv: the acceptance policy (C18) - Proof::security_level (air/src/proof/mod.rs) and AcceptableOptions::validate
// (verifier/src/lib.rs), bodies cut out of /repo, against named (uninterpreted) security estimates.
// Decided:
//   security_level(conjectured)   is the conjectured resp. the proven estimate of (the proof's options, the bit length of the modulus
//                 the context claims, the trace length, the hash function's collision resistance) - in that argument order;
//   validate      MinConjecturedSecurity(m) / MinProvenSecurity(m): Ok exactly when the proof's level of that kind is >= m, and the
//                 error carries (m, level); OptionSet(s): Ok exactly when s contains the proof's options.
// Literal rewrite (listed): the closure `options.iter().any(|opt| opt == proof.options())` becomes a call of `contains_options`, a
// plain loop with exactly that meaning (proved below); `H::COLLISION_RESISTANCE` becomes a call returning an uninterpreted value.
use vstd::prelude::*;
verus! {
global size_of usize == 8;

#[derive(PartialEq, Eq, Structural, Copy, Clone)]
pub struct ProofOptions(pub u64);
pub uninterp spec fn conj_sec(o: ProofOptions, bits: u32, n: usize, cr: u32) -> u32;
pub uninterp spec fn prov_sec(o: ProofOptions, bits: u32, n: usize, cr: u32) -> u32;
pub uninterp spec fn cr_of_hasher() -> u32;

#[verifier::external_body]
pub fn get_conjectured_security(o: &ProofOptions, bits: u32, n: usize, cr: u32) -> (r: u32) ensures r == conj_sec(*o, bits, n, cr) { unimplemented!() }
#[verifier::external_body]
pub fn get_proven_security(o: &ProofOptions, bits: u32, n: usize, cr: u32) -> (r: u32) ensures r == prov_sec(*o, bits, n, cr) { unimplemented!() }
pub struct H;
impl H {
    #[verifier::external_body]
    pub fn collision_resistance() -> (r: u32) ensures r == cr_of_hasher() { unimplemented!() }
}
pub struct TraceInfo { pub length: usize }
impl TraceInfo { pub fn length(&self) -> (r: usize) ensures r == self.length { self.length } }
pub struct Context { pub options: ProofOptions, pub modulus_bits: u32, pub trace_info: TraceInfo }
impl Context {
    pub fn options(&self) -> (r: &ProofOptions) ensures *r == self.options { &self.options }
    pub fn num_modulus_bits(&self) -> (r: u32) ensures r == self.modulus_bits { self.modulus_bits }
}
pub struct Proof { pub context: Context }
pub open spec fn level_of(p: Proof, conjectured: bool) -> u32 {
    if conjectured { conj_sec(p.context.options, p.context.modulus_bits, p.context.trace_info.length, cr_of_hasher()) }
    else { prov_sec(p.context.options, p.context.modulus_bits, p.context.trace_info.length, cr_of_hasher()) }
}
impl Proof {
    pub fn trace_info(&self) -> (r: &TraceInfo) ensures *r == self.context.trace_info { &self.context.trace_info }
    pub fn options(&self) -> (r: &ProofOptions) ensures *r == self.context.options { &self.context.options }

    //@@ source air/src/proof/mod.rs
    //@@ extract anchor="pub fn security_level<H: Hasher>(&self, conjectured: bool) -> u32"
    //@@ rewrite "H::COLLISION_RESISTANCE" => "H::collision_resistance()"
    pub fn security_level(&self, conjectured: bool) -> (r: u32)
        ensures r == level_of(*self, conjectured)
    {
        /*@@body*/
    }
}

pub enum VerifierError { InsufficientConjecturedSecurity(u32, u32), InsufficientProvenSecurity(u32, u32), UnacceptableProofOptions }
pub enum AcceptableOptions { MinConjecturedSecurity(u32), MinProvenSecurity(u32), OptionSet(Vec<ProofOptions>) }

// `options.iter().any(|opt| opt == target)`
pub fn contains_options(options: &Vec<ProofOptions>, target: &ProofOptions) -> (r: bool)
    ensures r == options@.contains(*target)
{
    let mut i: usize = 0;
    while i < options.len()
        invariant i <= options.len(), forall|k: int| 0 <= k < i ==> options@[k] != *target,
        decreases options.len() - i
    {
        if options[i] == *target { return true; }
        i += 1;
    }
    false
}

impl AcceptableOptions {
    //@@ source verifier/src/lib.rs
    //@@ extract anchor="pub fn validate<H: Hasher>(&self, proof: &Proof) -> Result<(), VerifierError>"
    //@@ rewrite "proof.security_level::<H>(" => "proof.security_level("
    //@@ rewrite "options.iter().any(|opt| opt == proof.options())" => "contains_options(options, proof.options())"
    pub fn validate(&self, proof: &Proof) -> (r: Result<(), VerifierError>)
        ensures
            match *self {
                AcceptableOptions::MinConjecturedSecurity(m) => {
                    &&& r is Ok <==> level_of(*proof, true) >= m
                    &&& r is Err ==> r->Err_0 == VerifierError::InsufficientConjecturedSecurity(m, level_of(*proof, true))
                },
                AcceptableOptions::MinProvenSecurity(m) => {
                    &&& r is Ok <==> level_of(*proof, false) >= m
                    &&& r is Err ==> r->Err_0 == VerifierError::InsufficientProvenSecurity(m, level_of(*proof, false))
                },
                AcceptableOptions::OptionSet(s) => {
                    &&& r is Ok <==> s@.contains(proof.context.options)
                    &&& r is Err ==> r->Err_0 == VerifierError::UnacceptableProofOptions
                },
            },
    {
        /*@@body*/
    }
}

proof fn policyv_canary_must_fail(p: Proof)
    ensures level_of(p, true) == level_of(p, false)
{
}

} // verus!

fn main() {}
