// Verus unit fftv: the in-place bit-reversal permutation of math/src/fft/fft_inputs.rs (FftInputs::permute, the last step
// of every evaluate_poly* / interpolate_poly* call) for EVERY power-of-two length and every element type.
// Decided: after permute(), position t holds the value that was at position permute_index(n, t), for every t < n.
// The elements are abstract (nothing is assumed about them). `self` is a wrapper around a vector whose len / swap have the
// obvious specification (the real receiver is [E] or [[E; N]] behind the FftInputs trait: both swap whole positions).
// Assumed (cross-engine, listed): the contract of permute_index - result below n and an involution - which the Kani
// harness fft_permute_index_contract proves for every power-of-two size on the real function.
use vstd::prelude::*;
verus! {
global size_of usize == 8;

#[derive(Copy, Clone, PartialEq, Eq, Structural)]
pub struct E(pub u64);

pub uninterp spec fn pidx(n: int, i: int) -> int;
pub uninterp spec fn is_pow2(n: int) -> bool;

// contract proved by Kani on the real function (fft_permute_index_contract)
#[verifier::external_body]
pub fn permute_index(size: usize, index: usize) -> (r: usize)
    requires is_pow2(size as int), index < size
    ensures r < size, r == pidx(size as int, index as int), pidx(size as int, r as int) == index
{ unimplemented!() }

pub struct Inputs { pub v: Vec<E> }

impl Inputs {
    pub fn len(&self) -> (r: usize) ensures r == self.v.len() { self.v.len() }

    pub fn swap(&mut self, i: usize, j: usize)
        requires i < old(self).v.len(), j < old(self).v.len()
        ensures final(self).v@ == old(self).v@.update(i as int, old(self).v@[j as int]).update(j as int, old(self).v@[i as int])
    {
        let a = self.v[i];
        let b = self.v[j];
        self.v.set(i, b);
        self.v.set(j, a);
    }

    //@@ source math/src/fft/fft_inputs.rs
    //@@ extract anchor="fn permute(&mut self)"
    //@@ loop 1
    //@@|            invariant
    //@@|                n == old(self).v.len(), self.v.len() == n, is_pow2(n as int) || n == 0,
    //@@|                forall|t: int| 0 <= t < n ==> 0 <= #[trigger] pidx(n as int, t) < n && pidx(n as int, pidx(n as int, t)) == t,
    //@@|                forall|t: int| 0 <= t < n ==> #[trigger] self.v@[t] ==
    //@@|                    (if t < i || pidx(n as int, t) < i { old(self).v@[pidx(n as int, t)] } else { old(self).v@[t] }),
    pub fn permute(&mut self)
        requires
            is_pow2(old(self).v.len() as int) || old(self).v.len() == 0,
            // the contract of permute_index, for every index (proved by Kani on the real function)
            forall|t: int| 0 <= t < old(self).v.len() ==> 0 <= #[trigger] pidx(old(self).v.len() as int, t) < old(self).v.len()
                && pidx(old(self).v.len() as int, pidx(old(self).v.len() as int, t)) == t,
        ensures
            final(self).v.len() == old(self).v.len(),
            forall|t: int| 0 <= t < old(self).v.len() ==> #[trigger] final(self).v@[t] == old(self).v@[pidx(old(self).v.len() as int, t)],
    {
        /*@@body*/
    }
}

// math/src/fft/mod.rs `permute` - the free function get_twiddles / get_inv_twiddles call: dispatches to FftInputs::permute
// (the build without the `concurrent` feature: `cfg!(feature = "concurrent")` is false, stated as a literal rewrite)
pub const MIN_CONCURRENT_SIZE: usize = /*@@expr source="math/src/fft/mod.rs" anchor="const MIN_CONCURRENT_SIZE: usize ="*/;
//@@ source math/src/fft/mod.rs
//@@ extract anchor="fn permute<E: FieldElement>(v: &mut [E])"
//@@ rewrite "cfg!(feature = \"concurrent\")" => "false"
//@@ rewrite "v.len()" => "v.v.len()"
//@@ rewrite "FftInputs::permute(v);" => "v.permute();"
pub fn permute_free(v: &mut Inputs)
    requires
        is_pow2(old(v).v.len() as int) || old(v).v.len() == 0,
        forall|t: int| 0 <= t < old(v).v.len() ==> 0 <= #[trigger] pidx(old(v).v.len() as int, t) < old(v).v.len()
            && pidx(old(v).v.len() as int, pidx(old(v).v.len() as int, t)) == t,
    ensures
        final(v).v.len() == old(v).v.len(),
        forall|t: int| 0 <= t < old(v).v.len() ==> #[trigger] final(v).v@[t] == old(v).v@[pidx(old(v).v.len() as int, t)],
{
    /*@@body*/
}

proof fn fftv_canary_must_fail(n: int, t: int)
    requires is_pow2(n), 0 <= t < n
    ensures pidx(n, t) == t
{
}

} // verus!

fn main() {}
