from registry import H, kani_unit, verus_unit, native_unit, PROPS, UNITS

kani_unit("air_options", "winter-air", "air/src/options.rs", "kani/air_options.rs", "options", [
    H("air_options_read_total_contract", ["C06", "C12"], ["ProofOptions::read_from", "ProofOptions::write_into", "ProofOptions::to_fri_options"],
      "forall byte strings of length <= 7: read_from never panics; Ok iff the 6 bytes encode constructor-valid options; fields equal the bytes; re-encoding gives the same bytes; exactly 6 bytes consumed"),
    H("air_options_roundtrip_contract", ["C12"], ["ProofOptions::new", "ProofOptions::write_into", "ProofOptions::read_from"],
      "forall arguments accepted by ProofOptions::new: read_from(write_into(x)) == Ok(x), 6 bytes, all consumed"),
    H("air_field_extension_contract", ["C06", "C12"], ["FieldExtension::read_from", "FieldExtension::write_into", "FieldExtension::degree"],
      "forall bytes: Ok iff 1..=3; degree == code; re-encodes to the same byte"),
    H("air_options_canary_must_fail", ["C06", "C12"], [], "false claim: read_from always fails", canary=True),
])

kani_unit("air_trace_info", "winter-air", "air/src/air/trace_info.rs", "kani/air_trace_info.rs", "air::trace_info", [
    H("air_trace_info_read_total_contract", ["C06", "C12"], ["TraceInfo::read_from", "TraceInfo::write_into"],
      "forall headers (all 4 header bytes symbolic, metadata length 0..=2) and truncations: read_from never panics; Ok iff the bytes encode a constructor-valid value; decoded fields equal the bytes; re-encoding reproduces the consumed bytes"),
    H("air_trace_info_roundtrip_contract", ["C12"], ["TraceInfo::new_multi_segment", "TraceInfo::write_into", "TraceInfo::read_from"],
      "forall arguments accepted by new_multi_segment (widths as 16-bit symbolic values, metadata <= 1 byte, trace length exponent in {3,32,63}): read_from(write_into(x)) == Ok(x) and all bytes are consumed"),
    H("air_trace_info_writer_casts_contract", ["C12"], ["TraceInfo::write_into"],
      "the u8/u16 narrowing casts in write_into are lossless for every constructor-valid value (metadata length up to 65535)"),
    H("air_trace_info_canary_must_fail", ["C06", "C12"], [], "false claim: read_from always fails", canary=True),
])

kani_unit("air_context", "winter-air", "air/src/proof/context.rs", "kani/air_context.rs", "proof::context", [
    H("air_context_num_modulus_bits_contract", ["C18", "C06"], ["Context::num_modulus_bits"],
      "forall modulus byte strings of 1..=3 bytes: num_modulus_bits == bit length of the little-endian integer"),
    H("air_context_read_total_e3_m1", ["C06", "C12"], ["Context::read_from", "Context::write_into", "Context::lde_domain_size"],
      "forall context encodings with trace-length exponent byte 3 and a 1-byte modulus (all other header, modulus and option bytes symbolic; all truncations): read_from never panics; Ok(c) ==> trace length and LDE domain <= u32::MAX, lde_domain_size() does not overflow, re-encoding reproduces the bytes",
      bounded="trace-length exponent byte fixed to 3, modulus length 1, no trace metadata", timeout=600, tier="thorough"),
    H("air_context_read_total_e25", ["C06", "C12"], ["Context::read_from", "Context::write_into", "Context::lde_domain_size"],
      "forall context encodings with trace-length exponent byte 25 and a 8-byte modulus (all other header, modulus and option bytes symbolic; all truncations): read_from never panics; Ok(c) ==> trace length and LDE domain <= u32::MAX, lde_domain_size() does not overflow, re-encoding reproduces the bytes",
      bounded="trace-length exponent byte fixed to 25, modulus length 8, no trace metadata", timeout=600, tier="thorough"),
    H("air_context_read_total_e32", ["C06", "C12"], ["Context::read_from", "Context::write_into", "Context::lde_domain_size"],
      "forall context encodings with trace-length exponent byte 32 and a 8-byte modulus (all other header, modulus and option bytes symbolic; all truncations): read_from never panics; Ok(c) ==> trace length and LDE domain <= u32::MAX, lde_domain_size() does not overflow, re-encoding reproduces the bytes",
      bounded="trace-length exponent byte fixed to 32, modulus length 8, no trace metadata", timeout=600, tier="thorough"),
    H("air_context_read_total_e63", ["C06", "C12"], ["Context::read_from", "Context::write_into", "Context::lde_domain_size"],
      "forall context encodings with trace-length exponent byte 63 and a 8-byte modulus (all other header, modulus and option bytes symbolic; all truncations): read_from never panics; Ok(c) ==> trace length and LDE domain <= u32::MAX, lde_domain_size() does not overflow, re-encoding reproduces the bytes",
      bounded="trace-length exponent byte fixed to 63, modulus length 8, no trace metadata", timeout=600),
    H("air_context_read_total_e64", ["C06", "C12"], ["Context::read_from", "Context::write_into", "Context::lde_domain_size"],
      "forall context encodings with trace-length exponent byte 64 and a 8-byte modulus (all other header, modulus and option bytes symbolic; all truncations): read_from never panics; Ok(c) ==> trace length and LDE domain <= u32::MAX, lde_domain_size() does not overflow, re-encoding reproduces the bytes",
      bounded="trace-length exponent byte fixed to 64, modulus length 8, no trace metadata", timeout=600),
    H("air_context_roundtrip_contract", ["C12"], ["Context::new", "Context::write_into", "Context::read_from"],
      "forall contexts the constructor accepts over the 64-bit field (trace length exponent in {3, 25}): read_from(write_into(c)) == Ok(c), all bytes consumed",
      bounded="trace length exponent in {3, 25}; quadratic extension; all other parameters symbolic"),
    H("air_context_to_elements_binding_bounded", ["C04", "C03"], ["Context::to_elements", "TraceInfo::to_elements"],
      "two proof contexts that differ only in the trace metadata (1 symbolic byte versus 2 symbolic bytes) are absorbed into the coin seed as different element lists",
      bounded="metadata of 1 versus 2 symbolic bytes, one main column, trace length 8, fixed options; 128-bit field"),
    H("air_context_canary_must_fail", ["C06", "C12", "C18", "C04", "C03"], [], "false claim: Context::read_from always fails", canary=True),
])

kani_unit("air_proof", "winter-air", "air/src/proof/mod.rs", "kani/air_proof.rs", "proof", [
    H("air_conjectured_security_contract", ["C18", "C06"], ["proof::get_conjectured_security"],
      "forall options, claimed field sizes 0..=2040 bits, trace lengths 2^3.. with LDE <= 2^32, collision resistance: result == min(min(bits*deg - log2(n*blowup), q*log2(blowup) + [>=80]*grinding) - 1, cr) floored at 0; no overflow/underflow"),
    H("air_conjectured_security_monotone_contract", ["C18"], ["proof::get_conjectured_security"],
      "conjectured level is non-decreasing in queries, grinding, extension degree and collision resistance"),
    H("air_proven_security_total_contract", ["C06", "C18"], ["proof::proven_security_protocol_for_m"],
      "forall options, field sizes, trace lengths, proximity parameters and for arbitrary results of log2/sqrt/powf/ceil: no integer underflow/overflow or panic (float NaN checks are not panics and are ignored)",
      ignore_nan=True),
    H("air_proof_canary_must_fail", ["C18"], [], "false claim: level >= 100 for all options", canary=True),
])


kani_unit("air_parsers", "winter-air", "air/src/proof/mod.rs", "kani/air_parsers.rs", "proof", [
    H("air_ood_honest_shape_bounded", ["C06", "C03"], ["OodFrame::read_from", "OodFrame::write_into", "OodFrame::parse", "TraceOodFrame::main_frame", "TraceOodFrame::aux_frame"],
      "read_from + parse::<f64> never panic; the container re-encodes to the same bytes; parse == Ok only if every component has exactly the length its content implies (frame size 2, no trailing bytes) and the frame accessors are in bounds",
      bounded="component lengths fixed: 17/1/8 bytes, 1 main column, no aux; every content byte symbolic", timeout=600, tier="thorough"),
    H("air_ood_lagrange_without_aux_bounded", ["C06", "C03"], ["OodFrame::read_from", "OodFrame::write_into", "OodFrame::parse", "TraceOodFrame::main_frame", "TraceOodFrame::aux_frame"],
      "read_from + parse::<f64> never panic; the container re-encodes to the same bytes; parse == Ok only if every component has exactly the length its content implies (frame size 2, no trailing bytes) and the frame accessors are in bounds",
      bounded="component lengths fixed: a Lagrange frame of 1 element although the AIR has no auxiliary segment; every content byte symbolic", timeout=600, tier="thorough"),
    H("air_ood_lagrange_with_aux_bounded", ["C06", "C03"], ["OodFrame::read_from", "OodFrame::write_into", "OodFrame::parse", "TraceOodFrame::main_frame", "TraceOodFrame::aux_frame"],
      "read_from + parse::<f64> never panic; the container re-encodes to the same bytes; parse == Ok only if every component has exactly the length its content implies (frame size 2, no trailing bytes) and the frame accessors are in bounds",
      bounded="component lengths fixed: Lagrange frame of 1 element, aux width 1; every content byte symbolic", timeout=600, tier="thorough"),
    H("air_ood_short_rows_bounded", ["C06", "C03"], ["OodFrame::read_from", "OodFrame::write_into", "OodFrame::parse", "TraceOodFrame::main_frame", "TraceOodFrame::aux_frame"],
      "read_from + parse::<f64> never panic; the container re-encodes to the same bytes; parse == Ok only if every component has exactly the length its content implies (frame size 2, no trailing bytes) and the frame accessors are in bounds",
      bounded="component lengths fixed: trace-state vector of 9 bytes (rows shorter than the main width for any frame-size byte); every content byte symbolic", timeout=600, tier="thorough"),
    H("air_ood_lagrange_trailing_bounded", ["C06", "C03"], ["OodFrame::read_from", "OodFrame::write_into", "OodFrame::parse", "TraceOodFrame::main_frame", "TraceOodFrame::aux_frame"],
      "read_from + parse::<f64> never panic; the container re-encodes to the same bytes; parse == Ok only if every component has exactly the length its content implies (frame size 2, no trailing bytes) and the frame accessors are in bounds",
      bounded="component lengths fixed: Lagrange vector with one byte after the frame; every content byte symbolic", timeout=600, tier="thorough"),
    H("air_ood_eval_trailing_bounded", ["C06", "C03"], ["OodFrame::read_from", "OodFrame::write_into", "OodFrame::parse", "TraceOodFrame::main_frame", "TraceOodFrame::aux_frame"],
      "read_from + parse::<f64> never panic; the container re-encodes to the same bytes; parse == Ok only if every component has exactly the length its content implies (frame size 2, no trailing bytes) and the frame accessors are in bounds",
      bounded="component lengths fixed: evaluation vector with one trailing byte; every content byte symbolic", timeout=600, tier="thorough"),
    H("air_ood_empty_components_bounded", ["C06", "C03"], ["OodFrame::read_from", "OodFrame::write_into", "OodFrame::parse", "TraceOodFrame::main_frame", "TraceOodFrame::aux_frame"],
      "read_from + parse::<f64> never panic; the container re-encodes to the same bytes; parse == Ok only if every component has exactly the length its content implies (frame size 2, no trailing bytes) and the frame accessors are in bounds",
      bounded="component lengths fixed: all three vectors empty; every content byte symbolic", timeout=600, tier="thorough"),
    H("air_ood_two_columns_bounded", ["C06", "C03"], ["OodFrame::read_from", "OodFrame::write_into", "OodFrame::parse", "TraceOodFrame::main_frame", "TraceOodFrame::aux_frame"],
      "read_from + parse::<f64> never panic; the container re-encodes to the same bytes; parse == Ok only if every component has exactly the length its content implies (frame size 2, no trailing bytes) and the frame accessors are in bounds",
      bounded="component lengths fixed: 2 columns, 2 evaluations; every content byte symbolic", timeout=600, tier="thorough"),
    H("air_ood_wide_rows_bounded", ["C06", "C03"], ["OodFrame::read_from", "OodFrame::parse"],
      "a trace-state vector of 4 elements for a 1-column trace without auxiliary segment is refused when its frame-size byte is 4 or 1 (a frame size of 4 would yield rows twice as wide as the trace, which the verifier takes for an auxiliary frame and then panics on the missing auxiliary randomness)",
      bounded="a concrete input: component lengths and element bytes fixed (33 / 1 / 8 bytes; 1 main column); frame-size byte 4 or 1", timeout=600, tier="thorough"),
    H("air_table_from_bytes_shape_contract", ["C06", "C12"], ["Table::from_bytes", "RowIterator::next"],
      "forall rows, cols in 1..=255 (all shapes the options / trace-info constructors admit) on an 8-byte input: never panics"),
    H("air_table_rows_bounded", ["C06", "C12"], ["Table::from_bytes", "Table::get_row", "Table::rows"], "2x2 table: rows are in bounds, iterator yields exactly 2 rows", bounded="2 x 2 elements"),
    H("air_queries_container_bounded", ["C12", "C03"], ["Queries::read_from", "Queries::write_into"], "container round trip, exact consumption", bounded="8 value bytes + 3 path bytes"),
    H("air_commitments_parse_bounded", ["C06", "C03"], ["Commitments::read_from", "Commitments::parse"], "parse succeeds only if every byte is consumed (UnconsumedBytes otherwise)", bounded="95, 96 and 97 commitment bytes, 32-byte digests", timeout=900, tier="thorough"),
    H("air_parsers_canary_must_fail", ["C06", "C03", "C12"], [], "false claim: Table::from_bytes always fails", canary=True),
], modname="verif_kani_parsers")

native_unit("security_native", "winter-air", "air", "native/security_bounded.rs", ["C18"],
            ["proof::get_proven_security", "proof::proven_security_protocol_for_m", "proof::get_conjectured_security", "Proof::security_level", "Hasher::COLLISION_RESISTANCE of the six hashers", "ProofOptions::new"],
            "ProofOptions::new accepts exactly the documented parameter ranges and stores what it accepts unchanged; the collision-resistance constant of every hasher is the birthday bound of its digest (128 / 96 / 4 * modulus bits / 2); the proven estimate EQUALS the documented formula (eprint 2022/1216 Theorem 8 / eq. 7 as laid out in the source comments, written independently in the check with the same floating-point operations: the optimum over the proximity parameters 3 <= m < m_max, every term truncated before the minimum, capped by the collision resistance); neither the proven nor the conjectured estimate decreases when the number of queries, the grinding factor, the extension degree or the hash function's collision resistance grows (everything else fixed), and neither exceeds the collision resistance",
            "NATIVE EXECUTION, not a proof (floating-point code: CBMC has no faithful libm): f62 / f64 / f128 x extension degrees x trace lengths 2^3, 2^8, 2^12, 2^16, 2^20 x blowup 2, 4, 8, 16, 64 x folding 2, 4, 8, 16 x remainder degree 0, 7, 31 x queries 1..=255 x grinding 0..=32 x collision resistance 96 / 128; formula comparison: trace lengths 2^3 .. 2^7, 2^10, 2^16, 2^20 x blowup 2 .. 64 x 70 query counts x grinding 0, 10, 32 x both collision resistances",
            timeout=1800)


verus_unit("divisorv", "divisorv", ["C16", "C17"], [
    "TransitionConstraints::new (every number of main / auxiliary constraints: the first num_main composition coefficients go to the main constraints, the following num_aux to the auxiliary ones, the degrees are the context's, the divisor is from_transition(trace length, the context's exemption count); the assertion is the documented pre-condition)",
    "ConstraintDivisor::from_transition (every domain size n and exemption count k <= n: numerator x^n - 1, exemption points g^(n-k) .. g^(n-1) in order; the map / collect over the step range is an assumed std contract, get_trace_domain_value_at's own contract is proved)",
    "theorem_transition_zero_set (specification level: on the trace domain x^n - 1 vanishes at every step and the exemption factor of step j vanishes exactly at step j, so the transition divisor vanishes on exactly the steps 0 .. n - k - 1 - relative to 'g has order exactly n')",
    "ConstraintDivisor::from_assertion (every power-of-two trace length, every validated single / periodic / sequence assertion: the divisor is x^k - g^(k * first_step) with k the number of asserted steps and no exemptions; k * first_step stays inside the trace domain)",
    "divisor::get_trace_domain_value_at (g^step for the trace-domain generator; its debug assertion holds at every call)",
    "ConstraintDivisor::new",
    "BoundaryConstraintGroup::evaluate_at (every group: the in-order sum of (trace value of the constraint's column - asserted value) * composition coefficient over the group's constraints, divided by the group divisor at x)",
    "BoundaryConstraint::evaluate_at (trace value minus the asserted value: the constant of a one-coefficient value polynomial, otherwise the value polynomial evaluated at x * offset)",
    "ConstraintDivisor::evaluate_at (the in-order product of the numerator terms x^degree - constant divided by the exemption product)",
    "theorem_zero_set (specification level: on the trace domain the numerator of from_assertion vanishes at step i exactly when i is an asserted step - i == first_step, resp. i mod stride == first_step - for every trace length, relative to 'g has order exactly n' and the monoid laws, both hypotheses)"])


verus_unit("contextv", "contextv", ["C17"], [
    "AirContext::num_constraint_composition_columns (every trace length, every list of main / auxiliary constraint degrees with any cycles, every exemption count 1..=n: with d = highest evaluation degree - (n - exemptions) the degree of the quotient by the transition divisor, the result is the LEAST c >= 1 with c * n >= d + 1 - the committed columns hold every coefficient of the composition polynomial and none is surplus; no overflow / underflow)",
    "TransitionConstraintDegree::get_evaluation_degree (base * (n - 1) + the sum over the cycles of (n / cycle) * (cycle - 1), every degree and trace length; no overflow)",
    "AirContext::set_num_transition_exemptions (whenever it returns: the count is in 1..=n/2+1, the quotient of every constraint by the transition divisor has degree <= ce_domain_size - 1, the count is stored and nothing else changes; every degree list, trace length and constraint-evaluation blowup; a documented panic is modelled as not returning)",
    "theorem_columns_fit (specification level: for a context that set_num_transition_exemptions returned, the prescribed number of columns is at most the constraint-evaluation blowup - columns * n <= ce_domain_size)",
    "TransitionConstraintDegree::min_blowup_factor (at least base + cycles - 1 and at least 2; next_power_of_two is an assumed std contract) with l_eval_deg_fits (specification level: the evaluation degree is at most (base + cycles) * (n - 1), so the quotient by the default divisor fits a constraint evaluation domain of n * blowup points for every blowup >= base + cycles - 1)",
    "AirContext::new_multi_segment (whenever the constructor returns: ce_blowup_factor >= every main and auxiliary constraint's degree bound and >= 2, the LDE blowup >= ce_blowup_factor, at least one main degree and assertion, auxiliary degrees / assertions exactly for multi-segment traces, a Lagrange column only as the last auxiliary column, exemption count 1, all arguments stored unchanged; documented panics modelled as not returning)"])


verus_unit("coeffv", "coeffv", ["C04"], [
    "Air::get_constraint_composition_coefficients (every number of transition constraints and assertions, with and without a Lagrange kernel column: coefficient i of the documented order is the i-th value the coin yields from its state at the call - every coefficient a fresh draw, none reused - and the coin advances by exactly the number of coefficients; abstract coin)",
    "Air::get_deep_composition_coefficients (the same for trace columns, then composition columns, then the Lagrange coefficient)"])


verus_unit("oodv", "oodv", ["C03", "C06", "C12", "C04", "C05", "C15"], [
    "TraceOodFrame::to_trace_states / TraceOodFrame::hash (what the coin absorbs for the out-of-domain trace frame: the hash of the current / next evaluations interleaved per column followed by the Lagrange kernel frame values, every width)",
    "OodFrame::parse (every main / auxiliary width up to 255, every number of evaluations, every Lagrange frame size, EVERY content of the three byte vectors, abstract element decoder: Ok exactly when each section is canonical - Lagrange section = size byte k + exactly k element encodings, k > 0 only with an auxiliary segment; trace-state section = the byte 2 + exactly 2 * (main + aux') encodings; evaluation section = exactly num_evaluations encodings; nothing may follow in any section - and then the rows are the de-interleaved decoded elements, exactly main + aux' wide; no overflow / underflow / out-of-range index on any input)",
    "TraceOodFrame::new",
    "Commitments::new (trace roots, constraint root, FRI roots, in that order) and its round trip with Commitments::parse for every number of roots (relative to the digest round trip)",
    "Commitments::parse (every number of trace segments and FRI layers, every byte content: Ok exactly when the bytes are num_trace_segments + 1 + num_fri_layers + 1 digest encodings and nothing else; the three results are those digests in order)",
    "Table::from_bytes (every admissible row / column count, every byte content: the first rows * cols element encodings, row-major; Err exactly when they cannot be decoded; the four assertions never fire for counts in 1..=255)",
    "Queries::parse (every byte content of the value and path vectors, 1..=255 queries x 1..=255 values per query: Ok exactly when the value bytes are exactly queries * values * ELEMENT_BYTES long, decode to that many elements, the path bytes decode to a batch Merkle proof for the row hashes at depth log2(domain size), and nothing follows; the results are that proof and that table; no overflow; BatchMerkleProof::deserialize is a named contract proved in unit containerv, the row iterator and ilog2 / is_power_of_two are assumed std-style shims)",
    "FriProof::parse_remainder / num_remainder_elements (every byte content: Ok exactly when the implied number of elements - byte length / ELEMENT_BYTES - is a power of two, the bytes decode to that many elements and nothing follows; the result is those elements)",
    "FriProofLayer::parse (every byte content of the value and path vectors, every folding factor: Ok exactly when the value bytes are a positive whole number of queries - length a multiple of ELEMENT_BYTES * folding_factor -, decode to queries * folding_factor elements with nothing left over, and the path bytes decode, with nothing left over, to a batch Merkle proof for the per-query hashes at depth log2(domain size); the results are those elements and that proof; no overflow, no out-of-range index; the iter_mut loop is written with an index - listed rewrite)",
    "FriProof::parse_layers (every number of layers, every content, every power-of-two domain size and folding factor: Ok exactly when every layer's domain D / ff^i can still be folded and the layer is a canonical encoding for the folded domain D / ff^(i+1); the results are the layers' values and batch proofs in order; the enumerate index - used in error texts only - is dropped: listed rewrite)",
    "OodFrame::set_trace_states (every frame: the trace-state section is the byte 2 followed by the encodings of the current / next evaluations interleaved per column, the Lagrange section the number of Lagrange kernel values followed by their encodings, and the returned digest - what the prover channel reseeds the coin with - is hash_elements of exactly those values in that order, i.e. TraceOodFrame::hash; other sections untouched)",
    "OodFrame::set_constraint_evaluations (stores exactly the encodings of the evaluations; other sections untouched)",
    "Queries::new (every non-empty list of equally long rows: the value bytes are the encodings of the rows in order, the path bytes are serialize_nodes of the batch proof; the three assertions are the documented pre-conditions)",
    "ProverChannel::commit_trace / commit_constraints / send_ood_trace_states / send_ood_constraint_evaluations (every message is stored in the proof and absorbed by the coin once, as exactly the stored value: a root as itself, an out-of-domain frame as hash_elements of the stored values; nothing else changes; the coin is a ghost log, Commitments::add a named contract)",
    "FriProof::new (the remainder section holds the encodings of ALL remainder coefficients in order, the layers are stored unchanged, the partition count as its binary logarithm; the four assertions are the documented pre-conditions)"])


verus_unit("proofserdev", "proofserdev", ["C12", "C03"], [
    "<Proof as Serializable>::write_into (appends the component encodings in the documented order: context, number of unique queries, commitments, one Queries per trace segment, constraint queries, OOD frame, FRI proof, proof-of-work nonce, optional GKR proof)",
    "<Proof as Deserializable>::read_from (decodes them in the same order; reads exactly as many trace-query sets as the decoded context has trace segments; Err exactly when a component decoder fails)",
    "theorem_proof_roundtrip (specification level: for every proof whose number of trace-query sets equals its context's number of trace segments, decoding what write_into appended returns the same proof and leaves exactly the following bytes - relative to the component round trips, which are hypotheses here and obligations of the Kani / Verus units of C12 for the concrete component types)"])


verus_unit("containerv", "containerv", ["C12", "C03", "C15", "C06", "C10"], [
    "BatchMerkleProof::serialize_nodes (one byte for the number of node vectors, per vector one byte for its length and the digests in order; the two assertions are the documented pre-condition)",
    "BatchMerkleProof::deserialize (every number and size of node vectors, every byte content: Ok exactly when depth > 0, 1 <= leaves <= MAX_PATHS and every announced node vector can be decoded; the node vectors are the decoded digests in order; leaves and depth passed through)",
    "<Context as Serializable>::write_into / <Context as Deserializable>::read_from (trace info, the claimed modulus behind a one-byte prefix - an empty modulus is refused -, the options; the reader refuses contexts beyond Context::new's size limits without overflowing; round trip for every context within the limits; TraceInfo / ProofOptions abstract)",
    "<FriProof as Serializable>::write_into / <FriProof as Deserializable>::read_from (layer count, the layers in order, the remainder behind a 16-bit prefix, log2 of the number of partitions - refused when 2^k is not representable; every number of layers up to 255 and every content)",
    "<FriProofLayer as Serializable>::write_into / <FriProofLayer as Deserializable>::read_from (two byte vectors behind 32-bit prefixes, an empty value vector is refused; round trip for every layer with at least one value byte)",
    "<Queries as Serializable>::write_into / <Queries as Deserializable>::read_from (two byte vectors behind 32-bit length prefixes, every content and length below 2^32)",
    "<OodFrame as Serializable>::write_into / <OodFrame as Deserializable>::read_from (three byte vectors behind 16-bit length prefixes, every content and length below 2^16)",
    "<Commitments as Serializable>::write_into / <Commitments as Deserializable>::read_from (one byte vector behind a 16-bit prefix; the writer's assertion is the documented pre-condition)",
    "round-trip theorems for the three containers (relative to the round trip of the fixed-width prefixes, a hypothesis here and a complete Kani contract of C12 for the real readers)"])


native_unit("context_native", "winter-air", "air", "native/context_bounded.rs", ["C04", "C03"],
            ["<Context as ToElements>::to_elements", "<TraceInfo as ToElements>::to_elements", "<ProofOptions as ToElements>::to_elements"],
            "the seed elements are injective in the proof context: no two different trace-metadata strings, and no two contexts that differ in width, trace length or any option, are absorbed as the same element list",
            "NATIVE EXECUTION, not a proof: every metadata string of length 0..=16 over the alphabets {0, b}, b in 1..=16, for the 64-bit field (2.1 million strings, compared through a hash map), length 0..=12 for the 128-bit field; 3 widths x 3 trace lengths x 7 option sets x 3 metadata values",
            timeout=900)
