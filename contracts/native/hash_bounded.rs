// Bounded stand-in (native execution of the real code, NOT a proof) for the byte-oriented hash functions of C11
// (Blake3_256, Blake3_192, Sha3_256): the compression functions are external crates (blake3, sha3) whose circuits are far
// beyond SAT, and the wrappers are generic over the field with `unsafe` slice reinterpretation - outside both verifiers.
// The wrappers are compared with their documented definition computed directly with the blake3 / sha3 crates:
//   hash(bytes)               == H(bytes)                                  (truncated to 24 bytes for Blake3_192)
//   merge([a, b])             == H(a || b)
//   merge_with_int(seed, v)   == H(seed || le64(v))                         (hence injective in v up to collisions of H)
//   hash_elements(elements)   == H(concatenation of the canonical little-endian encodings of the residues), whatever the
//                                internal representation (Montgomery form of f64, lazy [0, 2M) representatives of f62), and
//                                whether the residues are presented as base elements or grouped into extension elements
// Bound: byte strings of every length 0..=200 (seeded content); element lists of 0..=20 elements over f128 / f64 / f62 and their
// quadratic / cubic extensions; integers at the 64-bit boundaries and around the moduli; 40 seeded digest pairs.
use math::{
    fields::{f128, f62, f64, CubeExtension, QuadExtension},
    FieldElement, StarkField,
};
use sha3::Digest as _;
use winter_crypto::{
    hashers::{Blake3_192, Blake3_256, Sha3_256},
    Digest, ElementHasher,
};

fn seed() -> u64 {
    std::env::var("VERIF_SEED").ok().and_then(|s| s.parse().ok()).unwrap_or(0)
}

struct Rng(u64);
impl Rng {
    fn next(&mut self) -> u64 {
        self.0 ^= self.0 << 13;
        self.0 ^= self.0 >> 7;
        self.0 ^= self.0 << 17;
        self.0
    }
}

fn fail(msg: String) -> ! {
    println!("NB-VIOLATION {msg}");
    panic!("NB-VIOLATION {msg}");
}

fn blake(bytes: &[u8]) -> Vec<u8> {
    blake3::hash(bytes).as_bytes().to_vec()
}
fn blake192(bytes: &[u8]) -> Vec<u8> {
    blake3::hash(bytes).as_bytes()[..24].to_vec()
}
fn sha(bytes: &[u8]) -> Vec<u8> {
    sha3::Sha3_256::digest(bytes).to_vec()
}

/// canonical little-endian encoding of the residue of a base element, and a freshly built element for a residue
trait Canon: StarkField {
    fn residue(self) -> u128;
    fn fresh(v: u128) -> Self;
}
impl Canon for f128::BaseElement {
    fn residue(self) -> u128 { self.as_int() }
    fn fresh(v: u128) -> Self { Self::new(v) }
}
impl Canon for f64::BaseElement {
    fn residue(self) -> u128 { self.as_int() as u128 }
    fn fresh(v: u128) -> Self { Self::new(v as u64) }
}
impl Canon for f62::BaseElement {
    fn residue(self) -> u128 { self.as_int() as u128 }
    fn fresh(v: u128) -> Self { Self::new(v as u64) }
}
fn canon<B: Canon>(e: B) -> Vec<u8> {
    e.residue().to_le_bytes()[..B::ELEMENT_BYTES].to_vec()
}

/// base elements with unusual internal representations: results of additions, negations, subtractions and products
/// (for f62 these leave representatives in [M, 2M); for f64 they are Montgomery words)
fn odd_elements<B: Canon>(n: usize, rng: &mut Rng) -> Vec<B> {
    (0..n)
        .map(|i| {
            let a = B::from((rng.next() >> 33) as u32);
            let b = B::from((rng.next() >> 33) as u32);
            match i % 6 {
                0 => a + (-a),          // zero, possibly as the second representative
                1 => -(a * b),          // negation of a product
                2 => (B::ZERO - B::ONE) + a, // p - 1 + a
                3 => a - b,
                4 => (B::ZERO - B::ONE) * (B::ZERO - B::ONE), // one, computed
                _ => a * b + b,
            }
        })
        .collect()
}

fn check_hasher<B, H>(name: &str, reference: fn(&[u8]) -> Vec<u8>, rng: &mut Rng, cases: &mut u64)
where
    B: Canon + math::ExtensibleField<2> + math::ExtensibleField<3>,
    H: ElementHasher<BaseField = B>,
{
    // hash(bytes), every length 0..=200
    for len in 0..=200usize {
        let bytes: Vec<u8> = (0..len).map(|_| rng.next() as u8).collect();
        *cases += 1;
        if H::hash(&bytes).as_bytes()[..].to_vec() != pad32(reference(&bytes)) {
            fail(format!("{name}::hash differs from the reference on a {len}-byte input"));
        }
    }
    // merge and merge_with_int
    let ints = [0u64, 1, 255, 256, u32::MAX as u64, 1 << 32, (1 << 62) - 1, 1 << 62, 1 << 63, u64::MAX - 1, u64::MAX,
                0xFFFF_FFFF_0000_0001, 0xFFFF_FFFF_0000_0002, 4611624995532046337, 4611624995532046338, 2 * 4611624995532046337];
    for k in 0..40u64 {
        let a = H::hash(&k.to_le_bytes());
        let b = H::hash(&(k ^ rng.next()).to_le_bytes());
        let n = reference(b"").len();
        let (ab, bb) = (a.as_bytes()[..n].to_vec(), b.as_bytes()[..n].to_vec());
        *cases += 1;
        if H::merge(&[a, b]).as_bytes()[..].to_vec() != pad32(reference(&[ab.clone(), bb.clone()].concat())) {
            fail(format!("{name}::merge([a, b]) differs from hash(a || b)"));
        }
        for &v in ints.iter().chain([rng.next()].iter()) {
            *cases += 1;
            if H::merge_with_int(a, v).as_bytes()[..].to_vec() != pad32(reference(&[ab.clone(), v.to_le_bytes().to_vec()].concat())) {
                fail(format!("{name}::merge_with_int(seed, {v}) differs from hash(seed || le64(value))"));
            }
        }
    }
    // hash_elements: base elements, then the same residues grouped into quadratic / cubic extension elements
    // (short lists exhaustively, then lengths around every buffer size a hasher might batch by: 64 / 128 / 256 / 1024 bytes and elements)
    let long = [30usize, 42, 43, 48, 63, 64, 65, 66, 84, 126, 127, 128, 129, 130, 132, 192, 255, 256, 257, 258, 384, 1023, 1024, 1025, 1026, 2049];
    for n in (0..=24usize).chain(long.iter().copied()) {
        let base: Vec<B> = odd_elements::<B>(n, rng);
        let want = pad32(reference(&base.iter().flat_map(|&e| canon(e)).collect::<Vec<u8>>()));
        *cases += 1;
        if H::hash_elements(&base).as_bytes()[..].to_vec() != want {
            fail(format!("{name}::hash_elements of {n} base elements differs from the hash of their canonical encodings"));
        }
        // the same residues through freshly constructed (normalised) elements
        let fresh: Vec<B> = base.iter().map(|&e| B::fresh(e.residue())).collect();
        if H::hash_elements(&fresh) != H::hash_elements(&base) {
            fail(format!("{name}::hash_elements depends on the internal representation ({n} elements)"));
        }
        if n % 2 == 0 {
            let quad: Vec<QuadExtension<B>> = base.chunks(2).map(|c| QuadExtension::new(c[0], c[1])).collect();
            *cases += 1;
            if H::hash_elements(&quad).as_bytes()[..].to_vec() != want {
                fail(format!("{name}::hash_elements of {} quadratic elements differs from hashing their {n} coordinates", n / 2));
            }
        }
        if n % 3 == 0 {
            let cube: Vec<CubeExtension<B>> = base.chunks(3).map(|c| CubeExtension::new(c[0], c[1], c[2])).collect();
            *cases += 1;
            if H::hash_elements(&cube).as_bytes()[..].to_vec() != want {
                fail(format!("{name}::hash_elements of {} cubic elements differs from hashing their {n} coordinates", n / 3));
            }
        }
    }
}

/// digests expose 32 bytes (Blake3_192 pads its 24 bytes with zeros)
fn pad32(mut v: Vec<u8>) -> Vec<u8> {
    v.resize(32, 0);
    v
}

#[test]
fn byte_hashers_bounded() {
    let mut rng = Rng(0xD6E8FEB86659FD93 ^ seed().wrapping_mul(0x9E3779B97F4A7C15) | 1);
    let mut cases = 0u64;
    check_hasher::<f128::BaseElement, Blake3_256<f128::BaseElement>>("Blake3_256<f128>", blake, &mut rng, &mut cases);
    check_hasher::<f64::BaseElement, Blake3_256<f64::BaseElement>>("Blake3_256<f64>", blake, &mut rng, &mut cases);
    check_hasher::<f62::BaseElement, Blake3_256<f62::BaseElement>>("Blake3_256<f62>", blake, &mut rng, &mut cases);
    check_hasher::<f128::BaseElement, Blake3_192<f128::BaseElement>>("Blake3_192<f128>", blake192, &mut rng, &mut cases);
    check_hasher::<f64::BaseElement, Blake3_192<f64::BaseElement>>("Blake3_192<f64>", blake192, &mut rng, &mut cases);
    check_hasher::<f62::BaseElement, Blake3_192<f62::BaseElement>>("Blake3_192<f62>", blake192, &mut rng, &mut cases);
    check_hasher::<f128::BaseElement, Sha3_256<f128::BaseElement>>("Sha3_256<f128>", sha, &mut rng, &mut cases);
    check_hasher::<f64::BaseElement, Sha3_256<f64::BaseElement>>("Sha3_256<f64>", sha, &mut rng, &mut cases);
    check_hasher::<f62::BaseElement, Sha3_256<f62::BaseElement>>("Sha3_256<f62>", sha, &mut rng, &mut cases);
    println!("NB-RESULT name=byte_hashers_bounded cases={cases}");
}
