// Bounded stand-in (native execution of the real code, NOT a proof) for one clause of C04: the challenges of the constraint
// composition and of the DEEP composition are successive FRESH draws from the public coin - coefficient number i of the
// documented order (transition constraints, boundary constraints, Lagrange transition coefficients, Lagrange boundary
// coefficient; resp. trace columns, composition columns, Lagrange coefficient) is the i-th element a second coin with the same
// state yields, and afterwards both coins are in the same state. (The Verus unit coeffv proves this from the bodies; a change
// that replaces one of the loops loses the loop anchor there and is left undecided - this stand-in decides it by execution.)
// Bound: trace lengths 8 .. 1024; 1 .. 3 main and 0 .. 2 auxiliary transition constraints of degrees 1 .. 9 (1 .. 8 composition
// columns); 1 .. 4 main and 0 .. 3 auxiliary assertions; with and without a Lagrange kernel column; the 64-bit field with no /
// quadratic / cubic extension; Blake3_256 and Rp64_256.
use air::LagrangeKernelRandElements;
use winterfell::{
    crypto::{
        hashers::{Blake3_256, Rp64_256},
        DefaultRandomCoin, ElementHasher, RandomCoin,
    },
    math::{
        fields::{f64::BaseElement, CubeExtension, QuadExtension},
        ExtensionOf, FieldElement, ToElements,
    },
    Air, AirContext, Assertion, EvaluationFrame, FieldExtension, GkrVerifier, ProofOptions, TraceInfo,
    TransitionConstraintDegree,
};

fn fail(msg: String) -> ! {
    println!("NB-VIOLATION {msg}");
    panic!("NB-VIOLATION {msg}");
}

struct NoInputs;
impl ToElements<BaseElement> for NoInputs {
    fn to_elements(&self) -> Vec<BaseElement> {
        vec![]
    }
}

struct NoGkr;
impl GkrVerifier for NoGkr {
    type GkrProof = ();
    type Error = core::fmt::Error;

    fn verify<E, Hasher>(
        &self,
        _gkr_proof: (),
        _public_coin: &mut impl RandomCoin<BaseField = E::BaseField, Hasher = Hasher>,
    ) -> Result<LagrangeKernelRandElements<E>, Self::Error>
    where
        E: FieldElement,
        Hasher: ElementHasher<BaseField = E::BaseField>,
    {
        Ok(LagrangeKernelRandElements::new(vec![]))
    }
}

/// an AIR that is only asked for its coefficients: the context is built by the caller
struct CoeffAir {
    context: AirContext<BaseElement>,
}

impl Air for CoeffAir {
    type BaseField = BaseElement;
    type GkrProof = ();
    type GkrVerifier = NoGkr;
    type PublicInputs = NoInputs;

    fn new(trace_info: TraceInfo, _pub_inputs: NoInputs, options: ProofOptions) -> Self {
        Self { context: AirContext::new(trace_info, vec![TransitionConstraintDegree::new(1)], 1, options) }
    }

    fn context(&self) -> &AirContext<Self::BaseField> {
        &self.context
    }

    fn evaluate_transition<E: FieldElement<BaseField = Self::BaseField>>(&self, _frame: &EvaluationFrame<E>, _periodic_values: &[E], _result: &mut [E]) {}

    fn get_assertions(&self) -> Vec<Assertion<Self::BaseField>> {
        vec![]
    }

    fn evaluate_aux_transition<F, E>(&self, _main_frame: &EvaluationFrame<F>, _aux_frame: &EvaluationFrame<E>, _periodic_values: &[F], _aux_rand_elements: &[E], _result: &mut [E])
    where
        F: FieldElement<BaseField = Self::BaseField>,
        E: FieldElement<BaseField = Self::BaseField> + ExtensionOf<F>,
    {
    }

    fn get_aux_assertions<E: FieldElement<BaseField = Self::BaseField>>(&self, _aux_rand_elements: &[E]) -> Vec<Assertion<E>> {
        vec![]
    }

    fn get_auxiliary_proof_verifier<E: FieldElement<BaseField = Self::BaseField>>(&self) -> Self::GkrVerifier {
        NoGkr
    }
}

fn check<E, H>(tag: &str, air: &CoeffAir, what: &str, cases: &mut u64)
where
    E: FieldElement<BaseField = BaseElement>,
    H: ElementHasher<BaseField = BaseElement> + Sync,
{
    *cases += 1;
    let seed = [BaseElement::new(7), BaseElement::new(*cases), BaseElement::new(11)];
    let ctx = air.context();
    let lagrange = ctx.has_lagrange_kernel_aux_column();
    let log_n = ctx.trace_len().ilog2() as usize;

    // constraint composition coefficients
    let mut coin = DefaultRandomCoin::<H>::new(&seed);
    let mut twin = DefaultRandomCoin::<H>::new(&seed);
    let got = air.get_constraint_composition_coefficients::<E, _>(&mut coin).expect("coefficients");
    let mut flat: Vec<E> = got.transition.clone();
    flat.extend_from_slice(&got.boundary);
    let mut want_len = ctx.num_transition_constraints() + ctx.num_assertions();
    if lagrange != got.lagrange.is_some() {
        fail(format!("{tag}: Lagrange composition coefficients present = {} for {what}", got.lagrange.is_some()));
    }
    if let Some(l) = &got.lagrange {
        flat.extend_from_slice(&l.transition);
        flat.push(l.boundary);
        want_len += log_n + 1;
    }
    if got.transition.len() != ctx.num_transition_constraints() || got.boundary.len() != ctx.num_assertions() || flat.len() != want_len {
        fail(format!("{tag}: {} transition / {} boundary composition coefficients for {what}", got.transition.len(), got.boundary.len()));
    }
    for (i, c) in flat.iter().enumerate() {
        let d: E = twin.draw().expect("draw");
        if *c != d {
            fail(format!("{tag}: constraint composition coefficient {i} (of {want_len}) is not draw number {i} of the coin: {what}"));
        }
    }
    if coin.draw::<E>().expect("draw") != twin.draw::<E>().expect("draw") {
        fail(format!("{tag}: after the constraint composition coefficients the coin is not where {want_len} draws leave it: {what}"));
    }

    // DEEP composition coefficients
    let mut coin = DefaultRandomCoin::<H>::new(&seed);
    let mut twin = DefaultRandomCoin::<H>::new(&seed);
    let got = air.get_deep_composition_coefficients::<E, _>(&mut coin).expect("coefficients");
    let mut flat: Vec<E> = got.trace.clone();
    flat.extend_from_slice(&got.constraints);
    let mut want_len = air.trace_info().width() + ctx.num_constraint_composition_columns();
    if lagrange != got.lagrange.is_some() {
        fail(format!("{tag}: Lagrange DEEP coefficient present = {} for {what}", got.lagrange.is_some()));
    }
    if let Some(l) = got.lagrange {
        flat.push(l);
        want_len += 1;
    }
    if got.trace.len() != air.trace_info().width() || got.constraints.len() != ctx.num_constraint_composition_columns() || flat.len() != want_len {
        fail(format!("{tag}: {} trace / {} composition-column DEEP coefficients for {what}", got.trace.len(), got.constraints.len()));
    }
    for (i, c) in flat.iter().enumerate() {
        let d: E = twin.draw().expect("draw");
        if *c != d {
            fail(format!("{tag}: DEEP coefficient {i} (of {want_len}) is not draw number {i} of the coin: {what}"));
        }
    }
    if coin.draw::<E>().expect("draw") != twin.draw::<E>().expect("draw") {
        fail(format!("{tag}: after the DEEP coefficients the coin is not where {want_len} draws leave it: {what}"));
    }
}

#[test]
fn coefficient_draws_bounded() {
    let mut cases = 0u64;
    let deg = |d: usize| TransitionConstraintDegree::new(d);
    for n in [8usize, 16, 64, 1024] {
        for main_degs in [vec![1usize], vec![2, 1], vec![3], vec![5, 2, 1], vec![9]] {
            for main_assertions in [1usize, 2, 4] {
                for ext in [FieldExtension::None, FieldExtension::Quadratic, FieldExtension::Cubic] {
                    let options = ProofOptions::new(8, 16, 0, ext, 4, 7);
                    // single segment
                    let ctx = AirContext::new(TraceInfo::new(main_degs.len() + 1, n), main_degs.iter().map(|&d| deg(d)).collect(), main_assertions, options.clone());
                    let air = CoeffAir { context: ctx };
                    let what = format!("single-segment trace_len={n} degrees={main_degs:?} assertions={main_assertions} extension={ext:?}");
                    run_ext(&air, ext, &what, &mut cases);
                    // multi-segment, without and with a Lagrange kernel column
                    for (aux_degs, aux_assertions, aux_width, lag) in [(vec![1usize], 1usize, 1usize, false), (vec![3, 1], 3, 3, false), (vec![2], 2, 2, true), (vec![7, 1], 1, 3, true)] {
                        let ctx = AirContext::new_multi_segment(
                            TraceInfo::new_multi_segment(main_degs.len() + 1, aux_width, 2, n, vec![]),
                            main_degs.iter().map(|&d| deg(d)).collect(),
                            aux_degs.iter().map(|&d| deg(d)).collect(),
                            main_assertions,
                            aux_assertions,
                            if lag { Some(aux_width - 1) } else { None },
                            options.clone(),
                        );
                        let air = CoeffAir { context: ctx };
                        let what = format!(
                            "multi-segment trace_len={n} main degrees={main_degs:?} aux degrees={aux_degs:?} assertions={main_assertions}+{aux_assertions} aux_width={aux_width} lagrange={lag} extension={ext:?}"
                        );
                        run_ext(&air, ext, &what, &mut cases);
                    }
                }
            }
        }
    }
    println!("NB-RESULT name=coefficient_draws_bounded cases={cases}");
}

fn run_ext(air: &CoeffAir, ext: FieldExtension, what: &str, cases: &mut u64) {
    match ext {
        FieldExtension::None => {
            check::<BaseElement, Blake3_256<BaseElement>>("blake3_256", air, what, cases);
            check::<BaseElement, Rp64_256>("rp64_256", air, what, cases);
        },
        FieldExtension::Quadratic => {
            check::<QuadExtension<BaseElement>, Blake3_256<BaseElement>>("blake3_256", air, what, cases);
            check::<QuadExtension<BaseElement>, Rp64_256>("rp64_256", air, what, cases);
        },
        FieldExtension::Cubic => {
            check::<CubeExtension<BaseElement>, Blake3_256<BaseElement>>("blake3_256", air, what, cases);
            check::<CubeExtension<BaseElement>, Rp64_256>("rp64_256", air, what, cases);
        },
    }
}
