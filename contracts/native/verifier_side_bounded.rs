// Bounded stand-in (native execution of the real code, NOT a proof) for the verifier's side of C17 (and the enforcement
// side of C16): the verifier's evaluation of the constraint composition from an opened out-of-domain frame agrees with the
// composition polynomial the prover committed to - observed through the real prover and the real verifier on an AIR that
// uses the features the example computations never combine:
//   * periodic columns of DIFFERENT cycle lengths in one AIR (2, 8, 4 and the full trace length),
//   * single, periodic and sequence assertions, with non-zero first steps,
//   * a periodic and a sequence assertion that share stride and first step (one boundary-constraint group), the periodic
//     one on the lower column index,
//   * sequences below and above the evaluator's small-polynomial threshold.
// Checked: every honest proof is accepted, also after a serialization round trip; a proof is refused when any single
// asserted value of the public inputs is changed (every boundary constraint is enforced by the verifier).
// Bound: trace lengths 16, 64, 128; LDE blowup 8 and 16; f128 and f64 with no / quadratic / cubic (f64) extension.
use std::panic::{catch_unwind, AssertUnwindSafe};

use winterfell::{
    crypto::{hashers::Blake3_256, DefaultRandomCoin},
    math::{
        fields::{f128, f64},
        ExtensibleField, FieldElement, StarkField, ToElements,
    },
    matrix::ColMatrix,
    verify, AcceptableOptions, Air, AirContext, Assertion, AuxRandElements, ConstraintCompositionCoefficients,
    DefaultConstraintEvaluator, DefaultTraceLde, EvaluationFrame, FieldExtension, Proof, ProofOptions, Prover, Serializable, StarkDomain,
    TraceInfo, TracePolyTable, TraceTable, TransitionConstraintDegree,
};

trait Base: StarkField + ExtensibleField<2> + ExtensibleField<3> + 'static {}
impl<T: StarkField + ExtensibleField<2> + ExtensibleField<3> + 'static> Base for T {}

fn seed() -> u64 {
    std::env::var("VERIF_SEED").ok().and_then(|s| s.parse().ok()).unwrap_or(0)
}

struct Rng(u64);
impl Rng {
    fn next(&mut self) -> u64 {
        self.0 ^= self.0 << 13;
        self.0 ^= self.0 >> 7;
        self.0 ^= self.0 << 17;
        self.0
    }
}

fn fail(msg: String) -> ! {
    println!("NB-VIOLATION {msg}");
    panic!("NB-VIOLATION {msg}");
}

// THE COMPUTATION
// =================================================================================================
// periodic columns: k0 (cycle 2), k1 (cycle 8), k2 (cycle 4, values multiplying to one), k3 (cycle = trace length)
fn k0<B: Base>() -> Vec<B> {
    vec![B::from(1u32), B::from(3u32)]
}
fn k1<B: Base>() -> Vec<B> {
    (0..8u32).map(|i| B::from(5 + 7 * i)).collect()
}
fn k2<B: Base>() -> Vec<B> {
    vec![B::from(2u32), B::from(3u32), B::from(2u32).inv(), B::from(3u32).inv()]
}
fn k3<B: Base>(n: usize) -> Vec<B> {
    (0..n as u32).map(|i| B::from(2 + i)).collect()
}

/// c0' = c0 * k0;  c1' = c1 * c0 * k1;  c2' = c2 * k2 (c2 has period 4);  c3' = c3 + k3
fn build_trace<B: Base>(n: usize, start: [B; 4]) -> Vec<Vec<B>> {
    let mut cols = vec![Vec::with_capacity(n), Vec::with_capacity(n), Vec::with_capacity(n), Vec::with_capacity(n)];
    let mut row = start;
    let kk3 = k3::<B>(n);
    for step in 0..n {
        for c in 0..4 {
            cols[c].push(row[c]);
        }
        row = [row[0] * k0::<B>()[step % 2], row[1] * row[0] * k1::<B>()[step % 8], row[2] * k2::<B>()[step % 4], row[3] + kk3[step]];
    }
    cols
}

#[derive(Clone)]
struct Spec<B: Base> {
    col: usize,
    first: usize,
    stride: usize, // 0: single
    values: Vec<B>,
    periodic: bool,
}

fn assertions_for<B: Base>(n: usize, cols: &[Vec<B>]) -> Vec<Spec<B>> {
    vec![
        Spec { col: 0, first: 0, stride: 0, values: vec![cols[0][0]], periodic: false },
        Spec { col: 1, first: n - 1, stride: 0, values: vec![cols[1][n - 1]], periodic: false },
        // c2 has period 4: asserted at steps 1, 5, 9, ...
        Spec { col: 2, first: 1, stride: 4, values: vec![cols[2][1]], periodic: true },
        // a sequence with the same stride and first step on a HIGHER column: same boundary-constraint group
        Spec { col: 3, first: 1, stride: 4, values: (0..n / 4).map(|k| cols[3][1 + 4 * k]).collect(), periodic: false },
        // a second periodic assertion, other first step
        Spec { col: 2, first: 2, stride: 4, values: vec![cols[2][2]], periodic: true },
        // a short sequence (4 values) with a non-zero first step
        Spec { col: 1, first: 2, stride: n / 4, values: (0..4).map(|k| cols[1][2 + k * n / 4]).collect(), periodic: false },
        // a long sequence (n / 2 values) with a non-zero first step
        Spec { col: 0, first: 1, stride: 2, values: (0..n / 2).map(|k| cols[0][1 + 2 * k]).collect(), periodic: false },
    ]
}

#[derive(Clone)]
struct Pub<B: Base>(Vec<Spec<B>>);
impl<B: Base> ToElements<B> for Pub<B> {
    fn to_elements(&self) -> Vec<B> {
        self.0.iter().flat_map(|s| s.values.clone()).collect()
    }
}

struct TestAir<B: Base> {
    context: AirContext<B>,
    specs: Vec<Spec<B>>,
}

impl<B: Base> Air for TestAir<B> {
    type BaseField = B;
    type PublicInputs = Pub<B>;
    type GkrProof = ();
    type GkrVerifier = ();

    fn new(trace_info: TraceInfo, pub_inputs: Pub<B>, options: ProofOptions) -> Self {
        let n = trace_info.length();
        let degrees = vec![
            TransitionConstraintDegree::with_cycles(1, vec![2]),
            TransitionConstraintDegree::with_cycles(2, vec![8]),
            TransitionConstraintDegree::with_cycles(1, vec![4]),
            TransitionConstraintDegree::with_cycles(1, vec![n]),
        ];
        Self { context: AirContext::new(trace_info, degrees, pub_inputs.0.len(), options), specs: pub_inputs.0 }
    }

    fn context(&self) -> &AirContext<B> {
        &self.context
    }

    fn get_periodic_column_values(&self) -> Vec<Vec<B>> {
        vec![k0::<B>(), k1::<B>(), k2::<B>(), k3::<B>(self.context.trace_info().length())]
    }

    fn evaluate_transition<E: FieldElement<BaseField = B>>(&self, frame: &EvaluationFrame<E>, periodic_values: &[E], result: &mut [E]) {
        let (cur, next) = (frame.current(), frame.next());
        result[0] = next[0] - cur[0] * periodic_values[0];
        result[1] = next[1] - cur[1] * cur[0] * periodic_values[1];
        result[2] = next[2] - cur[2] * periodic_values[2];
        result[3] = next[3] - cur[3] - periodic_values[3];
    }

    fn get_assertions(&self) -> Vec<Assertion<B>> {
        self.specs
            .iter()
            .map(|s| match (s.stride, s.periodic) {
                (0, _) => Assertion::single(s.col, s.first, s.values[0]),
                (_, true) => Assertion::periodic(s.col, s.first, s.stride, s.values[0]),
                _ => Assertion::sequence(s.col, s.first, s.stride, s.values.clone()),
            })
            .collect()
    }
}

// PROVER
// =================================================================================================
struct TestProver<B: Base> {
    options: ProofOptions,
    specs: Vec<Spec<B>>,
}

impl<B: Base> Prover for TestProver<B> {
    type BaseField = B;
    type Air = TestAir<B>;
    type Trace = TraceTable<B>;
    type HashFn = Blake3_256<B>;
    type RandomCoin = DefaultRandomCoin<Blake3_256<B>>;
    type TraceLde<E: FieldElement<BaseField = B>> = DefaultTraceLde<E, Blake3_256<B>>;
    type ConstraintEvaluator<'a, E: FieldElement<BaseField = B>> = DefaultConstraintEvaluator<'a, TestAir<B>, E>;

    fn get_pub_inputs(&self, _trace: &Self::Trace) -> Pub<B> {
        Pub(self.specs.clone())
    }

    fn options(&self) -> &ProofOptions {
        &self.options
    }

    fn new_trace_lde<E: FieldElement<BaseField = B>>(
        &self,
        trace_info: &TraceInfo,
        main_trace: &ColMatrix<B>,
        domain: &StarkDomain<B>,
    ) -> (Self::TraceLde<E>, TracePolyTable<E>) {
        DefaultTraceLde::new(trace_info, main_trace, domain)
    }

    fn new_evaluator<'a, E: FieldElement<BaseField = B>>(
        &self,
        air: &'a TestAir<B>,
        aux_rand_elements: Option<AuxRandElements<E>>,
        composition_coefficients: ConstraintCompositionCoefficients<E>,
    ) -> Self::ConstraintEvaluator<'a, E> {
        DefaultConstraintEvaluator::new(air, aux_rand_elements, composition_coefficients)
    }
}

fn run<B: Base>(field: &str, ext: FieldExtension, rng: &mut Rng, cases: &mut u64) {
    for n in [16usize, 64, 128] {
        for lde_blowup in [8usize, 16] {
            let ctx = format!("field={field} extension={ext:?} trace_len={n} lde_blowup={lde_blowup}");
            let mut start = [B::ONE; 4];
            for s in start.iter_mut() {
                *s = B::from(((rng.next() >> 40) as u32) | 1);
            }
            let cols = build_trace::<B>(n, start);
            let specs = assertions_for::<B>(n, &cols);
            let options = ProofOptions::new(12, lde_blowup, 0, ext, 4, 7);
            let prover = TestProver::<B> { options, specs: specs.clone() };
            let trace = TraceTable::init(cols);
            let proof = match catch_unwind(AssertUnwindSafe(|| prover.prove(trace))) {
                Ok(Ok(p)) => p,
                Ok(Err(e)) => fail(format!("proof generation failed on a valid execution ({e}): {ctx}")),
                Err(_) => fail(format!("proof generation panicked on a valid execution: {ctx}")),
            };
            let bytes = proof.to_bytes();
            let acceptable = AcceptableOptions::MinConjecturedSecurity(0);
            type H<B> = Blake3_256<B>;
            *cases += 1;
            match catch_unwind(AssertUnwindSafe(|| {
                verify::<TestAir<B>, H<B>, DefaultRandomCoin<H<B>>>(Proof::from_bytes(&bytes).unwrap(), Pub(specs.clone()), &acceptable)
            })) {
                Ok(Ok(())) => {},
                Ok(Err(e)) => fail(format!("the verifier rejects the honest proof of a valid execution ({e}): {ctx}")),
                Err(_) => fail(format!("the verifier panicked on an honest proof: {ctx}")),
            }
            // acceptance policy (C18): the proof is accepted under a minimum level exactly when its own level reaches it
            // (both estimates), and under an option set exactly when the set contains the proof's options
            {
                let vf = |acc: AcceptableOptions| -> Result<(), winterfell::VerifierError> {
                    verify::<TestAir<B>, H<B>, DefaultRandomCoin<H<B>>>(Proof::from_bytes(&bytes).unwrap(), Pub(specs.clone()), &acc)
                };
                let p = Proof::from_bytes(&bytes).unwrap();
                for conjectured in [true, false] {
                    let level = p.security_level::<H<B>>(conjectured);
                    for min in [0, level.saturating_sub(1), level, level + 1, level + 40, u32::MAX] {
                        *cases += 1;
                        let acc = if conjectured { AcceptableOptions::MinConjecturedSecurity(min) } else { AcceptableOptions::MinProvenSecurity(min) };
                        let r = vf(acc);
                        if r.is_ok() != (level >= min) {
                            fail(format!("minimum {} security {min}: proof of level {level} {}: {ctx}", if conjectured { "conjectured" } else { "proven" }, if r.is_ok() { "accepted" } else { "refused" }));
                        }
                    }
                }
                let o = p.options().clone();
                let fo = o.to_fri_options();
                let others = [
                    ProofOptions::new(o.num_queries() + 1, o.blowup_factor(), o.grinding_factor(), o.field_extension(), fo.folding_factor(), fo.remainder_max_degree()),
                    ProofOptions::new(o.num_queries(), o.blowup_factor() * 2, o.grinding_factor(), o.field_extension(), fo.folding_factor(), fo.remainder_max_degree()),
                    ProofOptions::new(o.num_queries(), o.blowup_factor(), o.grinding_factor() + 1, o.field_extension(), fo.folding_factor(), fo.remainder_max_degree()),
                    ProofOptions::new(o.num_queries(), o.blowup_factor(), o.grinding_factor(), if o.field_extension() == FieldExtension::None { FieldExtension::Quadratic } else { FieldExtension::None }, fo.folding_factor(), fo.remainder_max_degree()),
                    ProofOptions::new(o.num_queries(), o.blowup_factor(), o.grinding_factor(), o.field_extension(), fo.folding_factor() * 2, fo.remainder_max_degree()),
                    ProofOptions::new(o.num_queries(), o.blowup_factor(), o.grinding_factor(), o.field_extension(), fo.folding_factor(), fo.remainder_max_degree() * 2 + 1),
                ];
                for (k, other) in others.iter().enumerate() {
                    *cases += 1;
                    if other == &o {
                        fail(format!("option set {k} compares equal to the proof's options although one parameter differs: {ctx}"));
                    }
                    if vf(AcceptableOptions::OptionSet(vec![other.clone()])).is_ok() {
                        fail(format!("accepted under an option set that does not contain the proof's options (variant {k}): {ctx}"));
                    }
                    if vf(AcceptableOptions::OptionSet(vec![other.clone(), o.clone()])).is_err() || vf(AcceptableOptions::OptionSet(vec![o.clone(), other.clone()])).is_err() {
                        fail(format!("refused under an option set that contains the proof's options (variant {k}): {ctx}"));
                    }
                }
                if vf(AcceptableOptions::OptionSet(others.to_vec())).is_ok() || vf(AcceptableOptions::OptionSet(vec![])).is_ok() {
                    fail(format!("accepted under an option set without the proof's options: {ctx}"));
                }
            }
            // the field the proof claims: every other modulus (other lengths, other content) must be refused with an
            // error before anything is derived from it - never a panic (C06), never acceptance (C18)
            {
                let ctx_len = proof.context.to_bytes().len();
                let ti_len = proof.context.trace_info().to_bytes().len();
                let old_len = bytes[ti_len] as usize;
                let real = bytes[ti_len + 1..ti_len + 1 + old_len].to_vec();
                let mut claims: Vec<Vec<u8>> = Vec::new();
                for l in [0usize, 1, 6, 7, 8, 9, 13, 14, 15, 16, 17, 31, 32, 33, 64, 254] {
                    claims.push(vec![0xFF; l]);
                    let mut c = real.clone();
                    c.resize(l, 0);
                    if c != real {
                        claims.push(c); // the real modulus truncated / extended by zero bytes
                    }
                }
                let mut wrong = real.clone();
                wrong[0] ^= 2;
                claims.push(wrong);
                for claim in claims {
                    let mut forged = bytes[..ti_len].to_vec();
                    forged.push(claim.len() as u8);
                    forged.extend_from_slice(&claim);
                    forged.extend_from_slice(&bytes[ti_len + 1 + old_len..]);
                    let _ = ctx_len;
                    *cases += 1;
                    let r = catch_unwind(AssertUnwindSafe(|| match Proof::from_bytes(&forged) {
                        Ok(p) => verify::<TestAir<B>, H<B>, DefaultRandomCoin<H<B>>>(p, Pub(specs.clone()), &acceptable).is_ok(),
                        Err(_) => false,
                    }));
                    match r {
                        Ok(false) => {},
                        Ok(true) => fail(format!("a proof claiming the {}-byte modulus {:02x?} is accepted: {ctx}", claim.len(), &claim[..claim.len().min(16)])),
                        Err(_) => fail(format!("the verifier panicked on a proof claiming a {}-byte modulus: {ctx}", claim.len())),
                    }
                }
            }
            // every asserted value is enforced: changing any single one in the public inputs must lead to rejection
            // (for the two long sequences a seeded sample of three positions)
            for (j, s) in specs.iter().enumerate() {
                let picks: Vec<usize> = if s.values.len() <= 4 {
                    (0..s.values.len()).collect()
                } else {
                    vec![0, s.values.len() - 1, (rng.next() as usize) % s.values.len()]
                };
                for k in picks {
                    let mut other = specs.clone();
                    other[j].values[k] += B::ONE;
                    *cases += 1;
                    match catch_unwind(AssertUnwindSafe(|| {
                        verify::<TestAir<B>, H<B>, DefaultRandomCoin<H<B>>>(Proof::from_bytes(&bytes).unwrap(), Pub(other), &acceptable)
                    })) {
                        Ok(Ok(())) => fail(format!("the proof is accepted although asserted value {k} of assertion {j} was changed: {ctx}")),
                        Ok(Err(_)) => {},
                        Err(_) => fail(format!("the verifier panicked on changed public inputs (assertion {j}, value {k}): {ctx}")),
                    }
                }
            }
        }
    }
}

#[test]
fn verifier_side_bounded() {
    let mut rng = Rng(0x94D049BB133111EB ^ seed().wrapping_mul(0xBF58476D1CE4E5B9) | 1);
    let mut cases = 0u64;
    run::<f128::BaseElement>("f128", FieldExtension::None, &mut rng, &mut cases);
    run::<f128::BaseElement>("f128", FieldExtension::Quadratic, &mut rng, &mut cases);
    run::<f64::BaseElement>("f64", FieldExtension::None, &mut rng, &mut cases);
    run::<f64::BaseElement>("f64", FieldExtension::Quadratic, &mut rng, &mut cases);
    run::<f64::BaseElement>("f64", FieldExtension::Cubic, &mut rng, &mut cases);
    println!("NB-RESULT name=verifier_side_bounded cases={cases}");
}
