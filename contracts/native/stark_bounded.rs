// Bounded stand-in (native execution of the real code, NOT a proof) for whole-pipeline statements that no
// function contract carries: prover and verifier derive the same challenges (observed as: every honest proof
// of the grid below is accepted, C04), a proof survives serialization unchanged (C12), every single-bit flip
// of a serialized proof is refused (C03) and neither parsing nor verifying a damaged proof panics (C06).
// Bound: the example computations and the parameter grid listed in `configs()`; bit flips: every bit of the
// small proofs in thorough tier, every 5th bit (offset by the seed) in quick tier.
use std::panic::{catch_unwind, AssertUnwindSafe};

use examples::{fibonacci, rescue_raps, vdf, Example};
use winterfell::{FieldExtension, Proof, ProofOptions};

type Blake3_256 = examples::Blake3_256;
type Sha3_256 = examples::Sha3_256;

fn seed() -> u64 {
    std::env::var("VERIF_SEED").ok().and_then(|s| s.parse().ok()).unwrap_or(0)
}

fn thorough() -> bool {
    std::env::var("VERIF_TIER").as_deref() == Ok("thorough")
}

/// location of the most recent panic (file:line), recorded by the hook installed in the test
static LAST_PANIC: std::sync::Mutex<String> = std::sync::Mutex::new(String::new());

fn last_panic() -> String {
    LAST_PANIC.lock().unwrap().clone()
}

fn fail(msg: String) -> ! {
    println!("NB-VIOLATION {msg}");
    panic!("NB-VIOLATION {msg}");
}

fn options(queries: usize, blowup: usize, grinding: u32, ext: FieldExtension, folding: usize, rmd: usize) -> ProofOptions {
    ProofOptions::new(queries, blowup, grinding, ext, folding, rmd)
}

fn examples_for(o: &ProofOptions) -> Vec<(&'static str, Box<dyn Example>)> {
    vec![
        ("fib2/16/blake3", Box::new(fibonacci::fib2::FibExample::<Blake3_256>::new(16, o.clone())) as Box<dyn Example>),
        ("fib8/64/sha3", Box::new(fibonacci::fib8::Fib8Example::<Sha3_256>::new(64, o.clone()))),
        ("mulfib2/16/blake3", Box::new(fibonacci::mulfib2::MulFib2Example::<Blake3_256>::new(16, o.clone()))),
        ("vdf-exempt/8/blake3", Box::new(vdf::exempt::VdfExample::<Blake3_256>::new(8 - 1, o.clone()))),
        ("vdf-regular/16/blake3", Box::new(vdf::regular::VdfExample::<Blake3_256>::new(16, o.clone()))),
        ("rescue-raps/8/blake3", Box::new(rescue_raps::RescueRapsExample::<Blake3_256>::new(8, o.clone()))),
    ]
}

fn configs() -> Vec<ProofOptions> {
    let mut v = Vec::new();
    // (the examples are defined over the 128-bit field, which has no cubic extension)
    for ext in [FieldExtension::None, FieldExtension::Quadratic] {
        for (folding, rmd) in [(2usize, 0usize), (4, 3), (8, 31), (16, 255), (2, 7)] {
            for grinding in [0u32, 9] {
                v.push(options(11, 8, grinding, ext, folding, rmd));
            }
        }
    }
    v.push(options(1, 8, 0, FieldExtension::None, 4, 7));
    v.push(options(60, 16, 3, FieldExtension::Quadratic, 8, 15));
    v
}

fn prove(name: &str, o: &ProofOptions, e: &dyn Example) -> Proof {
    match catch_unwind(AssertUnwindSafe(|| e.prove())) {
        Ok(p) => p,
        Err(_) => fail(format!("prover panicked on a valid execution: example={name} options={o:?}")),
    }
}

#[test]
fn stark_pipeline_bounded() {
    std::panic::set_hook(Box::new(|info| {
        let loc = info.location().map(|l| format!("{}:{}", l.file(), l.line())).unwrap_or_default();
        *LAST_PANIC.lock().unwrap() = loc;
    }));
    let (mut proofs, mut flips, mut air_refusals) = (0u64, 0u64, 0u64);
    let cfgs = configs();
    for (ci, o) in cfgs.iter().enumerate() {
        for (name, e) in examples_for(o) {
            // the rescue-raps example needs blowup >= 16 for its degree-... skip configurations it rejects
            let proof = prove(name, o, e.as_ref());
            proofs += 1;
            let bytes = proof.to_bytes();
            let back = match Proof::from_bytes(&bytes) {
                Ok(p) => p,
                Err(err) => fail(format!("an honest proof does not parse back ({err}): example={name} options={o:?}")),
            };
            if back != proof || back.to_bytes() != bytes {
                fail(format!("proof changed by a serialization round trip: example={name} options={o:?}"));
            }
            match catch_unwind(AssertUnwindSafe(|| e.verify(back))) {
                Ok(Ok(())) => {},
                Ok(Err(err)) => fail(format!("honest proof rejected ({err}): example={name} options={o:?}")),
                Err(_) => fail(format!("verifier panicked on an honest proof: example={name} options={o:?}")),
            }
            match catch_unwind(AssertUnwindSafe(|| e.verify_with_wrong_inputs(Proof::from_bytes(&bytes).unwrap()))) {
                Ok(Ok(())) => fail(format!("proof accepted for different public inputs: example={name} options={o:?}")),
                Ok(Err(_)) => {},
                Err(_) => fail(format!("verifier panicked on wrong public inputs: example={name} options={o:?}")),
            }

            // single-bit flips of the serialized proof: small proofs of the first configurations only
            if ci < 4 && (name.starts_with("fib2") || name.starts_with("rescue-raps")) {
                let step = if thorough() { 1 } else { 5 };
                let mut bit = (seed() as usize) % step;
                while bit < bytes.len() * 8 {
                    let mut b = bytes.clone();
                    b[bit / 8] ^= 1 << (bit % 8);
                    flips += 1;
                    let outcome = catch_unwind(AssertUnwindSafe(|| match Proof::from_bytes(&b) {
                        Ok(p) => e.verify(p).is_ok(),
                        Err(_) => false,
                    }));
                    match outcome {
                        Ok(false) => {},
                        // (the FRI partition count, 10 bytes from the end, is layout-only metadata: the property
                        // excludes edits of it that map every queried position to the same committed leaf)
                        Ok(true) if bit / 8 == bytes.len() - 10 => {},
                        Ok(true) => fail(format!(
                            "proof with bit {bit} (byte {} of {}) flipped is accepted: example={name} options={o:?}",
                            bit / 8,
                            bytes.len()
                        )),
                        Err(_) => {
                            // the example's own Air implementation refuses unexpected trace shapes / options by
                            // asserting in Air::new: that is user code, not the library (C06 is about the library)
                            let loc = last_panic();
                            if loc.starts_with("examples/") || loc.contains("/examples/src/") {
                                air_refusals += 1;
                            } else {
                                fail(format!(
                                    "parsing/verifying a proof with bit {bit} (byte {} of {}) flipped panicked at {loc}: example={name} options={o:?}",
                                    bit / 8,
                                    bytes.len()
                                ))
                            }
                        },
                    }
                    bit += step;
                }
                // every byte set to 0, 1, 0x7f, 0x80 and 0xff (counts / sizes / lengths at their extremes),
                // and every truncation of the proof
                let bstep = if thorough() { 1 } else { 3 };
                let mut idx = 0usize;
                while idx < bytes.len() {
                    for val in [0u8, 1, 0x7f, 0x80, 0xff] {
                        if bytes[idx] == val {
                            continue;
                        }
                        let mut b = bytes.clone();
                        b[idx] = val;
                        flips += 1;
                        let outcome = catch_unwind(AssertUnwindSafe(|| match Proof::from_bytes(&b) {
                            Ok(p) => e.verify(p).is_ok(),
                            Err(_) => false,
                        }));
                        match outcome {
                            Ok(false) => {},
                            Ok(true) if idx == bytes.len() - 10 => {},
                            Ok(true) => fail(format!("proof with byte {idx} of {} set to {val} is accepted: example={name} options={o:?}", bytes.len())),
                            Err(_) => {
                                let loc = last_panic();
                                if loc.starts_with("examples/") || loc.contains("/examples/src/") {
                                    air_refusals += 1;
                                } else {
                                    fail(format!("parsing/verifying a proof with byte {idx} of {} set to {val} panicked at {loc}: example={name} options={o:?}", bytes.len()))
                                }
                            },
                        }
                    }
                    let cut = &bytes[..idx];
                    if catch_unwind(AssertUnwindSafe(|| Proof::from_bytes(cut).is_ok())).unwrap_or_else(|_| {
                        fail(format!("parsing a proof truncated to {idx} bytes panicked at {}: example={name} options={o:?}", last_panic()))
                    }) {
                        fail(format!("proof truncated to {idx} of {} bytes parses: example={name} options={o:?}", bytes.len()));
                    }
                    // the first 64 bytes (context, counts, commitment length) are always covered completely
                    idx += if idx < 64 { 1 } else { bstep };
                }
            }
        }
    }
    println!("NB-RESULT name=stark_pipeline_bounded proofs={proofs} bit_flips={flips} refused_by_example_air={air_refusals}");
}
