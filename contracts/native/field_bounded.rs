// Bounded stand-in (native execution of the real code, NOT a proof) for C07 / C08: the arithmetic of the three base fields
// and of their quadratic / cubic extensions against integer arithmetic modulo the prime written independently in this
// file (128-bit reference arithmetic with explicit modular addition / doubling; extension products by the schoolbook rule
// reduced with the documented irreducible polynomials).
// Why it exists although C07 / C08 are decided deductively: the Verus proofs of the bit-level functions carry proof hints
// anchored on statements; a change to such a statement loses the anchor and makes the deductive check UNDECIDED (exit 2),
// never an alarm. This stand-in is the safety net for that case. It is labelled bounded everywhere and is not counted among
// the proved obligations.
// Bound: boundary values (0, 1, 2, p-1, p-2, (p-1)/2, 2^32 - 1, 2^32, 2^32 + 1, 2^63, 2^64 - 1, ...) in all pairs, 400 seeded
// pairs per field, exponents 0, 1, 2, 3, p-2, p-1, p, 2^32, 2^64 - 1 and seeded ones; non-canonical internal representatives
// produced by x + (-x) and x - x.
use winter_math as math;
use math::{
    fields::{f128, f62, f64, CubeExtension, QuadExtension},
    ExtensionOf, FieldElement, StarkField,
};
use utils::{Deserializable, Serializable, SliceReader};

fn seed() -> u64 {
    std::env::var("VERIF_SEED").ok().and_then(|s| s.parse().ok()).unwrap_or(0)
}

struct Rng(u64);
impl Rng {
    fn next(&mut self) -> u64 {
        self.0 ^= self.0 << 13;
        self.0 ^= self.0 >> 7;
        self.0 ^= self.0 << 17;
        self.0
    }
    fn next128(&mut self) -> u128 {
        ((self.next() as u128) << 64) | self.next() as u128
    }
}

fn fail(msg: String) -> ! {
    println!("NB-VIOLATION {msg}");
    panic!("NB-VIOLATION {msg}");
}

// ---- reference arithmetic modulo m < 2^128 (no multiplication wider than the operands: add / double only) ----
fn add_m(a: u128, b: u128, m: u128) -> u128 {
    if a >= m - b { a - (m - b) } else { a + b }
}
fn sub_m(a: u128, b: u128, m: u128) -> u128 {
    if a >= b { a - b } else { m - (b - a) }
}
fn mul_m(a: u128, b: u128, m: u128) -> u128 {
    let (mut r, mut x, mut y) = (0u128, a % m, b);
    while y > 0 {
        if y & 1 == 1 {
            r = add_m(r, x, m);
        }
        x = add_m(x, x, m);
        y >>= 1;
    }
    r
}
fn pow_m(a: u128, mut e: u128, m: u128) -> u128 {
    let (mut r, mut b) = (1u128 % m, a % m);
    while e > 0 {
        if e & 1 == 1 {
            r = mul_m(r, b, m);
        }
        b = mul_m(b, b, m);
        e >>= 1;
    }
    r
}

trait Field: StarkField {
    const NAME: &'static str;
    fn modulus() -> u128;
    fn int(self) -> u128;
    fn of(v: u128) -> Self;
    fn exp_u128(self, e: u128) -> Option<Self>;
}
impl Field for f128::BaseElement {
    const NAME: &'static str = "f128";
    fn modulus() -> u128 { Self::MODULUS }
    fn int(self) -> u128 { self.as_int() }
    fn of(v: u128) -> Self { Self::new(v) }
    fn exp_u128(self, e: u128) -> Option<Self> { Some(self.exp(e)) }
}
impl Field for f64::BaseElement {
    const NAME: &'static str = "f64";
    fn modulus() -> u128 { Self::MODULUS as u128 }
    fn int(self) -> u128 { self.as_int() as u128 }
    fn of(v: u128) -> Self { Self::new((v % Self::MODULUS as u128) as u64) }
    fn exp_u128(self, e: u128) -> Option<Self> { u64::try_from(e).ok().map(|e| self.exp(e)) }
}
impl Field for f62::BaseElement {
    const NAME: &'static str = "f62";
    fn modulus() -> u128 { Self::MODULUS as u128 }
    fn int(self) -> u128 { self.as_int() as u128 }
    fn of(v: u128) -> Self { Self::new((v % Self::MODULUS as u128) as u64) }
    fn exp_u128(self, e: u128) -> Option<Self> { u64::try_from(e).ok().map(|e| self.exp(e)) }
}

fn classes(m: u128, rng: &mut Rng, random: usize) -> Vec<u128> {
    let mut v = vec![0, 1, 2, 3, m - 1, m - 2, m - 3, (m - 1) / 2, (m + 1) / 2, (m - 1) / 2 + 1];
    for c in [(1u128 << 31), (1u128 << 32) - 1, 1u128 << 32, (1u128 << 32) + 1, (1u128 << 33) - 1, (1u128 << 62) - 1, 1u128 << 62,
              (1u128 << 63) - 1, 1u128 << 63, (1u128 << 63) + 1, (1u128 << 64) - 1, 1u128 << 64, (1u128 << 64) + 1, (1u128 << 96) - 1,
              1u128 << 96, (1u128 << 127) - 1, 1u128 << 127, u128::MAX, 0xFFFF_FFFF_0000_0000, 0xFFFF_FFFF_0000_0001, 0xFFFF_FFFE_FFFF_FFFF] {
        v.push(c % m);
        v.push((m - (c % m)) % m);
    }
    for _ in 0..random {
        v.push(rng.next128() % m);
    }
    v.sort();
    v.dedup();
    v
}

fn base_field<B: Field>(rng: &mut Rng, cases: &mut u64) {
    let m = B::modulus();
    let vals = classes(m, rng, 24);
    let check = |what: &str, got: B, want: u128, a: u128, b: u128| {
        if got.int() != want {
            fail(format!("{}: {what} of {a} and {b} is {} instead of {want}", B::NAME, got.int()));
        }
        // equality and hashing of results must agree with the residue (canonical comparison)
        if got != B::of(want) {
            fail(format!("{}: {what} of {a} and {b} denotes {want} but compares unequal to the element built from {want}", B::NAME));
        }
    };
    let mut pairs: Vec<(u128, u128)> = Vec::new();
    for &a in &vals {
        for &b in &vals {
            pairs.push((a, b));
        }
    }
    for _ in 0..400 {
        pairs.push((rng.next128() % m, rng.next128() % m));
    }
    for (a, b) in pairs {
        *cases += 1;
        let (x, y) = (B::of(a), B::of(b));
        if x.int() != a {
            fail(format!("{}: new({a}).as_int() == {}", B::NAME, x.int()));
        }
        check("sum", x + y, add_m(a, b, m), a, b);
        check("difference", x - y, sub_m(a, b, m), a, b);
        check("product", x * y, mul_m(a, b, m), a, b);
        let mut t = x;
        t += y;
        check("+=", t, add_m(a, b, m), a, b);
        let mut t = x;
        t -= y;
        check("-=", t, sub_m(a, b, m), a, b);
        let mut t = x;
        t *= y;
        check("*=", t, mul_m(a, b, m), a, b);
        if b != 0 {
            let q = x / y;
            if mul_m(q.int(), b, m) != a {
                fail(format!("{}: ({a} / {b}) * {b} == {} instead of {a}", B::NAME, mul_m(q.int(), b, m)));
            }
        }
        // operands that are non-canonical internally: (x + y) - y, x + (y - y)
        check("(x + y) - y", (x + y) - y, a, a, b);
        check("x * (y - y + 1)", x * (y - y + B::ONE), a, a, b);
        if (x == y) != (a == b) {
            fail(format!("{}: {a} == {b} evaluates to {}", B::NAME, x == y));
        }
    }
    for &a in &vals {
        *cases += 1;
        let x = B::of(a);
        check("negation", -x, sub_m(0, a, m), a, 0);
        check("double", x.double(), add_m(a, a, m), a, 0);
        check("square", x.square(), mul_m(a, a, m), a, 0);
        check("cube", x.cube(), mul_m(mul_m(a, a, m), a, m), a, 0);
        let i = x.inv();
        let want = if a == 0 { 0 } else { 1 };
        if mul_m(i.int(), a, m) != want {
            fail(format!("{}: {a} * inv({a}) == {}", B::NAME, mul_m(i.int(), a, m)));
        }
        // the zero obtained by cancellation
        let z = x + (-x);
        if z != B::ZERO || z.int() != 0 || z.inv() != B::ZERO || (z * x) != B::ZERO {
            fail(format!("{}: {a} + (-{a}) does not behave as zero", B::NAME));
        }
        for e in [0u128, 1, 2, 3, 7, m - 2, m - 1, m, (1 << 32) - 1, 1 << 32, (1u128 << 64) - 1, rng.next() as u128, rng.next128()] {
            if let Some(p) = x.exp_u128(e) {
                check("power", p, pow_m(a, e, m), a, e);
            }
        }
        // serialization round trip and canonical encoding
        let bytes = x.to_bytes();
        if bytes.len() != B::ELEMENT_BYTES {
            fail(format!("{}: {a} is encoded in {} bytes", B::NAME, bytes.len()));
        }
        let mut le = [0u8; 16];
        le[..bytes.len()].copy_from_slice(&bytes);
        if u128::from_le_bytes(le) != a {
            fail(format!("{}: {a} is encoded as {}", B::NAME, u128::from_le_bytes(le)));
        }
        let zb = z.to_bytes();
        if zb.iter().any(|&b| b != 0) {
            fail(format!("{}: the zero {a} + (-{a}) is encoded as {zb:?}", B::NAME));
        }
        match B::read_from(&mut SliceReader::new(&bytes)) {
            Ok(y) if y == x => {},
            _ => fail(format!("{}: decode(encode({a})) != {a}", B::NAME)),
        }
    }
    // roots of unity: order exactly 2^k
    for k in 1..=B::TWO_ADICITY {
        *cases += 1;
        let g = B::get_root_of_unity(k).int();
        if pow_m(g, 1u128 << k, m) != 1 || pow_m(g, 1u128 << (k - 1), m) != m - 1 {
            fail(format!("{}: get_root_of_unity({k}) does not have order 2^{k}", B::NAME));
        }
    }
}

// ---- extensions: schoolbook product reduced by the documented irreducible polynomial, over reference arithmetic ----
/// x^2 = r1 * x + r0 (quadratic), x^3 = r1 * x + r0 (cubic)
fn ext_mul(a: &[u128], b: &[u128], red: (u128, u128), m: u128) -> Vec<u128> {
    let n = a.len();
    let mut prod = vec![0u128; 2 * n - 1];
    for i in 0..n {
        for j in 0..n {
            prod[i + j] = add_m(prod[i + j], mul_m(a[i], b[j], m), m);
        }
    }
    // reduce from the top: x^(n + k) = x^k * (r1 * x + r0)
    for d in (n..2 * n - 1).rev() {
        let c = prod[d];
        prod[d] = 0;
        prod[d - n] = add_m(prod[d - n], mul_m(c, red.0, m), m);
        prod[d - n + 1] = add_m(prod[d - n + 1], mul_m(c, red.1, m), m);
    }
    prod.truncate(n);
    prod
}

fn ext_field<B: Field, E: FieldElement<BaseField = B> + ExtensionOf<B>>(tag: &str, red: (u128, u128), rng: &mut Rng, cases: &mut u64) {
    let m = B::modulus();
    let n = E::EXTENSION_DEGREE;
    let small = [0u128, 1, 2, m - 1, m - 2, (m - 1) / 2, (1u128 << 32) % m, ((1u128 << 64) - 1) % m];
    let build = |c: &[u128]| -> E {
        let base: Vec<B> = c.iter().map(|&v| B::of(v)).collect();
        E::slice_from_base_elements(&base)[0]
    };
    let coords = |e: E| -> Vec<u128> { E::slice_as_base_elements(&[e]).iter().map(|b| b.int()).collect() };
    let pick = |rng: &mut Rng| -> Vec<u128> {
        (0..n).map(|_| if rng.next() % 3 == 0 { small[(rng.next() % 8) as usize] } else { rng.next128() % m }).collect()
    };
    for round in 0..1500 {
        *cases += 1;
        let (a, b) = if round < 64 {
            // corner operands: every coordinate from the boundary classes
            ((0..n).map(|i| small[(round >> (3 * (i % 2))) & 7]).collect::<Vec<_>>(), (0..n).map(|i| small[(round + 3 * i) & 7]).collect::<Vec<_>>())
        } else {
            (pick(rng), pick(rng))
        };
        let (x, y) = (build(&a), build(&b));
        if coords(x) != a {
            fail(format!("{tag}: coordinates of the element built from {a:?} are {:?}", coords(x)));
        }
        let want = ext_mul(&a, &b, red, m);
        if coords(x * y) != want {
            fail(format!("{tag}: {a:?} * {b:?} == {:?} instead of {want:?}", coords(x * y)));
        }
        let mut t = x;
        t *= y;
        if coords(t) != want {
            fail(format!("{tag}: {a:?} *= {b:?} gives {:?} instead of {want:?}", coords(t)));
        }
        if coords(x.square()) != ext_mul(&a, &a, red, m) {
            fail(format!("{tag}: square of {a:?} is {:?}", coords(x.square())));
        }
        let s: Vec<u128> = (0..n).map(|i| add_m(a[i], b[i], m)).collect();
        let d: Vec<u128> = (0..n).map(|i| sub_m(a[i], b[i], m)).collect();
        if coords(x + y) != s || coords(x - y) != d || coords(-x) != (0..n).map(|i| sub_m(0, a[i], m)).collect::<Vec<_>>() {
            fail(format!("{tag}: sum / difference / negation of {a:?}, {b:?}"));
        }
        if coords(x.double()) != (0..n).map(|i| add_m(a[i], a[i], m)).collect::<Vec<_>>() {
            fail(format!("{tag}: double of {a:?}"));
        }
        let mb = x.mul_base(B::of(b[0]));
        if coords(mb) != (0..n).map(|i| mul_m(a[i], b[0], m)).collect::<Vec<_>>() {
            fail(format!("{tag}: {a:?} mul_base {} == {:?}", b[0], coords(mb)));
        }
        let inv = x.inv();
        let one: Vec<u128> = (0..n).map(|i| if i == 0 { 1 } else { 0 }).collect();
        if a.iter().all(|&c| c == 0) {
            if coords(inv).iter().any(|&c| c != 0) {
                fail(format!("{tag}: inv(0) != 0"));
            }
        } else if ext_mul(&a, &coords(inv), red, m) != one {
            fail(format!("{tag}: {a:?} * inv == {:?}", ext_mul(&a, &coords(inv), red, m)));
        }
        if !b.iter().all(|&c| c == 0) && ext_mul(&coords(x / y), &b, red, m) != a {
            fail(format!("{tag}: ({a:?} / {b:?}) * {b:?} != {a:?}"));
        }
        // conjugation is the p-th power map: a ring automorphism fixing the base field, of order n
        let cj = x.conjugate();
        let mut k = cj;
        for _ in 1..n {
            k = k.conjugate();
        }
        if k != x {
            fail(format!("{tag}: conjugating {a:?} {n} times does not return it"));
        }
        if (x * y).conjugate() != cj * y.conjugate() || (x + y).conjugate() != cj + y.conjugate() {
            fail(format!("{tag}: conjugation is not a ring homomorphism at {a:?}, {b:?}"));
        }
        if build(&[a[0]].iter().copied().chain(std::iter::repeat(0).take(n - 1)).collect::<Vec<_>>()).conjugate()
            != build(&[a[0]].iter().copied().chain(std::iter::repeat(0).take(n - 1)).collect::<Vec<_>>())
        {
            fail(format!("{tag}: conjugation moves the base-field element {}", a[0]));
        }
        // the conjugate is a root of the same minimal polynomial: x^p computed by exponentiation when p fits the exponent type
        if round < 3 && m < (1u128 << 64) {
            let p = x.exp(E::PositiveInteger::from(u32::MAX)) ; // (only exercises exp on extension elements; value checked below)
            let mut r = E::ONE;
            let mut bb = x;
            let mut e = u32::MAX;
            while e > 0 {
                if e & 1 == 1 { r *= bb; }
                bb = bb.square();
                e >>= 1;
            }
            if p != r {
                fail(format!("{tag}: exp({a:?}, 2^32 - 1) disagrees with square-and-multiply"));
            }
        }
        // serialization round trip
        let bytes = x.to_bytes();
        match E::read_from(&mut SliceReader::new(&bytes)) {
            Ok(z) if z == x && bytes.len() == E::ELEMENT_BYTES => {},
            _ => fail(format!("{tag}: decode(encode({a:?})) != {a:?}")),
        }
    }
}

#[test]
fn field_arithmetic_bounded() {
    let mut rng = Rng(0x9E3779B97F4A7C15 ^ seed().wrapping_mul(0xD1B54A32D192ED03) | 1);
    let mut cases = 0u64;
    base_field::<f128::BaseElement>(&mut rng, &mut cases);
    base_field::<f64::BaseElement>(&mut rng, &mut cases);
    base_field::<f62::BaseElement>(&mut rng, &mut cases);
    println!("NB-RESULT name=field_arithmetic_bounded cases={cases}");
}

#[test]
fn extension_arithmetic_bounded() {
    let mut rng = Rng(0xC2B2AE3D27D4EB4F ^ seed().wrapping_mul(0x165667B19E3779F9) | 1);
    let mut cases = 0u64;
    let m128 = f128::BaseElement::MODULUS;
    let m64 = f64::BaseElement::MODULUS as u128;
    let m62 = f62::BaseElement::MODULUS as u128;
    // documented irreducible polynomials: f128, f62 quadratic x^2 - x - 1; f64 quadratic x^2 - x + 2;
    // f64 cubic x^3 - x - 1; f62 cubic x^3 + 2x + 2
    ext_field::<f128::BaseElement, QuadExtension<f128::BaseElement>>("f128 quadratic", (1, 1), &mut rng, &mut cases);
    ext_field::<f62::BaseElement, QuadExtension<f62::BaseElement>>("f62 quadratic", (1, 1), &mut rng, &mut cases);
    ext_field::<f64::BaseElement, QuadExtension<f64::BaseElement>>("f64 quadratic", (m64 - 2, 1), &mut rng, &mut cases);
    ext_field::<f64::BaseElement, CubeExtension<f64::BaseElement>>("f64 cubic", (1, 1), &mut rng, &mut cases);
    ext_field::<f62::BaseElement, CubeExtension<f62::BaseElement>>("f62 cubic", (m62 - 2, m62 - 2), &mut rng, &mut cases);
    let _ = m128;
    println!("NB-RESULT name=extension_arithmetic_bounded cases={cases}");
}
