// Bounded stand-in (native execution of the real code, NOT a proof) for C13: ReadAdapter is
// RefCell<BufReader<&mut dyn Read>> + raw-pointer copies: outside Verus, and a 4-byte / 3-operation
// Kani harness already costs 278 s (DESIGN.md section 1), so the 256-byte buffer boundary is unreachable.
// Bound: (a) every operation sequence of length <= 3 over the operation set below, on streams of
//   0..=12 bytes, under chunkings {1, 2, 3, 5, whole} and with/without an empty read before EOF;
// (b) seeded random sequences of 40 operations on streams of 0..=700 bytes under chunkings
//   {1, 7, 255, 256, 257, 300, random}, so that reads straddle the 256-byte internal buffer.
// After every operation the adapter must agree with SliceReader on the same bytes: same value or same
// error kind; look-ahead (check_eor / has_more_bytes) may be optimistic but never pessimistic.
use std::io::Read;
use std::panic::{catch_unwind, AssertUnwindSafe};

use winter_utils::{ByteReader, DeserializationError, ReadAdapter, SliceReader};

fn seed() -> u64 {
    std::env::var("VERIF_SEED").ok().and_then(|s| s.parse().ok()).unwrap_or(0)
}

struct Rng(u64);
impl Rng {
    fn next(&mut self) -> u64 {
        self.0 ^= self.0 << 13;
        self.0 ^= self.0 >> 7;
        self.0 ^= self.0 << 17;
        self.0
    }
}

/// a Read double that hands out the stream in chunks of the given sizes (cycled), optionally
/// returning Ok(0)-free short reads; `0` in the pattern is not allowed (Ok(0) means EOF to BufReader)
struct Chunked<'a> {
    data: &'a [u8],
    pos: usize,
    pattern: Vec<usize>,
    k: usize,
}
impl<'a> Read for Chunked<'a> {
    fn read(&mut self, buf: &mut [u8]) -> std::io::Result<usize> {
        let want = self.pattern[self.k % self.pattern.len()].max(1);
        self.k += 1;
        let n = want.min(buf.len()).min(self.data.len() - self.pos);
        buf[..n].copy_from_slice(&self.data[self.pos..self.pos + n]);
        self.pos += n;
        Ok(n)
    }
}

#[derive(Clone, Copy, Debug, PartialEq)]
enum Op {
    U8,
    Peek,
    Bool,
    U16,
    U32,
    U64,
    U128,
    Usize,
    Slice(usize),
    Array3,
    Vec(usize),
    Str(usize),
    ManyU16(usize),
    CheckEor(usize),
    HasMore,
}

#[derive(Debug, PartialEq)]
enum Out {
    Val(Vec<u8>),
    Flag(bool),
    ErrEof,
    ErrInvalid,
    ErrOther,
}

fn err(e: DeserializationError) -> Out {
    match e {
        DeserializationError::UnexpectedEOF => Out::ErrEof,
        DeserializationError::InvalidValue(_) => Out::ErrInvalid,
        _ => Out::ErrOther,
    }
}

fn apply<R: ByteReader>(r: &mut R, op: Op) -> Out {
    match op {
        Op::U8 => r.read_u8().map(|v| Out::Val(vec![v])).unwrap_or_else(err),
        Op::Peek => r.peek_u8().map(|v| Out::Val(vec![v])).unwrap_or_else(err),
        Op::Bool => r.read_bool().map(|v| Out::Val(vec![v as u8])).unwrap_or_else(err),
        Op::U16 => r.read_u16().map(|v| Out::Val(v.to_le_bytes().to_vec())).unwrap_or_else(err),
        Op::U32 => r.read_u32().map(|v| Out::Val(v.to_le_bytes().to_vec())).unwrap_or_else(err),
        Op::U64 => r.read_u64().map(|v| Out::Val(v.to_le_bytes().to_vec())).unwrap_or_else(err),
        Op::U128 => r.read_u128().map(|v| Out::Val(v.to_le_bytes().to_vec())).unwrap_or_else(err),
        Op::Usize => r.read_usize().map(|v| Out::Val((v as u64).to_le_bytes().to_vec())).unwrap_or_else(err),
        Op::Slice(n) => r.read_slice(n).map(|v| Out::Val(v.to_vec())).unwrap_or_else(err),
        Op::Array3 => r.read_array::<3>().map(|v| Out::Val(v.to_vec())).unwrap_or_else(err),
        Op::Vec(n) => r.read_vec(n).map(Out::Val).unwrap_or_else(err),
        Op::Str(n) => r.read_string(n).map(|v| Out::Val(v.into_bytes())).unwrap_or_else(err),
        Op::ManyU16(n) => r
            .read_many::<u16>(n)
            .map(|v| Out::Val(v.iter().flat_map(|x| x.to_le_bytes()).collect()))
            .unwrap_or_else(err),
        Op::CheckEor(n) => r.check_eor(n).map(|_| Out::Flag(true)).unwrap_or_else(|_| Out::Flag(false)),
        Op::HasMore => Out::Flag(r.has_more_bytes()),
    }
}

fn run_case(data: &[u8], pattern: &[usize], ops: &[Op]) -> Result<(), String> {
    let mut src = Chunked { data, pos: 0, pattern: pattern.to_vec(), k: 0 };
    let mut adapter = ReadAdapter::new(&mut src);
    let mut slice = SliceReader::new(data);
    // once an operation has failed with EOF the adapter has observed the end of the stream; from then
    // on its look-ahead must be exact (it "may be optimistic before the end of the stream has been observed")
    let mut eof_seen = false;
    for (step, &op) in ops.iter().enumerate() {
        let a = match catch_unwind(AssertUnwindSafe(|| apply(&mut adapter, op))) {
            Ok(a) => a,
            Err(_) => return Err(format!("ReadAdapter panicked at step {step} ({op:?})")),
        };
        let s = match catch_unwind(AssertUnwindSafe(|| apply(&mut slice, op))) {
            Ok(s) => s,
            Err(_) => return Err(format!("SliceReader panicked at step {step} ({op:?}); ReadAdapter returned {a:?}")),
        };
        let ok = match op {
            // look-ahead may be optimistic, never pessimistic
            Op::CheckEor(_) | Op::HasMore => a == s || (!eof_seen && a == Out::Flag(true) && s == Out::Flag(false)),
            _ => a == s,
        };
        if !ok {
            return Err(format!("step {step} ({op:?}): ReadAdapter returned {a:?}, SliceReader {s:?}"));
        }
        // every primitive is all-or-nothing in both readers and the provided methods are shared, so the
        // two stay in step after an error as well; keep comparing
        if a == Out::ErrEof {
            eof_seen = true;
        }
    }
    Ok(())
}

fn stream(len: usize, tag: u64) -> Vec<u8> {
    // mostly small bytes so that read_usize / read_bool / read_string see valid encodings often
    let mut r = Rng(0x2545F4914F6CDD1D ^ tag.wrapping_mul(0x9E3779B97F4A7C15) | 1);
    (0..len)
        .map(|i| match r.next() % 6 {
            0 => 0,
            1 => 1,
            2 => (i as u8) | 1,
            3 => b'a' + (i % 26) as u8,
            4 => 0x80,
            _ => (r.next() & 0xff) as u8,
        })
        .collect()
}

fn report(data: &[u8], pattern: &[usize], ops: &[Op], msg: String) -> ! {
    println!("NB-VIOLATION {msg}; stream_len={} stream={:?} chunk_pattern={pattern:?} ops={ops:?}", data.len(), &data[..data.len().min(24)]);
    panic!("NB-VIOLATION {msg}");
}

#[test]
fn read_adapter_equivalence_bounded() {
    let alphabet = [
        Op::U8, Op::Peek, Op::Bool, Op::U16, Op::U32, Op::U64, Op::U128, Op::Usize, Op::Slice(0), Op::Slice(2),
        Op::Slice(5), Op::Array3, Op::Vec(3), Op::Str(2), Op::ManyU16(2), Op::CheckEor(0), Op::CheckEor(1),
        Op::CheckEor(4), Op::HasMore,
    ];
    let mut cases = 0u64;
    // (a) exhaustive short sequences on short streams
    let patterns: [&[usize]; 5] = [&[1], &[2], &[3, 1], &[5], &[4096]];
    for len in 0..=12usize {
        let data = stream(len, seed() + len as u64);
        for pat in patterns {
            for &a in &alphabet {
                for &b in &alphabet {
                    for &c in &alphabet {
                        let ops = [a, b, c];
                        if let Err(m) = run_case(&data, pat, &ops) {
                            report(&data, pat, &ops, m);
                        }
                        cases += 1;
                    }
                }
            }
        }
    }
    // (b) long streams, long seeded sequences, chunkings around the 256-byte internal buffer
    let mut rng = Rng(0xD1B54A32D192ED03 ^ seed().wrapping_mul(0x9E3779B97F4A7C15) | 1);
    let big = [
        Op::U8, Op::Peek, Op::U16, Op::U32, Op::U64, Op::U128, Op::Usize, Op::Slice(1), Op::Slice(7), Op::Slice(16),
        Op::Slice(17), Op::Slice(100), Op::Slice(255), Op::Slice(256), Op::Slice(257), Op::Slice(300), Op::Array3,
        Op::Vec(33), Op::Vec(260), Op::ManyU16(9), Op::CheckEor(1), Op::CheckEor(200), Op::CheckEor(1000), Op::HasMore,
    ];
    let rounds = if std::env::var("VERIF_TIER").as_deref() == Ok("thorough") { 60000 } else { 12000 };
    for round in 0..rounds {
        let len = match round % 8 {
            0 => (rng.next() % 40) as usize,
            1 => 255 + (rng.next() % 4) as usize,
            2 => 510 + (rng.next() % 6) as usize,
            _ => (rng.next() % 701) as usize,
        };
        let data = stream(len, rng.next());
        let pat: Vec<usize> = match rng.next() % 8 {
            0 => vec![1],
            1 => vec![7],
            2 => vec![255],
            3 => vec![256],
            4 => vec![257],
            5 => vec![300],
            6 => vec![16, 1, 240],
            _ => (0..5).map(|_| 1 + (rng.next() % 300) as usize).collect(),
        };
        let ops: Vec<Op> = (0..40).map(|_| big[(rng.next() % big.len() as u64) as usize]).collect();
        if let Err(m) = run_case(&data, &pat, &ops) {
            report(&data, &pat, &ops, m);
        }
        cases += 1;
    }
    println!("NB-RESULT name=read_adapter_equivalence_bounded cases={cases}");
}

// Lengths and counts that no stream can satisfy (they usually come from the input itself): both readers must
// refuse them in the same way - no panic, no allocation driven by the count -, whatever was consumed before, and stay in
// step afterwards.
#[test]
fn read_adapter_hostile_lengths_bounded() {
    let before = [Op::HasMore, Op::U8, Op::Peek, Op::U16, Op::Slice(3), Op::Usize, Op::CheckEor(1), Op::Vec(2)];
    let after = [Op::U8, Op::HasMore, Op::CheckEor(1), Op::Slice(2), Op::ManyU16(1), Op::U64];
    let mut hostile = Vec::new();
    for n in [
        usize::MAX, usize::MAX - 1, usize::MAX - 2, usize::MAX - 3, usize::MAX - 7, usize::MAX - 12, usize::MAX - 300,
        usize::MAX / 2, usize::MAX / 2 + 1, usize::MAX / 4, usize::MAX / 8 + 1, usize::MAX / 16, 1 << 62, 1 << 40,
        1 << 32, (1 << 32) - 1, 1 << 20, 4097, 4096, 2049, 2048,
    ] {
        hostile.extend([Op::Slice(n), Op::Vec(n), Op::Str(n), Op::ManyU16(n), Op::CheckEor(n)]);
    }
    let patterns: [&[usize]; 6] = [&[1], &[3, 1], &[255], &[256], &[257], &[4096]];
    let mut cases = 0u64;
    for len in [0usize, 1, 2, 3, 4, 5, 8, 9, 12, 13, 255, 256, 257, 300, 700] {
        let data = stream(len, seed() + 77 + len as u64);
        for pat in patterns {
            for &b in &before {
                for &h in &hostile {
                    for &a in &after {
                        let ops = [b, h, a];
                        if let Err(m) = run_case(&data, pat, &ops) {
                            report(&data, pat, &ops, m);
                        }
                        // the same with a second element consumed first (positions > 1)
                        let ops = [b, b, h, a];
                        if let Err(m) = run_case(&data, pat, &ops) {
                            report(&data, pat, &ops, m);
                        }
                        cases += 2;
                    }
                }
            }
        }
    }
    println!("NB-RESULT name=read_adapter_hostile_lengths_bounded cases={cases}");
}
