// Bounded stand-in (native execution of the real code, NOT a proof) for the monotonicity clause of C18 and (last test) the value of the PROVEN
// security estimate: get_proven_security is floating-point code (log2, powf, sqrt over f64) for which CBMC has no faithful
// model - the Kani contract air_proven_security_total_contract decides totality for arbitrary libm results, not values.
// Checked on a grid, for the proven and (redundantly: Kani proves it for all parameters) the conjectured estimate:
// the level does not decrease when the number of queries, the grinding factor, the extension degree or the hash function's
// collision resistance grows, everything else fixed; and the level never exceeds the collision resistance.
// Bound: fields f62 / f64 / f128 x extension degrees 1, 2, 3 (where the field has them) x trace lengths 2^3, 2^8, 2^12, 2^16,
// 2^20 x blowup 2..64 x FRI folding 2, 4, 8, 16 x remainder degree 0, 7, 31 x queries 1..=255 x grinding 0..=32 x collision
// resistance 96 / 128.
use crypto::{
    hashers::{Blake3_192, Blake3_256},
    Hasher,
};
use math::{
    fields::{f128, f62, f64},
    StarkField,
};
use winter_air::{proof::Proof, FieldExtension, ProofOptions, TraceInfo};

fn fail(msg: String) -> ! {
    println!("NB-VIOLATION {msg}");
    panic!("NB-VIOLATION {msg}");
}

fn level<B: StarkField, H: Hasher>(o: &ProofOptions, n: usize, conjectured: bool) -> u32 {
    let mut p = Proof::new_dummy();
    p.context = winter_air::proof::Context::new::<B>(TraceInfo::new(1, n), o.clone());
    p.security_level::<H>(conjectured)
}

fn sweep<B: StarkField>(field: &str, exts: &[FieldExtension], cases: &mut u64) {
    for log_n in [3usize, 8, 12, 16, 20] {
        let n = 1usize << log_n;
        for blowup in [2usize, 4, 8, 16, 64] {
            for folding in [2usize, 4, 8, 16] {
                for rmd in [0usize, 7, 31] {
                    for conjectured in [true, false] {
                        let which = if conjectured { "conjectured" } else { "proven" };
                        let at = |q: usize, g: u32, e: FieldExtension| ProofOptions::new(q, blowup, g, e, folding, rmd);
                        let ctx = |q: usize, g: u32, e: FieldExtension| {
                            format!("{which} estimate, field={field} extension={e:?} trace_len=2^{log_n} blowup={blowup} folding={folding} remainder_max_degree={rmd} queries={q} grinding={g}")
                        };
                        for &e in exts {
                            // queries
                            let mut prev = 0u32;
                            for q in 1..=255usize {
                                let l = level::<B, Blake3_256<B>>(&at(q, 0, e), n, conjectured);
                                *cases += 1;
                                if l < prev {
                                    fail(format!("the level drops from {prev} to {l} when the number of queries grows to {q}: {}", ctx(q, 0, e)));
                                }
                                if l > 128 {
                                    fail(format!("level {l} exceeds the collision resistance 128: {}", ctx(q, 0, e)));
                                }
                                prev = l;
                            }
                            // grinding, at a few query counts
                            for q in [1usize, 20, 50, 100, 255] {
                                let mut prev = 0u32;
                                for g in 0..=32u32 {
                                    let l = level::<B, Blake3_256<B>>(&at(q, g, e), n, conjectured);
                                    *cases += 1;
                                    if l < prev {
                                        fail(format!("the level drops from {prev} to {l} when the grinding factor grows to {g}: {}", ctx(q, g, e)));
                                    }
                                    prev = l;
                                }
                                // collision resistance 96 -> 128
                                for g in [0u32, 16] {
                                    let (lo, hi) = (level::<B, Blake3_192<B>>(&at(q, g, e), n, conjectured), level::<B, Blake3_256<B>>(&at(q, g, e), n, conjectured));
                                    *cases += 1;
                                    if hi < lo || lo > 96 {
                                        fail(format!("collision resistance 96 gives level {lo}, 128 gives {hi}: {}", ctx(q, g, e)));
                                    }
                                }
                            }
                        }
                        // extension degree
                        for q in [1usize, 20, 50, 100, 255] {
                            for g in [0u32, 16] {
                                let mut prev = 0u32;
                                for &e in exts {
                                    let l = level::<B, Blake3_256<B>>(&at(q, g, e), n, conjectured);
                                    *cases += 1;
                                    if l < prev {
                                        fail(format!("the level drops from {prev} to {l} when the extension degree grows: {}", ctx(q, g, e)));
                                    }
                                    prev = l;
                                }
                            }
                        }
                    }
                }
            }
        }
    }
}

#[test]
fn security_monotone_bounded() {
    let mut cases = 0u64;
    let all = [FieldExtension::None, FieldExtension::Quadratic, FieldExtension::Cubic];
    sweep::<f62::BaseElement>("f62", &all, &mut cases);
    sweep::<f64::BaseElement>("f64", &all, &mut cases);
    sweep::<f128::BaseElement>("f128", &all[..2], &mut cases);
    println!("NB-RESULT name=security_monotone_bounded cases={cases}");
}

// The collision-resistance figure every estimate is capped by: for each hasher it is half the entropy of its digest in bits
// (the birthday bound) - 32-byte digests: 128, the 24-byte Blake3_192 digest: 96, four field elements of a Rescue digest:
// 4 * (bits of the modulus) / 2, i.e. 128 over the 64-bit field and 124 over the 62-bit field.
#[test]
fn collision_resistance_constants_bounded() {
    use crypto::hashers::{Rp62_248, Rp64_256, RpJive64_256, Sha3_256};
    let mut cases = 0u64;
    let mut check = |name: &str, got: u32, want: u32| {
        cases += 1;
        if got != want {
            fail(format!("{name}::COLLISION_RESISTANCE is {got}, the birthday bound of its digest is {want}"));
        }
    };
    check("Blake3_256", <Blake3_256<f64::BaseElement> as Hasher>::COLLISION_RESISTANCE, 32 * 8 / 2);
    check("Blake3_256 (f128)", <Blake3_256<f128::BaseElement> as Hasher>::COLLISION_RESISTANCE, 32 * 8 / 2);
    check("Blake3_192", <Blake3_192<f64::BaseElement> as Hasher>::COLLISION_RESISTANCE, 24 * 8 / 2);
    check("Blake3_192 (f62)", <Blake3_192<f62::BaseElement> as Hasher>::COLLISION_RESISTANCE, 24 * 8 / 2);
    check("Sha3_256", <Sha3_256<f64::BaseElement> as Hasher>::COLLISION_RESISTANCE, 32 * 8 / 2);
    check("Rp64_256", <Rp64_256 as Hasher>::COLLISION_RESISTANCE, 4 * <f64::BaseElement as StarkField>::MODULUS_BITS / 2);
    check("RpJive64_256", <RpJive64_256 as Hasher>::COLLISION_RESISTANCE, 4 * <f64::BaseElement as StarkField>::MODULUS_BITS / 2);
    check("Rp62_248", <Rp62_248 as Hasher>::COLLISION_RESISTANCE, 4 * <f62::BaseElement as StarkField>::MODULUS_BITS / 2);
    println!("NB-RESULT name=collision_resistance_constants_bounded cases={cases}");
}

// ProofOptions::new accepts exactly the documented parameter ranges (1..=255 queries, blowup a power of two in 2..=128, grinding
// <= 32, FRI folding factor in {2, 4, 8, 16}, FRI remainder degree one less than a power of two and <= 255) and refuses - panics,
// as documented - everything else; what it accepts is stored unchanged (the fields are bytes: a looser bound would wrap).
#[test]
fn proof_options_constructor_bounded() {
    std::panic::set_hook(Box::new(|_| {}));
    let mut cases = 0u64;
    let qs = [0usize, 1, 2, 128, 254, 255, 256, 257, 511, 512];
    let bs = [0usize, 1, 2, 3, 4, 6, 8, 64, 127, 128, 129, 256, 512];
    let gs = [0u32, 1, 31, 32, 33, 64, 255, 256];
    let fs = [0usize, 1, 2, 3, 4, 6, 8, 16, 17, 32, 256];
    let rs = [0usize, 1, 2, 3, 5, 7, 127, 254, 255, 256, 511];
    for &q in &qs {
        for &b in &bs {
            for &g in &gs {
                for &ff in &fs {
                    for &r in &rs {
                        cases += 1;
                        let valid = (1..=255).contains(&q) && b.is_power_of_two() && (2..=128).contains(&b) && g <= 32
                            && [2usize, 4, 8, 16].contains(&ff) && (r + 1).is_power_of_two() && r <= 255;
                        match std::panic::catch_unwind(|| ProofOptions::new(q, b, g, FieldExtension::None, ff, r)) {
                            Ok(o) => {
                                if !valid {
                                    fail(format!("ProofOptions::new({q}, {b}, {g}, _, {ff}, {r}) is accepted"));
                                }
                                let fo = o.to_fri_options();
                                if o.num_queries() != q || o.blowup_factor() != b || o.grinding_factor() != g || fo.folding_factor() != ff
                                    || fo.remainder_max_degree() != r || fo.blowup_factor() != b
                                {
                                    fail(format!("ProofOptions::new({q}, {b}, {g}, _, {ff}, {r}) stores other values: {o:?}"));
                                }
                            },
                            Err(_) => {
                                if valid {
                                    fail(format!("ProofOptions::new({q}, {b}, {g}, _, {ff}, {r}) is refused"));
                                }
                            },
                        }
                    }
                }
            }
        }
    }
    println!("NB-RESULT name=proof_options_constructor_bounded cases={cases}");
}

// ------------------------------------------------------------------------------------------------
// The proven estimate against the documented formula (Theorem 8 / eq. 7 of eprint 2022/1216 as laid out in the comments of
// air/src/proof/mod.rs), written here independently with the same floating-point operations in the same order (the test build
// uses the std implementations of sqrt / log2 / powf / ceil, as the crate does), so that the comparison is exact:
//   for a proximity parameter m: rho = 1 / blowup, alpha = (1 + 1/2m) sqrt(rho), rho+ = (n + 2) / (n * blowup),
//   m+ = ceil(1 / (2 (alpha / sqrt(rho+) - 1))), theta+ = 1 - (1 + 1/2m+) sqrt(rho+),
//   FRI commit bits = |F| - log2(0.5 (m + 0.5)^7 / rho^1.5 * (n blowup)^2), FRI query bits = grinding - log2((1 - theta+)^queries),
//   FRI bits = min(commit, query) - 1; L+ = (2 m+ + 1) / (2 sqrt(rho+)); ALI bits = |F| - log2(L+);
//   DEEP bits = |F| - log2(L+ ((blowup + 1)(n + 1) + (n - 1))); bits(m) = min(FRI, ALI, DEEP) - 1 (0 when below 1, every
//   term truncated to an integer before the minimum is taken);
//   the estimate is bits(m*) capped by the collision resistance, m* the best m in 3 <= m < m_max - the upper end EXCLUDED, the
//   theorem does not cover it - with m_max = min(ceil(n/4 (1 + sqrt(1 + 2/n))), 1000); of equally good m the largest.
// Bound: fields f62 / f64 / f128 x extension degrees x trace lengths 2^3 .. 2^7, 2^10, 2^16, 2^20 x blowup 2 .. 64 x queries
// 1 .. 255 (step 1 below 40, then 7) x grinding 0, 10, 32 x collision resistance 96 / 128.
fn ref_bits_for_m(ext_bits: f64, queries: f64, grinding: f64, blowup: f64, n: f64, m: f64) -> u64 {
    let rho = 1.0 / blowup;
    let alpha = (1.0 + 0.5 / m) * rho.sqrt();
    let max_deg = blowup + 1.0;
    let lde = n * blowup;
    let num_openings = 2.0;
    let rho_plus = (n + num_openings) / lde;
    let m_plus = (1.0 / (2.0 * (alpha / rho_plus.sqrt() - 1.0))).ceil();
    let alpha_plus = (1.0 + 0.5 / m_plus) * rho_plus.sqrt();
    let theta_plus = 1.0 - alpha_plus;
    let fri_commit = ext_bits - ((0.5 * (m + 0.5).powf(7.0) / rho.powf(1.5)) * lde.powf(2.0)).log2();
    let fri_query = grinding - (1.0 - theta_plus).powf(queries).log2();
    let fri = core::cmp::min(fri_commit as u64, fri_query as u64);
    if fri < 1 {
        return 0;
    }
    let fri = fri - 1;
    let l_plus = (2.0 * m_plus + 1.0) / (2.0 * rho_plus.sqrt());
    let ali = -l_plus.log2() + ext_bits;
    let deep = -(l_plus * (max_deg * (n + num_openings - 1.0) + (n - 1.0))).log2() + ext_bits;
    let least = core::cmp::min(core::cmp::min(fri, ali as u64), deep as u64);
    if least < 1 {
        0
    } else {
        least - 1
    }
}

fn ref_proven(ext_bits: f64, queries: usize, grinding: u32, blowup: usize, n: usize, cr: u32) -> u32 {
    let h = n as f64;
    let m_max = core::cmp::min((0.25 * h * (1.0 + (1.0 + 2.0 / h).sqrt())).ceil() as u64, 1000);
    let (mut best, mut best_bits) = (0u64, 0u64);
    for m in 3..m_max {
        let bits = ref_bits_for_m(ext_bits, queries as f64, grinding as f64, blowup as f64, n as f64, m as f64);
        if m == 3 || bits >= best_bits {
            best = m;
            best_bits = bits;
        }
    }
    let _ = best;
    core::cmp::min(best_bits, cr as u64) as u32
}

fn formula_sweep<B: StarkField>(field: &str, exts: &[FieldExtension], cases: &mut u64) {
    for log_n in [3usize, 4, 5, 6, 7, 10, 16, 20] {
        let n = 1usize << log_n;
        for blowup in [2usize, 4, 8, 16, 64] {
            for &e in exts {
                let ext_bits = (B::MODULUS_BITS * e.degree()) as f64;
                for q in (1..40usize).chain((40..=255).step_by(7)) {
                    for g in [0u32, 10, 32] {
                        let o = ProofOptions::new(q, blowup, g, e, 4, 7);
                        *cases += 2;
                        let got = level::<B, Blake3_256<B>>(&o, n, false);
                        let want = ref_proven(ext_bits, q, g, blowup, n, 128);
                        let got96 = level::<B, Blake3_192<B>>(&o, n, false);
                        let want96 = ref_proven(ext_bits, q, g, blowup, n, 96);
                        if got != want || got96 != want96 {
                            fail(format!(
                                "the proven estimate is {got} (collision resistance 128) / {got96} (96) but the documented formula gives {want} / {want96}: field={field} extension={e:?} trace_len=2^{log_n} blowup={blowup} queries={q} grinding={g}"
                            ));
                        }
                    }
                }
            }
        }
    }
}

#[test]
fn proven_security_formula_bounded() {
    let mut cases = 0u64;
    let all = [FieldExtension::None, FieldExtension::Quadratic, FieldExtension::Cubic];
    formula_sweep::<f62::BaseElement>("f62", &all, &mut cases);
    formula_sweep::<f64::BaseElement>("f64", &all, &mut cases);
    formula_sweep::<f128::BaseElement>("f128", &all[..2], &mut cases);
    println!("NB-RESULT name=proven_security_formula_bounded cases={cases}");
}
