// Bounded stand-in (native execution of the real code, NOT a proof) for the whole-pipeline statements of
// C04 / C12 / C03 / C06 on the protocol paths that the example computations never reach: a multi-segment
// trace WITH a Lagrange-kernel column (GKR randomness drawn between the main-trace commitment and the
// auxiliary random elements), over the 64-bit field with no / quadratic / cubic extension, with a
// public input that is absorbed into the transcript, for two hash functions (Blake3_256, Rp64_256).
// Prover and verifier derive the same challenges iff every honest proof of the grid is accepted (C04).
// Bound: the grid in `grid()`; bit flips / byte extremes / truncations on the first configurations.
use std::panic::{catch_unwind, AssertUnwindSafe};

use air::LagrangeKernelRandElements;
use winterfell::{
    crypto::{
        hashers::{Blake3_256, Rp64_256},
        DefaultRandomCoin, ElementHasher, RandomCoin,
    },
    math::{fields::f64::BaseElement, ExtensionOf, FieldElement, ToElements},
    matrix::ColMatrix,
    verify, AcceptableOptions, Air, AirContext, Assertion, AuxRandElements,
    ConstraintCompositionCoefficients, DefaultConstraintEvaluator, DefaultTraceLde, EvaluationFrame,
    FieldExtension, GkrVerifier, Proof, ProofOptions, Prover, ProverGkrProof, StarkDomain, Trace,
    TraceInfo, TracePolyTable, TransitionConstraintDegree, VerifierError,
};

fn seed() -> u64 {
    std::env::var("VERIF_SEED").ok().and_then(|s| s.parse().ok()).unwrap_or(0)
}

fn thorough() -> bool {
    std::env::var("VERIF_TIER").as_deref() == Ok("thorough")
}

static LAST_PANIC: std::sync::Mutex<String> = std::sync::Mutex::new(String::new());

fn last_panic() -> String {
    LAST_PANIC.lock().unwrap().clone()
}

fn fail(msg: String) -> ! {
    println!("NB-VIOLATION {msg}");
    panic!("NB-VIOLATION {msg}");
}

// PUBLIC INPUTS: first value of the main column
// =================================================================================================
#[derive(Clone, Copy, Debug)]
struct Start(BaseElement);

impl ToElements<BaseElement> for Start {
    fn to_elements(&self) -> Vec<BaseElement> {
        vec![self.0]
    }
}

// TRACE: one main column start, start + 1, ...; aux column 0 = (sum of aux rands) * (main - start);
// aux column 1 = the Lagrange kernel column
// =================================================================================================
#[derive(Clone, Debug)]
struct LagrangeTrace {
    main_trace: ColMatrix<BaseElement>,
    info: TraceInfo,
}

impl LagrangeTrace {
    fn new(trace_len: usize, num_aux_rands: usize, start: u32) -> Self {
        let col: Vec<BaseElement> = (0..trace_len).map(|i| BaseElement::from(start) + BaseElement::from(i as u32)).collect();
        Self {
            main_trace: ColMatrix::new(vec![col]),
            info: TraceInfo::new_multi_segment(1, 2, num_aux_rands, trace_len, vec![num_aux_rands as u8]),
        }
    }
}

impl Trace for LagrangeTrace {
    type BaseField = BaseElement;

    fn info(&self) -> &TraceInfo {
        &self.info
    }

    fn main_segment(&self) -> &ColMatrix<Self::BaseField> {
        &self.main_trace
    }

    fn read_main_frame(&self, row_idx: usize, frame: &mut EvaluationFrame<Self::BaseField>) {
        let next = (row_idx + 1) % self.main_trace.num_rows();
        self.main_trace.read_row_into(row_idx, frame.current_mut());
        self.main_trace.read_row_into(next, frame.next_mut());
    }
}

// AIR
// =================================================================================================
#[derive(Debug, Clone, Default)]
struct CountingGkrVerifier {
    log_trace_len: usize,
}

impl GkrVerifier for CountingGkrVerifier {
    // the "GKR proof" is log2(trace length): the number of Lagrange-kernel random elements to draw
    type GkrProof = usize;
    type Error = VerifierError;

    fn verify<E, Hasher>(
        &self,
        gkr_proof: usize,
        public_coin: &mut impl RandomCoin<BaseField = E::BaseField, Hasher = Hasher>,
    ) -> Result<LagrangeKernelRandElements<E>, Self::Error>
    where
        E: FieldElement,
        Hasher: ElementHasher<BaseField = E::BaseField>,
    {
        // (a GKR verifier must hand back exactly log2(trace length) elements; this one checks its proof for that)
        if gkr_proof != self.log_trace_len {
            return Err(VerifierError::ProofDeserializationError("GKR proof does not match the trace length".into()));
        }
        let mut r = Vec::with_capacity(gkr_proof);
        for _ in 0..gkr_proof {
            r.push(public_coin.draw().map_err(|_| VerifierError::RandomCoinError)?);
        }
        Ok(LagrangeKernelRandElements::new(r))
    }
}

struct LagrangeAir {
    context: AirContext<BaseElement>,
    start: BaseElement,
}

impl Air for LagrangeAir {
    type BaseField = BaseElement;
    type GkrProof = usize;
    type GkrVerifier = CountingGkrVerifier;
    type PublicInputs = Start;

    fn new(trace_info: TraceInfo, pub_inputs: Start, options: ProofOptions) -> Self {
        // like the example AIRs, this AIR refuses trace shapes other than its own by asserting (user code:
        // such refusals of a damaged proof are counted separately, they are not library panics)
        assert!(
            trace_info.is_multi_segment() && trace_info.main_trace_width() == 1 && trace_info.get_aux_segment_width() == 2,
            "unexpected trace shape"
        );
        Self {
            context: AirContext::new_multi_segment(
                trace_info,
                vec![TransitionConstraintDegree::new(1)],
                vec![TransitionConstraintDegree::new(1)],
                1,
                1,
                Some(1),
                options,
            ),
            start: pub_inputs.0,
        }
    }

    fn context(&self) -> &AirContext<Self::BaseField> {
        &self.context
    }

    fn evaluate_transition<E: FieldElement<BaseField = Self::BaseField>>(
        &self,
        frame: &EvaluationFrame<E>,
        _periodic_values: &[E],
        result: &mut [E],
    ) {
        result[0] = frame.next()[0] - frame.current()[0] - E::ONE;
    }

    fn get_assertions(&self) -> Vec<Assertion<Self::BaseField>> {
        vec![Assertion::single(0, 0, self.start)]
    }

    fn evaluate_aux_transition<F, E>(
        &self,
        _main_frame: &EvaluationFrame<F>,
        aux_frame: &EvaluationFrame<E>,
        _periodic_values: &[F],
        aux_rand_elements: &[E],
        result: &mut [E],
    ) where
        F: FieldElement<BaseField = Self::BaseField>,
        E: FieldElement<BaseField = Self::BaseField> + ExtensionOf<F>,
    {
        let step = aux_rand_elements.iter().fold(E::ZERO, |a, &b| a + b);
        result[0] = aux_frame.next()[0] - aux_frame.current()[0] - step;
    }

    fn get_aux_assertions<E: FieldElement<BaseField = Self::BaseField>>(&self, _aux_rand_elements: &[E]) -> Vec<Assertion<E>> {
        vec![Assertion::single(0, 0, E::ZERO)]
    }

    fn get_auxiliary_proof_verifier<E: FieldElement<BaseField = Self::BaseField>>(&self) -> Self::GkrVerifier {
        CountingGkrVerifier { log_trace_len: self.context.trace_info().length().ilog2() as usize }
    }
}

// PROVER
// =================================================================================================
struct LagrangeProver<H: ElementHasher<BaseField = BaseElement>> {
    options: ProofOptions,
    _h: core::marker::PhantomData<H>,
}

impl<H: ElementHasher<BaseField = BaseElement> + Sync> Prover for LagrangeProver<H> {
    type BaseField = BaseElement;
    type Air = LagrangeAir;
    type Trace = LagrangeTrace;
    type HashFn = H;
    type RandomCoin = DefaultRandomCoin<H>;
    type TraceLde<E: FieldElement<BaseField = BaseElement>> = DefaultTraceLde<E, H>;
    type ConstraintEvaluator<'a, E: FieldElement<BaseField = BaseElement>> = DefaultConstraintEvaluator<'a, LagrangeAir, E>;

    fn get_pub_inputs(&self, trace: &Self::Trace) -> Start {
        Start(trace.main_segment().get(0, 0))
    }

    fn options(&self) -> &ProofOptions {
        &self.options
    }

    fn new_trace_lde<E>(
        &self,
        trace_info: &TraceInfo,
        main_trace: &ColMatrix<Self::BaseField>,
        domain: &StarkDomain<Self::BaseField>,
    ) -> (Self::TraceLde<E>, TracePolyTable<E>)
    where
        E: FieldElement<BaseField = Self::BaseField>,
    {
        DefaultTraceLde::new(trace_info, main_trace, domain)
    }

    fn new_evaluator<'a, E>(
        &self,
        air: &'a Self::Air,
        aux_rand_elements: Option<AuxRandElements<E>>,
        composition_coefficients: ConstraintCompositionCoefficients<E>,
    ) -> Self::ConstraintEvaluator<'a, E>
    where
        E: FieldElement<BaseField = Self::BaseField>,
    {
        DefaultConstraintEvaluator::new(air, aux_rand_elements, composition_coefficients)
    }

    fn generate_gkr_proof<E>(
        &self,
        main_trace: &Self::Trace,
        public_coin: &mut Self::RandomCoin,
    ) -> (ProverGkrProof<Self>, LagrangeKernelRandElements<E>)
    where
        E: FieldElement<BaseField = Self::BaseField>,
    {
        let log_n = main_trace.main_segment().num_rows().ilog2() as usize;
        let mut r = Vec::with_capacity(log_n);
        for _ in 0..log_n {
            r.push(public_coin.draw().unwrap());
        }
        (log_n, LagrangeKernelRandElements::new(r))
    }

    fn build_aux_trace<E>(&self, main_trace: &Self::Trace, aux_rand_elements: &AuxRandElements<E>) -> ColMatrix<E>
    where
        E: FieldElement<BaseField = Self::BaseField>,
    {
        let main = main_trace.main_segment();
        let step = aux_rand_elements.rand_elements().iter().fold(E::ZERO, |a, &b| a + b);
        let r = aux_rand_elements.lagrange().expect("lagrange random elements");
        let start = main.get(0, 0);
        let aux_col: Vec<E> = main.get_column(0).iter().map(|&v| step.mul_base(v - start)).collect();
        let mut lagrange_col = Vec::with_capacity(main.num_rows());
        for row in 0..main.num_rows() {
            let mut v = E::ONE;
            for (bit, &r_i) in r.iter().enumerate() {
                v *= if row & (1 << bit) == 0 { E::ONE - r_i } else { r_i };
            }
            lagrange_col.push(v);
        }
        ColMatrix::new(vec![aux_col, lagrange_col])
    }
}

// GRID
// =================================================================================================
fn grid() -> Vec<(usize, usize, ProofOptions)> {
    let mut v = Vec::new();
    for ext in [FieldExtension::None, FieldExtension::Quadratic, FieldExtension::Cubic] {
        for (trace_len, folding, rmd) in [(8usize, 2usize, 1usize), (16, 4, 3), (64, 2, 0), (128, 8, 7), (32, 16, 31)] {
            for num_aux_rands in [1usize, 2, 3] {
                for (queries, blowup, grinding) in [(4usize, 4usize, 0u32), (13, 8, 5)] {
                    v.push((trace_len, num_aux_rands, ProofOptions::new(queries, blowup, grinding, ext, folding, rmd)));
                }
            }
        }
    }
    v
}

fn verify_as<H: ElementHasher<BaseField = BaseElement>>(proof: Proof, start: u32) -> Result<(), VerifierError> {
    verify::<LagrangeAir, H, DefaultRandomCoin<H>>(proof, Start(BaseElement::from(start)), &AcceptableOptions::MinConjecturedSecurity(0))
}

struct Counts {
    proofs: u64,
    damaged: u64,
    air_refusals: u64,
}

fn run_hasher<H: ElementHasher<BaseField = BaseElement> + Sync>(tag: &str, damage_first: usize, c: &mut Counts) {
    for (ci, (trace_len, num_aux_rands, o)) in grid().into_iter().enumerate() {
        let what = format!("hasher={tag} trace_len={trace_len} aux_rands={num_aux_rands} options={o:?}");
        let start = 3 + (seed() as u32 % 1000) + ci as u32;
        let prover = LagrangeProver::<H> { options: o.clone(), _h: core::marker::PhantomData };
        let proof = match catch_unwind(AssertUnwindSafe(|| prover.prove(LagrangeTrace::new(trace_len, num_aux_rands, start)))) {
            Ok(Ok(p)) => p,
            Ok(Err(e)) => fail(format!("prover refused a valid execution ({e}): {what}")),
            Err(_) => fail(format!("prover panicked on a valid execution at {}: {what}", last_panic())),
        };
        c.proofs += 1;
        let bytes = proof.to_bytes();
        let back = match Proof::from_bytes(&bytes) {
            Ok(p) => p,
            Err(e) => fail(format!("an honest proof does not parse back ({e}): {what}")),
        };
        if back != proof || back.to_bytes() != bytes {
            fail(format!("proof changed by a serialization round trip: {what}"));
        }
        match catch_unwind(AssertUnwindSafe(|| verify_as::<H>(back, start))) {
            Ok(Ok(())) => {},
            Ok(Err(e)) => fail(format!("honest proof rejected ({e}): {what}")),
            Err(_) => fail(format!("verifier panicked on an honest proof at {}: {what}", last_panic())),
        }
        match catch_unwind(AssertUnwindSafe(|| verify_as::<H>(Proof::from_bytes(&bytes).unwrap(), start + 1))) {
            Ok(Ok(())) => fail(format!("proof accepted for a different public input: {what}")),
            Ok(Err(_)) => {},
            Err(_) => fail(format!("verifier panicked on a wrong public input at {}: {what}", last_panic())),
        }

        if ci >= damage_first || trace_len > 16 {
            continue;
        }
        let check = |b: &[u8], desc: String, at: usize, c: &mut Counts| {
            c.damaged += 1;
            match catch_unwind(AssertUnwindSafe(|| match Proof::from_bytes(b) {
                Ok(p) => verify_as::<H>(p, start).is_ok(),
                Err(_) => false,
            })) {
                Ok(false) => {},
                // (the FRI partition count, 10 bytes from the end, is layout-only metadata)
                Ok(true) if at == bytes.len() - 10 => {},
                Ok(true) => fail(format!("proof with {desc} is accepted: {what}")),
                Err(_) if last_panic().contains("tests/verif_") => c.air_refusals += 1,
                Err(_) => fail(format!("parsing/verifying a proof with {desc} panicked at {}: {what}", last_panic())),
            }
        };
        let step = if thorough() { 1 } else { 5 };
        let mut bit = (seed() as usize) % step;
        while bit < bytes.len() * 8 {
            let mut b = bytes.clone();
            b[bit / 8] ^= 1 << (bit % 8);
            check(&b, format!("bit {bit} (byte {} of {}) flipped", bit / 8, bytes.len()), bit / 8, c);
            bit += step;
        }
        let bstep = if thorough() { 1 } else { 3 };
        let mut idx = 0usize;
        while idx < bytes.len() {
            for val in [0u8, 1, 0x7f, 0x80, 0xff] {
                if bytes[idx] != val {
                    let mut b = bytes.clone();
                    b[idx] = val;
                    check(&b, format!("byte {idx} of {} set to {val}", bytes.len()), idx, c);
                }
            }
            let cut = &bytes[..idx];
            c.damaged += 1;
            match catch_unwind(AssertUnwindSafe(|| Proof::from_bytes(cut).is_ok())) {
                Ok(false) => {},
                Ok(true) => fail(format!("proof truncated to {idx} of {} bytes parses: {what}", bytes.len())),
                Err(_) => fail(format!("parsing a proof truncated to {idx} bytes panicked at {}: {what}", last_panic())),
            }
            idx += if idx < 64 { 1 } else { bstep };
        }
    }
}

#[test]
fn lagrange_pipeline_bounded() {
    std::panic::set_hook(Box::new(|info| {
        let loc = info.location().map(|l| format!("{}:{}", l.file(), l.line())).unwrap_or_default();
        *LAST_PANIC.lock().unwrap() = loc;
    }));
    let mut c = Counts { proofs: 0, damaged: 0, air_refusals: 0 };
    run_hasher::<Blake3_256<BaseElement>>("blake3_256", 8, &mut c);
    run_hasher::<Rp64_256>("rp64_256", 2, &mut c);
    println!("NB-RESULT name=lagrange_pipeline_bounded proofs={} damaged_proofs={} refused_by_test_air={}", c.proofs, c.damaged, c.air_refusals);
}
