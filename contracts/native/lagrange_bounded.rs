// Bounded stand-in (native execution of the real code, NOT a proof) for the whole-pipeline statements of
// C04 / C12 / C03 / C06 on the protocol paths that the example computations never reach: a multi-segment
// trace WITH a Lagrange-kernel column (GKR randomness drawn between the main-trace commitment and the
// auxiliary random elements), over the 64-bit field with no / quadratic / cubic extension, with a
// public input that is absorbed into the transcript, for two hash functions (Blake3_256, Rp64_256).
// The same test AIR also runs single-segment and multi-segment-without-Lagrange shapes. The coin handed to the
// real prover and the real verifier is a recording wrapper around DefaultRandomCoin: for every honest proof
// the recorded sequence of coin operations of BOTH sides is compared with the order the protocol requires
// (C04: seed = context || public inputs; each commitment / OOD message absorbed exactly once, the absorbed
// value being the one carried in the proof, before the challenges that follow it; identical challenge values
// on both sides) - so a reordering or omission made consistently on both sides is seen too.
// Bound: the grid in `grid()`; bit flips / byte extremes / truncations on the first configurations.
use std::panic::{catch_unwind, AssertUnwindSafe};

use air::LagrangeKernelRandElements;
use winterfell::{
    crypto::{
        hashers::{Blake3_256, Rp64_256},
        DefaultRandomCoin, Digest, ElementHasher, Hasher, RandomCoin, RandomCoinError,
    },
    math::{
        fields::{f64::BaseElement, CubeExtension, QuadExtension},
        ExtensionOf, FieldElement, ToElements,
    },
    matrix::ColMatrix,
    verify, AcceptableOptions, Air, AirContext, Assertion, AuxRandElements,
    ConstraintCompositionCoefficients, DefaultConstraintEvaluator, DefaultTraceLde, EvaluationFrame,
    FieldExtension, GkrVerifier, Proof, ProofOptions, Prover, ProverGkrProof, Serializable, StarkDomain,
    Trace, TraceInfo, TracePolyTable, TransitionConstraintDegree, VerifierError,
};

fn seed() -> u64 {
    std::env::var("VERIF_SEED").ok().and_then(|s| s.parse().ok()).unwrap_or(0)
}

fn thorough() -> bool {
    std::env::var("VERIF_TIER").as_deref() == Ok("thorough")
}

static LAST_PANIC: std::sync::Mutex<String> = std::sync::Mutex::new(String::new());

fn last_panic() -> String {
    LAST_PANIC.lock().unwrap().clone()
}

fn fail(msg: String) -> ! {
    println!("NB-VIOLATION {msg}");
    panic!("NB-VIOLATION {msg}");
}

// RECORDING COIN
// =================================================================================================
#[derive(Clone, Debug, PartialEq, Eq)]
enum Op {
    New(Vec<u8>),
    Reseed(Vec<u8>),
    Draw(Vec<u8>),
    Clz(u64, u32),
    DrawInts(usize, usize, u64, Vec<usize>),
}

static LOG: std::sync::Mutex<Vec<Op>> = std::sync::Mutex::new(Vec::new());

fn take_log() -> Vec<Op> {
    std::mem::take(&mut *LOG.lock().unwrap())
}

fn record(op: Op) {
    let mut log = LOG.lock().unwrap();
    if log.len() < 1 << 20 {
        log.push(op);
    }
}

struct RecCoin<H: ElementHasher<BaseField = BaseElement>>(DefaultRandomCoin<H>);

impl<H: ElementHasher<BaseField = BaseElement> + Sync> RandomCoin for RecCoin<H> {
    type BaseField = BaseElement;
    type Hasher = H;

    fn new(seed: &[BaseElement]) -> Self {
        record(Op::New(seed.to_vec().to_bytes()));
        Self(DefaultRandomCoin::new(seed))
    }

    fn reseed(&mut self, data: H::Digest) {
        record(Op::Reseed(data.as_bytes().to_vec()));
        self.0.reseed(data)
    }

    fn check_leading_zeros(&self, value: u64) -> u32 {
        let r = self.0.check_leading_zeros(value);
        record(Op::Clz(value, r));
        r
    }

    fn draw<E: FieldElement<BaseField = BaseElement>>(&mut self) -> Result<E, RandomCoinError> {
        let r = self.0.draw::<E>()?;
        record(Op::Draw(r.to_bytes()));
        Ok(r)
    }

    fn draw_integers(&mut self, num_values: usize, domain_size: usize, nonce: u64) -> Result<Vec<usize>, RandomCoinError> {
        let r = self.0.draw_integers(num_values, domain_size, nonce)?;
        record(Op::DrawInts(num_values, domain_size, nonce, r.clone()));
        Ok(r)
    }
}

/// A coin for a *malicious prover*: the same algorithm as DefaultRandomCoin written out over the public hasher
/// API, without draw_integers' argument assertions - so that proofs can be produced for option sets the honest
/// prover panics on (number of queries >= LDE domain size). The verifier under test uses the real coin.
struct LenientCoin<H: ElementHasher<BaseField = BaseElement>> {
    seed: H::Digest,
    counter: u64,
}

impl<H: ElementHasher<BaseField = BaseElement>> LenientCoin<H> {
    fn next(&mut self) -> H::Digest {
        self.counter += 1;
        H::merge_with_int(self.seed, self.counter)
    }
}

impl<H: ElementHasher<BaseField = BaseElement> + Sync> RandomCoin for LenientCoin<H> {
    type BaseField = BaseElement;
    type Hasher = H;

    fn new(seed: &[BaseElement]) -> Self {
        Self { seed: H::hash_elements(seed), counter: 0 }
    }

    fn reseed(&mut self, data: H::Digest) {
        self.seed = H::merge(&[self.seed, data]);
        self.counter = 0;
    }

    fn check_leading_zeros(&self, value: u64) -> u32 {
        let bytes = H::merge_with_int(self.seed, value).as_bytes();
        u64::from_le_bytes(bytes[..8].try_into().unwrap()).trailing_zeros()
    }

    fn draw<E: FieldElement<BaseField = BaseElement>>(&mut self) -> Result<E, RandomCoinError> {
        for _ in 0..1000 {
            let value = self.next();
            if let Some(e) = E::from_random_bytes(&value.as_bytes()[..E::ELEMENT_BYTES]) {
                return Ok(e);
            }
        }
        Err(RandomCoinError::FailedToDrawFieldElement(1000))
    }

    fn draw_integers(&mut self, num_values: usize, domain_size: usize, nonce: u64) -> Result<Vec<usize>, RandomCoinError> {
        self.seed = H::merge_with_int(self.seed, nonce);
        self.counter = 0;
        let mask = (domain_size - 1) as u64;
        let mut values = Vec::new();
        while values.len() < num_values.min(1000) {
            let bytes: [u8; 8] = self.next().as_bytes()[..8].try_into().unwrap();
            values.push((u64::from_le_bytes(bytes) & mask) as usize);
        }
        Ok(values)
    }
}

// PUBLIC INPUTS: first value of the main column
// =================================================================================================
#[derive(Clone, Copy, Debug)]
struct Start(BaseElement);

impl ToElements<BaseElement> for Start {
    fn to_elements(&self) -> Vec<BaseElement> {
        vec![self.0]
    }
}

// TRACE: one main column start, start + 1, ...; aux column 0 = (sum of aux rands) * (main - start);
// last aux column (shape Lagrange) = the Lagrange kernel column
// =================================================================================================
#[derive(Clone, Copy, Debug, PartialEq, Eq)]
enum Shape {
    Single,
    Aux,
    Lagrange,
}

impl Shape {
    fn aux_width(self) -> usize {
        match self {
            Shape::Single => 0,
            Shape::Aux => 1,
            Shape::Lagrange => 2,
        }
    }
}

#[derive(Clone, Debug)]
struct TestTrace {
    main_trace: ColMatrix<BaseElement>,
    info: TraceInfo,
}

impl TestTrace {
    fn new(shape: Shape, trace_len: usize, num_aux_rands: usize, start: u32) -> Self {
        let col: Vec<BaseElement> = (0..trace_len).map(|i| BaseElement::from(start) + BaseElement::from(i as u32)).collect();
        let info = match shape {
            Shape::Single => TraceInfo::with_meta(1, trace_len, vec![7]),
            _ => TraceInfo::new_multi_segment(1, shape.aux_width(), num_aux_rands, trace_len, vec![num_aux_rands as u8]),
        };
        Self { main_trace: ColMatrix::new(vec![col]), info }
    }
}

impl Trace for TestTrace {
    type BaseField = BaseElement;

    fn info(&self) -> &TraceInfo {
        &self.info
    }

    fn main_segment(&self) -> &ColMatrix<Self::BaseField> {
        &self.main_trace
    }

    fn read_main_frame(&self, row_idx: usize, frame: &mut EvaluationFrame<Self::BaseField>) {
        let next = (row_idx + 1) % self.main_trace.num_rows();
        self.main_trace.read_row_into(row_idx, frame.current_mut());
        self.main_trace.read_row_into(next, frame.next_mut());
    }
}

// AIR
// =================================================================================================
#[derive(Debug, Clone, Default)]
struct CountingGkrVerifier {
    log_trace_len: usize,
}

impl GkrVerifier for CountingGkrVerifier {
    // the "GKR proof" is log2(trace length): the number of Lagrange-kernel random elements to draw
    type GkrProof = usize;
    type Error = VerifierError;

    fn verify<E, Hasher>(
        &self,
        gkr_proof: usize,
        public_coin: &mut impl RandomCoin<BaseField = E::BaseField, Hasher = Hasher>,
    ) -> Result<LagrangeKernelRandElements<E>, Self::Error>
    where
        E: FieldElement,
        Hasher: ElementHasher<BaseField = E::BaseField>,
    {
        // (a GKR verifier must hand back exactly log2(trace length) elements; this one checks its proof for that)
        if gkr_proof != self.log_trace_len {
            return Err(VerifierError::ProofDeserializationError("GKR proof does not match the trace length".into()));
        }
        let mut r = Vec::with_capacity(gkr_proof);
        for _ in 0..gkr_proof {
            r.push(public_coin.draw().map_err(|_| VerifierError::RandomCoinError)?);
        }
        Ok(LagrangeKernelRandElements::new(r))
    }
}

struct TestAir {
    context: AirContext<BaseElement>,
    start: BaseElement,
}

impl TestAir {
    fn shape(&self) -> Shape {
        match self.context.trace_info().get_aux_segment_width() {
            0 => Shape::Single,
            1 => Shape::Aux,
            _ => Shape::Lagrange,
        }
    }
}

impl Air for TestAir {
    type BaseField = BaseElement;
    type GkrProof = usize;
    type GkrVerifier = CountingGkrVerifier;
    type PublicInputs = Start;

    fn new(trace_info: TraceInfo, pub_inputs: Start, options: ProofOptions) -> Self {
        // like the example AIRs, this AIR refuses trace shapes other than its own by asserting (user code:
        // such refusals of a damaged proof are counted separately, they are not library panics)
        assert!(trace_info.main_trace_width() == 1 && trace_info.get_aux_segment_width() <= 2, "unexpected trace shape");
        assert!(trace_info.is_multi_segment() || trace_info.get_num_aux_segment_rand_elements() == 0, "unexpected trace shape");
        let context = match trace_info.get_aux_segment_width() {
            0 => AirContext::new(trace_info, vec![TransitionConstraintDegree::new(1)], 1, options),
            w => AirContext::new_multi_segment(
                trace_info,
                vec![TransitionConstraintDegree::new(1)],
                vec![TransitionConstraintDegree::new(1)],
                1,
                1,
                if w == 2 { Some(1) } else { None },
                options,
            ),
        };
        Self { context, start: pub_inputs.0 }
    }

    fn context(&self) -> &AirContext<Self::BaseField> {
        &self.context
    }

    fn evaluate_transition<E: FieldElement<BaseField = Self::BaseField>>(
        &self,
        frame: &EvaluationFrame<E>,
        _periodic_values: &[E],
        result: &mut [E],
    ) {
        result[0] = frame.next()[0] - frame.current()[0] - E::ONE;
    }

    fn get_assertions(&self) -> Vec<Assertion<Self::BaseField>> {
        vec![Assertion::single(0, 0, self.start)]
    }

    fn evaluate_aux_transition<F, E>(
        &self,
        _main_frame: &EvaluationFrame<F>,
        aux_frame: &EvaluationFrame<E>,
        _periodic_values: &[F],
        aux_rand_elements: &[E],
        result: &mut [E],
    ) where
        F: FieldElement<BaseField = Self::BaseField>,
        E: FieldElement<BaseField = Self::BaseField> + ExtensionOf<F>,
    {
        let step = aux_rand_elements.iter().fold(E::ZERO, |a, &b| a + b);
        result[0] = aux_frame.next()[0] - aux_frame.current()[0] - step;
    }

    fn get_aux_assertions<E: FieldElement<BaseField = Self::BaseField>>(&self, _aux_rand_elements: &[E]) -> Vec<Assertion<E>> {
        vec![Assertion::single(0, 0, E::ZERO)]
    }

    fn get_auxiliary_proof_verifier<E: FieldElement<BaseField = Self::BaseField>>(&self) -> Self::GkrVerifier {
        CountingGkrVerifier { log_trace_len: self.context.trace_info().length().ilog2() as usize }
    }
}

// PROVER
// =================================================================================================
struct TestProver<H: ElementHasher<BaseField = BaseElement>, R = RecCoin<H>> {
    options: ProofOptions,
    _h: core::marker::PhantomData<(H, R)>,
}

impl<H, R> Prover for TestProver<H, R>
where
    H: ElementHasher<BaseField = BaseElement> + Sync,
    R: RandomCoin<BaseField = BaseElement, Hasher = H> + Send,
{
    type BaseField = BaseElement;
    type Air = TestAir;
    type Trace = TestTrace;
    type HashFn = H;
    type RandomCoin = R;
    type TraceLde<E: FieldElement<BaseField = BaseElement>> = DefaultTraceLde<E, H>;
    type ConstraintEvaluator<'a, E: FieldElement<BaseField = BaseElement>> = DefaultConstraintEvaluator<'a, TestAir, E>;

    fn get_pub_inputs(&self, trace: &Self::Trace) -> Start {
        Start(trace.main_segment().get(0, 0))
    }

    fn options(&self) -> &ProofOptions {
        &self.options
    }

    fn new_trace_lde<E>(
        &self,
        trace_info: &TraceInfo,
        main_trace: &ColMatrix<Self::BaseField>,
        domain: &StarkDomain<Self::BaseField>,
    ) -> (Self::TraceLde<E>, TracePolyTable<E>)
    where
        E: FieldElement<BaseField = Self::BaseField>,
    {
        DefaultTraceLde::new(trace_info, main_trace, domain)
    }

    fn new_evaluator<'a, E>(
        &self,
        air: &'a Self::Air,
        aux_rand_elements: Option<AuxRandElements<E>>,
        composition_coefficients: ConstraintCompositionCoefficients<E>,
    ) -> Self::ConstraintEvaluator<'a, E>
    where
        E: FieldElement<BaseField = Self::BaseField>,
    {
        DefaultConstraintEvaluator::new(air, aux_rand_elements, composition_coefficients)
    }

    fn generate_gkr_proof<E>(
        &self,
        main_trace: &Self::Trace,
        public_coin: &mut Self::RandomCoin,
    ) -> (ProverGkrProof<Self>, LagrangeKernelRandElements<E>)
    where
        E: FieldElement<BaseField = Self::BaseField>,
    {
        let log_n = main_trace.main_segment().num_rows().ilog2() as usize;
        let mut r = Vec::with_capacity(log_n);
        for _ in 0..log_n {
            r.push(public_coin.draw().unwrap());
        }
        (log_n, LagrangeKernelRandElements::new(r))
    }

    fn build_aux_trace<E>(&self, main_trace: &Self::Trace, aux_rand_elements: &AuxRandElements<E>) -> ColMatrix<E>
    where
        E: FieldElement<BaseField = Self::BaseField>,
    {
        let main = main_trace.main_segment();
        let step = aux_rand_elements.rand_elements().iter().fold(E::ZERO, |a, &b| a + b);
        let start = main.get(0, 0);
        let aux_col: Vec<E> = main.get_column(0).iter().map(|&v| step.mul_base(v - start)).collect();
        if main_trace.info().get_aux_segment_width() == 1 {
            return ColMatrix::new(vec![aux_col]);
        }
        let r = aux_rand_elements.lagrange().expect("lagrange random elements");
        let mut lagrange_col = Vec::with_capacity(main.num_rows());
        for row in 0..main.num_rows() {
            let mut v = E::ONE;
            for (bit, &r_i) in r.iter().enumerate() {
                v *= if row & (1 << bit) == 0 { E::ONE - r_i } else { r_i };
            }
            lagrange_col.push(v);
        }
        ColMatrix::new(vec![aux_col, lagrange_col])
    }
}

// THE REQUIRED TRANSCRIPT (C04)
// =================================================================================================
#[derive(Debug)]
enum Want {
    New(Vec<u8>),
    Reseed(&'static str, Vec<u8>),
    Draws(&'static str, usize),
    UnusedDraw,
    Clz,
    DrawInts,
}

/// the order of coin operations the protocol requires, with the absorbed values taken from the proof itself
fn required_transcript<H, E>(proof: &Proof, start: u32) -> Vec<Want>
where
    H: ElementHasher<BaseField = BaseElement>,
    E: FieldElement<BaseField = BaseElement>,
{
    let air = TestAir::new(proof.trace_info().clone(), Start(BaseElement::from(start)), proof.options().clone());
    let shape = air.shape();
    let log_n = proof.trace_info().length().ilog2() as usize;
    let lde_domain_size = proof.trace_info().length() * proof.options().blowup_factor();
    let num_fri_layers = proof.options().to_fri_options().num_fri_layers(lde_domain_size);
    let num_segments = if shape == Shape::Single { 1 } else { 2 };
    let (trace_roots, constraint_root, fri_roots) = proof.commitments.clone().parse::<H>(num_segments, num_fri_layers).expect("commitments");
    let num_columns = air.context().num_constraint_composition_columns();
    let (ood_trace, ood_evals) = proof.ood_frame.clone().parse::<E>(1, shape.aux_width(), num_columns).expect("OOD frame");

    let mut seed_elements: Vec<BaseElement> = proof.context.to_elements();
    seed_elements.push(BaseElement::from(start));

    let mut w = vec![Want::New(seed_elements.to_bytes()), Want::Reseed("main trace commitment", trace_roots[0].as_bytes().to_vec())];
    let mut num_coefficients = 2; // one transition constraint, one assertion
    let mut num_deep = 1 + num_columns;
    if shape != Shape::Single {
        let gkr = if shape == Shape::Lagrange { log_n } else { 0 };
        w.push(Want::Draws(
            "GKR randomness, then auxiliary-segment randomness",
            gkr + proof.trace_info().get_num_aux_segment_rand_elements(),
        ));
        w.push(Want::Reseed("auxiliary trace commitment", trace_roots[1].as_bytes().to_vec()));
        num_coefficients += 2;
        num_deep += shape.aux_width();
        if shape == Shape::Lagrange {
            num_coefficients += log_n + 1;
            num_deep += 1;
        }
    }
    w.push(Want::Draws("constraint composition coefficients", num_coefficients));
    w.push(Want::Reseed("constraint commitment", constraint_root.as_bytes().to_vec()));
    w.push(Want::Draws("out-of-domain point", 1));
    // the absorbed OOD messages are recomputed from the bytes carried in the proof (not through the library's
    // own TraceOodFrame::hash): all trace-state elements, then all Lagrange-kernel elements; all evaluations
    let ood = Blobs::parse(&proof.ood_frame.to_bytes(), 0, &[2, 2, 2], 0);
    let elements_of = |bytes: &[u8]| -> Vec<E> {
        use winterfell::ByteReader;
        let mut r = winterfell::SliceReader::new(bytes);
        r.read_many::<E>(bytes.len() / E::ELEMENT_BYTES).expect("OOD elements")
    };
    let mut trace_msg = elements_of(&ood.blobs[0].1[1..]);
    trace_msg.extend(elements_of(&ood.blobs[1].1[1..]));
    let evals_msg = elements_of(&ood.blobs[2].1);
    if ood_trace.hash::<H>() != H::hash_elements(&trace_msg) || ood_evals != evals_msg {
        fail(format!("the parsed OOD frame does not hash to the hash of the elements carried in the proof: shape={shape:?}"));
    }
    w.push(Want::Reseed("OOD trace frame", H::hash_elements(&trace_msg).as_bytes().to_vec()));
    w.push(Want::Reseed("OOD constraint evaluations", H::hash_elements(&evals_msg).as_bytes().to_vec()));
    w.push(Want::Draws("DEEP coefficients", num_deep));
    for (k, c) in fri_roots.iter().enumerate() {
        if k + 1 < fri_roots.len() {
            w.push(Want::Reseed("FRI layer commitment", c.as_bytes().to_vec()));
            w.push(Want::Draws("FRI folding challenge", 1));
        } else {
            // nothing is folded after the remainder: the verifier draws a value here that neither side uses,
            // the prover draws none (draws do not change the coin seed, so later challenges are unaffected)
            w.push(Want::Reseed("FRI remainder commitment", c.as_bytes().to_vec()));
            w.push(Want::UnusedDraw);
        }
    }
    w.push(Want::Clz);
    w.push(Want::DrawInts);
    w
}

/// compares one side's recorded operations with the required transcript; returns the challenge values
fn match_transcript(side: &str, what: &str, proof: &Proof, want: &[Want], log: &[Op]) -> Vec<Op> {
    let lde_domain_size = proof.trace_info().length() * proof.options().blowup_factor();
    let mut challenges = Vec::new();
    let mut i = 0usize;
    let bad = |i: usize, w: String| -> ! {
        let got = log.get(i).map(|o| format!("{o:?}")).unwrap_or("end of transcript".to_string());
        fail(format!(
            "{side} transcript departs from the required order at operation {i}: required {w}, observed {}: {what}",
            &got[..got.len().min(100)]
        ))
    };
    for (wi, w) in want.iter().enumerate() {
        match w {
            Want::New(seed) => {
                if log.get(i) != Some(&Op::New(seed.clone())) {
                    bad(i, "New(context elements || public inputs)".to_string());
                }
                i += 1;
            },
            Want::Reseed(name, data) => {
                // messages absorbed back to back with no challenge drawn in between may come in either order
                let mut j = wi;
                while j > 0 && matches!(want[j - 1], Want::Reseed(..)) {
                    j -= 1;
                }
                let first = i - (wi - j);
                let mut k = wi;
                while k + 1 < want.len() && matches!(want[k + 1], Want::Reseed(..)) {
                    k += 1;
                }
                let group = &log[first.min(log.len())..(first + (k - j) + 1).min(log.len())];
                if !group.contains(&Op::Reseed(data.clone())) || !matches!(log.get(i), Some(Op::Reseed(_))) {
                    bad(i, format!("Reseed({name} as carried in the proof)"));
                }
                i += 1;
            },
            Want::Draws(name, n) => {
                for _ in 0..*n {
                    match log.get(i) {
                        Some(op @ Op::Draw(_)) => challenges.push(op.clone()),
                        _ => bad(i, format!("Draw ({name}, {n} in total)")),
                    }
                    i += 1;
                }
            },
            Want::UnusedDraw => {
                if let Some(Op::Draw(_)) = log.get(i) {
                    i += 1;
                }
            },
            Want::Clz => {
                // the prover searches for the nonce (any number of trials); the verifier checks it exactly once
                let mut trials = 0;
                while let Some(Op::Clz(nonce, zeros)) = log.get(i) {
                    trials += 1;
                    if side == "verifier" && (*nonce != proof.pow_nonce || *zeros < proof.options().grinding_factor()) {
                        bad(i, "check_leading_zeros(proof nonce) >= grinding factor".to_string());
                    }
                    i += 1;
                }
                if trials == 0 || (side == "verifier" && trials != 1) {
                    bad(i, "proof-of-work check on the coin state reached after the last FRI commitment".to_string());
                }
            },
            Want::DrawInts => {
                match log.get(i) {
                    Some(op @ Op::DrawInts(n, d, nonce, _))
                        if *n == proof.options().num_queries() && *d == lde_domain_size && *nonce == proof.pow_nonce =>
                    {
                        challenges.push(op.clone())
                    },
                    _ => bad(i, "draw_integers(num_queries, lde_domain_size, proof nonce)".to_string()),
                }
                i += 1;
            },
        }
    }
    if i != log.len() {
        bad(i, "end of transcript".to_string());
    }
    challenges
}

fn check_transcript<H: ElementHasher<BaseField = BaseElement>>(what: &str, proof: &Proof, start: u32, plog: &[Op], vlog: &[Op]) {
    let want = match proof.options().field_extension() {
        FieldExtension::None => required_transcript::<H, BaseElement>(proof, start),
        FieldExtension::Quadratic => required_transcript::<H, QuadExtension<BaseElement>>(proof, start),
        FieldExtension::Cubic => required_transcript::<H, CubeExtension<BaseElement>>(proof, start),
    };
    let pc = match_transcript("prover", what, proof, &want, plog);
    let vc = match_transcript("verifier", what, proof, &want, vlog);
    if pc != vc {
        fail(format!("prover and verifier derive different challenge values from the same transcript: {what}"));
    }
}

// STRUCTURED DAMAGE (C03 / C06): every length-prefixed component truncated, extended, emptied; FRI layers
// removed / duplicated / swapped; optional components added / removed; counts off by one
// =================================================================================================
/// a component as a list of length-prefixed blobs: (prefix width in bytes, payload)
#[derive(Clone, PartialEq)]
struct Blobs {
    head: Vec<u8>,
    blobs: Vec<(usize, Vec<u8>)>,
    tail: Vec<u8>,
}

impl Blobs {
    fn parse(bytes: &[u8], head_len: usize, widths: &[usize], tail_len: usize) -> Blobs {
        let mut pos = head_len;
        let mut blobs = Vec::new();
        for &w in widths {
            let mut len = 0usize;
            for k in 0..w {
                len |= (bytes[pos + k] as usize) << (8 * k);
            }
            pos += w;
            blobs.push((w, bytes[pos..pos + len].to_vec()));
            pos += len;
        }
        assert_eq!(pos + tail_len, bytes.len(), "component layout");
        Blobs { head: bytes[..head_len].to_vec(), blobs, tail: bytes[pos..].to_vec() }
    }

    fn bytes(&self) -> Vec<u8> {
        let mut out = self.head.clone();
        for (w, b) in self.blobs.iter() {
            for k in 0..*w {
                out.push((b.len() >> (8 * k)) as u8);
            }
            out.extend_from_slice(b);
        }
        out.extend_from_slice(&self.tail);
        out
    }

    /// every variant with one blob shortened / lengthened by one unit (1, 8, 16, 24, 32 bytes) or emptied
    fn variants(&self) -> Vec<(String, Vec<u8>)> {
        let mut out = Vec::new();
        for i in 0..self.blobs.len() {
            for unit in [1usize, 8, 16, 24, 32] {
                let b = &self.blobs[i].1;
                if b.len() >= unit {
                    let mut v = self.clone();
                    v.blobs[i].1.truncate(b.len() - unit);
                    out.push((format!("blob {i} shortened by {unit} bytes"), v.bytes()));
                    let mut v = self.clone();
                    let ext = b[b.len() - unit..].to_vec();
                    v.blobs[i].1.extend_from_slice(&ext);
                    out.push((format!("blob {i} extended by a copy of its last {unit} bytes"), v.bytes()));
                }
                let mut v = self.clone();
                v.blobs[i].1.extend(std::iter::repeat(0u8).take(unit));
                out.push((format!("blob {i} extended by {unit} zero bytes"), v.bytes()));
            }
            if !self.blobs[i].1.is_empty() {
                let mut v = self.clone();
                v.blobs[i].1.clear();
                out.push((format!("blob {i} emptied"), v.bytes()));
            }
        }
        out
    }
}

fn fri_layout(bytes: &[u8]) -> (usize, Vec<usize>) {
    // u8 layer count, per layer two u32-prefixed blobs, u16-prefixed remainder, u8 partitions
    let n = bytes[0] as usize;
    let mut widths = Vec::new();
    for _ in 0..n {
        widths.push(4);
        widths.push(4);
    }
    widths.push(2);
    (n, widths)
}

/// all structured variants of `proof`; each is a complete proof (re-assembled from mutated components)
fn structured_variants(proof: &Proof) -> Vec<(String, Proof)> {
    use winterfell::Deserializable;
    let mut out: Vec<(String, Proof)> = Vec::new();
    // commitments
    let cb = proof.commitments.to_bytes();
    for (d, b) in Blobs::parse(&cb, 0, &[2], 0).variants() {
        if let Ok(c) = air::proof::Commitments::read_from_bytes(&b) {
            let mut p = proof.clone();
            p.commitments = c;
            out.push((format!("commitments: {d}"), p));
        }
    }
    // trace and constraint queries
    for (qi, q) in proof.trace_queries.iter().chain(std::iter::once(&proof.constraint_queries)).enumerate() {
        let qb = q.to_bytes();
        for (d, b) in Blobs::parse(&qb, 0, &[4, 4], 0).variants() {
            if let Ok(nq) = air::proof::Queries::read_from_bytes(&b) {
                let mut p = proof.clone();
                if qi < proof.trace_queries.len() {
                    p.trace_queries[qi] = nq;
                } else {
                    p.constraint_queries = nq;
                }
                out.push((format!("queries {qi}: {d}"), p));
            }
        }
    }
    // one more / one fewer segment of trace queries
    {
        let mut p = proof.clone();
        p.trace_queries.push(proof.trace_queries[0].clone());
        out.push(("trace queries: first segment's openings appended as an extra segment".into(), p));
        if proof.trace_queries.len() > 1 {
            let mut p = proof.clone();
            p.trace_queries.pop();
            out.push(("trace queries: last segment's openings removed".into(), p));
        }
    }
    // OOD frame
    let ob = proof.ood_frame.to_bytes();
    for (d, b) in Blobs::parse(&ob, 0, &[2, 2, 2], 0).variants() {
        if let Ok(f) = air::proof::OodFrame::read_from_bytes(&b) {
            let mut p = proof.clone();
            p.ood_frame = f;
            out.push((format!("OOD frame: {d}"), p));
        }
    }
    // the Lagrange kernel frame's own size byte (first byte of blob 1) set to other row counts
    {
        let mut bl = Blobs::parse(&ob, 0, &[2, 2, 2], 0);
        if !bl.blobs[1].1.is_empty() {
            let orig = bl.blobs[1].1.clone();
            for rows in [0u8, 1, 2, orig[0].wrapping_sub(1), orig[0].wrapping_add(1), 64, 255] {
                for keep_payload in [true, false] {
                    let mut nb = orig.clone();
                    nb[0] = rows;
                    if !keep_payload {
                        // payload resized to `rows` elements by truncation / repetition of the first element
                        let elem = (orig.len() - 1) / (orig[0].max(1) as usize);
                        if elem == 0 {
                            continue;
                        }
                        let first = orig[1..1 + elem].to_vec();
                        nb.truncate(1);
                        for _ in 0..rows {
                            nb.extend_from_slice(&first);
                        }
                    }
                    if nb == orig {
                        continue;
                    }
                    bl.blobs[1].1 = nb;
                    if let Ok(f) = air::proof::OodFrame::read_from_bytes(&bl.bytes()) {
                        let mut p = proof.clone();
                        p.ood_frame = f;
                        out.push((format!("OOD frame: Lagrange kernel frame declared with {rows} rows (payload {})", if keep_payload { "kept" } else { "resized" }), p));
                    }
                }
            }
        }
    }
    // a Lagrange kernel frame smuggled into a proof whose trace has none: the Lagrange section filled with k elements and, so
    // that the frame still parses, the trace-state section shortened by one column (parse() takes the Lagrange column off
    // the auxiliary width whenever a Lagrange frame is present)
    {
        let bl = Blobs::parse(&ob, 0, &[2, 2, 2], 0);
        let states = bl.blobs[0].1.clone();
        if bl.blobs[1].1 == vec![0u8] && states.len() > 1 && (states.len() - 1) % 2 == 0 {
            // element size from the evaluation section is not reliable (any count); derive it from the candidates 8 / 16 / 24 / 32 / 48
            for eb in [8usize, 16, 24, 32, 48] {
                if (states.len() - 1) % (2 * eb) != 0 || (states.len() - 1) / (2 * eb) < 2 {
                    continue;
                }
                for k in [1usize, 2, 5, 9] {
                    let mut v = bl.clone();
                    let mut lag = vec![k as u8];
                    for _ in 0..k {
                        lag.extend_from_slice(&states[1..1 + eb]);
                    }
                    v.blobs[1].1 = lag;
                    let mut st = states.clone();
                    st.truncate(states.len() - 2 * eb);
                    v.blobs[0].1 = st;
                    if let Ok(f) = air::proof::OodFrame::read_from_bytes(&v.bytes()) {
                        let mut p = proof.clone();
                        p.ood_frame = f;
                        out.push((format!("OOD frame: a Lagrange kernel frame of {k} rows added, trace states shortened by one column of {eb}-byte elements"), p));
                    }
                }
            }
        }
    }
    // FRI proof: blobs, then whole layers
    let fb = proof.fri_proof.to_bytes();
    let (n_layers, widths) = fri_layout(&fb);
    let parsed = Blobs::parse(&fb, 1, &widths, 1);
    for (d, b) in parsed.variants() {
        if let Ok(f) = read_like(&proof.fri_proof, &b) {
            let mut p = proof.clone();
            p.fri_proof = f;
            out.push((format!("FRI proof: {d}"), p));
        }
    }
    let mut layer_edits: Vec<(String, Blobs)> = Vec::new();
    if n_layers > 0 {
        let mut v = parsed.clone();
        v.blobs.drain(2 * (n_layers - 1)..2 * n_layers);
        v.head[0] -= 1;
        layer_edits.push(("last layer removed".into(), v));
        let mut v = parsed.clone();
        v.blobs.drain(0..2);
        v.head[0] -= 1;
        layer_edits.push(("first layer removed".into(), v));
        let mut v = parsed.clone();
        let (a, b) = (parsed.blobs[2 * (n_layers - 1)].clone(), parsed.blobs[2 * (n_layers - 1) + 1].clone());
        v.blobs.insert(2 * n_layers, a);
        v.blobs.insert(2 * n_layers + 1, b);
        v.head[0] += 1;
        layer_edits.push(("last layer duplicated".into(), v));
        if n_layers > 1 {
            let mut v = parsed.clone();
            v.blobs.swap(0, 2);
            v.blobs.swap(1, 3);
            layer_edits.push(("first two layers swapped".into(), v));
        }
    }
    for (d, v) in layer_edits {
        if let Ok(f) = read_like(&proof.fri_proof, &v.bytes()) {
            let mut p = proof.clone();
            p.fri_proof = f;
            out.push((format!("FRI proof: {d}"), p));
        }
    }
    // optional GKR proof
    match &proof.gkr_proof {
        None => {
            for g in [vec![], vec![0u8; 8], vec![3, 0, 0, 0, 0, 0, 0, 0]] {
                let mut p = proof.clone();
                p.gkr_proof = Some(g.clone());
                out.push((format!("GKR proof {g:?} added to a proof that has none"), p));
            }
        },
        Some(g) => {
            let mut p = proof.clone();
            p.gkr_proof = None;
            out.push(("GKR proof removed".into(), p));
            for (d, ng) in [("emptied", vec![]), ("extended by a zero byte", [g.clone(), vec![0]].concat()), ("shortened by a byte", g[..g.len() - 1].to_vec())] {
                let mut p = proof.clone();
                p.gkr_proof = Some(ng);
                out.push((format!("GKR proof {d}"), p));
            }
        },
    }
    // counts
    for delta in [-1i32, 1] {
        let mut p = proof.clone();
        p.num_unique_queries = (p.num_unique_queries as i32 + delta) as u8;
        out.push((format!("num_unique_queries changed by {delta}"), p));
    }
    // one more unique query claimed, with one more opened row in every query component
    {
        let n = proof.num_unique_queries as usize;
        let mut p = proof.clone();
        p.num_unique_queries += 1;
        let mut ok = true;
        let grow = |q: &air::proof::Queries| -> Option<air::proof::Queries> {
            let mut bl = Blobs::parse(&q.to_bytes(), 0, &[4, 4], 0);
            let row = bl.blobs[0].1.len() / n;
            let last = bl.blobs[0].1[bl.blobs[0].1.len() - row..].to_vec();
            bl.blobs[0].1.extend_from_slice(&last);
            air::proof::Queries::read_from_bytes(&bl.bytes()).ok()
        };
        for q in p.trace_queries.iter_mut() {
            match grow(q) {
                Some(nq) => *q = nq,
                None => ok = false,
            }
        }
        match grow(&proof.constraint_queries) {
            Some(nq) => p.constraint_queries = nq,
            None => ok = false,
        }
        if ok {
            out.push(("num_unique_queries + 1 with the last opened row repeated in every query component".into(), p));
        }
    }
    for delta in [1u64, u64::MAX] {
        let mut p = proof.clone();
        p.pow_nonce = p.pow_nonce.wrapping_add(delta);
        out.push((format!("pow_nonce changed by {delta}"), p));
    }
    out
}

/// deserializes a value of the same type as `_like` (for component types this crate cannot name)
fn read_like<T: winterfell::Deserializable>(_like: &T, b: &[u8]) -> Result<T, winterfell::DeserializationError> {
    T::read_from_bytes(b)
}

// GRID
// =================================================================================================
fn grid() -> Vec<(Shape, usize, usize, ProofOptions)> {
    let mut v = Vec::new();
    for ext in [FieldExtension::None, FieldExtension::Quadratic, FieldExtension::Cubic] {
        for (trace_len, folding, rmd) in [(8usize, 2usize, 1usize), (16, 4, 3), (64, 2, 0), (128, 8, 7), (32, 16, 31), (16, 16, 0), (1024, 4, 7)] {
            for num_aux_rands in [1usize, 2, 3] {
                for (queries, blowup, grinding) in [(4usize, 4usize, 0u32), (13, 8, 5)] {
                    v.push((Shape::Lagrange, trace_len, num_aux_rands, ProofOptions::new(queries, blowup, grinding, ext, folding, rmd)));
                }
            }
            v.push((Shape::Aux, trace_len, 2, ProofOptions::new(5, 4, 3, ext, folding, rmd)));
            v.push((Shape::Single, trace_len, 0, ProofOptions::new(6, 2, 2, ext, folding, rmd)));
        }
    }
    v
}

fn verify_as<H: ElementHasher<BaseField = BaseElement> + Sync>(proof: Proof, start: u32) -> Result<(), VerifierError> {
    verify::<TestAir, H, RecCoin<H>>(proof, Start(BaseElement::from(start)), &AcceptableOptions::MinConjecturedSecurity(0))
}

struct Counts {
    proofs: u64,
    damaged: u64,
    air_refusals: u64,
    transcripts: u64,
}

fn run_hasher<H: ElementHasher<BaseField = BaseElement> + Sync>(tag: &str, damage_first: usize, c: &mut Counts) {
    for (ci, (shape, trace_len, num_aux_rands, o)) in grid().into_iter().enumerate() {
        let what = format!("hasher={tag} shape={shape:?} trace_len={trace_len} aux_rands={num_aux_rands} options={o:?}");
        let start = 3 + (seed() as u32 % 1000) + ci as u32;
        let prover = TestProver::<H, RecCoin<H>> { options: o.clone(), _h: core::marker::PhantomData };
        take_log();
        let proof = match catch_unwind(AssertUnwindSafe(|| prover.prove(TestTrace::new(shape, trace_len, num_aux_rands, start)))) {
            Ok(Ok(p)) => p,
            Ok(Err(e)) => fail(format!("prover refused a valid execution ({e}): {what}")),
            Err(_) => fail(format!("prover panicked on a valid execution at {}: {what}", last_panic())),
        };
        let plog = take_log();
        c.proofs += 1;
        let bytes = proof.to_bytes();
        let back = match Proof::from_bytes(&bytes) {
            Ok(p) => p,
            Err(e) => fail(format!("an honest proof does not parse back ({e}): {what}")),
        };
        if back != proof || back.to_bytes() != bytes {
            fail(format!("proof changed by a serialization round trip: {what}"));
        }
        match catch_unwind(AssertUnwindSafe(|| verify_as::<H>(back, start))) {
            Ok(Ok(())) => {},
            Ok(Err(e)) => fail(format!("honest proof rejected ({e}): {what}")),
            Err(_) => fail(format!("verifier panicked on an honest proof at {}: {what}", last_panic())),
        }
        let vlog = take_log();
        check_transcript::<H>(&what, &proof, start, &plog, &vlog);
        c.transcripts += 1;
        match catch_unwind(AssertUnwindSafe(|| verify_as::<H>(Proof::from_bytes(&bytes).unwrap(), start + 1))) {
            Ok(Ok(())) => fail(format!("proof accepted for a different public input: {what}")),
            Ok(Err(_)) => {},
            Err(_) => fail(format!("verifier panicked on a wrong public input at {}: {what}", last_panic())),
        }

        // structured damage: on every configuration with a short trace (all shapes, all extension degrees)
        if trace_len <= 16 || (thorough() && trace_len <= 64) {
            for (desc, p) in structured_variants(&proof) {
                if p == proof {
                    continue;
                }
                c.damaged += 1;
                take_log();
                let pb = p.to_bytes();
                match catch_unwind(AssertUnwindSafe(|| match Proof::from_bytes(&pb) {
                    Ok(p) => verify_as::<H>(p, start).is_ok(),
                    Err(_) => false,
                })) {
                    Ok(false) => {},
                    Ok(true) => fail(format!("proof with {desc} is accepted: {what}")),
                    Err(_) if last_panic().starts_with(file!()) => c.air_refusals += 1,
                    Err(_) => fail(format!("parsing/verifying a proof with {desc} panicked at {}: {what}", last_panic())),
                }
            }
        }

        if ci >= damage_first || trace_len > 16 {
            continue;
        }
        // (the FRI partition count is layout-only metadata; it is the last byte of the FRI proof, in front of the nonce and the
        // GKR-proof option)
        // (computed from the proof's own tail: the 8-byte nonce and the serialized GKR-proof option follow it)
        let partition_byte = bytes.len() - 1 - 8 - proof.gkr_proof.to_bytes().len();
        let check = |b: &[u8], desc: String, at: usize, c: &mut Counts| {
            c.damaged += 1;
            take_log();
            match catch_unwind(AssertUnwindSafe(|| match Proof::from_bytes(b) {
                Ok(p) => verify_as::<H>(p, start).is_ok(),
                Err(_) => false,
            })) {
                Ok(false) => {},
                Ok(true) if at == partition_byte => {},
                Ok(true) => {
                    let p2 = Proof::from_bytes(b).unwrap();
                    let mut diff = Vec::new();
                    if p2.pow_nonce != proof.pow_nonce { diff.push(format!("pow_nonce {} -> {}", proof.pow_nonce, p2.pow_nonce)); }
                    if p2.gkr_proof != proof.gkr_proof { diff.push(format!("gkr_proof {:?} -> {:?}", proof.gkr_proof, p2.gkr_proof)); }
                    if p2.fri_proof.to_bytes() != proof.fri_proof.to_bytes() { diff.push("fri_proof".to_string()); }
                    if p2.ood_frame.to_bytes() != proof.ood_frame.to_bytes() { diff.push("ood_frame".to_string()); }
                    fail(format!("proof with {desc} is accepted (fields that differ: {diff:?}; partition byte at {partition_byte}): {what}"))
                },
                Err(_) if last_panic().starts_with(file!()) => c.air_refusals += 1,
                Err(_) => fail(format!("parsing/verifying a proof with {desc} panicked at {}: {what}", last_panic())),
            }
        };
        let step = if thorough() { 1 } else { 5 };
        let mut bit = (seed() as usize) % step;
        while bit < bytes.len() * 8 {
            let mut b = bytes.clone();
            b[bit / 8] ^= 1 << (bit % 8);
            check(&b, format!("bit {bit} (byte {} of {}) flipped", bit / 8, bytes.len()), bit / 8, c);
            bit += step;
        }
        let bstep = if thorough() { 1 } else { 3 };
        let mut idx = 0usize;
        while idx < bytes.len() {
            for val in [0u8, 1, 0x7f, 0x80, 0xff] {
                if bytes[idx] != val {
                    let mut b = bytes.clone();
                    b[idx] = val;
                    check(&b, format!("byte {idx} of {} set to {val}", bytes.len()), idx, c);
                }
            }
            let cut = &bytes[..idx];
            c.damaged += 1;
            match catch_unwind(AssertUnwindSafe(|| Proof::from_bytes(cut).is_ok())) {
                Ok(false) => {},
                Ok(true) => fail(format!("proof truncated to {idx} of {} bytes parses: {what}", bytes.len())),
                Err(_) => fail(format!("parsing a proof truncated to {idx} bytes panicked at {}: {what}", last_panic())),
            }
            idx += if idx < 64 { 1 } else { bstep };
        }
    }
}

/// proofs only a malicious prover produces: option sets at and beyond the edge "number of queries < LDE domain
/// size" (the honest prover panics beyond it); the verifier must answer, never panic (C06)
fn crafted_query_counts<H: ElementHasher<BaseField = BaseElement> + Sync>(tag: &str, c: &mut Counts) {
    for shape in [Shape::Single, Shape::Aux, Shape::Lagrange] {
        for (trace_len, blowup) in [(8usize, 2usize), (8, 4), (16, 2)] {
            let domain = trace_len * blowup;
            for queries in [domain - 1, domain, domain + 1, 255] {
                let o = ProofOptions::new(queries, blowup, 0, FieldExtension::Quadratic, 2, 1);
                let what = format!("hasher={tag} shape={shape:?} trace_len={trace_len} options={o:?}");
                let start = 11 + seed() as u32 % 1000;
                // (the test AIR's aux constraint needs blowup >= 2: degree 1)
                let prover = TestProver::<H, LenientCoin<H>> { options: o.clone(), _h: core::marker::PhantomData };
                let proof = match catch_unwind(AssertUnwindSafe(|| prover.prove(TestTrace::new(shape, trace_len, 2, start)))) {
                    Ok(Ok(p)) => p,
                    // the prover's own code may refuse such options elsewhere: then there is nothing to verify
                    _ => continue,
                };
                let bytes = proof.to_bytes();
                c.damaged += 1;
                take_log();
                match catch_unwind(AssertUnwindSafe(|| match Proof::from_bytes(&bytes) {
                    Ok(p) => verify_as::<H>(p, start).is_ok(),
                    Err(_) => false,
                })) {
                    Ok(true) => {},
                    Ok(false) if queries < domain => fail(format!("honest proof with {queries} queries on a domain of {domain} rejected: {what}")),
                    Ok(false) => {},
                    Err(_) => fail(format!(
                        "verifying a proof with {queries} queries on an LDE domain of {domain} panicked at {}: {what}",
                        last_panic()
                    )),
                }
            }
        }
    }
}

#[test]
fn lagrange_pipeline_bounded() {
    std::panic::set_hook(Box::new(|info| {
        let loc = info.location().map(|l| format!("{}:{}", l.file(), l.line())).unwrap_or_default();
        *LAST_PANIC.lock().unwrap() = loc;
    }));
    let mut c = Counts { proofs: 0, damaged: 0, air_refusals: 0, transcripts: 0 };
    run_hasher::<Blake3_256<BaseElement>>("blake3_256", 10, &mut c);
    run_hasher::<Rp64_256>("rp64_256", 2, &mut c);
    crafted_query_counts::<Blake3_256<BaseElement>>("blake3_256", &mut c);
    println!(
        "NB-RESULT name=lagrange_pipeline_bounded proofs={} transcripts_compared={} damaged_proofs={} refused_by_test_air={}",
        c.proofs, c.transcripts, c.damaged, c.air_refusals
    );
}
