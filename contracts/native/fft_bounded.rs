// Bounded stand-in (native execution of the real code, NOT a proof) for C09: the fast transforms of
// math/src/fft and the column-batched / segmented low-degree extension of prover/src/matrix against direct
// polynomial evaluation written in this file (powers of the domain generator by repeated multiplication,
// evaluation by explicit powers). Algebraic identities over symbolic field values are beyond CBMC
// (DESIGN.md 9.2) and the bodies are generic over field and batch size with iterator adapters (Verus).
// Bound: sizes 2^1..2^10 (2^12 in the thorough tier), the three base fields, their quadratic extensions and
// the cubic extensions of f64 / f62; offsets 1, generator, seeded; blowups 1..128 where the product stays
// below 2^13 (2^15 thorough); matrices of 1, 2, 7, 8, 9, 16, 17, 33 and 255 columns, segment width 8.
use std::panic::{catch_unwind, AssertUnwindSafe};

use math::{
    fft,
    fields::{f128, f62, f64, CubeExtension, QuadExtension},
    FieldElement, StarkField,
};
use utils::Deserializable;
use winter_prover::{
    matrix::{get_evaluation_offsets, ColMatrix, RowMatrix, Segment},
    StarkDomain,
};

fn seed() -> u64 {
    std::env::var("VERIF_SEED").ok().and_then(|s| s.parse().ok()).unwrap_or(0)
}

fn thorough() -> bool {
    std::env::var("VERIF_TIER").as_deref() == Ok("thorough")
}

struct Rng(u64);
impl Rng {
    fn next(&mut self) -> u64 {
        self.0 ^= self.0 << 13;
        self.0 ^= self.0 >> 7;
        self.0 ^= self.0 << 17;
        self.0
    }
}

fn fail(msg: String) -> ! {
    println!("NB-VIOLATION {msg}");
    panic!("NB-VIOLATION {msg}");
}

fn elem<E: FieldElement>(rng: &mut Rng) -> E {
    match rng.next() % 16 {
        0 => E::ZERO,
        1 => E::ONE,
        2 => -E::ONE,
        _ => {
            let mut bytes = vec![0u8; E::ELEMENT_BYTES];
            let step = <E::BaseField as FieldElement>::ELEMENT_BYTES;
            for chunk in bytes.chunks_mut(step) {
                chunk[..4].copy_from_slice(&(((rng.next() >> 33) as u32) >> 1).to_le_bytes());
            }
            E::read_from_bytes(&bytes).unwrap()
        },
    }
}

/// direct evaluation of p at offset * g^i for i in 0..domain_size (g the domain generator), natural order
fn direct<B: StarkField, E: FieldElement<BaseField = B>>(p: &[E], domain_size: usize, offset: B) -> Vec<E> {
    let g = B::get_root_of_unity(domain_size.ilog2());
    let mut x = offset;
    let mut out = Vec::with_capacity(domain_size);
    for _ in 0..domain_size {
        let mut acc = E::ZERO;
        let mut pw = E::ONE;
        let xe = E::from(x);
        for &c in p {
            acc += c * pw;
            pw *= xe;
        }
        out.push(acc);
        x *= g;
    }
    out
}

fn guarded<T>(what: &str, ctx: &str, f: impl FnOnce() -> T) -> T {
    match catch_unwind(AssertUnwindSafe(f)) {
        Ok(v) => v,
        Err(_) => fail(format!("{what} panicked: {ctx}")),
    }
}

fn transforms<B: StarkField, E: FieldElement<BaseField = B>>(field: &str, rng: &mut Rng, cases: &mut u64) {
    let max_log = if thorough() { 12 } else { 10 };
    let max_total = if thorough() { 1usize << 15 } else { 1usize << 13 };
    // (sizes above the tier's bound, up to 2^12: plain evaluation / interpolation only, over the base fields -
    // the sizes at which the recursion strategy of fft_in_place has switched for several levels)
    let plain_only_from = max_log + 1;
    let top = if E::EXTENSION_DEGREE == 1 { 12 } else { max_log };
    for log_n in 1..=top {
        let n = 1usize << log_n;
        let twiddles = fft::get_twiddles::<B>(n);
        let inv_twiddles = fft::get_inv_twiddles::<B>(n);
        // polynomials of full size, with a zero leading coefficient, and of low degree
        for shape in 0..3 {
            let mut p: Vec<E> = (0..n).map(|_| elem::<E>(rng)).collect();
            if shape == 1 {
                p[n - 1] = E::ZERO;
            }
            if shape == 2 {
                for c in p.iter_mut().skip(n / 2) {
                    *c = E::ZERO;
                }
            }
            if p[0] == E::ZERO {
                p[0] = E::ONE;
            }
            let ctx = format!("field={field} size={n} shape={shape}");
            *cases += 1;
            // evaluation over the domain of size n without offset
            let mut v = p.clone();
            guarded("fft::evaluate_poly", &ctx, || fft::evaluate_poly(&mut v, &twiddles));
            let want = direct::<B, E>(&p, n, B::ONE);
            if v != want {
                let i = (0..n).find(|&i| v[i] != want[i]).unwrap();
                fail(format!("evaluate_poly differs from direct evaluation at w^{i}: {ctx}"));
            }
            // and back
            let mut c = v.clone();
            guarded("fft::interpolate_poly", &ctx, || fft::interpolate_poly(&mut c, &inv_twiddles));
            if c != p {
                fail(format!("interpolate_poly(evaluate_poly(p)) != p: {ctx}"));
            }
            // degree inference
            let true_degree = (0..n).rev().find(|&i| p[i] != E::ZERO).unwrap_or(0);
            let inferred = guarded("fft::infer_degree", &ctx, || fft::infer_degree(&v, B::ONE));
            if inferred != true_degree {
                fail(format!("infer_degree reports {inferred}, the polynomial has degree {true_degree}: {ctx}"));
            }
            if log_n >= plain_only_from {
                continue;
            }
            // with offsets and blowups
            for (oname, offset) in [("1", B::ONE), ("generator", B::GENERATOR), ("seeded", B::from(((rng.next() >> 34) as u32) | 2))] {
                for blowup in [1usize, 2, 4, 8, 16, 128] {
                    if n * blowup > max_total {
                        continue;
                    }
                    let ctx = format!("field={field} size={n} shape={shape} offset={oname} blowup={blowup}");
                    *cases += 1;
                    let got = guarded("fft::evaluate_poly_with_offset", &ctx, || fft::evaluate_poly_with_offset(&p, &twiddles, offset, blowup));
                    let want = direct::<B, E>(&p, n * blowup, offset);
                    if got != want {
                        let i = (0..want.len()).find(|&i| got.get(i) != Some(&want[i])).unwrap();
                        fail(format!("evaluate_poly_with_offset differs from direct evaluation at offset * w^{i}: {ctx}"));
                    }
                    if blowup == 1 {
                        let mut c = got.clone();
                        guarded("fft::interpolate_poly_with_offset", &ctx, || fft::interpolate_poly_with_offset(&mut c, &inv_twiddles, offset));
                        if c != p {
                            fail(format!("interpolate_poly_with_offset(evaluations over the coset) != p: {ctx}"));
                        }
                        let inferred = guarded("fft::infer_degree", &ctx, || fft::infer_degree(&got, offset));
                        if inferred != true_degree {
                            fail(format!("infer_degree over a coset reports {inferred}, the polynomial has degree {true_degree}: {ctx}"));
                        }
                    }
                }
            }
        }
    }
}

fn matrices<B: StarkField, E: FieldElement<BaseField = B>>(field: &str, rng: &mut Rng, cases: &mut u64) {
    for (n, col_counts) in [(8usize, vec![1usize, 2, 7, 8, 9, 16, 17, 33, 255]), (64, vec![1, 7, 8, 9, 17]), (512, vec![3, 8, 9])] {
        for &cols in col_counts.iter() {
            for (blowup, offset) in [(2usize, B::GENERATOR), (8, B::GENERATOR), (4, B::from(((rng.next() >> 34) as u32) | 2)), (4, B::ONE), (16, B::ONE), (2, B::ONE - B::ONE - B::ONE)] {
                let ctx = format!("field={field} rows={n} columns={cols} blowup={blowup} offset={offset}");
                *cases += 1;
                let values: Vec<Vec<E>> = (0..cols).map(|_| (0..n).map(|_| elem::<E>(rng)).collect()).collect();
                let trace = ColMatrix::new(values.clone());
                // interpolation of every column: the polynomial of degree < n through the column over the trace domain
                let polys = guarded("ColMatrix::interpolate_columns", &ctx, || trace.interpolate_columns());
                for c in 0..cols {
                    if direct::<B, E>(polys.get_column(c), n, B::ONE) != values[c] {
                        fail(format!("interpolate_columns: column {c} does not evaluate back to the trace column: {ctx}"));
                    }
                }
                let domain = StarkDomain::from_twiddles(fft::get_twiddles::<B>(n), blowup, offset);
                // column-major LDE
                let lde = guarded("ColMatrix::evaluate_columns_over", &ctx, || polys.evaluate_columns_over(&domain));
                // segmented row-major LDE
                let rows = guarded("RowMatrix::evaluate_polys_over", &ctx, || RowMatrix::<E>::evaluate_polys_over::<8>(&polys, &domain));
                if rows.num_rows() != n * blowup || rows.num_cols() != cols || lde.num_rows() != n * blowup || lde.num_cols() != cols {
                    fail(format!("the extended matrix has the wrong shape ({} x {}): {ctx}", rows.num_rows(), rows.num_cols()));
                }
                for c in 0..cols {
                    let want = direct::<B, E>(polys.get_column(c), n * blowup, offset);
                    for r in 0..n * blowup {
                        if lde.get(c, r) != want[r] {
                            fail(format!("evaluate_columns_over: cell (column {c}, row {r}) differs from direct evaluation: {ctx}"));
                        }
                        if rows.get(c, r) != want[r] || rows.row(r)[c] != want[r] {
                            fail(format!("RowMatrix::evaluate_polys_over: cell (column {c}, row {r}) differs from direct evaluation: {ctx}"));
                        }
                    }
                }
            }
        }
    }
}

/// Segment::new called directly at EVERY admissible polynomial offset (not only the multiples of the segment width that
/// build_segments passes): row r, slot j holds base-field coordinate (poly_offset + j) of the matrix evaluated at
/// offset * w^r, for every slot that has a polynomial; a buffer handed to new_with_buffer is fully overwritten there
fn segments<B: StarkField, E: FieldElement<BaseField = B>, const N: usize>(field: &str, rng: &mut Rng, cases: &mut u64) {
    for (n, cols, blowup, offset) in [(8usize, 3usize, 2usize, B::GENERATOR), (8, 10, 2, B::GENERATOR), (16, 8, 4, B::GENERATOR), (8, 9, 8, B::GENERATOR), (8, 17, 2, B::GENERATOR), (8, 9, 4, B::ONE)] {
        let values: Vec<Vec<E>> = (0..cols).map(|_| (0..n).map(|_| elem::<E>(rng)).collect()).collect();
        let polys = ColMatrix::new(values.clone());
        let twiddles = fft::get_twiddles::<B>(n);
        let offsets = get_evaluation_offsets::<B>(n, blowup, offset);
        let want: Vec<Vec<E>> = (0..cols).map(|c| direct::<B, E>(&values[c], n * blowup, offset)).collect();
        let base_cols = cols * E::EXTENSION_DEGREE;
        for poly_offset in 0..base_cols {
            let ctx = format!("field={field} rows={n} columns={cols} blowup={blowup} segment_width={N} poly_offset={poly_offset}");
            *cases += 1;
            let seg = guarded("Segment::new", &ctx, || Segment::<B, N>::new(&polys, poly_offset, &offsets, &twiddles));
            let stale = vec![[B::from(0xDEADu32); N]; n * blowup];
            let seg2 = guarded("Segment::new_with_buffer", &ctx, || Segment::<B, N>::new_with_buffer(stale, &polys, poly_offset, &offsets, &twiddles));
            if seg.num_rows() != n * blowup {
                fail(format!("Segment::new returned {} rows: {ctx}", seg.num_rows()));
            }
            for j in 0..N.min(base_cols - poly_offset) {
                let (c, k) = ((poly_offset + j) / E::EXTENSION_DEGREE, (poly_offset + j) % E::EXTENSION_DEGREE);
                for r in 0..n * blowup {
                    if seg[r][j] != want[c][r].base_element(k) || seg2[r][j] != want[c][r].base_element(k) {
                        fail(format!("Segment::new: row {r}, slot {j} differs from direct evaluation of base column {}: {ctx}", poly_offset + j));
                    }
                }
            }
        }
    }
}

#[test]
fn fft_and_lde_bounded() {
    let mut rng = Rng(0x853C49E6748FEA9B ^ seed().wrapping_mul(0xDA942042E4DD58B5) | 1);
    let mut cases = 0u64;
    // bit reversal
    for log in 1..=16u32 {
        let size = 1usize << log;
        for i in (0..size).step_by(if size > 4096 { 97 } else { 1 }) {
            let j = fft::permute_index(size, i);
            let want = (i as u64).reverse_bits() >> (64 - log);
            if j as u64 != want || fft::permute_index(size, j) != i {
                fail(format!("permute_index({size}, {i}) = {j} is not the {log}-bit reversal"));
            }
            cases += 1;
        }
    }
    transforms::<f64::BaseElement, f64::BaseElement>("f64", &mut rng, &mut cases);
    transforms::<f128::BaseElement, f128::BaseElement>("f128", &mut rng, &mut cases);
    transforms::<f62::BaseElement, f62::BaseElement>("f62", &mut rng, &mut cases);
    transforms::<f64::BaseElement, QuadExtension<f64::BaseElement>>("f64 quadratic", &mut rng, &mut cases);
    transforms::<f64::BaseElement, CubeExtension<f64::BaseElement>>("f64 cubic", &mut rng, &mut cases);
    transforms::<f128::BaseElement, QuadExtension<f128::BaseElement>>("f128 quadratic", &mut rng, &mut cases);
    transforms::<f62::BaseElement, QuadExtension<f62::BaseElement>>("f62 quadratic", &mut rng, &mut cases);
    transforms::<f62::BaseElement, CubeExtension<f62::BaseElement>>("f62 cubic", &mut rng, &mut cases);
    matrices::<f64::BaseElement, f64::BaseElement>("f64", &mut rng, &mut cases);
    matrices::<f128::BaseElement, f128::BaseElement>("f128", &mut rng, &mut cases);
    matrices::<f64::BaseElement, QuadExtension<f64::BaseElement>>("f64 quadratic", &mut rng, &mut cases);
    matrices::<f64::BaseElement, CubeExtension<f64::BaseElement>>("f64 cubic", &mut rng, &mut cases);
    matrices::<f128::BaseElement, QuadExtension<f128::BaseElement>>("f128 quadratic", &mut rng, &mut cases);
    segments::<f64::BaseElement, f64::BaseElement, 4>("f64", &mut rng, &mut cases);
    segments::<f64::BaseElement, f64::BaseElement, 8>("f64", &mut rng, &mut cases);
    segments::<f128::BaseElement, QuadExtension<f128::BaseElement>, 4>("f128 quadratic", &mut rng, &mut cases);
    segments::<f64::BaseElement, CubeExtension<f64::BaseElement>, 8>("f64 cubic", &mut rng, &mut cases);
    println!("NB-RESULT name=fft_and_lde_bounded cases={cases}");
}
