// Bounded stand-in (native execution of the real code, NOT a proof) for C04 / C03: the coin seed binds the proof context -
// Context::to_elements (air/src/proof/context.rs, with TraceInfo::to_elements and ProofOptions::to_elements) is INJECTIVE: two
// contexts that differ in anything a proof carries (trace metadata, widths, trace length, options) are absorbed as different
// element lists. A collision means that a proof stays accepted after its context was exchanged for the other one.
// Why a stand-in: the bodies use `chunks`, `split_at`, `append` over generic field elements; the Kani contract of C04 decides the
// metadata clause for 1 versus 2 symbolic bytes only.
// Bound: trace metadata = every byte string of length 0..=16 over the alphabets {0, b}, b in 1..=16 (the values a length byte
// or a padding pattern can take) - 16 x 131071 strings, compared pairwise through a hash map of their element lists - for the 64-bit
// field (7-byte chunks) and strings up to length 12 for the 128-bit field (15-byte chunks: no chunk boundary inside, the length
// element alone separates them); plus all pairs of 3 widths x 3 trace lengths x 2 option sets.
use std::collections::HashMap;

use math::{
    fields::{f128, f64},
    StarkField, ToElements,
};
use winter_air::{proof::Context, FieldExtension, ProofOptions, TraceInfo};

fn fail(msg: String) -> ! {
    println!("NB-VIOLATION {msg}");
    panic!("NB-VIOLATION {msg}");
}

fn elements<B: StarkField>(width: usize, len: usize, meta: Vec<u8>, o: &ProofOptions) -> Vec<u128>
where
    B::PositiveInteger: Into<u128>,
{
    let ctx = Context::new::<B>(TraceInfo::with_meta(width, len, meta), o.clone());
    let e: Vec<B> = ctx.to_elements();
    e.iter().map(|x| x.as_int().into()).collect()
}

fn metadata_sweep<B: StarkField>(field: &str, max_len: usize, cases: &mut u64)
where
    B::PositiveInteger: Into<u128>,
{
    let o = ProofOptions::new(20, 8, 0, FieldExtension::None, 4, 7);
    for b in 1u8..=16 {
        let mut seen: HashMap<Vec<u128>, Vec<u8>> = HashMap::new();
        for len in 0..=max_len {
            for mask in 0u32..(1u32 << len) {
                *cases += 1;
                let meta: Vec<u8> = (0..len).map(|i| if mask & (1 << i) != 0 { b } else { 0 }).collect();
                let e = elements::<B>(3, 16, meta.clone(), &o);
                if let Some(other) = seen.insert(e, meta.clone()) {
                    fail(format!("{field}: the contexts with trace metadata {other:?} and {meta:?} are absorbed as the same seed elements"));
                }
            }
        }
    }
}

#[test]
fn context_seed_injective_bounded() {
    let mut cases = 0u64;
    metadata_sweep::<f64::BaseElement>("f64", 16, &mut cases);
    metadata_sweep::<f128::BaseElement>("f128", 12, &mut cases);
    // the other fields of the context
    let mut seen: HashMap<Vec<u128>, String> = HashMap::new();
    for width in [1usize, 2, 255] {
        for len in [8usize, 16, 1 << 20] {
            for (k, o) in [ProofOptions::new(20, 8, 0, FieldExtension::None, 4, 7), ProofOptions::new(20, 8, 1, FieldExtension::None, 4, 7),
                           ProofOptions::new(21, 8, 0, FieldExtension::None, 4, 7), ProofOptions::new(20, 16, 0, FieldExtension::None, 4, 7),
                           ProofOptions::new(20, 8, 0, FieldExtension::Quadratic, 4, 7), ProofOptions::new(20, 8, 0, FieldExtension::None, 8, 7),
                           ProofOptions::new(20, 8, 0, FieldExtension::None, 4, 15)].iter().enumerate()
            {
                for meta in [vec![], vec![0u8], vec![1u8]] {
                    cases += 1;
                    let tag = format!("width {width}, length {len}, option set {k}, metadata {meta:?}");
                    let e = elements::<f64::BaseElement>(width, len, meta, o);
                    if let Some(other) = seen.insert(e, tag.clone()) {
                        fail(format!("the contexts ({other}) and ({tag}) are absorbed as the same seed elements"));
                    }
                }
            }
        }
    }
    println!("NB-RESULT name=context_seed_injective_bounded cases={cases}");
}
