// Bounded stand-in (native execution of the real code, NOT a proof) for the batch-opening part of C10:
// BTreeMap-based code is outside CBMC's reach (map_indexes on two concrete positions does not finish
// symbolic execution in 10 minutes) and outside Verus' (BTreeMap, iterator chains).
// Bound: trees of 2, 4, 8 and 16 leaves; every non-empty subset of positions in ascending, descending
// and one seeded shuffled order; every single-element and shape mutation for trees of <= 8 leaves and
// for a seeded sample of subsets of the 16-leaf tree. Hasher: Blake3_256 (real).
use std::panic::{catch_unwind, AssertUnwindSafe};

use winter_crypto::{hashers::Blake3_256, BatchMerkleProof, Hasher, MerkleTree};
use utils::SliceReader;
use math::fields::f128::BaseElement;

type H = Blake3_256<BaseElement>;
type D = <H as Hasher>::Digest;

fn seed() -> u64 {
    std::env::var("VERIF_SEED").ok().and_then(|s| s.parse().ok()).unwrap_or(0)
}

struct Rng(u64);
impl Rng {
    fn next(&mut self) -> u64 {
        self.0 ^= self.0 << 13;
        self.0 ^= self.0 >> 7;
        self.0 ^= self.0 << 17;
        self.0
    }
}

fn leaves(n: usize, tag: u64) -> Vec<D> {
    (0..n).map(|i| H::hash(&[(i as u64 + 1).to_le_bytes(), tag.to_le_bytes()].concat())).collect()
}

fn cl(p: &BatchMerkleProof<H>) -> BatchMerkleProof<H> {
    BatchMerkleProof { leaves: p.leaves.clone(), nodes: p.nodes.clone(), depth: p.depth }
}

fn fail(what: &str, n: usize, idx: &[usize], extra: &str) -> ! {
    println!("NB-VIOLATION {what}: leaves={n} positions={idx:?} {extra}");
    panic!("NB-VIOLATION {what}: leaves={n} positions={idx:?} {extra}");
}

fn guarded<T>(what: &str, n: usize, idx: &[usize], f: impl FnOnce() -> T) -> T {
    match catch_unwind(AssertUnwindSafe(f)) {
        Ok(v) => v,
        Err(_) => fail("library code panicked", n, idx, what),
    }
}

fn complete(tree: &MerkleTree<H>, n: usize, idx: &[usize]) {
    let p = guarded("prove_batch", n, idx, || tree.prove_batch(idx));
    let p = match p {
        Ok(p) => p,
        Err(e) => fail("prove_batch failed for distinct in-range positions", n, idx, &format!("{e:?}")),
    };
    if p.leaves.len() != idx.len() || (0..idx.len()).any(|k| p.leaves[k] != tree.leaves()[idx[k]]) {
        fail("opening does not carry the committed leaves in list order", n, idx, "");
    }
    if guarded("verify_batch", n, idx, || MerkleTree::<H>::verify_batch(tree.root(), idx, &p)).is_err() {
        fail("honest batch opening does not verify", n, idx, "");
    }
    match guarded("get_root", n, idx, || p.get_root(idx)) {
        Ok(r) if r == *tree.root() => {},
        other => fail("get_root of an honest opening is not the root", n, idx, &format!("{other:?}")),
    }
    let paths = match guarded("into_paths", n, idx, || cl(&p).into_paths(idx)) {
        Ok(v) => v,
        Err(e) => fail("into_paths failed on an honest opening", n, idx, &format!("{e:?}")),
    };
    if paths.len() != idx.len() {
        fail("into_paths returned the wrong number of paths", n, idx, "");
    }
    for (k, &i) in idx.iter().enumerate() {
        let single = tree.prove(i).unwrap();
        if paths[k] != single {
            fail("into_paths[k] is not the path of positions[k]", n, idx, &format!("k={k}"));
        }
        if MerkleTree::<H>::verify(*tree.root(), i, &paths[k]).is_err() {
            fail("decompressed path does not verify", n, idx, &format!("k={k}"));
        }
    }
    let back = guarded("from_paths", n, idx, || BatchMerkleProof::<H>::from_paths(&paths, idx));
    let mut sorted = idx.to_vec();
    sorted.sort();
    let direct = tree.prove_batch(&sorted).unwrap();
    if back.leaves != direct.leaves || back.nodes != direct.nodes || back.depth != direct.depth {
        fail("from_paths(into_paths(p)) is not the batch opening", n, idx, "");
    }
}

fn rejected(tree: &MerkleTree<H>, n: usize, idx: &[usize], p: &BatchMerkleProof<H>, what: &str) {
    let r = guarded(what, n, idx, || p.get_root(idx));
    if let Ok(root) = r {
        if root == *tree.root() {
            fail("a mutated opening verifies against the root", n, idx, what);
        }
    }
    if guarded(what, n, idx, || MerkleTree::<H>::verify_batch(tree.root(), idx, p)).is_ok() {
        fail("a mutated opening is accepted by verify_batch", n, idx, what);
    }
    let _ = guarded(what, n, idx, || cl(p).into_paths(idx));
}

fn mutate(tree: &MerkleTree<H>, n: usize, idx: &[usize], count: &mut u64) {
    let honest = tree.prove_batch(idx).unwrap();
    let other: D = H::hash(b"some other value");
    for k in 0..honest.leaves.len() {
        let mut p = cl(&honest);
        p.leaves[k] = other;
        rejected(tree, n, idx, &p, &format!("leaf {k} replaced"));
        *count += 1;
    }
    for a in 0..honest.nodes.len() {
        for b in 0..honest.nodes[a].len() {
            let mut p = cl(&honest);
            p.nodes[a][b] = other;
            rejected(tree, n, idx, &p, &format!("node [{a}][{b}] replaced"));
            *count += 1;
        }
        {
            // an extra digest appended to a node vector must not be ignored
            let mut p = cl(&honest);
            p.nodes[a].push(other);
            rejected(tree, n, idx, &p, &format!("extra node appended to vector {a}"));
            *count += 1;
        }
        if !honest.nodes[a].is_empty() {
            let mut p = cl(&honest);
            p.nodes[a].pop();
            rejected(tree, n, idx, &p, &format!("last node of vector {a} removed"));
            let mut p = cl(&honest);
            p.nodes[a].clear();
            rejected(tree, n, idx, &p, &format!("node vector {a} emptied"));
            *count += 2;
        }
    }
    let mut p = cl(&honest);
    p.leaves.push(other);
    rejected(tree, n, idx, &p, "extra leaf appended");
    let mut p = cl(&honest);
    p.leaves.push(*honest.leaves.last().unwrap());
    rejected(tree, n, idx, &p, "last leaf repeated");
    let mut p = cl(&honest);
    p.leaves.pop();
    rejected(tree, n, idx, &p, "last leaf removed");
    let mut p = cl(&honest);
    p.leaves.remove(0);
    rejected(tree, n, idx, &p, "first leaf removed");
    let mut p = cl(&honest);
    p.nodes.pop();
    rejected(tree, n, idx, &p, "last node vector removed");
    let mut p = cl(&honest);
    p.nodes.push(Vec::new());
    rejected(tree, n, idx, &p, "empty node vector appended");
    let mut p = cl(&honest);
    p.nodes.push(vec![other]);
    rejected(tree, n, idx, &p, "node vector appended");
    let mut p = cl(&honest);
    p.depth -= 1;
    rejected(tree, n, idx, &p, "depth - 1");
    let mut p = cl(&honest);
    p.depth += 1;
    rejected(tree, n, idx, &p, "depth + 1");
    // the depth field is a byte taken from the proof: every value must be handled without a panic
    for d in [0u8, 1, 31, 32, 62, 63, 64, 65, 128, 255] {
        if d != honest.depth {
            let mut p = cl(&honest);
            p.depth = d;
            rejected(tree, n, idx, &p, &format!("depth = {d}"));
            *count += 1;
        }
    }
    *count += 9;
    // position mutations: each position replaced by an out-of-range or duplicated one, or by another
    // position that is not opened (the claimed leaf then belongs to a different cell)
    for k in 0..idx.len() {
        // out-of-range positions, including the ones congruent to the honest position modulo the number of leaves (the path
        // bits of such a position are those of the honest one)
        let top = usize::MAX - (usize::MAX % n) - n + idx[k];
        for bad in [n, n + 1, usize::MAX, idx[k] + n, idx[k] + 2 * n, idx[k] + 3 * n, top] {
            let mut v = idx.to_vec();
            v[k] = bad;
            if guarded("get_root with an out-of-range position", n, &v, || honest.get_root(&v)).is_ok() {
                fail("out-of-range position accepted by get_root", n, &v, "");
            }
            if guarded("verify_batch with an out-of-range position", n, &v, || MerkleTree::<H>::verify_batch(tree.root(), &v, &honest)).is_ok() {
                fail("out-of-range position accepted by verify_batch", n, &v, "");
            }
            if guarded("prove_batch with an out-of-range position", n, &v, || tree.prove_batch(&v)).is_ok() {
                fail("out-of-range position accepted by prove_batch", n, &v, "");
            }
            // an honest opening extended by an out-of-range position with arbitrary material
            let mut w = idx.to_vec();
            w.push(bad);
            let mut p = cl(&honest);
            p.leaves.push(other);
            p.nodes.push(vec![other; honest.depth as usize]);
            if guarded("extended opening", n, &w, || MerkleTree::<H>::verify_batch(tree.root(), &w, &p)).is_ok() {
                fail("opening extended with an out-of-range position is accepted", n, &w, "");
            }
            *count += 3;
        }
        if idx.len() > 1 {
            let mut v = idx.to_vec();
            v[k] = idx[(k + 1) % idx.len()];
            if guarded("duplicate position", n, &v, || honest.get_root(&v)).is_ok() {
                fail("duplicated position accepted", n, &v, "");
            }
            *count += 1;
        }
        for other_pos in 0..n {
            if !idx.contains(&other_pos) {
                let mut v = idx.to_vec();
                v[k] = other_pos;
                if tree.leaves()[other_pos] != tree.leaves()[idx[k]] {
                    if let Ok(r) = guarded("moved position", n, &v, || honest.get_root(&v)) {
                        if r == *tree.root() {
                            fail("opening verifies for a position it was not made for", n, &v, "");
                        }
                    }
                }
                *count += 1;
                break;
            }
        }
    }
}

#[test]
fn merkle_batch_openings_bounded() {
    let mut rng = Rng(0x9E3779B97F4A7C15 ^ seed().wrapping_mul(0xD1B54A32D192ED03) | 1);
    let (mut cases, mut muts) = (0u64, 0u64);
    for n in [2usize, 4, 8, 16] {
        let lv = leaves(n, seed());
        let tree = MerkleTree::<H>::new(lv.clone()).unwrap();
        for i in 0..n {
            let p = tree.prove(i).unwrap();
            if MerkleTree::<H>::verify(*tree.root(), i, &p).is_err() {
                fail("single opening does not verify", n, &[i], "");
            }
            let mut q = p.clone();
            q[0] = H::hash(b"x");
            if MerkleTree::<H>::verify(*tree.root(), i, &q).is_ok() {
                fail("single opening with a changed leaf verifies", n, &[i], "");
            }
        }
        // shape mutations of a single opening: truncated to every shorter length, and over-long
        for i in 0..n {
            let p = tree.prove(i).unwrap();
            for len in 0..p.len() {
                let q = p[..len].to_vec();
                if guarded("verify with a truncated path", n, &[i], || MerkleTree::<H>::verify(*tree.root(), i, &q)).is_ok() {
                    fail("truncated single opening verifies", n, &[i], &format!("len={len}"));
                }
            }
            let mut q = p.clone();
            q.resize(70, H::hash(b"pad"));
            if guarded("verify with an over-long path", n, &[i], || MerkleTree::<H>::verify(*tree.root(), i, &q)).is_ok() {
                fail("over-long single opening verifies", n, &[i], "len=70");
            }
        }
        // position mutations of a single opening: every other in-range index, and out-of-range indices - among them the
        // ones congruent to the honest index modulo the number of leaves (same path bits) and the largest ones (index + 2^depth
        // must not overflow)
        for i in 0..n {
            let p = tree.prove(i).unwrap();
            for j in 0..n {
                if j != i && MerkleTree::<H>::verify(*tree.root(), j, &p).is_ok() {
                    fail("single opening verifies at another position", n, &[i, j], "");
                }
            }
            let top = usize::MAX - (usize::MAX % n) - n + i;
            for bad in [n, i + n, i + 2 * n, i + 7 * n, top, usize::MAX, usize::MAX - 1] {
                if guarded("verify with an out-of-range index", n, &[i, bad], || MerkleTree::<H>::verify(*tree.root(), bad, &p)).is_ok() {
                    fail("single opening verifies at an out-of-range position", n, &[i, bad], "");
                }
            }
        }
        if tree.prove(n).is_ok() {
            fail("prove accepts an out-of-range position", n, &[n], "");
        }
        for mask in 1u32..(1u32 << n) {
            let asc: Vec<usize> = (0..n).filter(|i| mask & (1 << i) != 0).collect();
            let mut desc = asc.clone();
            desc.reverse();
            let mut shuf = asc.clone();
            for i in (1..shuf.len()).rev() {
                let j = (rng.next() % (i as u64 + 1)) as usize;
                shuf.swap(i, j);
            }
            for idx in [&asc, &desc, &shuf] {
                complete(&tree, n, idx);
                cases += 1;
            }
            let sample = n <= 8 || rng.next() % 128 == 0;
            if sample {
                mutate(&tree, n, &shuf, &mut muts);
                if shuf != asc {
                    mutate(&tree, n, &asc, &mut muts);
                }
            }
        }
    }
    println!("NB-RESULT name=merkle_batch_openings_bounded cases={cases} mutations={muts}");
}


// the documented limit of 255 positions per batch opening, on larger trees: openings of 1, 2, 254 and exactly 255 positions
// (prefix, suffix, every other leaf, seeded random sets) verify, decompress, re-compress and survive
// serialize_nodes -> deserialize; 256 positions are refused by prove_batch and by deserialize with an error, not a panic
#[test]
fn merkle_batch_limits_bounded() {
    let mut rng = Rng(0x2545F4914F6CDD1D ^ seed().wrapping_mul(0x9E3779B97F4A7C15) | 1);
    let mut cases = 0u64;
    for n in [256usize, 512, 1024] {
        let tree = MerkleTree::<H>::new(leaves(n, seed() ^ 77)).unwrap();
        let mut sets: Vec<Vec<usize>> = Vec::new();
        for k in [1usize, 2, 254, 255] {
            sets.push((0..k).collect());
            sets.push((n - k..n).collect());
            if 2 * k <= n {
                sets.push((0..k).map(|i| 2 * i + 1).collect());
            }
            let mut pool: Vec<usize> = (0..n).collect();
            for i in (1..n).rev() {
                let j = (rng.next() % (i as u64 + 1)) as usize;
                pool.swap(i, j);
            }
            sets.push(pool[..k].to_vec());
        }
        for idx in sets.iter() {
            complete(&tree, n, idx);
            let p = tree.prove_batch(idx).unwrap();
            let bytes = p.serialize_nodes();
            let mut rd = SliceReader::new(&bytes);
            let q = match guarded("deserialize", n, idx, || BatchMerkleProof::<H>::deserialize(&mut rd, p.leaves.clone(), p.depth)) {
                Ok(q) => q,
                Err(e) => fail("an honest batch opening cannot be parsed back", n, &[idx.len()], &format!("{e:?}")),
            };
            if q.leaves != p.leaves || q.nodes != p.nodes || q.depth != p.depth {
                fail("deserialize(serialize_nodes(p)) differs from p", n, &[idx.len()], "");
            }
            if guarded("verify_batch", n, idx, || MerkleTree::<H>::verify_batch(tree.root(), idx, &q)).is_err() {
                fail("a parsed-back honest batch opening does not verify", n, &[idx.len()], "");
            }
            cases += 1;
        }
        let too_many: Vec<usize> = (0..256).collect();
        if guarded("prove_batch", n, &[256], || tree.prove_batch(&too_many)).is_ok() {
            fail("prove_batch accepts 256 positions", n, &[256], "");
        }
        let p = tree.prove_batch(&too_many[..255]).unwrap();
        let bytes = p.serialize_nodes();
        let mut lv = p.leaves.clone();
        lv.push(tree.leaves()[255]);
        let mut rd = SliceReader::new(&bytes);
        if guarded("deserialize", n, &[256], || BatchMerkleProof::<H>::deserialize(&mut rd, lv, p.depth)).is_ok() {
            fail("deserialize accepts 256 leaves", n, &[256], "");
        }
    }
    println!("NB-RESULT name=merkle_batch_limits_bounded cases={cases}");
}
