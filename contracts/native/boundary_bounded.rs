// Bounded stand-in (native execution of the real code, NOT a proof) for the part of C16 that lives in
// air/src/air/boundary/mod.rs (BTreeMap / BTreeSet code: out of CBMC's reach, see DESIGN.md 9.2):
// BoundaryConstraints::new must (1) refuse assertion lists in which two assertions constrain the same cell,
// in whatever order they are listed, and (2) otherwise produce constraint groups whose divisors vanish on
// exactly the asserted steps of every constraint of the group, the constraint evaluating to zero exactly
// when the cell holds the asserted value.
// Bound: trace lengths 8, 16, 32; two columns; every single / periodic / sequence assertion; every ordered
// pair of assertions, and seeded triples.
use std::collections::BTreeSet;
use std::panic::{catch_unwind, AssertUnwindSafe};

use math::{fields::f128::BaseElement, FieldElement, StarkField};
use winter_air::{AirContext, Assertion, BoundaryConstraints, FieldExtension, ProofOptions, TraceInfo, TransitionConstraintDegree};

fn seed() -> u64 {
    std::env::var("VERIF_SEED").ok().and_then(|s| s.parse().ok()).unwrap_or(0)
}

fn fail(msg: String) -> ! {
    println!("NB-VIOLATION {msg}");
    panic!("NB-VIOLATION {msg}");
}

/// the value asserted for a cell: a function of the cell only, so that overlapping assertions would agree
/// on values (the library must refuse them all the same) and every cell has a distinct non-zero value
fn cell_value(col: usize, step: usize) -> BaseElement {
    BaseElement::from((1000 + 100 * col + step) as u32)
}

#[derive(Clone, Debug)]
struct Spec {
    kind: &'static str,
    col: usize,
    first: usize,
    stride: usize,
}

impl Spec {
    fn steps(&self, n: usize) -> Vec<usize> {
        match self.kind {
            "single" => vec![self.first],
            _ => (0..n / self.stride).map(|k| self.first + k * self.stride).collect(),
        }
    }

    fn cells(&self, n: usize) -> BTreeSet<(usize, usize)> {
        self.steps(n).into_iter().map(|s| (self.col, s)).collect()
    }

    /// periodic assertions repeat one value: use the value of the first cell and check only that cell's value
    fn build(&self, n: usize) -> Assertion<BaseElement> {
        match self.kind {
            "single" => Assertion::single(self.col, self.first, cell_value(self.col, self.first)),
            "periodic" => Assertion::periodic(self.col, self.first, self.stride, cell_value(self.col, self.first)),
            _ => Assertion::sequence(self.col, self.first, self.stride, self.steps(n).into_iter().map(|s| cell_value(self.col, s)).collect()),
        }
    }

    fn value_at(&self, step: usize) -> BaseElement {
        match self.kind {
            "periodic" => cell_value(self.col, self.first),
            _ => cell_value(self.col, step),
        }
    }
}

fn all_specs(n: usize) -> Vec<Spec> {
    let mut v = Vec::new();
    for col in 0..2 {
        for step in 0..n {
            v.push(Spec { kind: "single", col, first: step, stride: 0 });
        }
        let mut stride = 2;
        while stride < n {
            for first in 0..stride {
                v.push(Spec { kind: "periodic", col, first, stride });
                v.push(Spec { kind: "sequence", col, first, stride });
            }
            stride *= 2;
        }
    }
    v
}

fn context(n: usize, num_assertions: usize) -> AirContext<BaseElement> {
    let options = ProofOptions::new(32, 8, 0, FieldExtension::None, 4, 31);
    AirContext::new(TraceInfo::new(2, n), vec![TransitionConstraintDegree::new(1)], num_assertions, options)
}

fn check_list(n: usize, list: &[Spec], cases: &mut u64) {
    *cases += 1;
    let mut overlap = false;
    for i in 0..list.len() {
        for j in 0..i {
            if !list[i].cells(n).is_disjoint(&list[j].cells(n)) {
                overlap = true;
            }
        }
    }
    let ctx = context(n, list.len());
    let coeffs: Vec<BaseElement> = (0..list.len()).map(|k| BaseElement::from(7 + k as u32)).collect();
    let built = catch_unwind(AssertUnwindSafe(|| {
        BoundaryConstraints::<BaseElement>::new(&ctx, list.iter().map(|s| s.build(n)).collect(), vec![], &coeffs)
    }));
    let what = || format!("trace_len={n} assertions (in listed order)={list:?}");
    let constraints = match (built, overlap) {
        (Err(_), true) => return,
        (Err(_), false) => fail(format!("a list of non-overlapping assertions is refused: {}", what())),
        (Ok(_), true) => fail(format!("two assertions that constrain the same cell are both accepted: {}", what())),
        (Ok(c), false) => c,
    };
    // every (column, step) cell enforced by some group, with the value it is compared with
    let g = BaseElement::get_root_of_unity(n.ilog2());
    let mut enforced: Vec<(usize, usize)> = Vec::new();
    for group in constraints.main_constraints() {
        for c in group.constraints() {
            for step in 0..n {
                let x = g.exp((step as u64).into());
                if group.divisor().evaluate_at(x) == BaseElement::ZERO {
                    enforced.push((c.column(), step));
                    // the asserted value at that step: the constraint vanishes on it and on no other value
                    let spec = list.iter().find(|s| s.cells(n).contains(&(c.column(), step)));
                    match spec {
                        None => fail(format!(
                            "a boundary constraint on column {} is enforced at step {step}, where nothing is asserted: {}",
                            c.column(),
                            what()
                        )),
                        Some(s) => {
                            let v = s.value_at(step);
                            if c.evaluate_at(x, v) != BaseElement::ZERO || c.evaluate_at(x, v + BaseElement::ONE) == BaseElement::ZERO {
                                fail(format!("the constraint on cell ({}, {step}) does not compare it with the asserted value: {}", c.column(), what()));
                            }
                        },
                    }
                }
            }
        }
    }
    let mut want: Vec<(usize, usize)> = list.iter().flat_map(|s| s.cells(n).into_iter()).collect();
    want.sort();
    enforced.sort();
    if want != enforced {
        let missing: Vec<_> = want.iter().filter(|c| !enforced.contains(c)).collect();
        fail(format!("asserted cells {missing:?} are not enforced (enforced cells: {enforced:?}): {}", what()));
    }
}

#[test]
fn boundary_constraints_bounded() {
    // (refusals are panics by design of the API; keep the output quiet)
    std::panic::set_hook(Box::new(|_| {}));
    let mut cases = 0u64;
    let mut rng = 0x9E3779B97F4A7C15u64 ^ seed().wrapping_mul(0xD1B54A32D192ED03) | 1;
    let mut next = move || {
        rng ^= rng << 13;
        rng ^= rng >> 7;
        rng ^= rng << 17;
        rng
    };
    for n in [8usize, 16, 32] {
        let specs = all_specs(n);
        for a in specs.iter() {
            check_list(n, &[a.clone()], &mut cases);
            for b in specs.iter() {
                check_list(n, &[a.clone(), b.clone()], &mut cases);
            }
        }
        for _ in 0..3000 {
            let pick = |r: u64| specs[(r % specs.len() as u64) as usize].clone();
            let list = [pick(next()), pick(next()), pick(next())];
            check_list(n, &list, &mut cases);
        }
    }
    println!("NB-RESULT name=boundary_constraints_bounded cases={cases}");
}

// ------------------------------------------------------------------------------------------------
// Transition exemptions (air/src/air/context.rs set_num_transition_exemptions, air/src/air/divisor.rs
// from_transition): a number of exemptions is accepted exactly when it is at least one, at most
// trace_length / 2 + 1, and the transition quotient (evaluation degree of every constraint minus the degree
// trace_length - k of the divisor) still fits the constraint evaluation domain, i.e. is at most
// ce_domain_size - 1; the divisor built for an accepted k vanishes on exactly the first trace_length - k
// steps of the trace domain.
// Bound: trace lengths 8..64, every k in 0..=trace_length, constraint degrees 1..=9 alone and in pairs, and
// degrees with periodic cycles of length 2..trace_length.

fn eval_degree(base: usize, cycles: &[usize], n: usize) -> usize {
    base * (n - 1) + cycles.iter().map(|c| (n / c) * (c - 1)).sum::<usize>()
}

fn check_exemptions(n: usize, degs: &[(usize, Vec<usize>)], cases: &mut u64) {
    let options = ProofOptions::new(32, 16, 0, FieldExtension::None, 4, 31);
    let make = || {
        let d: Vec<TransitionConstraintDegree> = degs
            .iter()
            .map(|(b, c)| if c.is_empty() { TransitionConstraintDegree::new(*b) } else { TransitionConstraintDegree::with_cycles(*b, c.clone()) })
            .collect();
        AirContext::<BaseElement>::new(TraceInfo::new(2, n), d, 1, options.clone())
    };
    let ctx = match catch_unwind(AssertUnwindSafe(make)) {
        Ok(c) => c,
        Err(_) => return, // this degree set needs a blowup larger than 16: not a valid context
    };
    let ce = ctx.ce_domain_size();
    for k in 0..=n {
        *cases += 1;
        let fits = degs.iter().all(|(b, c)| eval_degree(*b, c, n) + k <= ce - 1 + n);
        let expected = k >= 1 && k <= n / 2 + 1 && fits;
        let got = catch_unwind(AssertUnwindSafe(|| make().set_num_transition_exemptions(k)));
        match got {
            Ok(c2) => {
                if !expected {
                    fail(format!("set_num_transition_exemptions({k}) accepted for trace length {n}, degrees {degs:?}, ce domain {ce}: the quotient does not fit (or the count is out of range)"));
                }
                if c2.num_transition_exemptions() != k {
                    fail(format!("num_transition_exemptions() == {} after set_num_transition_exemptions({k})", c2.num_transition_exemptions()));
                }
                // the composition polynomial has degree d = (highest evaluation degree) - (n - k): it has d + 1 coefficients, and
                // the prescribed columns of n coefficients must hold them all, with no column to spare (C17)
                let d = degs.iter().map(|(b, c)| eval_degree(*b, c, n)).max().unwrap() - (n - k);
                let want = core::cmp::max(1, (d + 1 + n - 1) / n);
                if c2.num_constraint_composition_columns() != want {
                    fail(format!(
                        "num_constraint_composition_columns() == {} for trace length {n}, degrees {degs:?}, {k} exemptions: the composition polynomial has degree {d}, i.e. {} coefficients, which need {want} columns of {n}",
                        c2.num_constraint_composition_columns(),
                        d + 1
                    ));
                }
            },
            Err(_) => {
                if expected {
                    fail(format!("set_num_transition_exemptions({k}) refused for trace length {n}, degrees {degs:?}, ce domain {ce} although the quotient fits"));
                }
            },
        }
    }
}

#[test]
fn transition_exemptions_bounded() {
    std::panic::set_hook(Box::new(|_| {}));
    let mut cases = 0u64;
    for n in [8usize, 16, 32, 64] {
        for b in 1..=9usize {
            check_exemptions(n, &[(b, vec![])], &mut cases);
            for b2 in 1..=9usize {
                check_exemptions(n, &[(b, vec![]), (b2, vec![])], &mut cases);
            }
            let mut c = 2;
            while c <= n {
                check_exemptions(n, &[(b, vec![c])], &mut cases);
                check_exemptions(n, &[(b, vec![c, 2])], &mut cases);
                check_exemptions(n, &[(1, vec![]), (b, vec![c])], &mut cases);
                c *= 2;
            }
        }
        // the divisor of every admissible k vanishes on exactly the first n - k steps
        let g = BaseElement::get_root_of_unity(n.trailing_zeros());
        for k in 1..=n / 2 + 1 {
            let d = winter_air::ConstraintDivisor::<BaseElement>::from_transition(n, k);
            if d.exemptions().len() != k || d.degree() != n - k {
                fail(format!("from_transition({n}, {k}): {} exemptions, degree {}", d.exemptions().len(), d.degree()));
            }
            let mut x = BaseElement::ONE;
            for step in 0..n {
                cases += 1;
                // the exemption product alone: the quotient is 0 * inv(0) on exempt steps
                let exempt_zero = d.evaluate_exemptions_at(x) == BaseElement::ZERO;
                if !exempt_zero && d.evaluate_at(x) != BaseElement::ZERO {
                    fail(format!("from_transition({n}, {k}): divisor does not vanish on the non-exempt step {step}"));
                }
                if exempt_zero != (step >= n - k) {
                    fail(format!("from_transition({n}, {k}): step {step} exempt = {exempt_zero}, expected {}", step >= n - k));
                }
                x *= g;
            }
            // the divisor the prover / verifier actually use is the one TransitionConstraints::new builds from the
            // context: it must be the divisor of exactly the context's exemption count
            let options = ProofOptions::new(32, 16, 0, FieldExtension::None, 4, 31);
            let mk = || AirContext::<BaseElement>::new(TraceInfo::new(2, n), vec![TransitionConstraintDegree::new(1)], 1, options.clone()).set_num_transition_exemptions(k);
            if let Ok(ctx) = catch_unwind(AssertUnwindSafe(mk)) {
                cases += 1;
                let tc = winter_air::TransitionConstraints::<BaseElement>::new(&ctx, &[BaseElement::ONE]);
                if tc.divisor() != &d {
                    fail(format!("TransitionConstraints::new for trace length {n} with {k} exemptions uses the divisor {} instead of {}", tc.divisor(), d));
                }
            }
        }
    }
    println!("NB-RESULT name=transition_exemptions_bounded cases={cases}");
}

// ------------------------------------------------------------------------------------------------
// Transition-constraint composition (C17, air/src/air/transition/mod.rs): TransitionConstraints::new hands the first
// `num_main` composition coefficients to the main constraints and the FOLLOWING `num_aux` ones to the auxiliary
// constraints, and combine_evaluations is the random linear combination sum_i c_i * main_i + sum_j c_{num_main + j} * aux_j
// divided by the transition divisor at x (reference computed here term by term).
// Bound: 1..4 main x 0..4 auxiliary constraints, trace lengths 8 and 32, 1..3 exemptions, seeded coefficients /
// evaluations / points over the 128-bit field.
#[test]
fn transition_composition_bounded() {
    std::panic::set_hook(Box::new(|_| {}));
    let mut cases = 0u64;
    let mut s = 0x2545F4914F6CDD1Du64 ^ seed().wrapping_mul(0x9E3779B97F4A7C15) | 1;
    let mut next = move || {
        s ^= s << 13;
        s ^= s >> 7;
        s ^= s << 17;
        BaseElement::new(s as u128 * 0x1_0000_0001 + 3)
    };
    let options = ProofOptions::new(32, 8, 0, FieldExtension::None, 4, 31);
    for n in [8usize, 32] {
        for num_main in 1..=4usize {
            for num_aux in 0..=4usize {
                for k in 1..=3usize {
                    cases += 1;
                    let md = vec![TransitionConstraintDegree::new(1); num_main];
                    let ad = vec![TransitionConstraintDegree::new(1); num_aux];
                    let ctx = if num_aux == 0 {
                        AirContext::<BaseElement>::new(TraceInfo::new(2, n), md, 1, options.clone())
                    } else {
                        AirContext::<BaseElement>::new_multi_segment(TraceInfo::new_multi_segment(2, 2, 2, n, vec![]), md, ad, 1, 1, None, options.clone())
                    }
                    .set_num_transition_exemptions(k);
                    let coeffs: Vec<BaseElement> = (0..num_main + num_aux).map(|_| next()).collect();
                    let tc = winter_air::TransitionConstraints::<BaseElement>::new(&ctx, &coeffs);
                    if tc.main_constraint_coef() != coeffs[..num_main].to_vec() || tc.aux_constraint_coef() != coeffs[num_main..].to_vec() {
                        fail(format!("TransitionConstraints::new({num_main} main, {num_aux} aux): main coefficients {:?}, auxiliary coefficients {:?} for the drawn list {coeffs:?}", tc.main_constraint_coef(), tc.aux_constraint_coef()));
                    }
                    if tc.num_main_constraints() != num_main || tc.num_aux_constraints() != num_aux {
                        fail(format!("TransitionConstraints::new: {} main / {} aux constraints instead of {num_main} / {num_aux}", tc.num_main_constraints(), tc.num_aux_constraints()));
                    }
                    let me: Vec<BaseElement> = (0..num_main).map(|_| next()).collect();
                    let ae: Vec<BaseElement> = (0..num_aux).map(|_| next()).collect();
                    let x = next();
                    let mut want = BaseElement::ZERO;
                    for i in 0..num_main {
                        want += coeffs[i] * me[i];
                    }
                    for j in 0..num_aux {
                        want += coeffs[num_main + j] * ae[j];
                    }
                    let d = winter_air::ConstraintDivisor::<BaseElement>::from_transition(n, k);
                    want /= d.evaluate_at(x);
                    let got = tc.combine_evaluations::<BaseElement>(&me, &ae, x);
                    if got != want {
                        fail(format!("combine_evaluations({num_main} main, {num_aux} aux, trace length {n}, {k} exemptions) is not the random linear combination over the transition divisor"));
                    }
                }
            }
        }
    }
    println!("NB-RESULT name=transition_composition_bounded cases={cases}");
}

// ------------------------------------------------------------------------------------------------
// Assertion constructors (C16, air/src/air/assertions/mod.rs): periodic / sequence accept exactly the documented shapes -
// stride a power of two >= 2, first step STRICTLY below the stride, a non-empty power-of-two number of values - and refuse
// (panic, as documented) everything else; an accepted assertion names exactly the steps first_step + k * stride below the
// trace length. Bound: strides 0..=70, first steps 0..=70, 0..=9 values.
#[test]
fn assertion_constructors_bounded() {
    std::panic::set_hook(Box::new(|_| {}));
    let mut cases = 0u64;
    for stride in 0..=70usize {
        for first in 0..=70usize {
            let shape_ok = stride.is_power_of_two() && stride >= 2 && first < stride;
            cases += 1;
            let got = catch_unwind(|| Assertion::<BaseElement>::periodic(0, first, stride, BaseElement::ONE)).is_ok();
            if got != shape_ok {
                fail(format!("Assertion::periodic(first step {first}, stride {stride}) is {} but the documented rule says {}", if got { "accepted" } else { "refused" }, if shape_ok { "valid" } else { "invalid" }));
            }
            for num_values in 0..=9usize {
                cases += 1;
                let want = shape_ok && num_values >= 1 && num_values.is_power_of_two();
                let got = catch_unwind(|| Assertion::<BaseElement>::sequence(0, first, stride, vec![BaseElement::ONE; num_values]));
                if got.is_ok() != want {
                    fail(format!("Assertion::sequence(first step {first}, stride {stride}, {num_values} values) is {} but the documented rule says {}", if got.is_ok() { "accepted" } else { "refused" }, if want { "valid" } else { "invalid" }));
                }
                if let Ok(a) = got {
                    // the steps it names on the trace it fits: all inside the trace
                    let n = if num_values == 1 { 128 } else { stride * num_values };
                    if a.validate_trace_length(n).is_ok() {
                        let steps = a.get_num_steps(n);
                        let s = if num_values == 1 { 1 } else { stride };
                        if first + (steps - 1) * s >= n {
                            fail(format!("Assertion::sequence(first step {first}, stride {stride}, {num_values} values) names step {} on a trace of {n} steps", first + (steps - 1) * s));
                        }
                    }
                }
            }
        }
    }
    println!("NB-RESULT name=assertion_constructors_bounded cases={cases}");
}

// ------------------------------------------------------------------------------------------------
// Multi-segment traces: an assertion is made against ONE segment, and its column must exist in that segment.
// BoundaryConstraints::new must refuse an assertion whose column is at or beyond the width of its own segment
// (whatever the width of the other segment), accept every other well-formed one, and enforce the accepted ones on
// exactly their cells of their own segment.
// Bound: trace lengths 8, 16; main and auxiliary widths 1..=3; every column 0..main + aux; six assertion shapes;
// the probed assertion in the main or in the auxiliary list, next to one valid assertion of the other segment.
#[test]
fn segment_widths_bounded() {
    std::panic::set_hook(Box::new(|_| {}));
    let mut cases = 0u64;
    let options = ProofOptions::new(32, 8, 0, FieldExtension::None, 4, 31);
    for n in [8usize, 16] {
        let g = BaseElement::get_root_of_unity(n.ilog2());
        for main_w in 1..=3usize {
            for aux_w in 1..=3usize {
                for col in 0..main_w + aux_w {
                    let shapes = [
                        Spec { kind: "single", col, first: 0, stride: 0 },
                        Spec { kind: "single", col, first: n - 1, stride: 0 },
                        Spec { kind: "periodic", col, first: 1, stride: 4 },
                        Spec { kind: "periodic", col, first: 0, stride: 2 },
                        Spec { kind: "sequence", col, first: 3, stride: 4 },
                        Spec { kind: "sequence", col, first: 0, stride: n / 2 },
                    ];
                    for spec in shapes.iter() {
                        for in_aux in [false, true] {
                            cases += 1;
                            let ctx = AirContext::<BaseElement>::new_multi_segment(
                                TraceInfo::new_multi_segment(main_w, aux_w, 2, n, vec![]),
                                vec![TransitionConstraintDegree::new(1)],
                                vec![TransitionConstraintDegree::new(1)],
                                1,
                                1,
                                None,
                                options.clone(),
                            );
                            // the companion assertion of the other segment: column 0, step 2 (valid in every configuration)
                            let other = Assertion::single(0, 2, BaseElement::from(5u32));
                            let (main, aux) = if in_aux { (vec![other], vec![spec.build(n)]) } else { (vec![spec.build(n)], vec![other]) };
                            let coeffs = [BaseElement::from(7u32), BaseElement::from(11u32)];
                            let built = catch_unwind(AssertUnwindSafe(|| BoundaryConstraints::<BaseElement>::new(&ctx, main, aux, &coeffs)));
                            let width = if in_aux { aux_w } else { main_w };
                            let what = || format!(
                                "trace_len={n} main_width={main_w} aux_width={aux_w} assertion={spec:?} made against the {} segment",
                                if in_aux { "auxiliary" } else { "main" }
                            );
                            let constraints = match (built, col >= width) {
                                (Err(_), true) => continue,
                                (Ok(_), true) => fail(format!("an assertion on a column its segment does not have is accepted: {}", what())),
                                (Err(_), false) => fail(format!("a well-formed assertion is refused: {}", what())),
                                (Ok(c), false) => c,
                            };
                            let (own, foreign) = if in_aux {
                                (constraints.aux_constraints(), constraints.main_constraints())
                            } else {
                                (constraints.main_constraints(), constraints.aux_constraints())
                            };
                            // the probed assertion: exactly its cells, in its own segment's groups
                            let mut enforced = BTreeSet::new();
                            for group in own {
                                for c in group.constraints() {
                                    for step in 0..n {
                                        if group.divisor().evaluate_at(g.exp((step as u64).into())) == BaseElement::ZERO {
                                            enforced.insert((c.column(), step));
                                        }
                                    }
                                }
                            }
                            if enforced != spec.cells(n) {
                                fail(format!("enforced cells {enforced:?} differ from the asserted cells {:?}: {}", spec.cells(n), what()));
                            }
                            // the companion: column 0, step 2 of the other segment and nothing else
                            let mut enforced = BTreeSet::new();
                            for group in foreign {
                                for c in group.constraints() {
                                    for step in 0..n {
                                        if group.divisor().evaluate_at(g.exp((step as u64).into())) == BaseElement::ZERO {
                                            enforced.insert((c.column(), step));
                                        }
                                    }
                                }
                            }
                            if enforced != BTreeSet::from([(0usize, 2usize)]) {
                                fail(format!("the assertion of the other segment is enforced on {enforced:?} instead of (0, 2): {}", what()));
                            }
                        }
                    }
                }
            }
        }
    }
    println!("NB-RESULT name=segment_widths_bounded cases={cases}");
}
