// Bounded stand-in (native execution of the real code, NOT a proof) for the container part of C12: strings, vectors, maps,
// sets, options, arrays and tuples are generic / allocation-heavy code whose symbolic shapes blow CBMC up (measured: a Vec of
// symbolic length times out) and which Verus cannot take (BTreeMap, String). Checked for every generated value x of every
// listed type, with three byte sources (SliceReader, ReadAdapter over a chunked reader, ReadAdapter over std::io::Cursor):
//   decode(encode(x)) == x, exactly the written bytes are consumed (a sentinel byte behind them is still there), re-encoding
//   the decoded value reproduces the bytes, get_size_hint() == encoded length where it is implemented, and every strict
//   prefix of the encoding is refused with an error (never a panic).
// Bound: the value lists below (boundary integers incl. every vint64 length class, empty / 1 / 127 / 128 / 300-element
// containers, multi-byte UTF-8 strings, nested containers, 1..6-tuples), chunk sizes 1, 2, 3, 7, 255, 256, 257.
use std::collections::{BTreeMap, BTreeSet};
use std::io::Read;
use std::panic::{catch_unwind, AssertUnwindSafe};

use winter_utils::{ByteReader, Deserializable, ReadAdapter, Serializable, SliceReader};

fn fail(msg: String) -> ! {
    println!("NB-VIOLATION {msg}");
    panic!("NB-VIOLATION {msg}");
}

/// a Read that hands out at most `chunk` bytes per call
struct Chunked<'a> {
    data: &'a [u8],
    chunk: usize,
}
impl Read for Chunked<'_> {
    fn read(&mut self, buf: &mut [u8]) -> std::io::Result<usize> {
        let n = self.chunk.min(buf.len()).min(self.data.len());
        buf[..n].copy_from_slice(&self.data[..n]);
        self.data = &self.data[n..];
        Ok(n)
    }
}

fn decode_with<T: Deserializable, R: ByteReader>(rd: &mut R, what: &str, src: &str) -> (Option<T>, Option<u8>, bool) {
    match catch_unwind(AssertUnwindSafe(|| {
        let v = T::read_from(rd).ok();
        let sentinel = if v.is_some() { rd.read_u8().ok() } else { None };
        let more = rd.has_more_bytes();
        (v, sentinel, more)
    })) {
        Ok(r) => r,
        Err(_) => fail(format!("decoding panicked: type={what} source={src}")),
    }
}

fn check<T: Serializable + Deserializable + PartialEq + std::fmt::Debug>(what: &str, values: Vec<T>, cases: &mut u64) {
    for x in values.iter() {
        let mut bytes = x.to_bytes();
        let written = bytes.len();
        bytes.push(0xA5); // sentinel: must still be there after decoding
        let sources: Vec<(String, Box<dyn Fn(&[u8]) -> (Option<T>, Option<u8>, bool)>)> = {
            let mut v: Vec<(String, Box<dyn Fn(&[u8]) -> (Option<T>, Option<u8>, bool)>)> = Vec::new();
            let w = what.to_string();
            v.push(("SliceReader".to_string(), Box::new({
                let w = w.clone();
                move |b: &[u8]| decode_with::<T, _>(&mut SliceReader::new(b), &w, "SliceReader")
            })));
            for chunk in [1usize, 2, 3, 7, 255, 256, 257] {
                let w = w.clone();
                v.push((format!("ReadAdapter(chunks of {chunk})"), Box::new(move |b: &[u8]| {
                    let mut src = Chunked { data: b, chunk };
                    let mut rd = ReadAdapter::new(&mut src);
                    decode_with::<T, _>(&mut rd, &w, "ReadAdapter")
                })));
            }
            let w2 = w.clone();
            v.push(("ReadAdapter(Cursor)".to_string(), Box::new(move |b: &[u8]| {
                let mut src = std::io::Cursor::new(b.to_vec());
                let mut rd = ReadAdapter::new(&mut src);
                decode_with::<T, _>(&mut rd, &w2, "ReadAdapter(Cursor)")
            })));
            v
        };
        for (name, dec) in sources.iter() {
            *cases += 1;
            let (v, sentinel, more) = dec(&bytes);
            match v {
                None => fail(format!("an encoded value cannot be decoded: type={what} value={x:?} source={name}")),
                Some(y) => {
                    if y != *x {
                        fail(format!("decode(encode(x)) != x: type={what} value={x:?} decoded={y:?} source={name}"));
                    }
                    if sentinel != Some(0xA5) || more {
                        fail(format!("decoding does not consume exactly the {written} written bytes: type={what} value={x:?} source={name}"));
                    }
                    if y.to_bytes() != bytes[..written] {
                        fail(format!("re-encoding the decoded value gives other bytes: type={what} value={x:?} source={name}"));
                    }
                }
            }
        }
        // every strict prefix is refused (SliceReader and one chunked adapter); sampled for long encodings
        let step = if written > 64 { written / 37 + 1 } else { 1 };
        let mut cut = 0;
        while cut < written {
            for (name, dec) in [&sources[0], &sources[2]] {
                *cases += 1;
                let (v, _, _) = dec(&bytes[..cut]);
                if v.is_some() {
                    fail(format!("a truncated encoding ({cut} of {written} bytes) is accepted: type={what} value={x:?} source={name}"));
                }
            }
            cut += step;
        }
    }
}

#[test]
fn serde_containers_bounded() {
    let mut cases = 0u64;
    // the variable-length size encoding: both ends of every length class
    let mut sizes: Vec<usize> = vec![0, 1];
    for k in 1..=9u32 {
        let bits = 7 * k;
        if bits < 64 {
            sizes.extend([(1usize << bits) - 1, 1usize << bits, (1usize << bits) + 1]);
        }
    }
    sizes.extend([usize::MAX - 1, usize::MAX, 1 << 63, (1 << 63) - 1]);
    check("usize", sizes, &mut cases);
    check("u8", vec![0u8, 1, 127, 128, 255], &mut cases);
    check("u16", vec![0u16, 1, 255, 256, u16::MAX], &mut cases);
    check("u32", vec![0u32, 1, 65535, 65536, u32::MAX], &mut cases);
    check("u64", vec![0u64, 1, u32::MAX as u64, 1 << 32, u64::MAX], &mut cases);
    check("u128", vec![0u128, 1, u64::MAX as u128, 1 << 64, u128::MAX], &mut cases);
    check("()", vec![()], &mut cases);
    check("Option<u8>", vec![None, Some(0u8), Some(1), Some(255)], &mut cases);
    check("Option<Option<u16>>", vec![None, Some(None), Some(Some(0u16)), Some(Some(u16::MAX))], &mut cases);
    check("Option<Vec<u8>>", vec![None, Some(vec![]), Some(vec![0u8]), Some((0..=255u8).collect())], &mut cases);
    check("[u8; 0]", vec![[0u8; 0]], &mut cases);
    check("[u16; 3]", vec![[0u16, 1, 2], [u16::MAX; 3]], &mut cases);
    check("[u64; 33]", vec![[7u64; 33], core::array::from_fn(|i| (i as u64) << 40)], &mut cases);
    let lens = [0usize, 1, 2, 127, 128, 129, 255, 256, 257, 300];
    check("Vec<u8>", lens.iter().map(|&n| (0..n).map(|i| (i * 7) as u8).collect::<Vec<u8>>()).collect(), &mut cases);
    check("Vec<u32>", lens.iter().map(|&n| (0..n).map(|i| (i as u32).wrapping_mul(0x9E3779B9)).collect::<Vec<u32>>()).collect(), &mut cases);
    check("Vec<usize>", lens.iter().map(|&n| (0..n).map(|i| 1usize << (i % 64)).collect::<Vec<usize>>()).collect(), &mut cases);
    check("Vec<Vec<u8>>", vec![vec![], vec![vec![]], vec![vec![1u8], vec![], vec![2, 3]], (0..130).map(|i| vec![i as u8; i % 5]).collect()], &mut cases);
    check("Vec<Option<u64>>", vec![vec![None, Some(0u64), None, Some(u64::MAX)], (0..200).map(|i| if i % 3 == 0 { None } else { Some(i as u64) }).collect()], &mut cases);
    check("String", vec![String::new(), "a".to_string(), "ASCII text with spaces".to_string(), "gr\u{fc}\u{df}e \u{2014} \u{1F980} \u{4e2d}\u{6587}".to_string(),
                          "x".repeat(127), "y".repeat(128), "\u{e9}".repeat(200)], &mut cases);
    check("Vec<String>", vec![vec![], vec![String::new(), "b".to_string()], (0..130).map(|i| format!("item {i}")).collect()], &mut cases);
    let maps: Vec<BTreeMap<u32, Vec<u8>>> = vec![BTreeMap::new(), [(0u32, vec![])].into_iter().collect(), (0..200u32).map(|i| (i * 3, vec![i as u8; (i % 4) as usize])).collect()];
    check("BTreeMap<u32, Vec<u8>>", maps, &mut cases);
    let smaps: Vec<BTreeMap<String, u64>> = vec![BTreeMap::new(), [("k".to_string(), 1u64), ("".to_string(), 2)].into_iter().collect(), (0..129u64).map(|i| (format!("key{i:03}"), i)).collect()];
    check("BTreeMap<String, u64>", smaps, &mut cases);
    let sets: Vec<BTreeSet<u16>> = vec![BTreeSet::new(), [5u16].into_iter().collect(), (0..300u16).map(|i| i * 7).collect()];
    check("BTreeSet<u16>", sets, &mut cases);
    check("(u8,)", vec![(7u8,)], &mut cases);
    check("(u8, u16)", vec![(1u8, 2u16), (255, 65535)], &mut cases);
    check("(u8, Vec<u8>, String)", vec![(0u8, Vec::<u8>::new(), String::new()), (9u8, vec![1u8, 2, 3], "t".to_string())], &mut cases);
    check("(u8, u16, u32, u64)", vec![(1u8, 2u16, 3u32, 4u64)], &mut cases);
    check("(u8, u16, u32, u64, u128)", vec![(1u8, 2u16, 3u32, 4u64, 5u128)], &mut cases);
    check("(u8, u16, u32, u64, u128, usize)", vec![(1u8, 2u16, 3u32, 4u64, 5u128, 6usize), (255, 65535, u32::MAX, u64::MAX, u128::MAX, usize::MAX)], &mut cases);
    println!("NB-RESULT name=serde_containers_bounded cases={cases}");
}
