// Bounded stand-in (native execution of the real code, NOT a proof) for C11: the Rescue Prime permutations of Rp64_256 and
// RpJive64_256 (the two hashers that expose their permutation and constants) against the documented algorithm written
// independently in this file over 128-bit reference arithmetic:
//     round(s) = ARK2[r] + MDS * ( (ARK1[r] + MDS * s^7) ^ (1/7) ),  7 rounds,
// with the matrix-vector product computed entry by entry from the public MDS constant and x^(1/7) computed as the
// exponentiation by the inverse of 7 modulo p - 1 (checked here: (y^(1/7))^7 == y for every value used).
// Why: the S-box / inverse S-box exponentiation chains and the constant additions are closure bodies (outside Verus) over field
// multiplications (outside CBMC); the Verus units mds8 / mds12 / rescuev decide the MDS fast path and the round structure
// only. hash_elements / merge are compared end to end with the documented sponge run on the reference permutation.
// Bound: states with every lane from a list of boundary values (0, 1, p - 1, 2^32 - 1, 2^32, 2^63 - 1, ...), each boundary
// value alone in each lane, 300 seeded states, every round index; element lists of 0..20 elements for the sponges.
use winter_crypto::hashers::{Rp62_248, Rp64_256, RpJive64_256};
use winter_crypto::Digest;
use winter_crypto::{ElementHasher, Hasher};
use math::{fields::f64::BaseElement, FieldElement, StarkField};

const P: u128 = 0xFFFF_FFFF_0000_0001;
const INV7: u128 = 10540996611094048183;

fn seed() -> u64 {
    std::env::var("VERIF_SEED").ok().and_then(|s| s.parse().ok()).unwrap_or(0)
}
struct Rng(u64);
impl Rng {
    fn next(&mut self) -> u64 {
        self.0 ^= self.0 << 13;
        self.0 ^= self.0 >> 7;
        self.0 ^= self.0 << 17;
        self.0
    }
}
fn fail(msg: String) -> ! {
    println!("NB-VIOLATION {msg}");
    panic!("NB-VIOLATION {msg}");
}
fn mulm(a: u128, b: u128) -> u128 {
    (a * b) % P // a, b < 2^64
}
fn powm(a: u128, mut e: u128) -> u128 {
    let (mut r, mut b) = (1u128, a % P);
    while e > 0 {
        if e & 1 == 1 {
            r = mulm(r, b);
        }
        b = mulm(b, b);
        e >>= 1;
    }
    r
}

fn ref_round<const N: usize>(s: &mut [u128; N], mds: &[[u128; N]; N], ark1: &[u128; N], ark2: &[u128; N]) {
    let mut t = [0u128; N];
    for i in 0..N {
        t[i] = powm(s[i], 7);
    }
    let mut u = [0u128; N];
    for i in 0..N {
        let mut acc = 0u128;
        for j in 0..N {
            acc = (acc + mulm(mds[i][j], t[j])) % P;
        }
        u[i] = (acc + ark1[i]) % P;
    }
    for i in 0..N {
        let y = u[i];
        let x = powm(y, INV7);
        if powm(x, 7) != y {
            fail(format!("reference arithmetic: ({y}^(1/7))^7 != {y}"));
        }
        t[i] = x;
    }
    for i in 0..N {
        let mut acc = 0u128;
        for j in 0..N {
            acc = (acc + mulm(mds[i][j], t[j])) % P;
        }
        s[i] = (acc + ark2[i]) % P;
    }
}

fn ints<const N: usize>(s: &[BaseElement; N]) -> [u128; N] {
    let mut r = [0u128; N];
    for i in 0..N {
        r[i] = s[i].as_int() as u128;
    }
    r
}
fn elems<const N: usize>(s: &[u128; N]) -> [BaseElement; N] {
    let mut r = [BaseElement::ZERO; N];
    for i in 0..N {
        r[i] = BaseElement::new(s[i] as u64);
    }
    r
}
fn matrix<const N: usize>(m: &[[BaseElement; N]; N]) -> [[u128; N]; N] {
    let mut r = [[0u128; N]; N];
    for i in 0..N {
        r[i] = ints(&m[i]);
    }
    r
}

const BOUNDARY: [u128; 16] = [
    0, 1, 2, P - 1, P - 2, (P - 1) / 2, (1 << 32) - 1, 1 << 32, (1 << 32) + 1, (1 << 63) - 1, 1 << 63, 0xFFFF_FFFE_FFFF_FFFF, 0xFFFF_FFFF_0000_0000,
    0x8000_0000_7FFF_FFFF, 7, 0x1_0000_0000 - 7,
];

fn states<const N: usize>(rng: &mut Rng) -> Vec<[u128; N]> {
    let mut v = Vec::new();
    for &b in BOUNDARY.iter() {
        v.push([b % P; N]);
        for lane in 0..N {
            let mut s = [0u128; N];
            s[lane] = b % P;
            v.push(s);
            let mut s = [P - 1; N];
            s[lane] = b % P;
            v.push(s);
        }
    }
    for k in 0..300 {
        let mut s = [0u128; N];
        for x in s.iter_mut() {
            *x = if k % 3 == 0 { BOUNDARY[(rng.next() % 16) as usize] % P } else { rng.next() as u128 % P };
        }
        v.push(s);
    }
    v
}

macro_rules! permutation_check {
    ($name:expr, $H:ty, $N:expr, $rng:expr, $cases:expr) => {{
        let mds = matrix::<$N>(&<$H>::MDS);
        if <$H>::NUM_ROUNDS != 7 || <$H>::STATE_WIDTH != $N {
            fail(format!("{}: {} rounds, state width {}", $name, <$H>::NUM_ROUNDS, <$H>::STATE_WIDTH));
        }
        for s0 in states::<$N>($rng) {
            // every round on its own
            for r in 0..7 {
                *$cases += 1;
                let mut want = s0;
                ref_round::<$N>(&mut want, &mds, &ints(&<$H>::ARK1[r]), &ints(&<$H>::ARK2[r]));
                let mut got = elems(&s0);
                <$H>::apply_round(&mut got, r);
                if ints(&got) != want {
                    fail(format!("{}: apply_round(round {r}) on {s0:?} gives {:?} instead of {want:?}", $name, ints(&got)));
                }
            }
            // the permutation: 7 rounds in order
            let mut want = s0;
            for r in 0..7 {
                ref_round::<$N>(&mut want, &mds, &ints(&<$H>::ARK1[r]), &ints(&<$H>::ARK2[r]));
            }
            let mut got = elems(&s0);
            <$H>::apply_permutation(&mut got);
            if ints(&got) != want {
                fail(format!("{}: apply_permutation on {s0:?} gives {:?} instead of {want:?}", $name, ints(&got)));
            }
        }
    }};
}

fn ref_perm<const N: usize>(s: &mut [u128; N], mds: &[[u128; N]; N], ark1: &[[BaseElement; N]; 7], ark2: &[[BaseElement; N]; 7]) {
    for r in 0..7 {
        ref_round::<N>(s, mds, &ints(&ark1[r]), &ints(&ark2[r]));
    }
}

#[test]
fn rescue_permutations_bounded() {
    let mut rng = Rng(0xD6E8FEB86659FD93 ^ seed().wrapping_mul(0x9E3779B97F4A7C15) | 1);
    let mut cases = 0u64;
    if mulm(7 % (P - 1), 1) != 7 || (7u128 * INV7) % (P - 1) != 1 {
        fail("reference arithmetic: 7 * INV7 != 1 mod p - 1".to_string());
    }
    permutation_check!("Rp64_256", Rp64_256, 12, &mut rng, &mut cases);
    permutation_check!("RpJive64_256", RpJive64_256, 8, &mut rng, &mut cases);
    println!("NB-RESULT name=rescue_permutations_bounded cases={cases}");
}

// Rp64_256 sponge: capacity word 0 = number of elements, rate = words 4..12, absorbed by addition, permutation after every 8
// elements and once more for a partial block; digest = words 4..8. merge(a, b) = hash_elements(a || b).
// RpJive64_256 sponge (state 8: capacity 0..4, rate 4..8): capacity word 0 = 1 iff the length is not a multiple of 4; a partial
// block is completed by setting the remaining rate lanes to 1, 0, ..; digest = words 4..8 (as the Kani contracts of C11 state it).
#[test]
fn rescue_sponges_bounded() {
    let mut rng = Rng(0xA0761D6478BD642F ^ seed().wrapping_mul(0xE7037ED1A0B428DB) | 1);
    let mut cases = 0u64;
    let mds12 = matrix::<12>(&Rp64_256::MDS);
    let mds8 = matrix::<8>(&RpJive64_256::MDS);
    for len in 0..=20usize {
        for round in 0..6 {
            cases += 1;
            let vals: Vec<u128> = (0..len).map(|i| if round == 0 { BOUNDARY[i % 16] % P } else { rng.next() as u128 % P }).collect();
            let elements: Vec<BaseElement> = vals.iter().map(|&v| BaseElement::new(v as u64)).collect();
            // Rp64_256
            let mut s = [0u128; 12];
            s[0] = len as u128 % P;
            let mut i = 0;
            for &v in &vals {
                s[4 + i] = (s[4 + i] + v) % P;
                i += 1;
                if i == 8 {
                    ref_perm::<12>(&mut s, &mds12, &Rp64_256::ARK1, &Rp64_256::ARK2);
                    i = 0;
                }
            }
            if i > 0 {
                ref_perm::<12>(&mut s, &mds12, &Rp64_256::ARK1, &Rp64_256::ARK2);
            }
            let d = Rp64_256::hash_elements(&elements);
            let got: Vec<u128> = d.as_elements().iter().map(|e| e.as_int() as u128).collect();
            if got != s[4..8].to_vec() {
                fail(format!("Rp64_256::hash_elements({vals:?}) == {got:?} instead of {:?}", &s[4..8]));
            }
            if len == 8 {
                let a = Rp64_256::hash_elements(&elements[..4]);
                let b = Rp64_256::hash_elements(&elements[4..]);
                let mut cat: Vec<BaseElement> = a.as_elements().to_vec();
                cat.extend_from_slice(b.as_elements());
                if Rp64_256::merge(&[a, b]) != Rp64_256::hash_elements(&cat) {
                    fail("Rp64_256::merge(a, b) != hash_elements(a || b)".to_string());
                }
            }
            // RpJive64_256
            let mut s = [0u128; 8];
            if len % 4 != 0 {
                s[0] = 1;
            }
            let mut i = 0;
            for &v in &vals {
                s[4 + i] = (s[4 + i] + v) % P;
                i += 1;
                if i == 4 {
                    ref_perm::<8>(&mut s, &mds8, &RpJive64_256::ARK1, &RpJive64_256::ARK2);
                    i = 0;
                }
            }
            if i > 0 {
                // the padding lanes are SET (1, then 0s), not added: the same reading as the Kani contract of C11
                s[4 + i] = 1;
                for lane in (4 + i + 1)..8 {
                    s[lane] = 0;
                }
                ref_perm::<8>(&mut s, &mds8, &RpJive64_256::ARK1, &RpJive64_256::ARK2);
            }
            let d = RpJive64_256::hash_elements(&elements);
            let got: Vec<u128> = d.as_elements().iter().map(|e| e.as_int() as u128).collect();
            if got != s[4..8].to_vec() {
                fail(format!("RpJive64_256::hash_elements({vals:?}) == {got:?} instead of {:?}", &s[4..8]));
            }
            // the same residues typed as quadratic / cubic extension elements hash like their coordinates (all three hashers)
            if len % 2 == 0 {
                let quad: Vec<math::fields::QuadExtension<BaseElement>> = elements.chunks(2).map(|c| math::fields::QuadExtension::new(c[0], c[1])).collect();
                if Rp64_256::hash_elements(&quad) != Rp64_256::hash_elements(&elements) {
                    fail(format!("Rp64_256::hash_elements of {} quadratic elements differs from hashing their {len} coordinates {vals:?}", len / 2));
                }
                if RpJive64_256::hash_elements(&quad) != RpJive64_256::hash_elements(&elements) {
                    fail(format!("RpJive64_256::hash_elements of {} quadratic elements differs from hashing their {len} coordinates {vals:?}", len / 2));
                }
            }
            if len % 3 == 0 {
                let cube: Vec<math::fields::CubeExtension<BaseElement>> = elements.chunks(3).map(|c| math::fields::CubeExtension::new(c[0], c[1], c[2])).collect();
                if Rp64_256::hash_elements(&cube) != Rp64_256::hash_elements(&elements) {
                    fail(format!("Rp64_256::hash_elements of {} cubic elements differs from hashing their {len} coordinates {vals:?}", len / 3));
                }
                if RpJive64_256::hash_elements(&cube) != RpJive64_256::hash_elements(&elements) {
                    fail(format!("RpJive64_256::hash_elements of {} cubic elements differs from hashing their {len} coordinates {vals:?}", len / 3));
                }
            }
        }
    }
    println!("NB-RESULT name=rescue_sponges_bounded cases={cases}");
}

// ------------------------------------------------------------------------------------------------
// Relations between the functions of each Rescue hasher (public API only, so Rp62_248 - which does not expose its permutation -
// is covered too), the native counterparts of Kani contracts that moved to the thorough tier because of their cost:
//   hash(bytes)            == hash_elements(encode(bytes)), encode = 7-byte little-endian chunks, the last one followed by 0x01
//   merge([a, b])          == hash_elements(a || b)                                   (Rp64_256, Rp62_248)
//   merge_with_int(s, v)   == hash_elements(s || [v])            for v < p
//                          == hash_elements(s || [v mod p, v div p])   otherwise     (Rp64_256, Rp62_248)
//   RpJive64_256: merge / merge_with_int == Jive compression of the 8-element block (s, v', flag, 0, count) over the reference
//   permutation; and merge_with_int is injective in the integer on the boundary set.
// Bound: byte strings of every length 0..=130 (3 contents each), 12 boundary integers x 3 seeds.
fn encode<B: StarkField>(bytes: &[u8]) -> Vec<B> {
    let mut out = Vec::new();
    let n = bytes.len();
    let mut start = 0;
    while start < n {
        let end = if start + 7 < n { start + 7 } else { n };
        let mut buf = [0u8; 8];
        buf[..end - start].copy_from_slice(&bytes[start..end]);
        if end == n {
            buf[end - start] = 1;
        }
        out.push(B::try_from(u64::from_le_bytes(buf)).ok().expect("chunk below the modulus"));
        start = end;
    }
    out
}

fn relations<B, H>(name: &str, p: u128, sponge_merge: bool, elems: fn(&H::Digest) -> Vec<B>, rng: &mut Rng, cases: &mut u64)
where
    B: StarkField,
    H: ElementHasher<BaseField = B>,
    H::Digest: PartialEq + core::fmt::Debug + Copy,
{
    for len in 0..=130usize {
        for content in 0..3 {
            *cases += 1;
            let bytes: Vec<u8> = (0..len).map(|_| match content { 0 => 0u8, 1 => 0xFF, _ => rng.next() as u8 }).collect();
            let got = std::panic::catch_unwind(|| H::hash(&bytes));
            match got {
                Err(_) => fail(format!("{name}::hash panics on a {len}-byte input")),
                Ok(d) => {
                    if d != H::hash_elements(&encode::<B>(&bytes)) {
                        fail(format!("{name}::hash of a {len}-byte input (content class {content}) != hash_elements(encode(bytes))"));
                    }
                },
            }
        }
    }
    let mut ints: Vec<u64> = vec![0, 1, 2, (p - 1) as u64, p as u64, (p + 1) as u64, (2 * p.min(u64::MAX as u128 / 2)) as u64, 1 << 32, 1 << 62, 1 << 63, u64::MAX - 1, u64::MAX];
    ints.sort();
    ints.dedup();
    for s in 0..3 {
        let a = H::hash_elements(&[B::from(7u32 + s), B::from(11u32)]);
        let b = H::hash_elements(&[B::from(13u32 + s)]);
        if sponge_merge {
            *cases += 1;
            let mut cat: Vec<B> = elems(&a);
            cat.extend(elems(&b));
            if H::merge(&[a, b]) != H::hash_elements(&cat) {
                fail(format!("{name}::merge([a, b]) != hash_elements(a || b)"));
            }
        }
        let mut seen: Vec<(u64, H::Digest)> = Vec::new();
        for &v in &ints {
            *cases += 1;
            let d = H::merge_with_int(a, v);
            if sponge_merge {
                let mut e = elems(&a);
                if (v as u128) < p {
                    e.push(B::try_from(v).ok().unwrap());
                } else {
                    e.push(B::try_from((v as u128 % p) as u64).ok().unwrap());
                    e.push(B::try_from((v as u128 / p) as u64).ok().unwrap());
                }
                if d != H::hash_elements(&e) {
                    fail(format!("{name}::merge_with_int(seed, {v}) != hash_elements(seed || split({v}))"));
                }
            }
            for (w, dw) in &seen {
                if *dw == d {
                    fail(format!("{name}::merge_with_int(seed, {v}) == merge_with_int(seed, {w})"));
                }
            }
            seen.push((v, d));
        }
    }
}

#[test]
fn rescue_hash_relations_bounded() {
    let mut rng = Rng(0x8EBC6AF09C88C6E3 ^ seed().wrapping_mul(0x589965CC75374CC3) | 1);
    let mut cases = 0u64;
    relations::<BaseElement, Rp64_256>("Rp64_256", P, true, |d| d.as_elements().to_vec(), &mut rng, &mut cases);
    relations::<math::fields::f62::BaseElement, Rp62_248>("Rp62_248", <math::fields::f62::BaseElement as StarkField>::MODULUS as u128, true, |d| d.as_elements().to_vec(), &mut rng, &mut cases);
    relations::<BaseElement, RpJive64_256>("RpJive64_256", P, false, |d| d.as_elements().to_vec(), &mut rng, &mut cases);
    // RpJive64_256: merge and merge_with_int are Jive compressions of the documented block over the reference permutation
    let mds8 = matrix::<8>(&RpJive64_256::MDS);
    let jive = |block: [u128; 8]| -> Vec<u128> {
        let mut s = block;
        ref_perm::<8>(&mut s, &mds8, &RpJive64_256::ARK1, &RpJive64_256::ARK2);
        (0..4).map(|i| (block[i] + block[4 + i] + s[i] + s[4 + i]) % P).collect()
    };
    for k in 0..3u32 {
        let a = RpJive64_256::hash_elements(&[BaseElement::from(3u32 + k)]);
        let b = RpJive64_256::hash_elements(&[BaseElement::from(5u32 + k), BaseElement::from(1u32)]);
        let (ae, be) = (ints(&<[BaseElement; 4]>::try_from(a.as_elements()).unwrap()), ints(&<[BaseElement; 4]>::try_from(b.as_elements()).unwrap()));
        cases += 1;
        let m = RpJive64_256::merge(&[a, b]);
        let got: Vec<u128> = m.as_elements().iter().map(|e| e.as_int() as u128).collect();
        if got != jive([ae[0], ae[1], ae[2], ae[3], be[0], be[1], be[2], be[3]]) {
            fail("RpJive64_256::merge is not the Jive compression of a || b".to_string());
        }
        for v in [0u64, 1, (P - 1) as u64, P as u64, (P + 1) as u64, u64::MAX] {
            cases += 1;
            let d = RpJive64_256::merge_with_int(a, v);
            let got: Vec<u128> = d.as_elements().iter().map(|e| e.as_int() as u128).collect();
            let block = if (v as u128) < P { [ae[0], ae[1], ae[2], ae[3], v as u128, 0, 0, 5] } else { [ae[0], ae[1], ae[2], ae[3], v as u128 - P, 1, 0, 6] };
            if got != jive(block) {
                fail(format!("RpJive64_256::merge_with_int(seed, {v}) is not the Jive compression of the documented block"));
            }
        }
    }
    println!("NB-RESULT name=rescue_hash_relations_bounded cases={cases}");
}
